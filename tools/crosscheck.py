#!/opt/veriftools/pyvenv/bin/python
"""Cross-check of the symbolic executor against CPython/numpy (guard against unsound encodings, DESIGN 3.5).

For a list of real pyMOTO functions the pvc executor is run on CONCRETE rational inputs (so every result is a number, possibly containing ghost
square roots that are evaluated with interval arithmetic), and the same call is made natively under /venv/bin/python with the real numpy/scipy.
The two results must agree to 1e-9.  This does not prove the executor; it exposes transcription errors in the library contracts and the interpreter.
usage: tools/crosscheck.py      (exit 0 = all cases agree)"""
import json
import os
import random
import subprocess
import sys
from fractions import Fraction

HERE = os.path.dirname(os.path.dirname(os.path.abspath(__file__)))
sys.path.insert(0, HERE)
REPO = os.environ.get('PVC_REPO', '/repo')

import numpy as np           # noqa: E402
import z3                    # noqa: E402
from pvc import values as V  # noqa: E402
from pvc.values import CArr, LArr, Obj, Cx  # noqa: E402
from pvc.arrays import to_carr               # noqa: E402
from pvc.harness import Context              # noqa: E402
from pvc.interp import Interp, Program       # noqa: E402
from pvc import ieval                        # noqa: E402

rng = random.Random(int(os.environ.get('VERIF_SEED', '0') or 0))


def fr(lo=-2, hi=2, den=8):
    return Fraction(rng.randint(lo * den, hi * den), den)


def _algebraic(e, memo):
    """ghost sqrt(t) -> t ** (1/2), so that z3's exact algebraic-number arithmetic evaluates the term"""
    k = e.get_id()
    if k in memo:
        return memo[k]
    if z3.is_app(e) and e.num_args():
        ch = [_algebraic(c, memo) for c in e.children()]
        if e.decl().kind() == z3.Z3_OP_UNINTERPRETED and e.decl().name() == 'sqrt':
            r = z3.Sqrt(ch[0])
        else:
            r = e.decl()(*ch)
    else:
        r = e
    memo[k] = r
    return r


def num(v):
    """engine scalar -> float (ghost sqrt terms through z3's exact algebraic numbers, anything else through interval evaluation)"""
    if isinstance(v, Cx):
        return [num(v.re), num(v.im)]
    if V.is_sym(v):
        e = _algebraic(v if z3.is_bool(v) else V.z(v), {})
        e = z3.simplify(z3.substitute(e, (z3.Real('finfo_tiny'), z3.RealVal(Fraction(1, 2 ** 1022))), (z3.Real('finfo_eps'), z3.RealVal(Fraction(1, 2 ** 52)))))
        if z3.is_true(e) or z3.is_false(e):
            return float(z3.is_true(e))
        if z3.is_algebraic_value(e):
            e = e.approx(30)
        if z3.is_rational_value(e):
            return float(Fraction(e.numerator_as_long(), e.denominator_as_long()))
        iv_ = ieval.Eval({}).val(e)
        return (float(iv_.a) + float(iv_.b)) / 2
    return float(v)


def flat(v):
    if isinstance(v, CArr):
        return [num(x) for x in v.data.reshape(-1)]
    if isinstance(v, Obj) and v.tag == 'sparse':
        return flat(v.fields['dense'])
    if isinstance(v, (list, tuple)):
        return [y for x in v for y in flat(x)]
    return [num(v)]


def vec(vals, kind='real'):
    return CArr(np.array(list(vals), dtype=object), kind)


CASES = []


def case(name, native_src):
    def deco(fn):
        CASES.append((name, fn, native_src))
        return fn
    return deco


DOM = 'pymoto.common.domain:DomainDefinition'


@case('DomainDefinition numbering / positions / shape functions',
      "d=pym.DomainDefinition(3,2,2,0.5,1.5,2.0)\nI,J,K=np.meshgrid(np.arange(3),np.arange(2),np.arange(2),indexing='ij')\n"
      "out=list(d.get_elemconnectivity(I.ravel(),J.ravel(),K.ravel()).ravel())+list(d.get_node_position(np.arange(d.nnodes)).ravel())"
      "+list(d.eval_shape_fun(np.array(INP['pos'])).ravel())+list(d.eval_shape_fun_der(np.array(INP['pos'])).ravel())+list(d.get_dofconnectivity(2).ravel())")
def c_domain(it, inp):
    d = it.call(it.get_function(DOM), [3, 2, 2, Fraction(1, 2), Fraction(3, 2), 2])
    I, J, K = np.meshgrid(np.arange(3), np.arange(2), np.arange(2), indexing='ij')
    mk = lambda a: vec([int(x) for x in a.ravel()], 'int')
    pos = vec([Fraction(x).limit_denominator(64) for x in inp['pos']])
    return [it.call(it.getattr(d, 'get_elemconnectivity'), [mk(I), mk(J), mk(K)]), it.call(it.getattr(d, 'get_node_position'), [vec(range(36), 'int')]),
            it.call(it.getattr(d, 'eval_shape_fun'), [pos]), it.call(it.getattr(d, 'eval_shape_fun_der'), [pos]), it.call(it.getattr(d, 'get_dofconnectivity'), [2])]


@case('AggActiveSet mask', "from pymoto.modules.aggregation import AggActiveSet\nout=list(AggActiveSet(lower_rel=0.2, upper_amt=0.8)(np.array(INP['x'])).astype(float))")
def c_aset(it, inp):
    a = it.call(it.get_function('pymoto.modules.aggregation:AggActiveSet'), [], dict(lower_rel=Fraction(1, 5), upper_amt=Fraction(4, 5)))
    return it.call(a, [vec([Fraction(x).limit_denominator(64) for x in inp['x']])])


@case('FilterConv response (radius 3/2, edge / symmetric padding)',
      "d=pym.DomainDefinition(3,2)\nm=pym.FilterConv(pym.Signal('x',np.array(INP['x6'])), domain=d, radius=1.5, ymin_bc='edge')\nm.response()\nout=list(m.sig_out[0].state)")
def c_fconv(it, inp):
    from contracts.modcat import mk_module
    d = it.call(it.get_function(DOM), [3, 2, 0])
    m = mk_module(it, 'pymoto.modules.filter:FilterConv', 1, 1, d, radius=Fraction(3, 2), ymin_bc='edge')
    return it.call(it.getattr(m, '_response'), [vec([Fraction(x).limit_denominator(64) for x in inp['x6']])])


@case('DensityFilter response (radius 3/2)',
      "d=pym.DomainDefinition(3,2)\nm=pym.DensityFilter(pym.Signal('x',np.array(INP['x6'])), domain=d, radius=1.5)\nm.response()\nout=list(m.sig_out[0].state)")
def c_dens(it, inp):
    from contracts.modcat import mk_module
    d = it.call(it.get_function(DOM), [3, 2, 0])
    m = mk_module(it, 'pymoto.modules.filter:DensityFilter', 1, 1, d, radius=Fraction(3, 2))
    return it.call(it.getattr(m, '_response'), [vec([Fraction(x).limit_denominator(64) for x in inp['x6']])])


@case('AssembleStiffness response with boundary conditions',
      "d=pym.DomainDefinition(2,1,0,0.5,1.5,2.0)\nm=pym.AssembleStiffness(pym.Signal('x',np.array(INP['x2'])), domain=d, bc=np.array([0,1]), e_modulus=2.0, poisson_ratio=0.25)\n"
      "m.response()\nout=list(m.sig_out[0].state.toarray().ravel())")
def c_stiff(it, inp):
    from contracts.modcat import mk_module
    d = it.call(it.get_function(DOM), [2, 1, 0, Fraction(1, 2), Fraction(3, 2), 2])
    m = mk_module(it, 'pymoto.modules.assembly:AssembleStiffness', 1, 1, d, bc=vec([0, 1], 'int'), e_modulus=2, poisson_ratio=Fraction(1, 4))
    return it.call(it.getattr(m, '_response'), [vec([Fraction(x).limit_denominator(64) for x in inp['x2']])])


@case('DyadCarrier algebra (add, transpose, matmul, diagonal, contract)',
      "D=pym.DyadCarrier([np.array(INP['u1']),np.array(INP['u2'])],[np.array(INP['v1']),np.array(INP['v2'])])\nE=(D+D)-D.T.T*0.5\n"
      "out=list(E.todense().ravel())+list((E@np.array(INP['v1'])))+list(E.T.todense().ravel())+[E.contract()]")
def c_dyad(it, inp):
    f = lambda k: vec([Fraction(x).limit_denominator(64) for x in inp[k]])
    D = it.call(it.get_function('pymoto.common.dyadcarrier:DyadCarrier'), [[f('u1'), f('u2')], [f('v1'), f('v2')]])
    import ast
    op = lambda o, a, b: it.binop(o, a, b)
    DT = it.getattr(it.getattr(D, 'T'), 'T')
    E = op(ast.Sub(), op(ast.Add(), D, D), op(ast.Mult(), DT, Fraction(1, 2)))
    ET = it.getattr(E, 'T')
    return [it.call(it.getattr(E, 'todense'), []), op(ast.MatMult(), E, f('v1')), it.call(it.getattr(ET, 'todense'), []), it.call(it.getattr(E, 'contract'), [])]


@case('get_diagonal_indices', "from pymoto.solvers.solvers import get_diagonal_indices\nout=list(get_diagonal_indices(np.array(INP['A'])).astype(float))")
def c_diag(it, inp):
    A = CArr(np.array([[Fraction(x) for x in row] for row in inp['A']], dtype=object), 'real')
    return it.call(it.get_function('pymoto.solvers.solvers:get_diagonal_indices'), [A])


def run_mod(it, mod, xs, dys):
    """state := xs, response, then the adjoint map of the output seeds dys; returns outputs followed by input sensitivities"""
    from contracts.modcat import as_list
    for sg, x in zip(it.getattr(mod, 'sig_in'), xs):
        it.setattr(sg, 'state', x)
    ys = as_list(it.call(it.getattr(mod, '_response'), list(xs)), len(dys))
    for sg, y in zip(it.getattr(mod, 'sig_out'), ys):
        it.setattr(sg, 'state', y)
    dx = as_list(it.call(it.getattr(mod, '_sensitivity'), list(dys)), len(xs))
    return ys + dx


NATIVE_RUN = ("m.response()\nfor s_, d_ in zip(m.sig_out, DY): s_.sensitivity = d_\nm.sensitivity()\n"
              "out=[v for s_ in m.sig_out for v in np.atleast_1d(s_.state).ravel()]+[v for s_ in m.sig_in for v in np.atleast_1d(s_.sensitivity).ravel()]")
q = lambda xs: vec([Fraction(x).limit_denominator(64) for x in xs])


@case('DensityFilter response + adjoint map', "d=pym.DomainDefinition(3,2)\nm=pym.DensityFilter(pym.Signal('x',np.array(INP['x6'])), domain=d, radius=1.5)\nDY=[np.array(INP['y6'])]\n" + NATIVE_RUN)
def c_dens_s(it, inp):
    from contracts.modcat import mk_module
    d = it.call(it.get_function(DOM), [3, 2, 0])
    m = mk_module(it, 'pymoto.modules.filter:DensityFilter', 1, 1, d, radius=Fraction(3, 2))
    return run_mod(it, m, [q(inp['x6'])], [q(inp['y6'])])


@case('FilterConv response + adjoint map (wrap / constant padding)',
      "d=pym.DomainDefinition(3,2)\nm=pym.FilterConv(pym.Signal('x',np.array(INP['x6'])), domain=d, radius=1.5, xmin_bc='wrap', xmax_bc='wrap', ymax_bc=0.25)\nDY=[np.array(INP['y6'])]\n" + NATIVE_RUN)
def c_fconv_s(it, inp):
    from contracts.modcat import mk_module
    d = it.call(it.get_function(DOM), [3, 2, 0])
    m = mk_module(it, 'pymoto.modules.filter:FilterConv', 1, 1, d, radius=Fraction(3, 2), xmin_bc='wrap', xmax_bc='wrap', ymax_bc=Fraction(1, 4))
    return run_mod(it, m, [q(inp['x6'])], [q(inp['y6'])])


@case('OverhangFilter response + adjoint map (p=3)',
      "d=pym.DomainDefinition(3,2)\nm=pym.OverhangFilter(pym.Signal('x',np.array(INP['x6'])+0.125), domain=d, direction=(0,1), xi_0=0.5, p=3.0, eps=0.125, nsampling=3)\nDY=[np.array(INP['y6'])]\n" + NATIVE_RUN)
def c_over_s(it, inp):
    from contracts.modcat import mk_module
    d = it.call(it.get_function(DOM), [3, 2, 0])
    m = mk_module(it, 'pymoto.modules.filter:OverhangFilter', 1, 1, d, (0, 1), Fraction(1, 2), 3, Fraction(1, 8), 3)
    return run_mod(it, m, [q([x + 0.125 for x in inp['x6']])], [q(inp['y6'])])


@case('Scaling (constraint mode) response + adjoint map',
      "m=pym.Scaling(pym.Signal('x',np.array(INP['u1'])), scaling=10.0, maxval=0.75)\nDY=[np.array(INP['v1'])]\n" + NATIVE_RUN)
def c_scal_s(it, inp):
    from contracts.modcat import mk_module
    m = mk_module(it, 'pymoto.modules.scaling:Scaling', 1, 1, scaling=10, maxval=Fraction(3, 4))
    return run_mod(it, m, [q(inp['u1'])], [q(inp['v1'])])


@case('matrix classification on dense matrices',
      "from pymoto.solvers import matrix_checks as mc\nA=np.array(INP['A']); S=A+A.T; C=A+1j*S\n"
      "out=[float(f(M)) for M in (A,S,C,C+C.conj().T) for f in (mc.matrix_is_complex, mc.matrix_is_diagonal, mc.matrix_is_symmetric, mc.matrix_is_hermitian)]")
def c_mc(it, inp):
    import ast
    A = CArr(np.array([[Fraction(x) for x in row] for row in inp['A']], dtype=object), 'real')
    op = lambda o, a, b: it.binop(o, a, b)
    S = op(ast.Add(), A, it.getattr(A, 'T'))
    C = op(ast.Add(), A, op(ast.Mult(), Cx(0, 1), S))
    H = op(ast.Add(), C, it.getattr(it.call(it.getattr(C, 'conj'), []), 'T'))
    fs = [it.get_function('pymoto.solvers.matrix_checks:' + n) for n in ('matrix_is_complex', 'matrix_is_diagonal', 'matrix_is_symmetric', 'matrix_is_hermitian')]
    return [it.call(f, [M]) for M in (A, S, C, H) for f in fs]


def inputs():
    x = sorted({float(fr(0, 3, 16)) for _ in range(12)})[:7]
    rng.shuffle(x)
    A = [[2.0, 0.0, 0.0, 0.0], [0.0, 1.0, 0.5, 0.0], [0.0, 0.25, 3.0, 0.0], [0.0, 0.0, 0.0, 0.0]]
    return dict(pos=[float(fr(-1, 1, 8)) * 0.25, float(fr(-1, 1, 8)) * 0.75, float(fr(-1, 1, 8))], x=x, x6=[float(fr(0, 1, 16)) for _ in range(6)],
                x2=[float(fr(0, 1, 16)) + 0.125 for _ in range(2)], u1=[float(fr()) for _ in range(3)], u2=[float(fr()) for _ in range(3)],
                v1=[float(fr()) for _ in range(3)], v2=[float(fr()) for _ in range(3)], A=A, y6=[float(fr()) for _ in range(6)])


def main():
    inp = inputs()
    bad = 0
    for name, fn, src in CASES:
        ctx = Context('XCHK', name)
        it = Interp(ctx, Program(REPO))
        ctx.safety_on = False
        try:
            got = flat(fn(it, inp))
        except Exception as e:       # noqa: BLE001
            print(f'ENGINE-ERROR {name}: {e!r}')
            bad += 1
            continue
        prog = ("import os, sys, json\nsys.path.insert(0, os.environ.get('REPO_ROOT', '/repo'))\nimport numpy as np\nimport pymoto as pym\n"
                f"INP = json.loads({json.dumps(json.dumps(inp))})\n{src}\nprint(json.dumps([complex(v).real for v in out]))\n")
        r = subprocess.run(['/venv/bin/python', '-c', prog], capture_output=True, text=True, env=dict(os.environ, REPO_ROOT=REPO, MPLBACKEND='Agg'))
        if r.returncode != 0:
            print(f'NATIVE-ERROR {name}: {r.stderr[-400:]}')
            bad += 1
            continue
        want = json.loads(r.stdout.strip().splitlines()[-1])
        ok = len(got) == len(want) and all(abs((g[0] if isinstance(g, list) else g) - w) <= 1e-9 * (1 + abs(w)) for g, w in zip(got, want))
        print(('AGREE   ' if ok else 'DISAGREE') + f' {name}: {len(want)} values')
        if not ok:
            bad += 1
            print('   engine:', got[:12], '\n   native:', want[:12])
    return 1 if bad else 0


if __name__ == '__main__':
    sys.exit(main())
