#!/usr/bin/env python3
"""apply every seeded change (seeded/<name>/patch[.rebased].diff) to /repo, run the property's quick check, undo; record what caught it"""
import json, os, re, subprocess, sys
HERE = os.path.dirname(os.path.dirname(os.path.abspath(__file__)))
names = sys.argv[1:] or sorted(os.listdir(os.path.join(HERE, 'seeded')))
for name in names:
    d = os.path.join(HERE, 'seeded', name)
    if not os.path.isdir(d):
        continue
    prop = name.split('-')[0]
    if not os.path.exists(os.path.join(HERE, 'contracts', prop + '.py')) and not os.path.exists(os.path.join(HERE, 'native', prop + '.py')):
        continue
    patch = os.path.join(d, 'patch.rebased.diff') if os.path.exists(os.path.join(d, 'patch.rebased.diff')) else os.path.join(d, 'patch.diff')
    out = subprocess.run([os.path.join(HERE, 'tools', 'try_mutant.sh'), patch, prop], capture_output=True, text=True, cwd=HERE, timeout=3600)
    lines = out.stdout.splitlines()
    viol = [l for l in lines if l.startswith('VIOLATION')]
    rc = [l for l in lines if l.startswith('rc=')]
    res = {'rc': int(rc[-1][3:]) if rc else None, 'violations': [re.sub(r'.*replay=\S*/', '', l) for l in viol][:12],
           'undecided': [l for l in lines if l.startswith('UNDECIDED')][:6], 'out_of_reach': [l for l in lines if l.startswith('OUT-OF-REACH')][:6],
           'caught_by_proof_obligation': any('/%s-%s.' % (prop, prop) in l for l in viol),
           'caught_by_bounded_contract': any('/%s-%s.' % (prop, prop) not in l for l in viol),
           'summary': next((l for l in lines if ' quick: ' in l), '')}
    json.dump(res, open(os.path.join(d, 'result.json'), 'w'), indent=1)
    print(name, 'rc=%s' % res['rc'], 'proof' if res['caught_by_proof_obligation'] else '-', 'bounded' if res['caught_by_bounded_contract'] else '-', flush=True)
