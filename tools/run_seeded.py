#!/usr/bin/env python3
"""apply every seeded change (seeded/<name>/patch[.rebased].diff) to /repo, run the property's quick check, undo; record what caught it"""
import json, os, re, subprocess, sys
HERE = os.path.dirname(os.path.dirname(os.path.abspath(__file__)))
names = sys.argv[1:] or sorted(os.listdir(os.path.join(HERE, 'seeded')))
for name in names:
    d = os.path.join(HERE, 'seeded', name)
    if not os.path.isdir(d):
        continue
    prop = name.split('-')[0]
    if not os.path.exists(os.path.join(HERE, 'contracts', prop + '.py')) and not os.path.exists(os.path.join(HERE, 'native', prop + '.py')):
        continue
    patch = os.path.join(d, 'patch.rebased.diff') if os.path.exists(os.path.join(d, 'patch.rebased.diff')) else os.path.join(d, 'patch.diff')
    assert subprocess.run(['git', '-C', '/repo', 'status', '--porcelain', '--untracked-files=no'], capture_output=True, text=True).stdout.strip() == '', '/repo not clean'
    r = subprocess.run(['git', '-C', '/repo', 'apply', patch], capture_output=True, text=True)
    if r.returncode != 0:
        print(name, 'PATCH DOES NOT APPLY', r.stderr[:200]); continue
    try:
        out = subprocess.run([os.path.join(HERE, 'check'), prop, '--quick'], capture_output=True, text=True, cwd=HERE, timeout=3600)
    finally:
        subprocess.run(['git', '-C', '/repo', 'checkout', '--', '.'])
    lines = out.stdout.splitlines()
    viol = [l for l in lines if l.startswith('VIOLATION')]
    res = {'rc': out.returncode, 'violations': [re.sub(r'.*replay=', '', l) for l in viol][:12],
           'undecided': [l for l in lines if l.startswith('UNDECIDED')][:6], 'out_of_reach': [l for l in lines if l.startswith('OUT-OF-REACH')][:6],
           'caught_by_proof_obligation': any('/%s-%s.' % (prop, prop) in l for l in viol),
           'caught_by_bounded_contract': any('/%s-%s.' % (prop, prop) not in l for l in viol), 'summary': lines[-1] if lines else ''}
    json.dump(res, open(os.path.join(d, 'result.json'), 'w'), indent=1)
    print(name, 'rc=%d' % out.returncode, 'proof' if res['caught_by_proof_obligation'] else '-', 'bounded' if res['caught_by_bounded_contract'] else '-')
