#!/bin/sh
# run the repository's pinned suite on /repo as it is and compare with BASELINE.json stable_pass
out=${1:-/tmp/baseline_junit.xml}
cd /repo && OMP_NUM_THREADS=1 OPENBLAS_NUM_THREADS=1 MKL_NUM_THREADS=1 MPLBACKEND=Agg /venv/bin/python -m pytest -ra -q -p no:cacheprovider --timeout=900 --continue-on-collection-errors --junitxml=$out > /tmp/baseline_run.log 2>&1
python3 - "$out" <<'PY'
import json, sys, xml.etree.ElementTree as ET
passed=set()
for tc in ET.parse(sys.argv[1]).getroot().iter('testcase'):
    if not any(ch.tag in ('failure','error','skipped') for ch in tc):
        passed.add(f"{tc.get('classname')}::{tc.get('name')}")
stable=json.load(open('/root/.vp/BASELINE.json'))['stable_pass']
missing=[t for t in stable if t not in passed]
print('stable passing:', len(stable)-len(missing), 'of', len(stable), 'missing:', missing)
PY
