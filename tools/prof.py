#!/opt/veriftools/pyvenv/bin/python
"""development aid: explore one harness in-process with a time limit, print per-path progress, a profile and the slow obligations
usage: tools/prof.py <prop> <harness name> [seconds] [--solve [pattern]]"""
import sys, time, cProfile, pstats, signal, os
sys.path.insert(0, os.path.dirname(os.path.dirname(os.path.abspath(__file__))))
from pvc import runner, smt
from pvc.harness import Context, explore
from pvc.interp import Interp, Program
prop, name = sys.argv[1], sys.argv[2]
limit = int(sys.argv[3]) if len(sys.argv) > 3 and sys.argv[3].isdigit() else 120
runner.load_contracts(prop)
spec = runner.HARNESSES[(prop, name)]
ctx = Context(prop, name)
npaths = [0]


def thunk(c):
    npaths[0] += 1
    it = Interp(c, Program())
    t = time.time()
    try:
        spec['fn'](c, it)
    finally:
        print('path', npaths[0], round(time.time() - t, 1), 's decisions', len(c.decisions), 'line', c.cur_line, flush=True)


def alarm(*a):
    raise KeyboardInterrupt


signal.signal(signal.SIGALRM, alarm)
signal.alarm(limit)
pr = cProfile.Profile()
pr.enable()
obls = []
try:
    obls = explore(thunk, ctx, max_paths=100000)
    print('paths', ctx.paths_done, 'obligations', len(obls))
except KeyboardInterrupt:
    print('interrupted')
finally:
    signal.alarm(0)
    pr.disable()
    pstats.Stats(pr).sort_stats('cumulative').print_stats(18)
if '--solve' in sys.argv:
    k = sys.argv.index('--solve')
    pat = sys.argv[k + 1] if len(sys.argv) > k + 1 else ''
    for ob in obls:
        if pat not in ob.name:
            continue
        t = time.time()
        r = smt.solve(ob.formula(), timeout_ms=15000)
        dt = time.time() - t
        if dt > 1 or r['status'] != 'unsat':
            print(ob.name, r['status'], r.get('backend'), round(dt, 1), flush=True)
