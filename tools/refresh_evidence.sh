#!/bin/sh
# re-run every claimed quick check on the unchanged /repo so that committed evidence comes from the unchanged tree
cd "$(dirname "$0")/.."
[ -z "$(git -C /repo status --porcelain --untracked-files=no)" ] || { echo "/repo is not clean"; exit 1; }
for p in $(python3 -c "import json;print(' '.join(c['property_id'] for c in json.load(open('MANIFEST.json'))['checks']))"); do
  ./check $p --quick | tail -1
done
