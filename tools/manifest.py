#!/usr/bin/env python3
"""regenerate MANIFEST.json from the per-property table below (keeps not_applicable current)"""
import json, os
HERE = os.path.dirname(os.path.dirname(os.path.abspath(__file__)))
props = [json.loads(l) for l in open(os.path.join(HERE, 'properties.jsonl'))]
CLAIMS = json.load(open(os.path.join(HERE, 'tools', 'claims.json')))
NOTE = ("Proved over the reals / unbounded integers by pvc: VCs generated from the AST of the real /repo source on every run, "
        "discharged by z3 5.1 (cvc5 1.0 / z3 4.8 on unknown). Trusted: the pvc executor and its numpy/scipy library contracts, the SMT solvers, "
        "Lean+Mathlib for cited lemmas. Bounded run-time contract checks (native/) are stand-ins, reported separately, never counted as proved.")
checks = []
for p in props:
    c = CLAIMS.get(p['id'])
    if not c:
        continue
    checks.append({
        "property_id": p['id'], "quick_cmd": f"./check {p['id']} --quick", "thorough_cmd": f"./check {p['id']} --thorough",
        "evidence_file": f"/verif/evidence/{p['id']}.json", "replay_cmd_template": f"./check {p['id']} --replay {{path}}", "engine": "pvc",
        "level_claimed": {"category": "proof", "text": c['text'], "design_ref": c.get('design_ref', 'DESIGN.md section 4 ' + p['id'])},
        "level_note": c.get('note', NOTE), "technique": c.get('technique', "contract-based deductive verification: sidecar contracts + VC generation over the real Python AST, discharged by z3/cvc5 (Lean for lemmas)")})
na = [{"property_id": p['id'], "reason": CLAIMS.get('_na', {}).get(p['id'], "check not built yet (build in progress; see DESIGN.md section 8)")} for p in props if p['id'] not in CLAIMS]
m = {"version": 1, "setup_cmd": "./setup.sh",
     "hooks": {"guard": "PYMOTO_VERIF", "enable": "no hooks: contracts are sidecar files under /verif/contracts; /repo is read on every run, never instrumented",
               "baseline_off_cmd": "cd /repo && /venv/bin/python -m pytest -ra -q -p no:cacheprovider --timeout=900 --continue-on-collection-errors",
               "source_commits": [], "add_only": True},
     "engines": [{"name": "pvc", "path": "pvc/", "serves_properties": [c['property_id'] for c in checks],
                  "kind_free_text": "verification-condition generator over the Python AST of the real /repo sources (symbolic executor with index-level array semantics), sidecar contracts in contracts/, z3/cvc5 back ends, Lean 4 lemma library; bounded run-time contract harness in native/ as labelled stand-in and replay vehicle"}],
     "checks": checks, "notes": "see DESIGN.md; known findings in known_findings.json; seeded changes in seeded/", "not_applicable": na}
json.dump(m, open(os.path.join(HERE, 'MANIFEST.json'), 'w'), indent=1)
print(len(checks), 'claimed;', len(na), 'not claimed')
