#!/bin/sh
# usage: tools_try_mutant.sh <patch> <prop> [extra check args]   -- applies a seeded change to /repo, runs the quick check, reverts
patch="$1"; prop="$2"; shift 2
git -C /repo apply "$patch" 2>/dev/null || git -C /repo apply -C1 --recount "$patch" 2>/dev/null || (cd /repo && patch -p1 -s --no-backup-if-mismatch < "$patch") || { echo "patch does not apply"; git -C /repo checkout -- .; exit 9; }
./check "$prop" --quick "$@" > /tmp/mut_out.txt 2>&1; rc=$?
git -C /repo checkout -- .
grep -E "^(VIOLATION|UNDECIDED|ERROR|OUT-OF-REACH|KNOWN|C[0-9]+ quick)" /tmp/mut_out.txt | cut -c1-300 | head -12
echo "rc=$rc"
