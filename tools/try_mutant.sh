#!/bin/sh
# usage: tools/try_mutant.sh <patch> <prop> [extra check args]
# applies a seeded change to a SCRATCH worktree of /repo's HEAD (never to /repo itself: other jobs read it), runs the quick check on it, removes it
patch="$1"; prop="$2"; shift 2
wt=$(mktemp -d /tmp/mutrepo_XXXXXX); rmdir "$wt"
git -C /repo worktree add -q --detach "$wt" HEAD || exit 9
( git -C "$wt" apply "$patch" 2>/dev/null || git -C "$wt" apply -C1 --recount "$patch" 2>/dev/null || (cd "$wt" && patch -p1 -s --no-backup-if-mismatch < "$patch") ) || { echo "patch does not apply"; git -C /repo worktree remove --force "$wt"; exit 9; }
out=$(mktemp /tmp/mut_out_XXXXXX)
ev=$(mktemp -d /tmp/mut_ev_XXXXXX)
PVC_REPO="$wt" PVC_EVIDENCE_DIR="$ev" ./check "$prop" --quick "$@" > "$out" 2>&1; rc=$?
git -C /repo worktree remove --force "$wt"
grep -E "^(VIOLATION|UNDECIDED|ERROR|OUT-OF-REACH|NOTE|C[0-9]+ quick)" "$out" | cut -c1-260 | head -10
rm -rf "$out" "$ev"
echo "rc=$rc"
