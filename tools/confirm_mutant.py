#!/usr/bin/env python3
"""confirm a seeded change in a scratch worktree: patch applies, demo passes without / fails with, stable tests still pass.
usage: confirm_mutant.py <src dir with patch.diff demo.py meta.json> <dest name under /verif/seeded>"""
import json, os, shutil, subprocess, sys, tempfile, xml.etree.ElementTree as ET
src, name = sys.argv[1], sys.argv[2]
dest = f'/verif/seeded/{name}'
wt = tempfile.mkdtemp(prefix='cm_', dir='/tmp')
env = dict(os.environ, MPLBACKEND='Agg', OMP_NUM_THREADS='1', OPENBLAS_NUM_THREADS='1', MKL_NUM_THREADS='1')
res = {'name': name}
def sh(cmd, **kw):
    return subprocess.run(cmd, shell=True, capture_output=True, text=True, **kw)
try:
    os.rmdir(wt)
    r = sh(f'git -C /repo worktree add -q --detach {wt} HEAD')
    assert r.returncode == 0, r.stderr
    e2 = dict(env, PYTHONPATH=wt, REPO_ROOT=wt)
    r0 = sh(f'/venv/bin/python {src}/demo.py', cwd=wt, env=e2, timeout=1800)
    res['demo_without_patch_rc'] = r0.returncode
    r = sh(f'git -C {wt} apply {src}/patch.diff')
    res['applies'] = r.returncode == 0
    r1 = sh(f'/venv/bin/python {src}/demo.py', cwd=wt, env=e2, timeout=1800)
    res['demo_with_patch_rc'] = r1.returncode
    res['demo_with_patch_tail'] = (r1.stdout + r1.stderr)[-600:]
    junit = f'{wt}/junit.xml'
    r = sh(f'/venv/bin/python -m pytest -q -p no:cacheprovider --timeout=900 --continue-on-collection-errors --junitxml={junit}', cwd=wt, env=env, timeout=3600)
    passed = set()
    for tc in ET.parse(junit).getroot().iter('testcase'):
        if not any(ch.tag in ('failure', 'error', 'skipped') for ch in tc):
            passed.add(f"{tc.get('classname')}::{tc.get('name')}")
    stable = json.load(open('/root/.vp/BASELINE.json'))['stable_pass']
    missing = [t for t in stable if t not in passed]
    res['stable_missing'] = missing
    res['stable_pass_ok'] = not missing
    res['confirmed'] = bool(res['applies'] and r0.returncode == 0 and r1.returncode != 0 and not missing)
finally:
    sh(f'git -C /repo worktree remove --force {wt}')
    shutil.rmtree(wt, ignore_errors=True)
if res.get('confirmed'):
    os.makedirs(dest, exist_ok=True)
    for f in ('patch.diff', 'demo.py'):
        shutil.copy(f'{src}/{f}', f'{dest}/{f}')
    meta = json.load(open(f'{src}/meta.json'))
    meta['confirmation'] = {k: res[k] for k in ('applies', 'demo_without_patch_rc', 'demo_with_patch_rc', 'stable_pass_ok')}
    meta['confirmation']['ran'] = 'scratch worktree of /repo HEAD: demo.py without and with patch.diff; full pytest (BLAS single-threaded) compared with BASELINE stable_pass (159)'
    json.dump(meta, open(f'{dest}/meta.json', 'w'), indent=1)
print(json.dumps(res)[:1500])
