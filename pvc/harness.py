"""Verification context: hypotheses, obligations, path exploration, discharge.

A *harness* is a python function h(ctx) that builds a symbolic pre-state (ctx.assume = requires), calls real functions
through the interpreter (ctx.call / ctx.interp), and states postconditions with ctx.prove(name, formula).
Every ctx.prove, every safety condition emitted by the library contracts and every loop-invariant step is one
named obligation.  Paths are enumerated by re-execution; every path contributes (path condition => goal).
"""
import os
import time
import itertools
import traceback
import z3
from . import values as V
from .values import Unsupported, PyExc, is_sym


class PathInfeasible(Exception):
    pass


class Obligation:
    def __init__(self, name, hyps, goal, line=None, kind='post', path=None, consts=None):
        self.name, self.hyps, self.goal, self.line, self.kind, self.path = name, hyps, goal, line, kind, path
        self.consts = consts or {}
        self.full = None           # (hyps, goal) of the un-reduced obligation, for prove_isolated

    def formula(self):
        """negated implication for a satisfiability check"""
        return list(self.hyps) + [z3.Not(self.goal)]


class Context:
    def __init__(self, prop, hname, mode='proof', sizes=None):
        self.prop, self.hname = prop, hname
        self.mode = mode                 # 'proof' | 'refute'
        self.sizes = sizes or {}
        self.obligations = []
        self.notes = []
        self.unroll_limit = 64
        self.safety_on = True
        self.cur_line = None
        self.forced = []
        self.paths_done = 0
        self.assert_mode = 'assume'      # asserts in the code are preconditions of the function ('assume') or obligations ('prove')
        self.reset_path([])

    # ---------------------------------------------------------------- path state
    def reset_path(self, prefix):
        self.prefix = list(prefix)
        self.decisions = []        # list of (value, free?)
        self.pc = []               # path condition formulas
        self.hyps = []
        self.fresh_ctr = itertools.count()
        self.named = {}
        self.path_obls = []
        self._solver = None
        V.SIDE.clear()
        self.side_seen = 0
        self.axiom_ids = set()
        self._oracle_cache = {}
        self.ghost_log = []
        self.sigma_cache = {}
        self.matvec_cache = {}
        self.axsum_log = []
        self.sigma_terms = []
        V.ORACLE = self.implied
        V.COMPLEX_ORDER = 'python'

    def implied(self, f):
        """quick check that f follows from the current hypotheses (used to pick the exact encoding of // and %)"""
        key = (f.sexpr(), len(self.hyps), len(self.pc))
        if key in self._oracle_cache:
            return self._oracle_cache[key]
        s = z3.Solver()
        s.set('timeout', 1000)
        for h in self.all_hyps():
            if not z3.is_quantifier(h):
                s.add(h)
        s.add(z3.Not(f))
        r = s.check() == z3.unsat
        self._oracle_cache[key] = r
        return r

    def collect_side(self):
        while self.side_seen < len(V.SIDE):
            self.hyps.append(V.SIDE[self.side_seen])
            self.axiom_ids.add(V.SIDE[self.side_seen].get_id())       # facts that hold for the real sqrt/exp/log/rpow for ALL arguments
            self.side_seen += 1

    def all_hyps(self):
        self.collect_side()
        return list(self.hyps) + list(self.pc)

    def feasible(self, extra):
        s = z3.Solver()
        s.set('timeout', getattr(self, 'feasible_timeout_ms', 2000))     # `unknown` counts as feasible (sound: a spurious path only adds vacuous obligations)
        for h in self.all_hyps():
            s.add(h)
        s.add(extra)
        r = s.check()
        return r != z3.unsat

    def fork(self, cond):
        if getattr(self, 'no_fork', False):
            raise Unsupported('fork while merging an if statement')
        k = len(self.decisions)
        if k < len(self.prefix):
            val = self.prefix[k]
            self.decisions.append((val, False))
        else:
            t_ok = self.feasible(cond)
            f_ok = self.feasible(z3.Not(cond))
            if t_ok and f_ok:
                val = True
                self.decisions.append((val, True))
            elif t_ok:
                val = True
                self.decisions.append((val, False))
            elif f_ok:
                val = False
                self.decisions.append((val, False))
            else:
                raise PathInfeasible()
        self.pc.append(cond if val else z3.Not(cond))
        if len(self.decisions) > 400:
            raise Unsupported('path too long (400 symbolic branches)')
        return val

    # ---------------------------------------------------------------- symbols
    def fresh(self, name, sort='int'):
        n = f"{name}!{next(self.fresh_ctr)}"
        if sort == 'int':
            return z3.Int(n)
        if sort == 'real':
            return z3.Real(n)
        if sort == 'bool':
            return z3.Bool(n)
        return z3.Const(n, sort)

    def sym(self, name, sort='int'):
        """named symbolic input (stable name: appears in counter-models)"""
        if name in self.sizes:
            return self.sizes[name]
        if name not in self.named:
            self.named[name] = {'int': z3.Int, 'real': z3.Real, 'bool': z3.Bool}[sort](name)
        return self.named[name]

    def fresh_fun(self, name, *sorts):
        return z3.Function(f"{name}!{next(self.fresh_ctr)}", *sorts)

    # ---------------------------------------------------------------- logic
    def assume(self, f):
        self.n_assume = getattr(self, 'n_assume', 0) + 1
        if f is True:
            return
        if f is False:
            raise PathInfeasible()
        self.hyps.append(V.zbool(f))

    class _Scope:
        def __init__(self, ctx):
            self.ctx = ctx

        def __enter__(self):
            self.ctx.collect_side()
            self.n = len(self.ctx.hyps)

        def __exit__(self, *a):
            self.ctx.collect_side()
            del self.ctx.hyps[self.n:]

    def scope(self):
        """local hypotheses: everything assumed inside the with-block is dropped at its end"""
        return Context._Scope(self)

    def forall(self, lo, hi, body, name='q'):
        """quantified fact over lo <= i < hi; expanded when the bounds are concrete"""
        lo_, hi_ = V.simp(lo) if is_sym(lo) else lo, V.simp(hi) if is_sym(hi) else hi
        if isinstance(lo_, int) and isinstance(hi_, int):
            out = [V.zbool(body(i)) for i in range(lo_, hi_)]
            return z3.And(*out) if out else z3.BoolVal(True)
        i = z3.Int(f"{name}!{next(self.fresh_ctr)}")
        return z3.ForAll([i], z3.Implies(z3.And(V.zint(lo) <= i, i < V.zint(hi)), V.zbool(body(i))))

    def prove(self, name, goal, kind='post'):
        if goal is True:
            goal = z3.BoolVal(True)
        elif goal is False:
            goal = z3.BoolVal(False)
        ob = Obligation(f"{self.prop}.{self.hname}.{name}", self.all_hyps(), V.zbool(goal), self.cur_line, kind,
                        path=list(d[0] for d in self.decisions))
        ob.axiom_ids = set(self.axiom_ids)
        self.path_obls.append(ob)

    def prove_isolated(self, name, goal, hyps, kind='post', full_goal=None, extra_full_hyps=()):
        """obligation proved from the listed hypotheses only (a subset / generalisation of what is known: sound, and keeps nonlinear queries small).
        A counter-model of the reduced query is not a counterexample of the obligation: it is re-checked against ALL hypotheses of the path (and the
        un-generalised goal) before the obligation is reported as refuted; if that re-check is not `sat` the obligation is undecided."""
        ob = Obligation(f"{self.prop}.{self.hname}.{name}", [V.zbool(h) for h in hyps] + list(self.pc), V.zbool(goal), self.cur_line, kind,
                        path=list(d[0] for d in self.decisions))
        ob.full = (self.all_hyps() + [V.zbool(h) for h in extra_full_hyps], V.zbool(full_goal if full_goal is not None else goal))
        ob.axiom_ids = set(self.axiom_ids)
        self.path_obls.append(ob)

    def safety(self, name, cond):
        if not self.safety_on:
            return
        if cond is True:
            return
        self.prove(f"safety.{name}@L{self.cur_line}", cond, kind='safety')
        self.assume(cond)      # continue under the safety condition (it is checked separately)

    def on_assert(self, interp, c, st):
        if is_sym(c):
            if self.assert_mode == 'prove':
                self.prove(f"assert@L{st.lineno}", c, kind='assert')
            self.assume(c)
        elif isinstance(c, (V.CArr,)):
            if not interp.truth(c):
                raise PyExc('AssertionError', f'line {st.lineno}')
        elif not interp.truth(c):
            raise PyExc('AssertionError', f'line {st.lineno}')

    def on_division(self, interp, b):
        pass

    def on_field_write(self, o, attr, v):
        if attr in getattr(self, 'name_fields', ()):
            from .values import LArr
            if isinstance(v, LArr) and v.view_of is None:
                self.name_array(v, attr)

    def name_array(self, a, name):
        """definitional extension: give the current contents of a symbolic array a name F (fresh function) with  forall idx: F(idx) = contents(idx);
        later terms mention F(idx) instead of the (possibly deeply nested) defining expression.  Returns (F, definition hypothesis)."""
        sort = {'real': z3.RealSort(), 'int': z3.IntSort(), 'bool': z3.BoolSort()}.get(a.kind)
        if sort is None:
            return None
        if self.mode == 'refute' and all(isinstance(V.simp(d) if is_sym(d) else d, int) for d in a.shape):
            return None          # refutation mode: sizes are concrete, the array keeps its defining expression (no quantified definition)
        F = self.fresh_fun(name, *([z3.IntSort()] * a.ndim), sort)
        qs = [z3.Int(f'nq{k}!{next(self.fresh_ctr)}') for k in range(a.ndim)]
        old = a.elem
        body = old(tuple(qs))
        body = V.zreal(body) if a.kind == 'real' else (V.zint(body) if a.kind == 'int' else V.zbool(body))
        rng = z3.And(*[z3.And(q >= 0, q < V.zint(d)) for q, d in zip(qs, a.shape)])
        hyp = z3.ForAll(qs, z3.Implies(rng, F(*qs) == body), patterns=[F(*qs)])
        self.hyps.append(hyp)
        a.elem = lambda idx, F=F: F(*[V.zint(x) for x in idx])
        self.named_arrays = getattr(self, 'named_arrays', {})
        self.named_arrays[name] = (F, old)
        return F, hyp

    def note(self, s):
        self.notes.append(s)


def explore(harness_fn, ctx, max_paths=512):
    """run the harness over all paths; returns (obligations, status, info)"""
    stack = [[]]
    all_obls = []
    npaths = 0
    while stack:
        prefix = stack.pop()
        ctx.reset_path(prefix)
        try:
            harness_fn(ctx)
        except PathInfeasible:
            continue
        finally:
            pass
        npaths += 1
        if npaths > max_paths:
            raise Unsupported(f'more than {max_paths} paths')
        taken = ctx.decisions
        for k in range(len(prefix), len(taken)):
            if taken[k][1]:
                stack.append([d[0] for d in taken[:k]] + [not taken[k][0]])
        all_obls.extend(ctx.path_obls)
    ctx.paths_done = npaths
    return all_obls
