from . import npspec  # noqa: F401  (fixes the import order of the npspec <-> nplib cycle)
