"""Matrix-algebra value domain (DESIGN 2.3 item 4): non-commutative words over matrix atoms, decided by a normaliser.

A value is a polynomial  sum_k  c_k * w_k  with scalar coefficients (exact numbers / z3 terms) and words w_k = X1 X2 ... Xm of atom factors.
An atom factor is (name, t, c, i): transposed? conjugated? inverted?   Rules (the axioms of an involutive ring with partial inverses):
  (XY)^T = Y^T X^T, conj(XY) = conj X conj Y, (XY)^-1 = Y^-1 X^-1,  X X^-1 = X^-1 X = I, flags commute,
plus per-atom facts declared by the library contract that created the atom:
  real: conj X = X;  symmetric: X^T = X;  hermitian: X^T = conj X;  orthogonal: X^-1 = X^T;  unitary: X^-1 = X^H;
  and definitions  A := P L U  (an atom is replaced by the word of its factorisation before normalising).
The normaliser is in the trusted base; its rules are listed in the evidence (trusted_base).
"""
from fractions import Fraction
import z3
from . import values as V
from .values import Unsupported, PyExc, Obj, is_sym

PROPS = {}      # atom name -> set of properties
DEFS = {}       # atom name -> Mat (definition used when expanding)
_counter = [0]


def reset():
    PROPS.clear()
    DEFS.clear()
    _counter[0] = 0


def fresh_name(base):
    _counter[0] += 1
    return f'{base}{_counter[0]}'


def canon(f):
    """canonical flags of one factor under the atom's properties"""
    name, t, c, i = f
    p = PROPS.get(name, ())
    if ('orthogonal' in p or 'unitary' in p) and t:        # X^T = conj(X)^-1  (X^-1 = X^H; for real orthogonal X: X^T = X^-1)
        t, c, i = 0, c ^ 1, i ^ 1
    if 'real' in p:
        c = 0
    if 'symmetric' in p:
        t = 0
    if 'hermitian' in p and t:         # X^T = conj X
        t, c = 0, c ^ 1
    if 'real' in p:
        c = 0
    return (name, t, c, i)


def word_mul(w1, w2):
    w = list(w1)
    for f in w2:
        f = canon(f)
        if w:
            g = w[-1]
            if g[0] == f[0] and g[1] == f[1] and g[2] == f[2] and g[3] != f[3]:
                w.pop()
                continue
        w.append(f)
    return tuple(w)


class Mat:
    """polynomial over words; shape tracking: 'vec' marks a column operand (only for documentation)"""
    def __init__(self, terms=None):
        self.terms = {}
        for w, c in (terms or {}).items():
            self._add(w, c)

    def _add(self, w, c):
        w = word_mul((), w)
        old = self.terms.get(w)
        new = c if old is None else V.add(old, c)
        if not is_sym(new) and not isinstance(new, V.Cx) and V.exact(new) == 0:
            self.terms.pop(w, None)
        elif isinstance(new, V.Cx) and not is_sym(new.re) and not is_sym(new.im) and new.re == 0 and new.im == 0:
            self.terms.pop(w, None)
        else:
            self.terms[w] = V.simp(new) if is_sym(new) else new

    @staticmethod
    def atom(name, props=()):
        PROPS.setdefault(name, set()).update(props)
        return Mat({((name, 0, 0, 0),): 1})

    @staticmethod
    def identity():
        return Mat({(): 1})

    def copy(self):
        return Mat(dict(self.terms))

    def __add__(self, o):
        r = Mat(dict(self.terms))
        for w, c in o.terms.items():
            r._add(w, c)
        return r

    def scale(self, s):
        return Mat({w: V.mul(c, s) for w, c in self.terms.items()})

    def __neg__(self):
        return self.scale(-1)

    def __sub__(self, o):
        return self + (-o)

    def __matmul__(self, o):
        r = Mat()
        for w1, c1 in self.terms.items():
            for w2, c2 in o.terms.items():
                r._add(word_mul(w1, w2), V.mul(c1, c2))
        return r

    def T(self):
        return Mat({tuple((n, t ^ 1, c, i) for (n, t, c, i) in reversed(w)): co for w, co in self.terms.items()})

    def conj(self):
        return Mat({tuple((n, t, c ^ 1, i) for (n, t, c, i) in w): V.conj(co) for w, co in self.terms.items()})

    def H(self):
        return self.T().conj()

    def inv(self):
        if len(self.terms) != 1:
            raise Unsupported('inverse of a sum of matrix words')
        (w, co), = self.terms.items()
        return Mat({tuple((n, t, c, i ^ 1) for (n, t, c, i) in reversed(w)): V.div(1, co)})

    def expand(self):
        """replace defined atoms by their definitions (with flags distributed) until no definition applies"""
        cur = self
        for _ in range(20):
            changed = False
            out = Mat()
            for w, co in cur.terms.items():
                acc = Mat({(): co})
                for (n, t, c, i) in w:
                    if n in DEFS:
                        d = DEFS[n]
                        if t:
                            d = d.T()
                        if c:
                            d = d.conj()
                        if i:
                            d = d.inv()
                        acc = acc @ d
                        changed = True
                    else:
                        acc = acc @ Mat({((n, t, c, i),): 1})
                out = out + acc
            cur = out
            if not changed:
                break
        return cur

    def is_zero(self):
        e = self.expand()
        res = []
        for w, c in e.terms.items():
            if is_sym(c):
                res.append(c == 0)
            elif isinstance(c, V.Cx):
                res.append(V.z(V.cmp('==', c, 0)))
            else:
                return False
        return True if not res else z3.And(*res)

    def residue(self):
        return str(self.expand())

    def __repr__(self):
        def fs(f):
            n, t, c, i = f
            s = n
            if c and t:
                s += '^H'
            elif t:
                s += '^T'
            elif c:
                s += '^*'
            if i:
                s = s + '^-1' if not (t or c) else '(' + s + ')^-1'
            return s
        if not self.terms:
            return '0'
        return ' + '.join((('' if (not is_sym(c) and not isinstance(c, V.Cx) and c == 1) else f'({c})*') + (' '.join(fs(f) for f in w) or 'I')) for w, c in self.terms.items())


# ------------------------------------------------------------------------------------------------ interpreter glue
def wrap(m, kind='complex'):
    return Obj(None, {'m': m, 'kind': kind, 'pytype': 'ndarray'}, tag='mat')


def unwrap(o):
    if isinstance(o, Obj) and o.tag == 'mat':
        return o.fields['m']
    raise Unsupported('matrix-algebra operation with a non-matrix operand')


def _mat_attr(it, o, attr):
    from . import interp as I
    B = lambda f: I.Builtin(attr, f)
    m = o.fields['m']
    if attr == 'T':
        return wrap(m.T(), o.fields['kind'])
    if attr in ('conj', 'conjugate'):
        return B(lambda: wrap(m.conj(), o.fields['kind']))
    if attr == 'copy':
        return B(lambda: wrap(m.copy(), o.fields['kind']))
    if attr == 'ndim':
        return o.fields.get('ndim', 2)
    if attr == 'dtype':
        return Obj(None, {'kind': o.fields['kind']}, tag='dtype')
    if attr == 'shape':
        return o.fields.get('shape', (V.Ghost.fn('matdim', 0, z3.IntSort())() if False else z3.Int('n_mat'),) * o.fields.get('ndim', 2))
    if attr == 'transpose':
        return B(lambda: wrap(m.T(), o.fields['kind']))
    if attr == 'dot':
        return B(lambda x: wrap(m @ unwrap(x), o.fields['kind']))
    return NotImplemented


def _mat_binop(it, on, a, b):
    am = a.fields['m'] if isinstance(a, Obj) and a.tag == 'mat' else None
    bm = b.fields['m'] if isinstance(b, Obj) and b.tag == 'mat' else None
    kind = (a if am is not None else b).fields['kind']
    if on == 'MatMult':
        if am is None or bm is None:
            raise Unsupported('matmul of matrix-algebra value with something else')
        return wrap(am @ bm, kind)
    if on in ('Add', 'Sub'):
        if am is None or bm is None:
            raise Unsupported('sum of matrix-algebra value with something else')
        return wrap(am + bm if on == 'Add' else am - bm, kind)
    if on == 'Mult':
        if am is not None and V.is_scalar(b):
            return wrap(am.scale(b), kind)
        if bm is not None and V.is_scalar(a):
            return wrap(bm.scale(a), kind)
        raise Unsupported('element-wise product of matrices in the algebra domain')
    if on == 'Div' and am is not None and V.is_scalar(b):
        return wrap(am.scale(V.div(1, b)), kind)
    return NotImplemented


def _perm_of(idx):
    if isinstance(idx, Obj) and idx.tag == 'perm':
        return idx
    if isinstance(idx, tuple) and len(idx) == 2 and isinstance(idx[0], Obj) and idx[0].tag == 'perm' and idx[1] == slice(None):
        return idx[0]
    return None


def _mat_getitem(it, o, idx):
    p = _perm_of(idx)
    if p is not None:          # rows permuted: x[p] = Pi x
        return wrap(p.fields['m'] @ o.fields['m'], o.fields['kind'])
    raise Unsupported('indexing of a matrix-algebra value')


def _mat_setitem(it, o, idx, v):
    p = _perm_of(idx)
    if p is not None and not o.fields['m'].terms:          # zeros[p] = v   ->   Pi^T v
        o.fields['m'] = p.fields['m'].T() @ unwrap(v)
        return None
    raise Unsupported('item assignment on a matrix-algebra value')


def install(npspec, nplib):
    npspec.OBJ_ATTR['mat'] = _mat_attr
    npspec.OBJ_BINOP['mat'] = _mat_binop
    npspec.OBJ_GETITEM['mat'] = _mat_getitem
    npspec.OBJ_SETITEM['mat'] = _mat_setitem
    nplib.DEEPCOPY['mat'] = lambda it, x: wrap(x.fields['m'].copy(), x.fields['kind'])
