"""Forward-mode differentiation of z3 real terms (trusted base; DESIGN 4 C01 route 1).

D(e)[v] for a substitution  variable -> direction.  Rules: constants 0, variables their direction, + - * /, unary minus, integer powers,
ite (the condition is treated as locally constant: differentiability at the point is a precondition of the property),
ghost functions sqrt, exp, log, rpow (pvc.values.Ghost) with their calculus rules.
"""
import z3
from . import values as V


def D(e, dirs, cache=None):
    """directional derivative of the real-valued z3 term e; dirs: {z3 const (by id) : direction term}"""
    cache = {} if cache is None else cache
    key = e.get_id()
    if key in cache:
        return cache[key]
    r = z3.simplify(_D(e, dirs, cache))        # prunes the zero derivatives of parameters that are not differentiated
    cache[key] = r
    return r


def _is0(t):
    return z3.is_rational_value(t) and t.numerator_as_long() == 0


def _D(e, dirs, cache):
    zero = z3.RealVal(0)
    if z3.is_rational_value(e) or z3.is_int_value(e) or z3.is_algebraic_value(e):
        return zero
    if z3.is_const(e) and e.decl().kind() == z3.Z3_OP_UNINTERPRETED:
        for var, d in dirs:
            if z3.eq(var, e):
                return d
        return zero
    if not z3.is_app(e):
        raise V.Unsupported('derivative of a quantified term')
    k = e.decl().kind()
    ch = e.children()
    if k == z3.Z3_OP_ADD:
        return z3.Sum([D(c, dirs, cache) for c in ch])
    if k == z3.Z3_OP_SUB:
        r = D(ch[0], dirs, cache)
        for c in ch[1:]:
            r = r - D(c, dirs, cache)
        return r
    if k == z3.Z3_OP_UMINUS:
        return -D(ch[0], dirs, cache)
    if k == z3.Z3_OP_MUL:
        terms = []
        for i in range(len(ch)):
            di = D(ch[i], dirs, cache)
            if z3.is_rational_value(di) and di.numerator_as_long() == 0:
                continue
            t = di
            for j in range(len(ch)):
                if j != i:
                    t = t * ch[j]
            terms.append(t)
        return z3.Sum(terms) if terms else zero
    if k == z3.Z3_OP_DIV:
        a, b = ch
        da, db = D(a, dirs, cache), D(b, dirs, cache)
        if _is0(db):
            return zero if _is0(da) else da / b
        return (da * b - a * db) / (b * b)
    if k == z3.Z3_OP_POWER:
        a, b = ch
        if z3.is_rational_value(b) or z3.is_int_value(b):
            return b * (a ** (b - 1)) * D(a, dirs, cache)
        raise V.Unsupported('derivative of a general power')
    if k == z3.Z3_OP_ITE:
        c, a, b = ch
        return z3.If(c, D(a, dirs, cache), D(b, dirs, cache))
    if k == z3.Z3_OP_TO_REAL:
        return zero
    if k == z3.Z3_OP_UNINTERPRETED:
        name = e.decl().name()
        if name in ('sqrt', 'exp', 'log'):
            da = D(ch[0], dirs, cache)
            if _is0(da):
                return zero
            return da / (2 * e) if name == 'sqrt' else (e * da if name == 'exp' else da / ch[0])
        if name == 'rpow':
            a, b = ch
            da, db = D(a, dirs, cache), D(b, dirs, cache)
            res = zero if _is0(da) else e * b * da / a
            if not _is0(db):
                res = res + e * db * V.Ghost.fn('log')(a)
            return res
        raise V.Unsupported(f'derivative of uninterpreted function {name}')
    raise V.Unsupported(f'derivative of operator {e.decl().name()}')
