"""Array semantics for the executor: element-wise operations, broadcasting, indexing, stores (CArr and LArr)."""
import functools
from fractions import Fraction
import numpy as np
import z3
from . import values as V
from .values import Unsupported, PyExc, CArr, LArr, Cx, is_sym, is_arr

_uf_cache = {}


def uf(fn, nin):
    key = (fn, nin)
    if key not in _uf_cache:
        _uf_cache[key] = np.frompyfunc(fn, nin, 1)
    return _uf_cache[key]


def as_data(v):
    """CArr / list / scalar -> numpy object data"""
    if isinstance(v, CArr):
        return v.data
    if isinstance(v, (list, tuple)):
        return to_carr(v).data
    return v


def to_carr(v):
    if isinstance(v, CArr):
        return v
    if isinstance(v, range):
        v = list(v)
    if isinstance(v, (list, tuple)):
        def conv(x):
            if isinstance(x, (list, tuple)):
                return [conv(y) for y in x]
            if isinstance(x, CArr):
                return x.data.tolist() if x.ndim else x.data.item()
            if isinstance(x, LArr):
                raise Unsupported('symbolic array inside list -> array')
            return x
        lst = conv(v)
        shape = _list_shape(lst)
        d = np.empty(shape, dtype=object)
        _fill(d, lst, ())
        return CArr(d)
    if V.is_scalar(v):
        d = np.empty((), dtype=object)
        d[()] = v
        return CArr(d)
    raise Unsupported(f'array from {type(v).__name__}')


def _list_shape(lst):
    if isinstance(lst, list):
        if not lst:
            return (0,)
        s0 = _list_shape(lst[0])
        for x in lst[1:]:
            if _list_shape(x) != s0:
                raise PyExc('ValueError', 'inhomogeneous shape')
        return (len(lst),) + s0
    return ()


def _fill(d, lst, pre):
    if isinstance(lst, list):
        for i, x in enumerate(lst):
            _fill(d, x, pre + (i,))
    else:
        d[pre] = lst


def wrap(data):
    if isinstance(data, np.ndarray):
        return CArr(data)
    return data


def to_larr(v, rank=None):
    if isinstance(v, LArr):
        return v
    c = to_carr(v)
    data = c.data

    def elem(idx, data=data):
        return select(data, idx)
    return LArr(data.shape, elem, c.kind)


def select(data, idx):
    """data[idx] for a concrete object array and (possibly symbolic) index tuple"""
    if not isinstance(data, np.ndarray):
        return data
    if data.ndim == 0:
        return data[()]
    i0 = idx[0]
    if is_sym(i0):
        i0 = V.simp(i0)
    if not is_sym(i0):
        i0 = int(i0)
        if not -data.shape[0] <= i0 < data.shape[0]:
            raise PyExc('IndexError', 'index out of bounds')
        return select(data[i0], idx[1:])
    out = None
    for k in range(data.shape[0] - 1, -1, -1):
        v = select(data[k], idx[1:])
        out = v if out is None else V.ite(i0 == k, v, out)
    if out is None:
        raise PyExc('IndexError', 'index into empty array')
    return out


# ---------------------------------------------------------------------------------------------- element-wise
def bshape(sa, sb, ctx=None):
    """numpy broadcasting of two (possibly symbolic) shapes"""
    ra, rb = len(sa), len(sb)
    r = max(ra, rb)
    sa = (1,) * (r - ra) + tuple(sa)
    sb = (1,) * (r - rb) + tuple(sb)
    out = []
    for da, db in zip(sa, sb):
        if isinstance(da, int) and da == 1:
            out.append(db)
        elif isinstance(db, int) and db == 1:
            out.append(da)
        else:
            same = V.simp(V.cmp('==', da, db)) if (is_sym(da) or is_sym(db)) else (da == db)
            if same is False:
                raise PyExc('ValueError', f'operands could not be broadcast together {sa} {sb}')
            if same is not True and ctx is not None:
                ctx.safety('broadcast_shapes_equal', same)
            out.append(da if not is_sym(da) or is_sym(db) else db)
    return tuple(out)


def bidx(shape, out_idx):
    """index into an operand of `shape` for output index out_idx under broadcasting"""
    r = len(out_idx)
    k = len(shape)
    idx = out_idx[r - k:]
    return tuple(0 if (isinstance(d, int) and d == 1) else i for d, i in zip(shape, idx))


def elementwise(ctx, fn, *ops, kind=None):
    """apply scalar function fn element-wise over arrays/scalars with broadcasting"""
    if any(isinstance(o, LArr) for o in ops):
        arrs = [snapshot(to_larr(o)) if (is_arr(o) or isinstance(o, (list, tuple))) else o for o in ops]
        shape = ()
        for a in arrs:
            if isinstance(a, LArr):
                shape = bshape(shape, a.shape, ctx)

        def elem(idx, arrs=arrs):
            return fn(*[a.at(*bidx(a.shape, idx)) if isinstance(a, LArr) else a for a in arrs])
        k = kind or _result_kind(arrs)
        return LArr(shape, elem, k)
    datas = [as_data(o) for o in ops]
    try:
        res = uf(fn, len(ops))(*datas)
    except ValueError as e:
        if 'broadcast' in str(e):
            raise PyExc('ValueError', str(e))
        raise
    if isinstance(res, np.ndarray):
        return CArr(res, kind)
    return res


def _result_kind(arrs):
    k = 'bool'
    for a in arrs:
        ka = a.kind if isinstance(a, LArr) else V.kind(a)
        if V.KIND_ORDER[ka] > V.KIND_ORDER[k]:
            k = ka
    return k


SCALAR_BIN = {
    'Add': V.add, 'Sub': V.sub, 'Mult': V.mul, 'Div': V.div, 'FloorDiv': V.floordiv, 'Mod': V.mod, 'Pow': V.pw,
    'BitAnd': V.and_, 'BitOr': V.or_,
}


def arr_binop(ctx, on, a, b):
    if on == 'MatMult':
        return matmul(ctx, a, b)
    fn = SCALAR_BIN.get(on)
    if fn is None:
        raise Unsupported(f'array op {on}')
    kind = None
    if on == 'Div':
        kind = None
    return elementwise(ctx, fn, a, b, kind=('real' if on == 'Div' and _both_nc(a, b) else None))


def _both_nc(a, b):
    def k(v):
        if isinstance(v, LArr):
            return v.kind
        if isinstance(v, CArr):
            return v.kind
        if isinstance(v, (list, tuple)):
            return to_carr(v).kind
        return V.kind(v)
    return k(a) != 'complex' and k(b) != 'complex'


def arr_compare(ctx, sym, a, b):
    return elementwise(ctx, lambda x, y: V.cmp(sym, x, y), a, b, kind='bool')


def arr_unop(ctx, op, v):
    import ast
    if isinstance(op, ast.USub):
        return elementwise(ctx, V.neg, v)
    if isinstance(op, ast.UAdd):
        return v
    if isinstance(op, ast.Invert):
        if v.kind == 'bool':
            return elementwise(ctx, V.not_, v, kind='bool')
        raise Unsupported('~ on non-bool array')
    raise Unsupported('array unary op')


def asum(items):
    return functools.reduce(V.add, items, 0)


def matmul(ctx, a, b):
    if isinstance(a, (list, tuple)):
        a = to_carr(a)
    if isinstance(b, (list, tuple)):
        b = to_carr(b)
    if not is_arr(a) or not is_arr(b):
        raise PyExc('TypeError', 'matmul with scalar')
    if isinstance(a, CArr) and isinstance(b, CArr):
        A, B = a.data, b.data
        if A.ndim == 0 or B.ndim == 0:
            raise PyExc('ValueError', 'matmul: 0-d operand')
        a1 = A.ndim == 1
        b1 = B.ndim == 1
        if a1:
            A = A[None, :]
        if b1:
            B = B[:, None]
        if A.shape[-1] != B.shape[-2]:
            raise PyExc('ValueError', f'matmul: shape mismatch {a.shape} {b.shape}')
        prod = uf(V.mul, 2)(A[..., :, :, None], B[..., None, :, :])
        res = uf(V.add, 2).reduce(prod, axis=-2) if A.shape[-1] > 0 else np.zeros(prod.shape[:-2] + prod.shape[-1:], dtype=object)
        if a1:
            res = res[..., 0, :]
        if b1:
            res = res[..., 0]
        return wrap(res) if isinstance(res, np.ndarray) and res.ndim > 0 else (res[()] if isinstance(res, np.ndarray) else res)
    raise Unsupported('matmul on symbolic-shape arrays (use a Sigma-term contract)')


# ---------------------------------------------------------------------------------------------- indexing
def norm_bound(v, n, default):
    """python slice-bound normalisation, exact (including -0 == 0)"""
    if v is None:
        return default
    if not is_sym(v) and not is_sym(n):
        v = int(v)
        if v < 0:
            v += n
        return min(max(v, 0), n)
    v, n = V.zint(v), V.zint(n)
    O = V.ORACLE
    if O is not None:
        if O(z3.And(v >= 0, v <= n)):
            return V.simp(v)
        if O(z3.And(v < 0, v + n >= 0)):
            return V.simp(v + n)
        if O(v >= n):
            return V.simp(n)
    vv = z3.If(v < 0, v + n, v)
    return V.simp(z3.If(vv < 0, 0, z3.If(vv > n, n, vv)))


def slice_params(sl, n):
    """-> (start, step, length) for a slice with concrete step sign"""
    step = sl.step if sl.step is not None else 1
    if is_sym(step):
        step = V.simp(step)
    if is_sym(step):
        raise Unsupported('symbolic slice step')
    step = int(step)
    if step == 0:
        raise PyExc('ValueError', 'slice step cannot be zero')
    if step > 0:
        lo = norm_bound(sl.start, n, 0)
        hi = norm_bound(sl.stop, n, n)
        span = V.sub(hi, lo)
        if is_sym(span):
            span = V.simp(span)
        if is_sym(span):
            if V.ORACLE is not None and step == 1 and V.ORACLE(span >= 0):
                length = span
            else:
                length = V.simp(z3.If(span > 0, (span + (step - 1)) / step, z3.IntVal(0)))
        else:
            length = max(0, (span + step - 1) // step)
        return lo, step, length
    if any(is_sym(x) for x in (sl.start, sl.stop, n)):
        raise Unsupported('symbolic negative-step slice')
    r = range(*sl.indices(int(n)))
    return (r.start if len(r) else 0), step, len(r)


class Plan:
    """result of planning an index expression on a shape"""
    def __init__(self, out_shape, fwd, bwd, is_view):
        self.out_shape, self.fwd, self.bwd, self.is_view = out_shape, fwd, bwd, is_view


def plan_index(ctx, shape, idx):
    if not isinstance(idx, tuple):
        idx = (idx,)
    # expand Ellipsis
    n_consuming = sum(1 for i in idx if i is not None and i is not Ellipsis)
    if any(i is Ellipsis for i in idx):
        k = [j for j, i in enumerate(idx) if i is Ellipsis]
        if len(k) > 1:
            raise PyExc('IndexError', 'more than one ellipsis')
        fill = (slice(None),) * (len(shape) - n_consuming)
        idx = idx[:k[0]] + fill + idx[k[0] + 1:]
    n_consuming = sum(1 for i in idx if i is not None)
    if n_consuming > len(shape):
        raise PyExc('IndexError', 'too many indices for array')
    idx = idx + (slice(None),) * (len(shape) - n_consuming)
    items = []      # per index item: (kind, payload, base_dim or None)
    d = 0
    adv = []
    for it in idx:
        if it is None:
            items.append(('new', None, None))
            continue
        n = shape[d]
        if isinstance(it, slice):
            items.append(('slice', slice_params(it, n), d))
        elif isinstance(it, (list, tuple)) or is_arr(it):
            a = it if is_arr(it) else to_carr(it)
            if a.kind == 'bool':
                raise Unsupported('boolean mask index')
            if a.kind != 'int':
                raise PyExc('IndexError', 'arrays used as indices must be of integer type')
            items.append(('adv', a, d))
            adv.append(len(items) - 1)
        elif V.is_scalar(it):
            if V.kind(it) not in ('int', 'bool'):
                raise PyExc('IndexError', 'only integers, slices, ellipsis, None and integer arrays are valid indices')
            v = it
            if not is_sym(v) and not is_sym(n):
                v = int(v)
                if not -n <= v < n:
                    raise PyExc('IndexError', f'index {v} is out of bounds for axis {d} with size {n}')
                v = v + n if v < 0 else v
            else:
                ok = V.and_(V.cmp('>=', v, V.neg(n)), V.cmp('<', v, n))
                ctx.safety('index_in_bounds', ok)
                v = V.simp(V.ite(V.cmp('<', v, 0), V.add(v, n), v)) if is_sym(v) else (v if v >= 0 else V.add(v, n))
            items.append(('scalar', v, d))
        else:
            raise Unsupported(f'index item {type(it).__name__}')
        d += 1
    # advanced indices: support one, or several 1-D of equal length that are adjacent (broadcast together)
    adv_shape = ()
    if adv:
        arrs = [items[k][1] for k in adv]
        adv_shape = ()
        for a in arrs:
            adv_shape = bshape(adv_shape, a.shape, ctx)
        if len(adv) > 1 and any(adv[i + 1] != adv[i] + 1 for i in range(len(adv) - 1)):
            # separated by slice: numpy moves the advanced dims first
            adv_first = True
        else:
            adv_first = False
    # output dims
    out_shape = []
    out_src = []     # for each output dim: ('slice', item_k) | ('adv', j) | ('new',)
    placed_adv = False
    if adv and adv_first:
        for j, s in enumerate(adv_shape):
            out_shape.append(s)
            out_src.append(('adv', j))
        placed_adv = True
    for k, (kind, p, bd) in enumerate(items):
        if kind == 'new':
            out_shape.append(1)
            out_src.append(('new',))
        elif kind == 'slice':
            out_shape.append(p[2])
            out_src.append(('slice', k))
        elif kind == 'adv':
            if not placed_adv:
                for j, s in enumerate(adv_shape):
                    out_shape.append(s)
                    out_src.append(('adv', j))
                placed_adv = True
    nb = len(shape)
    # safety of gathers: checked once, at a fresh position inside the index array (not at every read)
    for k_ in adv:
        a_ = items[k_][1]
        bd_ = items[k_][2]
        if isinstance(a_, LArr) and not a_.meta.get('bounds_checked_for') == id(shape):
            pos = tuple(ctx.fresh('gpos', 'int') for _ in a_.shape)
            rng = [z3.And(V.zint(p_) >= 0, V.zint(p_) < V.zint(d_)) for p_, d_ in zip(pos, a_.shape)]
            v_ = a_.at(*pos)
            n_ = shape[bd_]
            ok_ = V.and_(V.cmp('>=', v_, V.neg(n_)), V.cmp('<', v_, n_))
            if ok_ is not True and ctx.safety_on:
                if getattr(ctx, 'gather_hints', None):
                    for r_ in rng:
                        ctx.assume(r_)
                    ctx.gather_hints(ctx, a_, pos)
                ctx.prove(f'safety.index_in_bounds@L{ctx.cur_line}', z3.Implies(z3.And(*rng) if rng else z3.BoolVal(True), V.zbool(ok_)), kind='safety')
                if getattr(ctx, 'assume_gather_bounds', False):
                    q_ = [z3.Int(f'gq{j_}!{next(ctx.fresh_ctr)}') for j_ in range(len(a_.shape))]
                    vq_ = a_.at(*q_)
                    ctx.hyps.append(z3.ForAll(q_, z3.Implies(z3.And(*[z3.And(x_ >= 0, x_ < V.zint(d_)) for x_, d_ in zip(q_, a_.shape)]),
                                                              z3.And(V.zint(vq_) >= -V.zint(n_), V.zint(vq_) < V.zint(n_)))))

    def fwd(o):
        base = [None] * nb
        advo = tuple(o[q] for q, s in enumerate(out_src) if s[0] == 'adv')
        for q, s in enumerate(out_src):
            if s[0] == 'slice':
                start, step, _ = items[s[1]][1]
                base[items[s[1]][2]] = V.add(start, V.mul(step, o[q]))
        for k, (kind, p, bd) in enumerate(items):
            if kind == 'scalar':
                base[bd] = p
            elif kind == 'adv':
                a = p
                v = (to_larr(a) if not isinstance(a, LArr) else a).at(*bidx(a.shape, advo))
                n = shape[bd]
                if is_sym(v) or is_sym(n):
                    v = V.simp(V.ite(V.cmp('<', v, 0), V.add(v, n), v)) if is_sym(v) else (v if v >= 0 else V.add(v, n))
                else:
                    if not -n <= v < n:
                        raise PyExc('IndexError', f'index {v} is out of bounds for axis {bd} with size {n}')
                    v = v + n if v < 0 else v
                base[bd] = v
        return tuple(base)

    def bwd(b):
        """base index -> (hit condition, output index)"""
        cond = True
        o = [0] * len(out_src)
        for q, s in enumerate(out_src):
            if s[0] == 'slice':
                start, step, length = items[s[1]][1]
                bi = b[items[s[1]][2]]
                off = V.sub(bi, start)
                if step == 1:
                    pos = off
                elif step == -1:
                    pos = V.neg(off)
                else:
                    cond = V.and_(cond, V.cmp('==', V.mod(off, step), 0))
                    pos = V.floordiv(off, step)
                cond = V.and_(cond, V.and_(V.cmp('>=', pos, 0), V.cmp('<', pos, length)))
                o[q] = pos
        for k, (kind, p, bd) in enumerate(items):
            if kind == 'scalar':
                cond = V.and_(cond, V.cmp('==', b[bd], p))
        if adv:
            if len(adv) == 1 and len(adv_shape) == 1:
                a = items[adv[0]][1]
                bd = items[adv[0]][2]
                la = a if isinstance(a, LArr) else to_larr(a)
                if isinstance(a, LArr) and a.inv is not None:
                    pos = a.inv(b[bd])
                    cond = V.and_(cond, V.and_(V.and_(V.cmp('>=', pos, 0), V.cmp('<', pos, a.shape[0])),
                                               V.cmp('==', la.at(pos), b[bd])))
                elif isinstance(a, CArr) or (isinstance(a, LArr) and isinstance(a.shape[0], int)):
                    # concrete-length index list: last write wins -> scan from the end
                    nlen = a.shape[0]
                    pos, hit = 0, False
                    n = shape[bd]
                    for t in range(nlen):
                        v = la.at(t)
                        v = V.ite(V.cmp('<', v, 0), V.add(v, n), v) if is_sym(v) else (v if v >= 0 else V.add(v, n))
                        e = V.cmp('==', v, b[bd])
                        pos = V.ite(e, t, pos) if is_sym(e) else (t if e else pos)
                        hit = V.or_(hit, e)
                    cond = V.and_(cond, hit)
                elif isinstance(a, LArr) and getattr(ctx, 'inverse_provider', None) is not None and ctx.inverse_provider(ctx, a) is not None:
                    ginv = ctx.inverse_provider(ctx, a)
                    if not a.meta.get('inv_checked'):
                        # ghost inverse supplied by the contract: obligation  forall t in range: ginv(a[t]) == t  (=> a injective)
                        t = ctx.fresh('t_inv', 'int')
                        ctx.assume(z3.And(t >= 0, t < V.zint(a.shape[0])))
                        if getattr(ctx, 'inverse_hints', None):
                            ctx.inverse_hints(ctx, a, t)
                        ctx.prove(f'ghost.left_inverse@L{ctx.cur_line}', V.cmp('==', ginv(la.at(t)), t), kind='ghost')
                        a.meta['inv_checked'] = True
                    a.inv = ginv
                    pos = a.inv(b[bd])
                    cond = V.and_(cond, V.and_(V.and_(V.cmp('>=', pos, 0), V.cmp('<', pos, a.shape[0])),
                                               V.cmp('==', la.at(pos), b[bd])))
                else:
                    raise Unsupported('store through a symbolic index array without ghost inverse')
                for q, s in enumerate(out_src):
                    if s[0] == 'adv':
                        o[q] = pos
            else:
                raise Unsupported('store through multi-dimensional / multiple advanced indices')
        return cond, tuple(o)

    return Plan(tuple(out_shape), fwd, bwd, is_view=not adv)


def carr_index_concrete(idx):
    """convert an index value to something numpy accepts on an object array; returns None if symbolic"""
    def conv(i):
        if isinstance(i, slice):
            if any(is_sym(x) and is_sym(V.simp(x)) for x in (i.start, i.stop, i.step)):
                return NotImplemented
            f = lambda x: None if x is None else int(V.simp(x) if is_sym(x) else x)
            return slice(f(i.start), f(i.stop), f(i.step))
        if i is None or i is Ellipsis:
            return i
        if isinstance(i, CArr):
            if i.kind == 'bool':
                try:
                    return np.array(i.data, dtype=bool)
                except Exception:
                    return NotImplemented
            if i.kind == 'int':
                if any(is_sym(x) for x in i.data.flat):
                    return NotImplemented
                return np.array(i.data, dtype=np.int64) if i.size else np.zeros(i.shape, dtype=np.int64)
            raise PyExc('IndexError', 'arrays used as indices must be of integer (or boolean) type')
        if isinstance(i, LArr):
            return NotImplemented
        if isinstance(i, (list,)):
            return conv(to_carr(i))
        if is_sym(i):
            s = V.simp(i)
            if is_sym(s):
                return NotImplemented
            i = s
        if isinstance(i, (bool, int, np.integer)):
            return int(i)
        if isinstance(i, Fraction):
            raise PyExc('IndexError', 'only integers, slices, ellipsis, None and integer or boolean arrays are valid indices')
        raise Unsupported(f'index {type(i).__name__}')
    if isinstance(idx, tuple):
        out = tuple(conv(i) for i in idx)
        return NotImplemented if any(o is NotImplemented for o in out) else out
    return conv(idx)


def concretise_mask(ctx, idx):
    """a boolean mask of concrete shape with symbolic entries: the path is split on every entry (complete case analysis), the mask becomes concrete"""
    def one(i):
        if isinstance(i, CArr) and i.kind == 'bool' and any(is_sym(x) for x in i.data.flat) and ctx is not None and i.size <= 8:
            d = np.empty(i.shape, dtype=object)
            for o in np.ndindex(*i.shape):
                x = i.data[o]
                if is_sym(x):
                    c = V.simp(V.zbool(x))
                    x = c if isinstance(c, bool) else ctx.fork(c)
                d[o] = bool(x)
            return CArr(d, 'bool')
        return i
    if isinstance(idx, tuple):
        return tuple(one(i) for i in idx)
    return one(idx)


def arr_getitem(ctx, a, idx):
    if isinstance(a, CArr):
        idx = concretise_mask(ctx, idx)
        ci = carr_index_concrete(idx)
        if ci is not NotImplemented:
            try:
                r = a.data[ci]
            except IndexError as e:
                raise PyExc('IndexError', str(e))
            if isinstance(r, np.ndarray):
                return CArr(r, a._kind)
            return r
        # symbolic index into a concrete array
        if isinstance(idx, LArr) or (isinstance(idx, tuple) and any(isinstance(i, LArr) for i in idx)):
            return arr_getitem(ctx, to_larr(a), idx)
        plan = plan_index(ctx, a.shape, idx)
        if all(isinstance(s, int) for s in plan.out_shape):
            out = np.empty(plan.out_shape, dtype=object)
            for o in np.ndindex(*plan.out_shape):
                out[o] = select(a.data, plan.fwd(o))
            return CArr(out) if out.ndim else out[()]
        return arr_getitem(ctx, to_larr(a), idx)
    # LArr
    if isinstance(idx, (LArr, CArr)) and idx.kind == 'bool':
        # contract of a[mask]: an array of some length 0 <= m <= size whose entries are entries of a (ghost injection `src`)
        if a.ndim != 1:
            raise Unsupported('boolean mask selection on a symbolic nd array')
        m = ctx.fresh('nsel', 'int')
        src = ctx.fresh_fun('selsrc', z3.IntSort(), z3.IntSort())
        mask = snapshot(to_larr(idx))
        snap = snapshot(a)
        ctx.assume(z3.And(m >= 0, m <= V.zint(a.shape[0])))
        q = z3.Int(f'q!{next(ctx.fresh_ctr)}')
        q2 = z3.Int(f'q!{next(ctx.fresh_ctr)}')
        ctx.hyps.append(z3.ForAll([q], z3.Implies(z3.And(q >= 0, q < m), z3.And(src(q) >= 0, src(q) < V.zint(a.shape[0]), V.zbool(mask.at(src(q)))))))
        ctx.hyps.append(z3.ForAll([q, q2], z3.Implies(z3.And(q >= 0, q < q2, q2 < m), src(q) < src(q2))))
        r = LArr((m,), lambda o, snap=snap, src=src: snap.at(src(V.zint(o[0]))), a.kind)
        r.meta['mask_select'] = (mask, src, snap)
        return r
    if isinstance(idx, tuple) and any(is_arr(i) and i.kind == 'bool' for i in idx):
        raise Unsupported('boolean mask selection on a symbolic-shape array (needs a contract)')
    plan = plan_index(ctx, a.shape, idx)
    if not plan.out_shape:
        return a.at(*plan.fwd(()))
    r = LArr(plan.out_shape, None, a.kind)
    if plan.is_view:
        r.view_of = (a, plan.fwd)
        r.meta['view_bwd'] = plan.bwd
        r.elem = lambda o, a=a, f=plan.fwd: a.at(*f(o))
        if a.inv is not None and a.ndim == 1 and len(plan.out_shape) == 1:
            # a basic slice of an injective index array stays injective: ghost inverse shifted by the slice start
            sl = idx[0] if isinstance(idx, tuple) else idx
            if isinstance(sl, slice):
                start, step, _ = slice_params(sl, a.shape[0])
                if step == 1:
                    r.inv = lambda v, inv=a.inv, start=start: V.sub(inv(v), start)
    else:
        snap = snapshot(a)
        r.elem = lambda o, snap=snap, f=plan.fwd: snap.at(*f(o))
        r.meta['from_adv_index'] = True
        # injective gather through a slice of an injective index keeps a ghost inverse where available
    return r


def snapshot(a):
    """freeze the current contents of an LArr (copy semantics)"""
    if a.view_of is not None:
        base, imap = a.view_of
        bs = snapshot(base)
        return LArr(a.shape, lambda o, bs=bs, imap=imap: bs.at(*imap(o)), a.kind)
    e = a.elem
    c = LArr(a.shape, e, a.kind, inv=a.inv)
    c.meta = dict(a.meta)
    return c


def root_of(a):
    """(root array, map from a's indices to root indices)"""
    if isinstance(a, LArr) and a.view_of is not None:
        base, imap = a.view_of
        r, m = root_of(base)
        return r, (lambda o, imap=imap, m=m: m(imap(o)))
    return a, (lambda o: o)


def store_fn(ctx, a, hit):
    """write into array a: hit(index of a) -> (condition, new value); goes through views down to the root storage"""
    if a.view_of is not None:
        base, imap = a.view_of
        bwd = a.meta.get('view_bwd')
        if bwd is None:
            raise Unsupported('store through a view without inverse map (transpose/reshape view)')

        def hit_base(b, bwd=bwd, hit=hit):
            c1, o1 = bwd(b)
            if c1 is False:
                return False, None
            c2, v = hit(o1)
            return V.and_(c1, c2), v
        return store_fn(ctx, base, hit_base)
    old = a.elem

    def new(i, old=old, hit=hit):
        c, v = hit(i)
        if c is False:
            return old(i)
        if c is True:
            return v
        return V.ite(c, v, old(i))
    a.elem = new
    a.inv = None


def kind_check_store(ctx, target_kind, vkind):
    if V.KIND_ORDER[vkind] > V.KIND_ORDER[target_kind]:
        if vkind == 'complex':
            raise PyExc('UFuncTypeError', 'cannot cast complex to real in place')
        # real into int array truncates in numpy (setitem) - treat as unsupported to stay sound
        if vkind == 'real' and target_kind in ('int', 'bool'):
            raise Unsupported('store of real values into an integer array')


def arr_setitem(ctx, a, idx, v, aug=False):
    if isinstance(v, (list, tuple)):
        v = to_carr(v)
    if isinstance(a, CArr):
        idx = concretise_mask(ctx, idx)
        ci = carr_index_concrete(idx)
        if ci is not NotImplemented and not isinstance(v, LArr):
            vk = v.kind if isinstance(v, CArr) else V.kind(v)
            kind_check_store(ctx, a.kind if a.size else 'complex', vk) if a._kind else None
            if isinstance(ci, tuple) and any(isinstance(i, np.ndarray) for i in ci) or isinstance(ci, np.ndarray):
                pass
            try:
                if isinstance(v, CArr):
                    a.data[ci] = v.data
                else:
                    tgt = a.data[ci]
                    if isinstance(tgt, np.ndarray):
                        fill = np.empty(tgt.shape, dtype=object)
                        for o in np.ndindex(*tgt.shape):
                            fill[o] = v
                        a.data[ci] = fill
                    else:
                        a.data[ci] = v
            except (ValueError, IndexError) as e:
                raise PyExc(type(e).__name__, str(e))
            return
        # symbolic index: per-entry ite update
        plan = plan_index(ctx, a.shape, idx)
        val = to_larr(v) if is_arr(v) else v
        for b in np.ndindex(*a.shape):
            cond, o = plan.bwd(b)
            if cond is False:
                continue
            newv = val.at(*bidx(val.shape, o)) if isinstance(val, LArr) else val
            a.data[b] = newv if cond is True else V.ite(cond, newv, a.data[b])
        return
    # LArr store
    if isinstance(idx, (LArr, CArr)) and idx.kind == 'bool':
        mask = to_larr(idx)
        root, rmap = root_of(a)
        if a.view_of is not None:
            raise Unsupported('mask store through a view')
        old = a.elem
        val = to_larr(v) if is_arr(v) else v
        if isinstance(val, LArr):
            raise Unsupported('mask store of an array value')
        a.elem = lambda i, old=old, mask=mask, val=val: V.ite(mask.at(*i), val, old(i)) if is_sym(mask.at(*i)) else (val if mask.at(*i) else old(i))
        return
    plan = plan_index(ctx, a.shape, idx)
    val = to_larr(v) if is_arr(v) else v
    if isinstance(val, LArr):
        bshape(plan.out_shape, val.shape, ctx)
        val = snapshot(val)
    if a.view_of is not None:
        vk = val.kind if isinstance(val, LArr) else V.kind(val)
        kind_check_store(ctx, a.kind, vk)

        def hit_view(i, plan=plan, val=val):
            cond, o = plan.bwd(i)
            if cond is False:
                return False, None
            return cond, (val.at(*bidx(val.shape, o)) if isinstance(val, LArr) else val)
        store_fn(ctx, a, hit_view)
        return
    old = a.elem
    try:
        plan.bwd(tuple(z3.Int(f'probe!{k}') for k in range(a.ndim)))
    except Unsupported as e:
        if not getattr(ctx, 'havoc_imprecise_stores', True):
            raise
        # sound over-approximation: contents after the store are arbitrary (fresh uninterpreted function)
        sort = {'bool': z3.BoolSort(), 'int': z3.IntSort(), 'real': z3.RealSort()}.get(a.kind)
        if sort is None:
            raise
        F = ctx.fresh_fun('havoc', *([z3.IntSort()] * a.ndim), sort)
        a.elem = lambda i, F=F: F(*[V.zint(x) for x in i])
        a.inv = None
        ctx.note(f'imprecise store at line {ctx.cur_line}: target havoc-ed ({e})')
        return

    def new(i, old=old, plan=plan, val=val):
        cond, o = plan.bwd(i)
        if cond is False:
            return old(i)
        nv = val.at(*bidx(val.shape, o)) if isinstance(val, LArr) else val
        if cond is True:
            return nv
        return V.ite(cond, nv, old(i))
    vk = val.kind if isinstance(val, LArr) else V.kind(val)
    kind_check_store(ctx, a.kind, vk)
    a.elem = new
    a.inv = None


def assign_inplace(ctx, cur, new):
    """cur op= ... : write `new` into cur's storage; returns cur"""
    nk = new.kind if is_arr(new) else V.kind(new)
    if V.KIND_ORDER[nk] > V.KIND_ORDER[cur.kind]:
        if nk == 'complex':
            raise PyExc('UFuncTypeError', "Cannot cast ufunc output from complex to real (same_kind)")
        if nk == 'real' and cur.kind in ('int', 'bool'):
            raise PyExc('UFuncTypeError', "Cannot cast ufunc output from float to int (same_kind)")
    if isinstance(cur, CArr):
        if isinstance(new, LArr):
            raise Unsupported('in-place update of concrete array by symbolic array')
        nd = as_data(new)
        if isinstance(nd, np.ndarray) and nd.shape != cur.data.shape:
            if np.broadcast_shapes(nd.shape, cur.data.shape) != cur.data.shape:
                raise PyExc('ValueError', f'non-broadcastable output operand with shape {cur.data.shape}')
        cur.data[...] = nd
        return cur
    new = to_larr(new) if is_arr(new) else new
    if isinstance(new, LArr):
        s = bshape(cur.shape, new.shape, ctx)
        if len(s) != len(cur.shape):
            raise PyExc('ValueError', 'non-broadcastable output operand')
        snap = snapshot(new)
        f = lambda i, snap=snap: snap.at(*bidx(snap.shape, i))
    else:
        f = lambda i, new=new: new
    if cur.view_of is not None:
        store_fn(ctx, cur, lambda i, f=f: (True, f(i)))
        return cur
    cur.elem = f
    cur.inv = None
    return cur
