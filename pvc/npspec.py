"""Library contracts: python builtins, numpy, scipy (the trusted base; DESIGN.md 2.4 / Appendix B).

The list is closed: a callee without an entry makes the caller *out of reach* (Unsupported).
"""
import functools
from fractions import Fraction
import numpy as np
import z3
from . import values as V
from . import arrays as A
from .values import Unsupported, PyExc, Obj, CArr, LArr, Cx, is_sym, is_arr
from .arrays import to_carr, to_larr, elementwise, wrap

NP = {}
NS_ATTR = {}


def np_fn(*names, ns='np'):
    def deco(f):
        for n in names:
            NP[(ns, n)] = f
        return f
    return deco


def _interp_types():
    from . import interp as I
    return I


# ------------------------------------------------------------------------------------------------ hooks used by Interp
def arr_binop(it, on, a, b):
    return A.arr_binop(it.ctx, on, a, b)


def arr_compare(it, sym, a, b):
    return A.arr_compare(it.ctx, sym, a, b)


def arr_unop(it, op, v):
    return A.arr_unop(it.ctx, op, v)


def arr_getitem(it, a, idx):
    return A.arr_getitem(it.ctx, a, idx)


def arr_setitem(it, a, idx, v, aug=False):
    return A.arr_setitem(it.ctx, a, idx, v, aug=aug)


def assign_inplace(it, cur, new):
    return A.assign_inplace(it.ctx, cur, new)


def arr_contains(it, cont, x):
    if isinstance(cont, CArr):
        r = False
        for c in cont.data.flat:
            r = V.or_(r, V.cmp('==', c, x))
        return r
    raise Unsupported('in symbolic array')


def obj_attr(it, o, attr):
    h = OBJ_ATTR.get(o.tag)
    if h is not None:
        return h(it, o, attr)
    return NotImplemented


def obj_binop(it, on, a, b):
    for o in (a, b):
        if isinstance(o, Obj) and o.tag in OBJ_BINOP:
            return OBJ_BINOP[o.tag](it, on, a, b)
    return NotImplemented


def obj_getitem(it, o, idx):
    h = OBJ_GETITEM.get(o.tag)
    return h(it, o, idx) if h else NotImplemented


def obj_setitem(it, o, idx, v):
    h = OBJ_SETITEM.get(o.tag)
    return h(it, o, idx, v) if h else NotImplemented


def obj_iter(it, o):
    h = OBJ_ITER.get(o.tag)
    return h(it, o) if h else NotImplemented


OBJ_ITER = {}


OBJ_ATTR, OBJ_BINOP, OBJ_GETITEM, OBJ_SETITEM = {}, {}, {}, {}


def cmp_inf(sym, a, b):
    """comparisons involving +-inf constants"""
    inf = float('inf')

    def side(v):
        return v if isinstance(v, float) else None
    fa, fb = side(a), side(b)
    if fa is not None and fb is not None:
        return {'<': fa < fb, '<=': fa <= fb, '>': fa > fb, '>=': fa >= fb, '==': fa == fb, '!=': fa != fb}[sym]
    if fa is not None:      # a is +-inf, b finite
        big = fa > 0
        return {'<': not big, '<=': not big, '>': big, '>=': big, '==': False, '!=': True}[sym]
    big = fb > 0
    return {'<': big, '<=': big, '>': not big, '>=': not big, '==': False, '!=': True}[sym]


def format_value(it, v, fmt, conv):
    I = _interp_types()
    if isinstance(v, str) and not fmt:
        return v
    if isinstance(v, (bool, int)) and not is_sym(v):
        return format(v, fmt or '')
    if isinstance(v, I.FStr):
        return v
    if v is None:
        return 'None'
    if isinstance(v, (list, tuple)) and all(isinstance(x, (int, str, bool)) and not is_sym(x) for x in v) and not fmt:
        return str(v) if conv in (None, -1, 115) else repr(v)
    return I.FStr([('val', v, fmt or '')])


def call_type(it, t, args, kwargs):
    n = t.name
    if n in ('int',):
        return b_int(it, *args)
    if n in ('float', 'np.float64', 'np.float32'):
        return b_float(it, *args)
    if n == 'bool':
        return it.truth(args[0]) if args else False
    if n == 'str':
        return b_str(it, *args)
    if n == 'complex':
        re = args[0] if args else 0
        im = args[1] if len(args) > 1 else 0
        return V.add(re, V.mul(Cx(0, 1), im))
    if n == 'list':
        return list(it.iterate(args[0])) if args else []
    if n == 'tuple':
        return tuple(it.iterate(args[0])) if args else ()
    if n == 'dict':
        d = dict(args[0]) if args else {}
        d.update(kwargs)
        return d
    if n == 'set':
        return set(it.iterate(args[0])) if args else set()
    if n == 'slice':
        return slice(*args)
    if n == 'object':
        return Obj(None, {}, tag='object')
    raise Unsupported(f'call of type {n}')


# ------------------------------------------------------------------------------------------------ builtins
def b_int(it, x=0, *a):
    if isinstance(x, str):
        return int(x)
    if isinstance(x, CArr) and x.size == 1:
        x = x.data.flat[0]
    if is_arr(x):
        raise PyExc('TypeError', 'only size-1 arrays can be converted to Python scalars')
    return V.trunc_int(x)


def b_float(it, x=0):
    if isinstance(x, str):
        if x.lower().strip('+-') in ('inf', 'infinity'):
            return float(x)
        return Fraction(x)
    if isinstance(x, CArr) and x.size == 1:
        x = x.data.flat[0]
    if isinstance(x, float):
        return x
    if isinstance(x, Cx):
        raise PyExc('TypeError', "can't convert complex to float")
    return V.to_real(x)


def b_str(it, x=''):
    if isinstance(x, str):
        return x
    if not is_sym(x) and isinstance(x, (bool, int)):
        return str(x)
    return format_value(it, x, None, None)


def b_len(it, x):
    I = _interp_types()
    if isinstance(x, (list, tuple, dict, str, set)):
        return len(x)
    if is_arr(x):
        if x.ndim == 0:
            raise PyExc('TypeError', 'len() of unsized object')
        return x.shape[0]
    if isinstance(x, I.SymList):
        return x.length
    if isinstance(x, Obj) and x.cls is not None and x.cls.find('__len__'):
        return it.call(x.cls.find('__len__'), [x])
    if isinstance(x, Obj) and x.tag == 'iter':
        raise PyExc('TypeError', 'len of generator')
    if isinstance(x, Obj) and x.tag in ('b64', 'packed'):
        n_ = it.ctx.fresh('nbytes', 'int')
        it.ctx.assume(n_ >= 0)
        return n_
    if isinstance(x, bytes):
        return len(x)
    if isinstance(x, I.FStr):
        raise Unsupported('len of symbolic string')
    raise PyExc('TypeError', f'object of type {type(x).__name__} has no len()')


def b_range(it, *args):
    I = _interp_types()
    args = [V.simp(a) if is_sym(a) else a for a in args]
    if all(isinstance(a, int) for a in args):
        return range(*args)
    if len(args) == 1:
        return I.SymRange(0, args[0])
    if len(args) == 2:
        return I.SymRange(args[0], args[1])
    raise Unsupported('symbolic range with step')


def b_isinstance(it, x, t):
    I = _interp_types()
    ts = t if isinstance(t, tuple) else (t,)
    for c in ts:
        if _isinst(it, x, c):
            return True
    return False


def pytype_name(x):
    I = _interp_types()
    if x is None:
        return 'NoneType'
    if isinstance(x, (bool, np.bool_)) or (is_sym(x) and z3.is_bool(x)):
        return 'bool'
    if isinstance(x, int) or (is_sym(x) and z3.is_int(x)):
        return 'int'
    if isinstance(x, (Fraction, float)) or (is_sym(x) and z3.is_real(x)):
        return 'float'
    if isinstance(x, Cx):
        return 'complex'
    if isinstance(x, (str, I.FStr)):
        return 'str'
    if isinstance(x, list):
        return 'list'
    if isinstance(x, tuple):
        return 'tuple'
    if isinstance(x, dict):
        return 'dict'
    if isinstance(x, set):
        return 'set'
    if isinstance(x, slice):
        return 'slice'
    if is_arr(x):
        return 'ndarray'
    if isinstance(x, Obj):
        if x.cls is not None:
            return x.cls.name
        return x.fields.get('pytype', x.tag or 'object')
    if x is Ellipsis:
        return 'ellipsis'
    if isinstance(x, (I.Closure, I.Builtin, I.BoundMethod)):
        return 'function'
    return type(x).__name__


NUMBER_TOWER = {
    'numbers.Number': ('bool', 'int', 'float', 'complex'), 'numbers.Complex': ('bool', 'int', 'float', 'complex'),
    'numbers.Real': ('bool', 'int', 'float'), 'numbers.Integral': ('bool', 'int'),
    'np.number': (), 'np.integer': (), 'np.floating': (), 'np.complexfloating': (), 'np.generic': (),
    'float': ('float',), 'int': ('int', 'bool'), 'complex': ('complex',), 'bool': ('bool',),
}


def _isinst(it, x, c):
    I = _interp_types()
    tn = pytype_name(x)
    if isinstance(c, I.ClassInfo):
        return isinstance(x, Obj) and x.cls is not None and (c in x.cls.mro())
    if isinstance(c, I.ExcClass):
        return isinstance(x, Obj) and x.tag is not None and x.tag.startswith('exc:') and V.exc_isinstance(x.tag[4:], c.name)
    if isinstance(c, I.TypeTag):
        if c.name in NUMBER_TOWER:
            if isinstance(x, Obj) and x.fields.get('npscalar'):
                return c.name.startswith('np.') or tn in NUMBER_TOWER[c.name]
            return tn in NUMBER_TOWER[c.name]
        if c.name in ('np.ndarray',):
            return tn == 'ndarray'
        if c.name == 'object':
            return True
        if c.name.startswith('sps.') or c.name.startswith('scipy.'):
            return isinstance(x, Obj) and x.fields.get('sparse_format') is not None and \
                (c.name in ('sps.spmatrix', 'sps.sparray') or c.name.endswith(x.fields.get('sparse_format', '?') + '_matrix') or c.name.endswith(x.fields.get('sparse_format', '?') + '_array'))
        return tn == c.name
    if isinstance(c, I.Builtin):
        if c.name.startswith('sps.'):
            return isinstance(x, Obj) and x.fields.get('sparse_format') is not None and c.name[4:].split('_')[0] == x.fields['sparse_format']
        return tn == c.name
    raise Unsupported(f'isinstance against {c!r}')


def b_hasattr(it, o, name):
    if name == '__len__':
        I = _interp_types()
        if isinstance(o, (list, tuple, dict, str, set, I.SymList)):
            return True
        if is_arr(o):
            return o.ndim > 0 or True       # ndarray defines __len__ (calling it on a 0-d array raises)
        if V.is_scalar(o) or o is None:
            return False
    try:
        it.getattr(o, name)
        return True
    except PyExc as e:
        if e.cls == 'AttributeError':
            return False
        raise
    except Unsupported as e:
        if 'attribute' in str(e):
            return False
        raise


def b_getattr(it, o, name, *default):
    try:
        return it.getattr(o, name)
    except PyExc as e:
        if e.cls == 'AttributeError' and default:
            return default[0]
        raise


def b_minmax(which):
    f = V.maxv if which == 'max' else V.minv

    def g(it, *args, **kw):
        if len(args) == 1 and isinstance(args[0], LArr) and args[0].ndim == 1 and is_sym(V.simp(args[0].shape[0]) if is_sym(args[0].shape[0]) else args[0].shape[0]):
            from . import nplib
            return (nplib.np_max if which == 'max' else nplib.np_min)(it, args[0])      # python max()/min() over a 1-D array == np.max / np.min
        if len(args) == 1:
            items = it.iterate(args[0])
        else:
            items = list(args)
        if not items:
            if 'default' in kw:
                return kw['default']
            raise PyExc('ValueError', f'{which}() arg is an empty sequence')
        for v in items:
            if isinstance(v, float):
                return _minmax_inf(which, items)
        return functools.reduce(f, items)
    return g


def _minmax_inf(which, items):
    fin = [v for v in items if not isinstance(v, float)]
    infs = [v for v in items if isinstance(v, float)]
    if which == 'max':
        if any(v > 0 for v in infs):
            return float('inf')
        return functools.reduce(V.maxv, fin) if fin else infs[0]
    if any(v < 0 for v in infs):
        return float('-inf')
    return functools.reduce(V.minv, fin) if fin else infs[0]


def b_sum(it, x, start=0):
    return functools.reduce(lambda a, b: it.binop(_ADD, a, b), it.iterate(x), start)


import ast as _ast
_ADD = _ast.Add()


def b_all(it, x):
    r = True
    for v in it.iterate(x):
        if is_sym(v):
            r = V.and_(r, V.zbool(v))
        elif not it.truth(v):
            return False
    return r


def b_any(it, x):
    r = False
    for v in it.iterate(x):
        if is_sym(v):
            r = V.or_(r, V.zbool(v))
        elif it.truth(v):
            return True
    return r


def b_enumerate(it, x, start=0):
    return [(i + start, v) for i, v in enumerate(it.iterate(x))]


def b_zip(it, *xs, strict=False):
    return list(zip(*[it.iterate(x) for x in xs]))


def b_next(it, x, *default):
    items = it.iterate(x)
    if items:
        return items[0]
    if default:
        return default[0]
    raise PyExc('StopIteration', '')


def b_type(it, x):
    I = _interp_types()
    if isinstance(x, Obj) and x.cls is not None:
        return x.cls
    if isinstance(x, Obj) and x.tag and x.tag.startswith('exc:'):
        return I.ExcClass(x.tag[4:])
    return I.TypeTag(pytype_name(x))


def b_abs(it, x):
    if is_arr(x):
        return elementwise(it.ctx, V.absv, x)
    if isinstance(x, Obj) and x.cls is not None and x.cls.find('__abs__'):
        return it.call(x.cls.find('__abs__'), [x])
    return V.absv(x)


def b_round(it, x, nd=None):
    if not is_sym(x):
        return round(V.exact(x), nd) if nd is not None else round(V.exact(x))
    if nd is not None:
        raise Unsupported('round of symbolic value to digits')
    if z3.is_int(x):
        return x
    # python round(): nearest integer, ties to even
    h = x + z3.RealVal('1/2')
    f = z3.ToInt(h)
    return z3.If(z3.And(z3.ToReal(f) == h, f % 2 == 1), f - 1, f)


def b_print(it, *a, **k):
    return None


def b_sorted(it, x, key=None, reverse=False):
    items = it.iterate(x)
    if key is not None:
        raise Unsupported('sorted with key')
    if any(is_sym(v) for v in items):
        raise Unsupported('sorted on symbolic values')
    return sorted(items, reverse=reverse)


def b_reversed(it, x):
    return list(reversed(it.iterate(x)))


def b_issubclass(it, a, b):
    I = _interp_types()
    if isinstance(a, I.ClassInfo) and isinstance(b, I.ClassInfo):
        return b in a.mro()
    if isinstance(a, I.TypeTag):
        return False
    raise Unsupported('issubclass')


def b_id(it, x):
    return id(x)


def b_callable(it, x):
    I = _interp_types()
    return isinstance(x, (I.Closure, I.Builtin, I.BoundMethod, I.ClassInfo)) or (isinstance(x, Obj) and x.cls is not None and x.cls.find('__call__') is not None)


def b_divmod(it, a, b):
    return (V.floordiv(a, b), V.mod(a, b))


def b_pow(it, a, b):
    return V.pw(a, b)


BUILTINS = {
    'len': b_len, 'range': b_range, 'isinstance': b_isinstance, 'hasattr': b_hasattr, 'getattr': b_getattr,
    'max': b_minmax('max'), 'min': b_minmax('min'), 'sum': b_sum, 'all': b_all, 'any': b_any, 'enumerate': b_enumerate,
    'zip': b_zip, 'next': b_next, 'type': b_type, 'abs': b_abs, 'round': b_round, 'print': b_print, 'sorted': b_sorted,
    'reversed': b_reversed, 'issubclass': b_issubclass, 'id': b_id, 'callable': b_callable, 'divmod': b_divmod, 'pow': b_pow,
    'iter': lambda it, x: Obj(None, {'items': it.iterate(x)}, tag='iter'),
    'repr': lambda it, x: b_str(it, x), 'hex': lambda it, x: hex(x), 'chr': lambda it, x: chr(x), 'ord': lambda it, x: ord(x),
    'setattr': lambda it, o, n, v: it.setattr(o, n, v),
}
TYPE_NAMES = ['int', 'float', 'bool', 'str', 'complex', 'list', 'tuple', 'dict', 'set', 'slice', 'object']
EXC_NAMES = ['Exception', 'TypeError', 'ValueError', 'IndexError', 'KeyError', 'ZeroDivisionError', 'AssertionError',
             'NotImplementedError', 'RuntimeError', 'AttributeError', 'StopIteration', 'ImportError', 'SyntaxError',
             'Warning', 'RuntimeWarning', 'UserWarning', 'OSError', 'LookupError', 'ArithmeticError', 'BaseException']


def builtin(it, name):
    I = _interp_types()
    if name in BUILTINS:
        return I.Builtin(name, BUILTINS[name], wants_interp=True)
    if name in TYPE_NAMES:
        return I.TypeTag(name)
    if name in EXC_NAMES:
        return I.ExcClass(name)
    if name == 'Ellipsis':
        return Ellipsis
    if name == 'NotImplemented':
        return NotImplemented
    if name == '__file__':
        return '<repo>'
    if name == '__name__':
        return '<module>'
    if name == 'open':
        return I.Builtin('open', lib_open, wants_interp=True)
    return None


# ------------------------------------------------------------------------------------------------ files (effect trace)
def lib_open(it, filename, mode='r', *a, **k):
    f = Obj(None, {'filename': filename, 'mode': mode, 'writes': []}, tag='file')
    it.trace.append(('open', filename, mode, f))
    return f


def _file_attr(it, o, attr):
    I = _interp_types()
    if attr == 'write':
        def w(data):
            o.fields['writes'].append(data)
            it.trace.append(('write', o, data))
        return I.Builtin('file.write', w)
    if attr in ('__enter__',):
        return I.Builtin('enter', lambda: o)
    if attr in ('close', 'flush', '__exit__'):
        return I.Builtin(attr, lambda *a: None)
    return NotImplemented


OBJ_ATTR['file'] = _file_attr


def _path_attr(it, o, attr):
    I = _interp_types()
    if attr == 'parent':
        return Obj(None, {'path': o.fields['path']}, tag='path')
    if attr == 'mkdir':
        return I.Builtin('mkdir', lambda *a, **k: None)
    return NotImplemented


OBJ_ATTR['path'] = _path_attr


# ------------------------------------------------------------------------------------------------ attributes of values
def value_attr(it, o, attr):
    I = _interp_types()
    B = lambda f: I.Builtin(attr, f)
    if is_arr(o):
        return arr_attr(it, o, attr)
    if isinstance(o, (str, I.FStr)):
        return str_attr(it, o, attr)
    if isinstance(o, list):
        if attr == 'append':
            return B(lambda x: o.append(x))
        if attr == 'extend':
            return B(lambda x: o.extend(it.iterate(x)))
        if attr == 'clear':
            return B(lambda: o.clear())
        if attr == 'copy':
            return B(lambda: list(o))
        if attr == 'pop':
            return B(lambda *a: o.pop(*a))
        if attr == 'insert':
            return B(lambda i, x: o.insert(i, x))
        if attr == 'index':
            return B(lambda x: o.index(x))
        if attr == 'reverse':
            return B(lambda: o.reverse())
        if attr == 'sort':
            return B(lambda **k: o.sort(**k))
        if attr == 'count':
            return B(lambda x: o.count(x))
    if isinstance(o, tuple):
        if attr == 'index':
            return B(lambda x: o.index(x))
        if attr == 'count':
            return B(lambda x: o.count(x))
    if isinstance(o, dict):
        if attr == 'items':
            return B(lambda: list(o.items()))
        if attr == 'keys':
            return B(lambda: list(o.keys()))
        if attr == 'values':
            return B(lambda: list(o.values()))
        if attr == 'get':
            return B(lambda k, d=None: o.get(k, d))
        if attr == 'update':
            return B(lambda *a, **k: o.update(*a, **k))
        if attr == 'pop':
            return B(lambda *a: o.pop(*a))
        if attr == 'copy':
            return B(lambda: dict(o))
        if attr == 'setdefault':
            return B(lambda k, d=None: o.setdefault(k, d))
    if isinstance(o, set):
        if attr == 'update':
            return B(lambda x: o.update(it.iterate(x)))
        if attr == 'add':
            return B(lambda x: o.add(x))
    if isinstance(o, slice):
        if attr in ('start', 'stop', 'step'):
            return getattr(o, attr)
    if V.is_scalar(o):
        if attr == 'real':
            return V.real_part(o)
        if attr == 'imag':
            return V.imag_part(o)
        if attr == 'conj' or attr == 'conjugate':
            return B(lambda: V.conj(o))
        if attr == 'shape':
            return ()
        if attr == 'ndim':
            return 0
        if attr == 'size':
            return 1
        if attr == '__format__':
            return B(lambda fmt: format_value(it, o, fmt, None))
        if attr == 'dtype':
            return dtype_of(o)
        if attr == 'copy':
            return B(lambda: o)
        if attr == 'item':
            return B(lambda: o)
        if attr == 'is_integer':
            return B(lambda: V.cmp('==', V.floor(o), o))
        raise PyExc('AttributeError', f'scalar has no attribute {attr}')
    if isinstance(o, I.Builtin) and o.name in ('np.maximum', 'np.minimum') and attr == 'reduce':
        from . import nplib
        fn2 = nplib.NP[('np', o.name[3:])]

        def red(itp, seq, axis=0, **k):
            items = itp.iterate(seq)
            if axis != 0 or not items:
                raise Unsupported('ufunc.reduce form')
            acc = items[0]
            for x in items[1:]:
                acc = fn2(itp, acc, x)
            return acc
        return I.Builtin(o.name + '.reduce', red, wants_interp=True)
    if isinstance(o, I.Builtin) and o.name == 'np.add' and attr == 'at':
        from . import nplib
        return I.Builtin('np.add.at', nplib.np_add_at, wants_interp=True)
    if isinstance(o, I.ExcClass):
        if attr == '__name__':
            return o.name
    if isinstance(o, I.TypeTag):
        if attr == '__name__':
            return o.name
    if isinstance(o, (I.Closure,)):
        if attr == '__name__':
            return o.name
        if attr == '__self__':
            raise Unsupported('function __self__')
    if isinstance(o, I.BoundMethod):
        if attr == '__self__':
            return o.self_obj
        if attr == '__name__':
            return o.fn.name
    if o is None:
        raise PyExc('AttributeError', f"'NoneType' object has no attribute '{attr}'")
    raise Unsupported(f'attribute {attr} of {type(o).__name__}')


def str_attr(it, o, attr):
    I = _interp_types()
    B = lambda f: I.Builtin(attr, f)
    if isinstance(o, I.FStr):
        if attr == 'encode':
            return B(lambda *a: o)
        if attr == 'format':
            raise Unsupported('format on symbolic string')
        raise Unsupported(f'symbolic string method {attr}')
    if attr == 'format':
        def fmt(*args, **kw):
            if all(isinstance(a, (str, int, bool)) and not is_sym(a) for a in list(args) + list(kw.values())):
                return o.format(*args, **kw)
            return format_template(it, o, args, kw)
        return B(fmt)
    if attr == 'encode':
        return B(lambda *a: o)
    if attr == 'join':
        def join(xs):
            xs = it.iterate(xs)
            if all(isinstance(x, str) for x in xs):
                return o.join(xs)
            parts = []
            for i, x in enumerate(xs):
                if i:
                    parts.append(o)
                parts.extend(x.parts if isinstance(x, I.FStr) else [x])
            return I.FStr(parts)
        return B(join)
    if attr in ('lower', 'upper', 'strip', 'split', 'startswith', 'endswith', 'replace', 'find', 'count', 'isdigit',
                'lstrip', 'rstrip', 'index', 'rfind', 'title', 'capitalize', 'isalpha', 'splitlines', 'rsplit', 'zfill'):
        return B(lambda *a, **k: getattr(o, attr)(*a, **k))
    raise Unsupported(f'str method {attr}')


def format_template(it, tmpl, args, kw):
    """str.format with symbolic arguments -> FStr"""
    import string
    I = _interp_types()
    parts = []
    auto = 0
    for lit, field, spec, conv in string.Formatter().parse(tmpl):
        if lit:
            parts.append(lit)
        if field is None:
            continue
        if field == '':
            v = args[auto]
            auto += 1
        elif field.isdigit():
            v = args[int(field)]
        else:
            v = kw[field]
        fv = format_value(it, v, spec or None, conv)
        parts.extend(fv.parts if isinstance(fv, I.FStr) else [fv])
    merged = []
    for p in parts:
        if isinstance(p, str) and merged and isinstance(merged[-1], str):
            merged[-1] += p
        else:
            merged.append(p)
    return ''.join(merged) if all(isinstance(p, str) for p in merged) else I.FStr(merged)


def dtype_of(o):
    k = o.kind if is_arr(o) else V.kind(o)
    return Obj(None, {'kind': k}, tag='dtype')


def _dtype_attr(it, o, attr):
    if attr == 'itemsize':
        return {'bool': 1, 'int': 8, 'real': 8, 'complex': 16}[o.fields['kind']]
    if attr == 'kind':
        return {'bool': 'b', 'int': 'i', 'real': 'f', 'complex': 'c'}[o.fields['kind']]
    if attr == 'type':
        return _interp_types().TypeTag({'bool': 'np.bool_', 'int': 'np.int64', 'real': 'np.float64', 'complex': 'np.complex128'}[o.fields['kind']])
    return NotImplemented


OBJ_ATTR['dtype'] = _dtype_attr


def kind_from_dtype(dt):
    I = _interp_types()
    if dt is None:
        return None
    if isinstance(dt, Obj) and dt.tag == 'dtype':
        return dt.fields['kind']
    if isinstance(dt, I.TypeTag):
        n = dt.name
        if n in ('int', 'np.int32', 'np.int64', 'np.uint32', 'np.uint64', 'np.intp', 'np.int_'):
            return 'int'
        if n in ('float', 'np.float64', 'np.float32', 'np.double', 'np.float_'):
            return 'real'
        if n in ('complex', 'np.complex128', 'np.complex64', 'np.complex_'):
            return 'complex'
        if n in ('bool', 'np.bool_'):
            return 'bool'
        if n == 'object':
            return None
    if isinstance(dt, str):
        return {'int': 'int', 'float': 'real', 'complex': 'complex', 'bool': 'bool', 'float64': 'real', 'int64': 'int',
                'complex128': 'complex', 'float32': 'real', 'int32': 'int'}[dt]
    raise Unsupported(f'dtype {dt!r}')


from . import nplib  # noqa: E402  (registers numpy/scipy functions; defines arr_attr, ns_attr)
arr_attr = nplib.arr_attr
ns_attr = nplib.ns_attr
