"""Value domains of the pvc symbolic executor.

Scalars   : python bool/int/Fraction (exact), z3 Bool/Int/Real terms, Cx (complex as a pair of reals)
CArr      : ndarray of *concrete* shape whose entries are scalars (numpy object array; numpy's own view semantics)
LArr      : ndarray of *symbolic* shape, given by an element function index-tuple -> scalar ("lambda array")
Obj       : instance of a class defined in /repo (fields dict)  /  opaque ghost objects
Assumed semantics (reported in every evidence file): python int and numpy integer arrays are mathematical integers,
float/complex and numpy floating arrays are reals / pairs of reals.
"""
import itertools
from fractions import Fraction
import numpy as np
import z3


class Unsupported(Exception):
    """construct outside the supported subset: the function is *out of reach* (never a violation)"""


class GhostList(list):
    """values a watched local of a function under contract took (Interp.watches).  A contract that reads a local the code never assigns (the
    local was renamed or removed) has lost its anchor: the harness is OUT OF REACH (the bounded contract stands in), not broken."""
    def __init__(self, name, where):
        super().__init__()
        self.name, self.where = name, where

    def _need(self):
        if not len(self):
            raise Unsupported(f'contract anchor lost: local {self.name!r} is never assigned in {self.where}')

    def __getitem__(self, i):
        if not isinstance(i, slice):
            self._need()
        return super().__getitem__(i)

    def count(self):
        self._need()
        return len(self)


class PyExc(Exception):
    """an exception raised by the interpreted program"""
    def __init__(self, cls, msg='', payload=None):
        super().__init__(f"{cls}: {msg}")
        self.cls = cls
        self.msg = msg
        self.payload = payload


EXC_PARENTS = {
    'Exception': 'BaseException', 'TypeError': 'Exception', 'ValueError': 'Exception', 'IndexError': 'LookupError',
    'KeyError': 'LookupError', 'LookupError': 'Exception', 'ZeroDivisionError': 'ArithmeticError',
    'ArithmeticError': 'Exception', 'AssertionError': 'Exception', 'NotImplementedError': 'RuntimeError',
    'RuntimeError': 'Exception', 'AttributeError': 'Exception', 'StopIteration': 'Exception',
    'UFuncTypeError': 'TypeError', 'LinAlgError': 'ValueError', 'ImportError': 'Exception', 'SyntaxError': 'Exception',
    'Warning': 'Exception', 'RuntimeWarning': 'Warning', 'UserWarning': 'Warning', 'OSError': 'Exception',
}


def exc_isinstance(cls, target):
    while cls is not None:
        if cls == target:
            return True
        cls = EXC_PARENTS.get(cls)
    return False


# ------------------------------------------------------------------------------------------------ scalars
class Cx:
    """complex scalar as a pair of real scalars"""
    __slots__ = ('re', 'im')

    def __init__(self, re, im):
        self.re, self.im = re, im

    def __repr__(self):
        return f"Cx({self.re}, {self.im})"


def is_sym(v):
    return isinstance(v, z3.ExprRef)


def is_num(v):
    return isinstance(v, (int, Fraction, bool, np.integer)) or isinstance(v, float)


def is_scalar(v):
    return is_num(v) or is_sym(v) or isinstance(v, Cx)


def exact(v):
    """normalise a concrete python number to bool/int/Fraction"""
    if isinstance(v, (bool, np.bool_)):
        return bool(v)
    if isinstance(v, (int, np.integer)):
        return int(v)
    if isinstance(v, (float, np.floating)):
        if v != v or v in (float('inf'), float('-inf')):
            raise Unsupported('non-finite float constant')
        return Fraction(repr(float(v)))
    return v


def kind(v):
    if isinstance(v, Cx):
        return 'complex'
    if isinstance(v, (bool, np.bool_)):
        return 'bool'
    if isinstance(v, (int, np.integer)):
        return 'int'
    if isinstance(v, (Fraction, float, np.floating)):
        return 'real'
    if isinstance(v, complex):
        return 'complex'
    if is_sym(v):
        if z3.is_bool(v):
            return 'bool'
        if z3.is_int(v):
            return 'int'
        if z3.is_real(v):
            return 'real'
    raise Unsupported(f'kind of {type(v).__name__}')


KIND_ORDER = {'bool': 0, 'int': 1, 'real': 2, 'complex': 3}


def z(v):
    """lift to a z3 term"""
    if is_sym(v):
        return v
    v = exact(v)
    if isinstance(v, bool):
        return z3.BoolVal(v)
    if isinstance(v, int):
        return z3.IntVal(v)
    if isinstance(v, Fraction):
        return z3.RealVal(str(v))
    raise Unsupported(f'cannot lift {type(v).__name__} to z3')


def zint(v):
    v = z(v)
    if z3.is_bool(v):
        return z3.If(v, z3.IntVal(1), z3.IntVal(0))
    if z3.is_real(v):
        raise Unsupported('real used as integer')
    return v


def zreal(v):
    v = z(v)
    if z3.is_bool(v):
        return z3.If(v, z3.RealVal(1), z3.RealVal(0))
    if z3.is_int(v):
        return z3.ToReal(v)
    return v


def zbool(v):
    if isinstance(v, Cx):
        return z3.Or(zbool(v.re), zbool(v.im))
    v = z(v)
    if z3.is_bool(v):
        return v
    return v != 0


def simp(v):
    if is_sym(v):
        v = z3.simplify(v)
        if z3.is_true(v):
            return True
        if z3.is_false(v):
            return False
        if z3.is_int_value(v):
            return v.as_long()
        if z3.is_rational_value(v):
            return Fraction(v.numerator_as_long(), v.denominator_as_long())
    return v


def _num2(a, b):
    """coerce two non-complex scalars to a common numeric representation; returns (a, b, symbolic?)"""
    sa, sb = is_sym(a), is_sym(b)
    if not sa:
        a = exact(a)
    if not sb:
        b = exact(b)
    if not sa and not sb:
        if isinstance(a, bool):
            a = int(a)
        if isinstance(b, bool):
            b = int(b)
        return a, b, False
    ka, kb = kind(a), kind(b)
    if 'real' in (ka, kb):
        return zreal(a), zreal(b), True
    return zint(a), zint(b), True


def cx(v):
    return v if isinstance(v, Cx) else (Cx(Fraction(v.real).limit_denominator(10**12), Fraction(v.imag).limit_denominator(10**12))
                                        if isinstance(v, complex) else Cx(v, 0))


def add(a, b):
    if isinstance(a, (Cx, complex)) or isinstance(b, (Cx, complex)):
        a, b = cx(a), cx(b)
        return Cx(add(a.re, b.re), add(a.im, b.im))
    a, b, s = _num2(a, b)
    if not s:
        return a + b
    if _is_zero(a):
        return b
    if _is_zero(b):
        return a
    return a + b


def _is_zero(v):
    return (z3.is_int_value(v) and v.as_long() == 0) or (z3.is_rational_value(v) and v.numerator_as_long() == 0)


def _is_one(v):
    return (z3.is_int_value(v) and v.as_long() == 1) or \
        (z3.is_rational_value(v) and v.numerator_as_long() == 1 and v.denominator_as_long() == 1)


def neg(a):
    if isinstance(a, (Cx, complex)):
        a = cx(a)
        return Cx(neg(a.re), neg(a.im))
    if is_sym(a):
        return -zint(a) if kind(a) in ('bool', 'int') else -a
    a = exact(a)
    return -int(a) if isinstance(a, bool) else -a


def sub(a, b):
    if isinstance(a, (Cx, complex)) or isinstance(b, (Cx, complex)):
        a, b = cx(a), cx(b)
        return Cx(sub(a.re, b.re), sub(a.im, b.im))
    a, b, s = _num2(a, b)
    if not s:
        return a - b
    if _is_zero(b):
        return a
    return a - b


def mul(a, b):
    if isinstance(a, (Cx, complex)) or isinstance(b, (Cx, complex)):
        a, b = cx(a), cx(b)
        return Cx(sub(mul(a.re, b.re), mul(a.im, b.im)), add(mul(a.re, b.im), mul(a.im, b.re)))
    a, b, s = _num2(a, b)
    if not s:
        return a * b
    if _is_zero(a) or _is_zero(b):
        return z3.RealVal(0) if (z3.is_real(a) or z3.is_real(b)) else 0
    if _is_one(a):
        return b
    if _is_one(b):
        return a
    return a * b


def conj(a):
    if isinstance(a, (Cx, complex)):
        a = cx(a)
        return Cx(a.re, neg(a.im))
    return a


def div(a, b):
    """true division"""
    if isinstance(a, (Cx, complex)) or isinstance(b, (Cx, complex)):
        a, b = cx(a), cx(b)
        d = add(mul(b.re, b.re), mul(b.im, b.im))
        n = mul(a, conj(b))
        return Cx(div(n.re, d), div(n.im, d))
    a, b, s = _num2(a, b)
    if not s:
        if b == 0:
            raise PyExc('ZeroDivisionError', 'division by zero')
        return Fraction(a) / Fraction(b)
    if _is_one(b):
        return zreal(a)
    return zreal(a) / zreal(b)


def floordiv(a, b):
    a, b, s = _num2(a, b)
    if not s:
        if b == 0:
            raise PyExc('ZeroDivisionError', 'integer division by zero')
        return a // b
    if z3.is_real(a) or z3.is_real(b):
        return z3.ToReal(z3.ToInt(zreal(a) / zreal(b)))
    if z3.is_int_value(b):
        return a / b if b.as_long() > 0 else (-a) / (-b)
    if ORACLE is not None and ORACLE(b > 0):
        return a / b
    return z3.If(b > 0, a / b, (-a) / (-b))          # z3 integer '/' is Euclidean div: equals floor for positive divisors


def mod(a, b):
    a, b, s = _num2(a, b)
    if not s:
        if b == 0:
            raise PyExc('ZeroDivisionError', 'integer modulo by zero')
        return a % b
    if z3.is_real(a) or z3.is_real(b):
        raise Unsupported('real modulo')
    if z3.is_int_value(b) and b.as_long() > 0:
        return a % b
    if ORACLE is not None and ORACLE(b > 0):
        return a % b
    return a - b * floordiv(a, b)


COMPLEX_ORDER = 'python'
ORACLE = None     # set by the active Context: formula -> True when it follows from the current hypotheses


class Ghost:
    """ghost/uninterpreted real functions shared by the encoding (sqrt, exp, log, rpow ...) plus the facts used about them"""
    fns = {}

    @classmethod
    def fn(cls, name, arity=1, sort=None):
        key = (name, arity)
        if key not in cls.fns:
            sort = sort or z3.RealSort()
            cls.fns[key] = z3.Function(name, *([z3.RealSort()] * arity), sort)
        return cls.fns[key]


SIDE = []   # side facts produced by scalar operations (e.g. sqrt(x)^2 == x); collected by the active context


def _side(f):
    SIDE.append(f)


def sqrt(a):
    if isinstance(a, complex):
        a = Cx(Fraction(repr(a.real)), Fraction(repr(a.imag)))
    if isinstance(a, Cx):
        # principal complex square root s = p + i q:  s*s == a,  p >= 0  (and q >= 0 when p == 0)
        x, y = zreal(a.re), zreal(a.im)
        p_, q_ = Ghost.fn('csqrt_re', 2)(x, y), Ghost.fn('csqrt_im', 2)(x, y)
        _side(z3.And(p_ * p_ - q_ * q_ == x, 2 * p_ * q_ == y, p_ >= 0, z3.Implies(p_ == 0, q_ >= 0)))
        return Cx(p_, q_)
    if not is_sym(a):
        a = exact(a)
        if a < 0:
            raise Unsupported('sqrt of negative constant')
        fr = Fraction(a)
        import math
        n, d = math.isqrt(fr.numerator), math.isqrt(fr.denominator)
        if n * n == fr.numerator and d * d == fr.denominator:
            return Fraction(n, d) if d != 1 else n
    x = zreal(a)
    s = Ghost.fn('sqrt')(x)
    _side(z3.Implies(x >= 0, z3.And(s >= 0, s * s == x)))
    return s


def pw(a, b):
    """a ** b"""
    if not is_sym(b):
        b = exact(b)
        if isinstance(b, (int, bool)) or (isinstance(b, Fraction) and b.denominator == 1):
            n = int(b)
            if not is_sym(a) and not isinstance(a, (Cx, complex)):
                a = exact(a)
                if n >= 0 or a != 0:
                    return Fraction(a) ** n if (n < 0 or isinstance(a, Fraction)) else a ** n
            if 0 <= n <= 8:
                r = 1
                for _ in range(n):
                    r = mul(r, a)
                return r
            if -8 <= n < 0:
                return div(1, pw(a, -n))
        if isinstance(b, Fraction) and b == Fraction(1, 2):
            return sqrt(a)
    if isinstance(a, (Cx, complex)) or isinstance(b, (Cx, complex)):
        raise Unsupported('complex power')
    x, p = z3.simplify(zreal(a)), z3.simplify(zreal(b))
    rp = Ghost.fn('rpow', 2)
    r = rp(x, p)
    # library facts about real powers of a positive base: positivity, x^p = x^(p-1) x, x^(p+1) = x^p x, (a^b)^c = a^(bc) (and = a when bc = 1)
    _side(z3.Implies(x > 0, z3.And(r > 0, r == rp(x, p - 1) * x, rp(x, p + 1) == r * x, rp(x, z3.RealVal(1)) == x, rp(x, z3.RealVal(0)) == 1)))
    if z3.is_app(x) and x.decl().name() == 'rpow':
        a0, b0 = x.arg(0), x.arg(1)
        _side(z3.Implies(a0 > 0, z3.And(r == rp(a0, b0 * p), z3.Implies(b0 * p == 1, r == a0))))
    return r


def exp(a):
    x = zreal(a)
    r = Ghost.fn('exp')(x)
    _side(r > 0)
    return r


def log(a):
    x = zreal(a)
    r = Ghost.fn('log')(x)
    _side(z3.Implies(x > 0, Ghost.fn('exp')(r) == x))
    return r


def absv(a):
    if isinstance(a, (Cx, complex)):
        a = cx(a)
        return sqrt(add(mul(a.re, a.re), mul(a.im, a.im)))
    if not is_sym(a):
        return abs(exact(a))
    return z3.If(a >= 0, a, -a)


def sign(a):
    if not is_sym(a):
        a = exact(a)
        return (a > 0) - (a < 0)
    zero = z3.RealVal(0) if z3.is_real(a) else z3.IntVal(0)
    one = z3.RealVal(1) if z3.is_real(a) else z3.IntVal(1)
    return z3.If(a > 0, one, z3.If(a < 0, -one, zero))


def cmp(op, a, b):
    if isinstance(a, (Cx, complex)) or isinstance(b, (Cx, complex)):
        a, b = cx(a), cx(b)
        if op == '==':
            return and_(cmp('==', a.re, b.re), cmp('==', a.im, b.im))
        if op == '!=':
            return not_(cmp('==', a, b))
        if COMPLEX_ORDER == 'numpy':
            # numpy complex scalars / arrays order lexicographically (real part first); python complex raises TypeError.  The provenance of a value is
            # not tracked, so a harness that knows its complex values are numpy values opts in (V.COMPLEX_ORDER = 'numpy', reset on every path)
            a_, b_ = cx(a), cx(b)
            lt = or_(cmp('<', a_.re, b_.re), and_(cmp('==', a_.re, b_.re), cmp('<', a_.im, b_.im)))
            eq = and_(cmp('==', a_.re, b_.re), cmp('==', a_.im, b_.im))
            return {'<': lt, '<=': or_(lt, eq), '>': not_(or_(lt, eq)), '>=': not_(lt)}[op]
        raise PyExc('TypeError', 'ordering of complex numbers')
    if isinstance(a, str) or isinstance(b, str) or a is None or b is None:
        same_type = (isinstance(a, str) and isinstance(b, str)) or (a is None and b is None)
        if op == '==':
            return (a == b) if same_type else False          # a number never equals a string / None
        if op == '!=':
            return (a != b) if same_type else True
        raise Unsupported('ordering of non-numbers')
    if (is_sym(a) and z3.is_bool(a)) and (is_sym(b) and z3.is_bool(b)) and op in ('==', '!='):
        return simp(a == b) if op == '==' else simp(a != b)
    a, b, s = _num2(a, b)
    r = {'<': lambda: a < b, '<=': lambda: a <= b, '>': lambda: a > b, '>=': lambda: a >= b,
         '==': lambda: a == b, '!=': lambda: a != b}[op]()
    return simp(r) if s else bool(r)


def and_(a, b):
    if not is_sym(a) and not is_sym(b):
        return bool(a) and bool(b)
    if not is_sym(a):
        return b if a else False
    if not is_sym(b):
        return a if b else False
    return z3.And(zbool(a), zbool(b))


def or_(a, b):
    if not is_sym(a) and not is_sym(b):
        return bool(a) or bool(b)
    if not is_sym(a):
        return True if a else b
    if not is_sym(b):
        return True if b else a
    return z3.Or(zbool(a), zbool(b))


def not_(a):
    if not is_sym(a):
        return not a
    return simp(z3.Not(zbool(a)))


def ite(c, a, b):
    if not is_sym(c):
        return a if c else b
    if isinstance(a, (Cx, complex)) or isinstance(b, (Cx, complex)):
        a, b = cx(a), cx(b)
        return Cx(ite(c, a.re, b.re), ite(c, a.im, b.im))
    if a is b:
        return a
    ka, kb = kind(a), kind(b)
    if ka == 'bool' and kb == 'bool':
        return z3.If(c, zbool(a), zbool(b))
    if 'real' in (ka, kb):
        return z3.If(c, zreal(a), zreal(b))
    return z3.If(c, zint(a), zint(b))


def maxv(a, b):
    if not is_sym(a) and not is_sym(b):
        return max(exact(a), exact(b))
    return ite(cmp('>=', a, b), a, b)


def minv(a, b):
    if not is_sym(a) and not is_sym(b):
        return min(exact(a), exact(b))
    return ite(cmp('<=', a, b), a, b)


def trunc_int(a):
    """python int(x)"""
    if not is_sym(a):
        a = exact(a)
        return int(a) if not isinstance(a, Fraction) else (a.numerator // a.denominator if a >= 0 else -((-a.numerator) // a.denominator))
    if z3.is_int(a):
        return a
    if z3.is_bool(a):
        return zint(a)
    return z3.If(a >= 0, z3.ToInt(a), -z3.ToInt(-a))


def floor(a):
    if not is_sym(a):
        a = exact(a)
        import math
        return math.floor(a)
    if z3.is_int(a):
        return a
    return z3.ToInt(a)


def ceil(a):
    return neg(floor(neg(a)))


def to_real(a):
    if isinstance(a, (Cx, complex)):
        return a
    if not is_sym(a):
        a = exact(a)
        return Fraction(int(a)) if isinstance(a, (bool, int)) else a
    return zreal(a)


def real_part(a):
    return cx(a).re if isinstance(a, (Cx, complex)) else a


def imag_part(a):
    return cx(a).im if isinstance(a, (Cx, complex)) else 0


def eq_formula(a, b):
    """z3 formula for equality of two scalars (complex as pairs)"""
    r = cmp('==', a, b)
    return z(r)


# ------------------------------------------------------------------------------------------------ arrays
def _obj_array(shape, fill=None):
    a = np.empty(shape, dtype=object)
    a[...] = fill
    return a


class CArr:
    """concrete-shape array with scalar entries; numpy object array => numpy's own indexing/view/broadcast semantics"""
    def __init__(self, data, kind_=None):
        if not isinstance(data, np.ndarray) or data.dtype != object:
            src = np.asarray(data)
            if src.dtype != object:
                d = np.empty(src.shape, dtype=object)
                for idx in np.ndindex(src.shape):
                    v = src[idx].item()
                    d[idx] = cx(v) if isinstance(v, complex) else exact(v)
                data = d
            else:
                data = src
        self.data = data
        self._kind = kind_

    @property
    def shape(self):
        return self.data.shape

    @property
    def ndim(self):
        return self.data.ndim

    @property
    def size(self):
        return self.data.size

    @property
    def kind(self):
        if self._kind is not None:
            return self._kind
        k = 'bool'
        for v in self.data.flat:
            kv = kind(v)
            if KIND_ORDER[kv] > KIND_ORDER[k]:
                k = kv
        return k

    def __repr__(self):
        return f"CArr{self.shape}"


class LArr:
    """symbolic-shape array: element function over index tuples. `base`/writes go through `store`."""
    _ids = itertools.count()

    def __init__(self, shape, elem, kind_, inv=None, name=None):
        self.shape = tuple(shape)
        self.elem = elem
        self.kind = kind_
        self.inv = inv          # ghost inverse for injective 1-D integer arrays: value -> position
        self.view_of = None     # (base LArr, index map own idx -> base idx) for basic-slice views
        self.name = name
        self.id = next(LArr._ids)
        self.meta = {}

    @property
    def ndim(self):
        return len(self.shape)

    @property
    def size(self):
        s = 1
        for d in self.shape:
            s = mul(s, d)
        return s

    def at(self, *idx):
        if self.view_of is not None:
            base, imap = self.view_of
            return base.at(*imap(tuple(idx)))
        return self.elem(tuple(idx))

    def __repr__(self):
        return f"LArr{self.shape}:{self.kind}"


def is_arr(v):
    return isinstance(v, (CArr, LArr))


class Obj:
    """instance of a class from /repo (cls is a ClassInfo) or an opaque object"""
    _ids = itertools.count()

    def __init__(self, cls=None, fields=None, tag=None):
        self.cls = cls
        self.fields = dict(fields or {})
        self.tag = tag
        self.id = next(Obj._ids)

    def __repr__(self):
        return f"<Obj {self.cls.name if self.cls else self.tag}#{self.id}>"
