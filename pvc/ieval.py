"""Rigorous numeric validation of counter-models for obligations that mention the transcendental ghost functions (sqrt, exp, log, rpow).

The SMT encoding only knows a few axioms about those functions, so a solver model is not a counterexample.  Here a candidate assignment of all
free constants (small rationals) is evaluated with INTERVAL arithmetic (mpmath.iv: outward rounding, rigorous enclosures of exp/log/pow/sqrt):
every atom is decided `definitely true`, `definitely false` or `undetermined`.  An assignment under which every hypothesis is definitely true and
the goal definitely false is a genuine counterexample of the obligation over the reals.  Nothing is ever concluded from `undetermined`.
"""
import random
import time
from fractions import Fraction
import z3
from mpmath import iv, mp

iv.prec = 120


class Undetermined(Exception):
    pass


def _num(e):
    if z3.is_int_value(e):
        return iv.mpf(e.as_long())
    if z3.is_rational_value(e):
        return iv.mpf(e.numerator_as_long()) / iv.mpf(e.denominator_as_long())
    if z3.is_algebraic_value(e):
        a = e.approx(40)
        lo, hi = Fraction(a.numerator_as_long(), a.denominator_as_long()), None
        v = iv.mpf(lo.numerator) / iv.mpf(lo.denominator)
        return v + iv.mpf([-1, 1]) * iv.mpf(10) ** (-38)
    return None


GHOST = ('sqrt', 'exp', 'log', 'rpow')


class Eval:
    def __init__(self, env, fsample=None):
        self.env = env          # name -> Fraction | int | bool
        self.cache = {}
        self.fsample = fsample  # callable(function name) -> value, for free function symbols
        self.fenv = {}

    def val(self, e):
        k = e.get_id()
        if k in self.cache:
            return self.cache[k]
        r = self._val(e)
        self.cache[k] = r
        return r

    def _val(self, e):
        n = _num(e)
        if n is not None:
            return n
        if z3.is_true(e):
            return True
        if z3.is_false(e):
            return False
        if not z3.is_app(e):
            raise Undetermined('quantifier or variable')
        d = e.decl()
        kind = d.kind()
        ch = e.children()
        K = z3
        if kind == K.Z3_OP_UNINTERPRETED:
            name = d.name()
            if not ch:
                if name not in self.env:
                    raise Undetermined('unassigned ' + name)
                v = self.env[name]
                if isinstance(v, bool):
                    return v
                v = Fraction(v)
                return iv.mpf(v.numerator) / iv.mpf(v.denominator)
            args = [self.val(c) for c in ch]
            if name == 'sqrt':
                if args[0].a < 0:
                    raise Undetermined('sqrt of a possibly negative number')
                return iv.sqrt(args[0])
            if name == 'exp':
                return iv.exp(args[0])
            if name == 'log':
                if args[0].a <= 0:
                    raise Undetermined('log of a possibly non-positive number')
                return iv.log(args[0])
            if name == 'rpow':
                if args[0].a <= 0:
                    raise Undetermined('power of a possibly non-positive base')
                return iv.exp(args[1] * iv.log(args[0]))
            # a free function symbol (symbolic array contents F(i)): its interpretation is part of the candidate model, chosen lazily per argument tuple
            if self.fsample is not None and all(a.a == a.b and float(a.a) == int(float(a.a)) for a in args) and z3.is_real(e):
                key = (name,) + tuple(int(float(a.a)) for a in args)
                if key not in self.fenv:
                    self.fenv[key] = self.fsample(name)
                v = Fraction(self.fenv[key])
                return iv.mpf(v.numerator) / iv.mpf(v.denominator)
            raise Undetermined('uninterpreted function ' + name)
        if kind == K.Z3_OP_ADD:
            t = iv.mpf(0)
            for c in ch:
                t = t + self.val(c)
            return t
        if kind == K.Z3_OP_SUB:
            t = self.val(ch[0])
            for c in ch[1:]:
                t = t - self.val(c)
            return t
        if kind == K.Z3_OP_UMINUS:
            return -self.val(ch[0])
        if kind == K.Z3_OP_MUL:
            t = iv.mpf(1)
            for c in ch:
                t = t * self.val(c)
            return t
        if kind in (K.Z3_OP_DIV,):
            b = self.val(ch[1])
            if b.a <= 0 <= b.b:
                raise Undetermined('division by a possibly zero number')
            return self.val(ch[0]) / b
        if kind == K.Z3_OP_POWER:
            b, ex = self.val(ch[0]), self.val(ch[1])
            if ex.a == ex.b and float(ex.a) == int(float(ex.a)) and int(float(ex.a)) >= 0:
                t = iv.mpf(1)
                for _ in range(int(float(ex.a))):
                    t = t * b
                return t
            if b.a <= 0:
                raise Undetermined('power')
            return iv.exp(ex * iv.log(b))
        if kind == K.Z3_OP_TO_REAL:
            return self.val(ch[0])
        if kind == K.Z3_OP_TO_INT:
            v = self.val(ch[0])
            import math
            lo, hi = math.floor(float(v.a)), math.floor(float(v.b))
            if lo != hi:
                raise Undetermined('floor')
            return iv.mpf(lo)
        if kind in (K.Z3_OP_IDIV, K.Z3_OP_MOD):
            a, b = self.val(ch[0]), self.val(ch[1])
            if a.a != a.b or b.a != b.b or b.a == 0:
                raise Undetermined('integer division')
            x, y = int(float(a.a)), int(float(b.a))
            q = x // y if y > 0 else -(x // -y)
            return iv.mpf(q if kind == K.Z3_OP_IDIV else x - q * y)
        if kind == K.Z3_OP_ITE:
            c = self.val(ch[0])
            if c is True:
                return self.val(ch[1])
            if c is False:
                return self.val(ch[2])
            raise Undetermined('ite condition')
        if kind in (K.Z3_OP_LE, K.Z3_OP_LT, K.Z3_OP_GE, K.Z3_OP_GT):
            a, b = self.val(ch[0]), self.val(ch[1])
            if kind in (K.Z3_OP_GE, K.Z3_OP_GT):
                a, b = b, a
                kind = K.Z3_OP_LE if kind == K.Z3_OP_GE else K.Z3_OP_LT
            if kind == K.Z3_OP_LE:
                if a.b <= b.a:
                    return True
                if a.a > b.b:
                    return False
            else:
                if a.b < b.a:
                    return True
                if a.a >= b.b:
                    return False
            raise Undetermined('comparison')
        if kind == K.Z3_OP_EQ:
            a, b = self.val(ch[0]), self.val(ch[1])
            if isinstance(a, bool) or isinstance(b, bool):
                return a == b
            if a.a == a.b == b.a == b.b:
                return True
            if a.b < b.a or b.b < a.a:
                return False
            raise Undetermined('equality')
        if kind == K.Z3_OP_DISTINCT:
            vals = [self.val(c) for c in ch]
            for i in range(len(vals)):
                for j in range(i + 1, len(vals)):
                    a, b = vals[i], vals[j]
                    if not (a.b < b.a or b.b < a.a):
                        if a.a == a.b == b.a == b.b:
                            return False
                        raise Undetermined('distinct')
            return True
        if kind == K.Z3_OP_NOT:
            return not self.val(ch[0])
        if kind in (K.Z3_OP_AND, K.Z3_OP_OR):
            want = kind == K.Z3_OP_OR
            und = False
            for c in ch:
                try:
                    if self.val(c) is want:
                        return want
                except Undetermined:
                    und = True
            if und:
                raise Undetermined('connective')
            return not want
        if kind == K.Z3_OP_IMPLIES:
            try:
                if self.val(ch[0]) is False:
                    return True
            except Undetermined:
                if self.val(ch[1]) is True:
                    return True
                raise
            return self.val(ch[1])
        if kind == K.Z3_OP_XOR:
            return self.val(ch[0]) != self.val(ch[1])
        raise Undetermined('operator ' + d.name())


PAL_POS = ['1/2', '1/3', '1/4', '2/3', '3/4', '1/5', '1/10', '9/10', '1', '3/2', '2', '3', '5/2', '4', '7/5']
PAL_ANY = PAL_POS + ['0', '-1/2', '-1', '-2', '-1/3', '-3/2']


def _bounds(hyps, consts):
    """simple bounds  c <op> numeral  found at the top level of the hypotheses (conjunctions): used only to steer the sampling"""
    lo, hi = {}, {}

    def atom(f):
        if z3.is_and(f):
            for c in f.children():
                atom(c)
            return
        neg = False
        if z3.is_not(f):
            f, neg = f.arg(0), True
        if not (z3.is_app(f) and f.num_args() == 2):
            return
        a, b = f.arg(0), f.arg(1)
        k = f.decl().kind()
        flip = {z3.Z3_OP_LE: z3.Z3_OP_GE, z3.Z3_OP_GE: z3.Z3_OP_LE, z3.Z3_OP_LT: z3.Z3_OP_GT, z3.Z3_OP_GT: z3.Z3_OP_LT}
        if k not in flip:
            return
        if z3.is_rational_value(a) and z3.is_const(b):
            a, b, k = b, a, flip[k]
        if not (z3.is_const(a) and a.decl().kind() == z3.Z3_OP_UNINTERPRETED and z3.is_rational_value(b)):
            return
        if neg:
            k = {z3.Z3_OP_LE: z3.Z3_OP_GT, z3.Z3_OP_GE: z3.Z3_OP_LT, z3.Z3_OP_LT: z3.Z3_OP_GE, z3.Z3_OP_GT: z3.Z3_OP_LE}[k]
        v = Fraction(b.numerator_as_long(), b.denominator_as_long())
        n = a.decl().name()
        if k in (z3.Z3_OP_GE, z3.Z3_OP_GT):
            lo[n] = max(lo.get(n, v), v)
        else:
            hi[n] = min(hi.get(n, v), v)
    for h in hyps:
        atom(h)
    return lo, hi


def find_counterexample(hyps, goal, consts, tries=600, seed=0, budget_s=40):
    """consts: name -> z3 constant.  Returns a dict name -> value (str) of an assignment under which every hypothesis is definitely true and the
    goal definitely false (interval arithmetic), or None."""
    rng = random.Random(seed)
    names = sorted(consts)
    t0 = time.time()
    lo, hi = _bounds(hyps, consts)

    def pick(n):
        a, b = lo.get(n), hi.get(n)
        if a is not None and b is not None and a < b:
            return a + (b - a) * Fraction(rng.randint(1, 11), 12)
        if a is not None:
            return a + Fraction(rng.choice(PAL_POS))
        if b is not None:
            return b - Fraction(rng.choice(PAL_POS))
        return Fraction(rng.choice(PAL_POS if rng.random() < 0.7 else PAL_ANY))
    for _ in range(tries):
        if time.time() - t0 > budget_s:
            break
        env = {}
        for n in names:
            c = consts[n]
            if z3.is_bool(c):
                env[n] = rng.random() < 0.5
            elif z3.is_int(c):
                env[n] = rng.choice([0, 1, 2, 3])
            else:
                env[n] = pick(n)
        positive_fn = rng.random() < 0.7
        ev = Eval(env, fsample=lambda nm: rng.choice(PAL_POS if positive_fn else PAL_ANY))
        try:
            if ev.val(goal) is not False:
                continue
            if all(ev.val(h) is True for h in hyps):
                out = {n: str(v) for n, v in env.items()}
                out.update({f"{k[0]}({','.join(map(str, k[1:]))})": str(v) for k, v in ev.fenv.items()})
                return out
        except (Undetermined, ZeroDivisionError, ValueError, OverflowError):
            continue
    return None
