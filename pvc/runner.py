"""Harness registry, parallel execution, verdicts."""
import importlib
import json
import os
import sys
import time
import traceback
import multiprocessing as mp
import z3
from . import values as V
from .values import Unsupported, PyExc
from .harness import Context, Obligation, PathInfeasible, explore
from .interp import Interp, Program
from . import smt

HARNESSES = {}      # (prop, name) -> dict(fn, targets, finding, timeout, canary)


def harness(prop, name, targets=(), finding=None, timeout=None, tier='quick', refute_sizes=None, expect='discharged', replay=None):
    """register a verification harness.  targets: functions under contract ('module:Class.method').
    finding: id of a known finding this harness is expected to fail on (its failure prints KNOWN-FINDING, never VIOLATION)
    expect='refuted' marks a canary: a deliberately false statement that must NOT be provable (vacuity guard).
    replay: callable(obligation name, counter-model dict) -> source of a stand-alone program that evaluates the property clause on the REAL code at the
    inputs of the counter-model (exit status != 0 = the violation reproduces natively), or None when the model does not determine concrete inputs."""
    def deco(fn):
        HARNESSES[(prop, name)] = dict(fn=fn, targets=list(targets), finding=finding, timeout=timeout, tier=tier,
                                       refute_sizes=refute_sizes, expect=expect, doc=(fn.__doc__ or '').strip(), replay=replay)
        return fn
    return deco


def load_contracts(prop):
    mod = importlib.import_module(f'contracts.{prop}')
    return mod


def _has_incomplete_ghost(ob):
    txt = ' '.join(f.sexpr() for f in ob.formula())
    return any(('(' + g + ' ') in txt for g in ('exp', 'log', 'rpow'))


def _mentions_ghost(f):
    t = f.sexpr()
    return any(('(' + g + ' ') in t for g in ('exp', 'log', 'rpow'))


def _mentions_any_ghost(f):
    t = f.sexpr()
    return any(('(' + g + ' ') in t for g in ('exp', 'log', 'rpow', 'sqrt', 'csqrt_re', 'csqrt_im'))


def _ghost_free_model(ob, timeout):
    ax = getattr(ob, 'axiom_ids', None)
    if ax is None or _mentions_ghost(ob.goal):
        return None
    rest = []
    for h in ob.hyps:
        if _mentions_ghost(h):
            if h.get_id() not in ax:
                return None
        else:
            rest.append(h)
    r = smt.solve(rest + [z3.Not(ob.goal)], timeout_ms=timeout, fallback=False)
    if r['status'] == 'sat':
        return dict(r, backend=(r.get('backend') or '') + ' (ghost-free hypotheses; axiom instances of exp/log/rpow hold for the real functions)')
    return None


def _run_one(args):
    prop, name, tier, sizes = args
    spec = HARNESSES[(prop, name)]
    t0 = time.time()
    out = dict(prop=prop, harness=name, targets=spec['targets'], finding=spec['finding'], expect=spec['expect'], obligations=[],
               status='ok', executed={}, paths=0, doc=spec['doc'])
    timeout = int(os.environ.get("PVC_TIMEOUT_MS", 0)) or spec["timeout"] or (12000 if tier == "quick" else 120000)
    ctx = Context(prop, name, mode='refute' if sizes else 'proof', sizes=sizes or {})
    progs = []

    interps = []

    def thunk(c):
        it = Interp(c, Program())
        progs.append(it.prog)
        interps.append(it)
        try:
            spec['fn'](c, it)
        except PyExc as e:
            c.path_obls.append(Obligation(f"{prop}.{name}.no_raise", c.all_hyps(), z3.BoolVal(False), c.cur_line, 'no_raise'))
            c.notes.append(f'path raises {e.cls}: {e.msg} (line {c.cur_line})')
    try:
        obls = explore(thunk, ctx)
    except Unsupported as e:
        out['status'] = 'out_of_reach'
        out['reason'] = str(e) + (f' (line {ctx.cur_line})' if ctx.cur_line else '')
        out['time'] = time.time() - t0
        return out
    except Exception as e:
        out['status'] = 'error'
        out['reason'] = ''.join(traceback.format_exception(type(e), e, e.__traceback__))[-3000:]
        out['time'] = time.time() - t0
        return out
    out['paths'] = ctx.paths_done
    out['notes'] = ctx.notes[:20]
    for p in progs[-1:]:
        out['executed'] = p.executed
    if interps:
        # mechanical scan: callee contracts the harness relied on (functions replaced by a summary instead of being executed) and library watches
        base = set(Interp(Context(prop, name), Program()).summaries)
        out['assumed_callee_contracts'] = sorted(set().union(*[set(i_.summaries) for i_ in interps]) - base)
        out['ghost_reads_of_locals'] = sorted({f'{q}:{v}' for i_ in interps for q, d in i_.watches.items() for v in d})
    out['assume_calls'] = getattr(ctx, 'n_assume', 0)
    # vacuity: hypotheses of at least one path must be satisfiable
    vac_checked = False
    merged = {}
    for ob in obls:
        merged.setdefault(ob.name, []).append(ob)
    if not obls:
        out['status'] = 'error'
        out['reason'] = 'harness generated zero obligations'
    n_bad = 0
    max_bad = int(os.environ.get('PVC_MAX_FAILED', '4'))
    for nm, group in merged.items():
        rec = dict(name=nm, kind=group[0].kind, line=group[0].line, paths=len(group), status='discharged', backend=None, time=0.0)
        if n_bad >= max_bad and spec['expect'] != 'refuted':
            # fail fast: this harness already has several undischarged obligations; the rest are not attempted (reported as undecided)
            rec.update(status='unknown', reason=f'not attempted: {n_bad} obligations of this harness already failed')
            out['obligations'].append(rec)
            continue
        for ob in group:
            if z3.is_true(ob.goal):
                rec['backend'] = rec['backend'] or 'trivial'
                continue
            r = smt.solve(ob.formula(), timeout_ms=timeout)
            rec['time'] += r['time']
            rec['backend'] = r['backend']
            if r['status'] == 'unsat':
                continue
            if r['status'] == 'sat' and _has_incomplete_ghost(ob):
                # a model under the incomplete axioms of exp/log/rpow/f32 is not a counterexample: undecided, not refuted - unless the goal and all
                # hypotheses other than axiom instances (facts true of the real functions for every argument) are free of those functions: then a
                # model of the ghost-free part extends to a model of everything by interpreting the ghost symbols as the real functions
                r = _ghost_free_model(ob, timeout) or dict(r, status='unknown', reason='satisfiable only under the incomplete axiomatisation of transcendental ghost functions')
            if r['status'] == 'sat' and getattr(ob, 'full', None) is not None:
                # the reduced (isolated / generalised) query has a model: only a model of the FULL obligation is a counterexample
                r2 = smt.solve(list(ob.full[0]) + [z3.Not(ob.full[1])], timeout_ms=timeout)
                rec['time'] += r2['time']
                if r2['status'] == 'unsat':
                    continue
                if r2['status'] == 'sat' and _has_incomplete_ghost(ob):
                    r2 = dict(r2, status='unknown', reason='satisfiable only under the incomplete axiomatisation of transcendental ghost functions')
                r = r2 if r2['status'] == 'sat' else dict(r2, status='unknown', reason='reduced query has a model, full obligation undecided: ' + str(r2.get('reason')))
            if r['status'] == 'sat':
                rec['status'] = 'refuted'
                rec['model'] = r.get('model')
                rec['path'] = ob.path
                break
            if not any(z3.is_quantifier(h) for h in ob.hyps) and not _has_incomplete_ghost(ob):
                # nonlinear queries: a counter-model is searched by sampling (sound: any model found is a model of hypotheses and negated goal)
                full = getattr(ob, 'full', None)
                fs = (list(full[0]) + [z3.Not(full[1])]) if full is not None else ob.formula()
                if not any(z3.is_quantifier(h) for h in fs):
                    r3 = smt.refute_by_sampling(fs, seed=int(os.environ.get('VERIF_SEED', '0') or 0))
                    if r3 is not None:
                        rec.update(status='refuted', model=r3['model'], path=ob.path, backend=r3['backend'])
                        rec['time'] += r3['time']
                        break
            if _has_incomplete_ghost(ob):
                # transcendental ghost functions: candidate assignments are validated with rigorous interval arithmetic (pvc/ieval.py)
                from . import ieval
                full = getattr(ob, 'full', None)
                hy, gl = (list(full[0]), full[1]) if full is not None else (list(ob.hyps), ob.goal)
                # axiom instances (facts that hold for the real sqrt/exp/log/rpow at every argument) need no evaluation: they are true of the functions
                # the intervals enclose; exact equalities among them could not be decided by intervals anyway
                ax = getattr(ob, 'axiom_ids', set())
                hy = [h for h in hy if not (h.get_id() in ax and _mentions_any_ghost(h))]
                if not any(z3.is_quantifier(h) for h in hy):
                    cex = ieval.find_counterexample(hy, gl, smt.free_consts(hy + [gl]), seed=int(os.environ.get('VERIF_SEED', '0') or 0))
                    if cex is not None:
                        rec.update(status='refuted', model=cex, path=ob.path, backend='interval evaluation (mpmath.iv) of a sampled assignment')
                        break
            rec['status'] = 'unknown'
            rec['reason'] = r.get('reason')
            break          # one undecided path instance decides the verdict of the name (a counter-model is searched in refutation mode below)
        if rec['status'] != 'discharged':
            n_bad += 1
        out['obligations'].append(rec)
    # refutation mode (DESIGN 3.2): obligations left undecided are re-posed with the integer size parameters of the harness fixed to small values, where
    # symbolic-shape arrays become finite and quantified facts expand; a model found there is a genuine counter-model of the (size-quantified) obligation.
    # It only ever turns `unknown` into `refuted`; nothing is discharged by it.
    if not sizes and spec['expect'] != 'refuted' and any(o['status'] == 'unknown' for o in out['obligations']) and os.environ.get('PVC_NO_REFUTE') != '1':
        int_syms = [n for n, v in ctx.named.items() if z3.is_int(v)]
        cands = spec.get('refute_sizes') or ([{n: 2 for n in int_syms}, {n: 2 + k for k, n in enumerate(int_syms)},
                                              {n: 2 + k for k, n in enumerate(reversed(int_syms))}, {n: 3 for n in int_syms}] if int_syms else [])
        want = {o['name'] for o in out['obligations'] if o['status'] == 'unknown' and 'not attempted' not in str(o.get('reason'))}
        t_ref = time.time()
        for sz in cands:
            if not want or time.time() - t_ref > 180:
                break
            ctx2 = Context(prop, name, mode='refute', sizes=dict(sz))
            try:
                obls2 = explore(thunk, ctx2)
            except Exception:
                continue
            for ob in obls2:
                if ob.name not in want or z3.is_true(ob.goal):
                    continue
                hy2 = [smt.expand_bounded(h) for h in ob.hyps]
                r = smt.solve(hy2 + [z3.Not(ob.goal)], timeout_ms=min(timeout, 10000), fallback=False)
                if r['status'] != 'unsat' and _has_incomplete_ghost(ob) and not any(z3.is_quantifier(h) for h in hy2):
                    from . import ieval
                    cex = ieval.find_counterexample(hy2, ob.goal, smt.free_consts(hy2 + [ob.goal]), seed=int(os.environ.get('VERIF_SEED', '0') or 0))
                    if cex is not None:
                        for rec in out['obligations']:
                            if rec['name'] == ob.name:
                                rec.update(status='refuted', model=dict(cex, **{f'size:{k}': v for k, v in sz.items()}), path=ob.path,
                                           backend='interval evaluation (mpmath.iv) of a sampled assignment (refutation mode, sizes fixed)')
                        want.discard(ob.name)
                        continue
                if r['status'] == 'sat' and not _has_incomplete_ghost(ob):
                    for rec in out['obligations']:
                        if rec['name'] == ob.name:
                            rec.update(status='refuted', model=dict(r.get('model') or {}, **{f'size:{k}': v for k, v in sz.items()}), path=ob.path,
                                       backend=(r['backend'] or '') + ' (refutation mode, sizes fixed)')
                    want.discard(ob.name)
    if obls and not vac_checked:
        # satisfiability of the hypotheses of the last path (requires-vacuity guard)
        last = obls[-1]
        r = smt.solve([h for h in last.hyps if not z3.is_quantifier(h)], timeout_ms=3000, want_model=False, fallback=False, tactics=False)
        out['hyps_sat'] = r['status']
    out['time'] = time.time() - t0
    return out


def _worker(args):
    load_contracts(args[0])
    return _run_one(args)


def run_property(prop, tier='quick', only=None, jobs=None, sizes=None):
    load_contracts(prop)
    names = [n for (p, n), s in HARNESSES.items() if p == prop and (s['tier'] == 'quick' or (tier == 'thorough' and s['tier'] == 'thorough'))]     # tier='open': kept in the file, run only with --only
    if only:
        names = [n for (p, n), s in HARNESSES.items() if p == prop and any(o in n for o in only) and (s['tier'] != 'thorough' or tier == 'thorough')]
    jobs = jobs or min(int(os.environ.get('PVC_JOBS', '16')), max(1, len(names)))
    args = [(prop, n, tier, sizes) for n in names]
    if jobs == 1 or len(args) <= 1:
        return [_run_one(a) for a in args]
    wall = int(os.environ.get('PVC_HARNESS_WALL_S', '900' if tier == 'quick' else '3000'))
    ctxm = mp.get_context('spawn')
    out = []
    with ctxm.Pool(jobs, maxtasksperchild=1) as pool:
        pend = [(a, pool.apply_async(_worker, (a,))) for a in args]
        t_end = time.time() + wall
        for a, r in pend:
            try:
                out.append(r.get(timeout=max(1.0, t_end - time.time())))
            except mp.TimeoutError:
                out.append(dict(prop=prop, harness=a[1], targets=HARNESSES[(prop, a[1])]['targets'], finding=HARNESSES[(prop, a[1])]['finding'],
                                expect=HARNESSES[(prop, a[1])]['expect'], obligations=[dict(name=f"{prop}.{a[1]}.wall_clock", kind='post', line=None, paths=0,
                                status='unknown', backend=None, time=wall, reason='harness wall-clock limit')], status='ok', executed={}, paths=0, doc=''))
            except Exception as e:
                out.append(dict(prop=prop, harness=a[1], targets=[], finding=None, expect='discharged', obligations=[], status='error',
                                reason=f'worker crashed: {e!r}', executed={}, paths=0, doc=''))
        pool.terminate()
    return out
