"""AST-level symbolic executor for the Python subset used by pyMOTO (see DESIGN.md 2.2).

The text that is executed is the AST of the real source files under REPO (re-read on every run).  Nothing is copied.
Symbolic branches fork by *re-execution* (a path is a list of decisions; alternatives are scheduled by the Context).
"""
import ast
import hashlib
import os
from fractions import Fraction
import numpy as np
import z3
from . import values as V
from .values import Unsupported, PyExc, Obj, CArr, LArr, Cx, is_sym, is_arr

REPO = os.environ.get('PVC_REPO', '/repo')


# ------------------------------------------------------------------------------------------------ program model
class ModuleInfo:
    def __init__(self, name, path, tree, src):
        self.name, self.path, self.tree, self.src = name, path, tree, src
        self.globals = {}
        self.loaded = False


class ClassInfo:
    def __init__(self, name, node, module, bases):
        self.name, self.node, self.module, self.bases = name, node, module, bases
        self.methods = {}
        self.props = {}      # name -> {'get': Closure, 'set': Closure}
        self.attrs = {}

    def mro(self):
        out = [self]
        for b in self.bases:
            if isinstance(b, ClassInfo):
                for c in b.mro():
                    if c not in out:
                        out.append(c)
        return out

    def find(self, name):
        for c in self.mro():
            if name in c.methods:
                return c.methods[name]
        return None

    def find_prop(self, name):
        for c in self.mro():
            if name in c.props:
                return c.props[name]
        return None

    def find_attr(self, name):
        for c in self.mro():
            if name in c.attrs:
                return c.attrs[name]
        raise KeyError(name)

    def is_sub(self, other_name):
        return any(c.name == other_name for c in self.mro()) or any(
            (isinstance(b, str) and b == other_name) for c in self.mro() for b in c.bases)

    def __repr__(self):
        return f"<class {self.name}>"


class Closure:
    def __init__(self, node, env, module, cls=None, name=None):
        self.node, self.env, self.module, self.cls = node, env, module, cls
        self.name = name or getattr(node, 'name', '<lambda>')

    @property
    def qualname(self):
        return f"{self.module.name}:{self.cls.name + '.' if self.cls else ''}{self.name}"

    def __repr__(self):
        return f"<fn {self.qualname}>"


class BoundMethod:
    def __init__(self, self_obj, fn):
        self.self_obj, self.fn = self_obj, fn


class Builtin:
    def __init__(self, name, fn, wants_interp=False):
        self.name, self.fn, self.wants_interp = name, fn, wants_interp

    def __repr__(self):
        return f"<builtin {self.name}>"


class Namespace:
    """a library namespace (np, scipy.sparse ...) resolved through npspec"""
    def __init__(self, name):
        self.name = name

    def __repr__(self):
        return f"<ns {self.name}>"


class ExcClass:
    def __init__(self, name):
        self.name = name


class TypeTag:
    """python/numpy type objects used in isinstance checks"""
    def __init__(self, name):
        self.name = name

    def __repr__(self):
        return f"<type {self.name}>"


class FStr:
    """formatted string with symbolic holes: list of str / ('val', value, fmt)"""
    def __init__(self, parts):
        self.parts = parts

    def __repr__(self):
        return 'FStr(' + ''.join(p if isinstance(p, str) else '{' + str(p[1]) + (':' + p[2] if p[2] else '') + '}' for p in self.parts) + ')'


class Program:
    def __init__(self, repo=None):
        self.repo = repo or REPO
        self.modules = {}
        self.executed = {}     # qualname -> (path, lineno, end_lineno, sha)

    def module_path(self, name):
        p = os.path.join(self.repo, *name.split('.'))
        if os.path.isdir(p):
            return os.path.join(p, '__init__.py')
        return p + '.py'

    def get_module(self, name):
        if name in self.modules:
            return self.modules[name]
        path = self.module_path(name)
        if not os.path.exists(path):
            raise Unsupported(f'module {name} not found under {self.repo}')
        src = open(path).read()
        m = ModuleInfo(name, path, ast.parse(src), src)
        self.modules[name] = m
        return m

    def note_executed(self, clo):
        q = clo.qualname
        if q not in self.executed and hasattr(clo.node, 'lineno'):
            seg = ast.get_source_segment(clo.module.src, clo.node) or ''
            self.executed[q] = dict(file=os.path.relpath(clo.module.path, self.repo), line=clo.node.lineno,
                                    end_line=getattr(clo.node, 'end_lineno', clo.node.lineno),
                                    sha256=hashlib.sha256(seg.encode()).hexdigest()[:16])


class _Return(Exception):
    def __init__(self, v):
        self.v = v


class _Break(Exception):
    pass


class _MergeAbort(Exception):
    pass


class _Continue(Exception):
    pass


class Env:
    __slots__ = ('vars', 'parent')

    def __init__(self, parent=None, vars_=None):
        self.vars = vars_ if vars_ is not None else {}
        self.parent = parent

    def lookup(self, name):
        e = self
        while e is not None:
            if name in e.vars:
                return e.vars[name]
            e = e.parent
        raise KeyError(name)

    def has(self, name):
        e = self
        while e is not None:
            if name in e.vars:
                return True
            e = e.parent
        return False


LIB_MODULES = {'numpy': 'np', 'scipy': 'scipy', 'scipy.sparse': 'sps', 'scipy.sparse.linalg': 'spsla', 'scipy.linalg': 'spla',
               'scipy.special': 'spsp', 'scipy.signal': 'spsig', 'scipy.sparse.sputils': 'sputils', 'numpy.linalg': 'np.linalg',
               'warnings': 'warnings', 'copy': 'copy', 'sys': 'sys', 'os': 'os', 'time': 'time', 'inspect': 'inspect',
               'abc': 'abc', 'typing': 'typing', 'base64': 'base64', 'struct': 'struct', 'math': 'math', 'numbers': 'numbers',
               'matplotlib': 'mpl', 'matplotlib.pyplot': 'mpl', 'matplotlib.patches': 'mpl', 'matplotlib.path': 'mpl',
               'matplotlib.colors': 'mpl', 'scipy.sparse.linalg._dsolve': 'spsla', 'platform': 'platform', 'glob': 'glob',
               're': 're', 'ctypes': 'ctypes', 'ctypes.util': 'ctypes', 'subprocess': 'subprocess', 'collections': 'collections',
               'collections.abc': 'collections', 'scipy.ndimage': 'ndimage', 'datetime': 'datetime', 'importlib': 'importlib',
               'importlib.util': 'importlib', 'pathlib': 'pathlib'}


class Interp:
    def __init__(self, ctx, program=None):
        self.ctx = ctx
        self.prog = program or Program()
        self.depth = 0
        from . import npspec
        self.lib = npspec
        self.summaries = {}        # qualname -> python callable(interp, args, kwargs) used instead of the body (callee contract)
        self.loop_specs = {}       # (qualname, ordinal) -> LoopSpec
        self.trace = []            # effect trace (file writes, callbacks ...)
        self.watches = {}          # qualname -> {local name: [values assigned, in order]}
        self.install_default_summaries()
        self.summaries = _Summaries(self, self.summaries)
        self.steps = 0
        self.max_steps = int(os.environ.get('PVC_MAX_STEPS', '4000000'))

    def install_default_summaries(self):
        """what the encoding drops (DESIGN 2.1): source-location strings, coloured warnings, error-string formatting"""
        co = 'pymoto.core_objects:'
        self.summaries[co + 'get_init_str'] = lambda it, a, k: '<init location>'
        self.summaries[co + 'get_init_loc'] = lambda it, a, k: ('<file>', 0, '<func>')
        self.summaries[co + 'stderr_warning'] = lambda it, a, k: it.trace.append(('warn', 'stderr_warning'))
        self.summaries[co + 'err_fmt'] = lambda it, a, k: '<error details>'
        self.summaries[co + 'fmt_slice'] = lambda it, a, k: '<slice>'
        self.summaries[co + 'Signal._err_str'] = lambda it, a, k: '<signal details>'
        self.summaries[co + 'Module._err_str'] = lambda it, a, k: '<module details>'

    # ---------------------------------------------------------------------------------------- module loading
    def load(self, modname):
        m = self.prog.get_module(modname)
        if m.loaded:
            return m
        m.loaded = True
        env = Env(None, m.globals)
        m.env = env
        for st in m.tree.body:
            try:
                self.exec_toplevel(st, env, m)
            except Unsupported:
                # module-level statement outside the subset: names it would define stay undefined (use => out of reach)
                continue
        return m

    def exec_toplevel(self, st, env, m):
        if isinstance(st, (ast.Import, ast.ImportFrom)):
            self.do_import(st, env, m)
        elif isinstance(st, ast.FunctionDef):
            env.vars[st.name] = self.decorate(Closure(st, env, m), st)
        elif isinstance(st, ast.ClassDef):
            env.vars[st.name] = self.make_class(st, env, m)
        elif isinstance(st, ast.Try):
            # optional imports: execute the body, fall to handlers on ImportError-like Unsupported
            try:
                for s in st.body:
                    self.exec_toplevel(s, env, m)
            except (Unsupported, PyExc):
                for h in st.handlers:
                    for s in h.body:
                        self.exec_toplevel(s, env, m)
        elif isinstance(st, ast.If):
            c = self.truth(self.ev(st.test, env))
            for s in (st.body if c else st.orelse):
                self.exec_toplevel(s, env, m)
        elif isinstance(st, (ast.Assign, ast.AnnAssign, ast.Expr, ast.AugAssign)):
            if isinstance(st, ast.Expr) and isinstance(st.value, ast.Constant):
                return
            self.ex(st, env)
        else:
            raise Unsupported(f'toplevel {type(st).__name__}')

    def do_import(self, st, env, m):
        if isinstance(st, ast.Import):
            for a in st.names:
                nm = a.name
                if nm in LIB_MODULES:
                    env.vars[a.asname or nm.split('.')[0]] = Namespace(LIB_MODULES[nm] if a.asname else LIB_MODULES[nm.split('.')[0]])
                elif nm.startswith('pymoto'):
                    env.vars[a.asname or 'pymoto'] = ('pymodule', nm)
                else:
                    raise Unsupported(f'import {nm}')
            return
        # from X import ...
        mod = st.module or ''
        if st.level:
            pkg = m.name.split('.')
            if not m.path.endswith('__init__.py'):
                pkg = pkg[:-1]
            pkg = pkg[:len(pkg) - (st.level - 1)]
            mod = '.'.join(pkg + ([mod] if mod else []))
        if mod in LIB_MODULES or mod.split('.')[0] in ('numpy', 'scipy', 'matplotlib', 'typing', 'abc'):
            ns = LIB_MODULES.get(mod, LIB_MODULES.get(mod.split('.')[0], mod))
            for a in st.names:
                env.vars[a.asname or a.name] = self.lib.ns_attr(self, Namespace(ns), a.name)
            return
        if mod.split('.')[0] == 'pymoto':
            for a in st.names:
                if a.name == '*':
                    # star import: every public name of the (loaded) module - definitions and what it imported itself
                    m2 = self.load(mod)
                    for k_, v_ in m2.globals.items():
                        if not k_.startswith('_'):
                            env.vars.setdefault(k_, v_)
                    continue
                env.vars[a.asname or a.name] = self.resolve_pymoto(mod, a.name)
            return
        raise Unsupported(f'from {mod} import')

    def resolve_pymoto(self, mod, name, _seen=None):
        """resolve `from mod import name` inside the repo without executing unrelated module bodies"""
        _seen = _seen or set()
        if (mod, name) in _seen:
            raise Unsupported(f'circular import {mod}.{name}')
        _seen.add((mod, name))
        path = self.prog.module_path(mod)
        sub = self.prog.module_path(mod + '.' + name)
        if os.path.exists(sub) and path.endswith('__init__.py'):
            # may be a submodule; but prefer a name defined in __init__
            pass
        m = self.prog.get_module(mod)
        # search the definition without loading the whole module when it is a package __init__
        for st in m.tree.body:
            if isinstance(st, (ast.FunctionDef, ast.ClassDef)) and st.name == name:
                mm = self.load(mod)
                return mm.globals[name]
            if isinstance(st, ast.Assign) and any(isinstance(t, ast.Name) and t.id == name for t in st.targets):
                mm = self.load(mod)
                return mm.globals[name]
            if isinstance(st, ast.ImportFrom):
                for a in st.names:
                    if (a.asname or a.name) == name or a.name == '*':
                        smod = st.module or ''
                        if st.level:
                            pkg = m.name.split('.')
                            if not m.path.endswith('__init__.py'):
                                pkg = pkg[:-1]
                            pkg = pkg[:len(pkg) - (st.level - 1)]
                            smod = '.'.join(pkg + ([smod] if smod else []))
                        if not smod.startswith('pymoto'):
                            continue
                        if a.name == '*':
                            try:
                                return self.resolve_pymoto(smod, name, _seen)
                            except Unsupported:
                                continue
                        return self.resolve_pymoto(smod, a.name, _seen)
            if isinstance(st, ast.Try):
                for s in st.body:
                    if isinstance(s, ast.ImportFrom):
                        for a in s.names:
                            if (a.asname or a.name) == name:
                                raise Unsupported(f'optional import {name}')
        if os.path.exists(sub):
            return ('pymodule', mod + '.' + name)
        raise Unsupported(f'cannot resolve {mod}.{name}')

    def make_class(self, node, env, m):
        bases = []
        for b in node.bases:
            try:
                bv = self.ev(b, env)
            except (Unsupported, KeyError):
                bv = ast.unparse(b)
            if isinstance(bv, ClassInfo):
                bases.append(bv)
            elif isinstance(bv, ExcClass):
                bases.append(bv.name)
            else:
                bases.append(str(ast.unparse(b)))
        ci = ClassInfo(node.name, node, m, bases)
        for b in bases:
            if isinstance(b, str) and (b in V.EXC_PARENTS or b == 'BaseException'):
                V.EXC_PARENTS.setdefault(node.name, b)
        for st in node.body:
            if isinstance(st, ast.FunctionDef):
                clo = Closure(st, env, m, ci)
                decos = [ast.unparse(d) for d in st.decorator_list]
                if 'property' in decos:
                    ci.props.setdefault(st.name, {})['get'] = clo
                elif any(d.endswith('.setter') for d in decos):
                    ci.props.setdefault(st.name, {})['set'] = clo
                elif 'staticmethod' in decos:
                    ci.methods[st.name] = ('static', clo)
                elif 'classmethod' in decos:
                    ci.methods[st.name] = ('class', clo)
                else:
                    ci.methods[st.name] = clo
            elif isinstance(st, ast.Assign) and len(st.targets) == 1 and isinstance(st.targets[0], ast.Name):
                try:
                    ci.attrs[st.targets[0].id] = self.ev(st.value, env)
                except (Unsupported, KeyError):
                    pass
        return ci

    def get_function(self, spec):
        """'pymoto.common.domain:DomainDefinition.get_elemnumber' -> Closure (or ClassInfo for a class)"""
        modname, _, path = spec.partition(':')
        lost = Unsupported(f'contract anchor lost: {spec} is not defined in the current sources')
        try:
            m = self.load(modname)
        except (FileNotFoundError, ModuleNotFoundError):
            raise lost
        parts = path.split('.')
        if parts[0] not in m.globals:
            raise lost
        v = m.globals[parts[0]]
        for p in parts[1:]:
            if isinstance(v, ClassInfo):
                f = v.find(p)
                if f is None:
                    pr = v.find_prop(p)
                    if pr is None:
                        raise lost
                    f = pr
                v = f[1] if isinstance(f, tuple) else f
            else:
                raise lost
        return v

    def new_object(self, spec_or_cls, **fields):
        ci = spec_or_cls if isinstance(spec_or_cls, ClassInfo) else self.get_function(spec_or_cls)
        return Obj(ci, fields)

    # ---------------------------------------------------------------------------------------- truth / forks
    def truth(self, v):
        if isinstance(v, (bool, np.bool_)):
            return bool(v)
        if v is None:
            return False
        if is_sym(v):
            c = V.simp(V.zbool(v))
            if isinstance(c, bool):
                return c
            return self.ctx.fork(c)
        if isinstance(v, (int, Fraction, float)):
            return v != 0
        if isinstance(v, (str, list, tuple, dict, set)):
            return len(v) > 0
        if isinstance(v, Cx):
            return self.truth(V.zbool(v))
        if isinstance(v, CArr):
            if v.size == 1:
                return self.truth(v.data.flat[0])
            raise PyExc('ValueError', 'truth value of an array with more than one element is ambiguous')
        if isinstance(v, LArr):
            raise Unsupported('truth of symbolic-shape array')
        if isinstance(v, SymList):
            return self.truth(V.cmp('>', v.length, 0))
        return True

    # ---------------------------------------------------------------------------------------- calls
    def call(self, f, args, kwargs=None):
        kwargs = kwargs or {}
        if isinstance(f, Builtin):
            if f.wants_interp:
                return f.fn(self, *args, **kwargs)
            return f.fn(*args, **kwargs)
        if isinstance(f, BoundMethod):
            return self.call(f.fn, [f.self_obj] + list(args), kwargs)
        if isinstance(f, Closure):
            return self.call_closure(f, args, kwargs)
        if isinstance(f, ClassInfo):
            return self.instantiate(f, args, kwargs)
        if isinstance(f, ExcClass):
            return Obj(None, {'args': tuple(args), 'cls': f.name}, tag='exc:' + f.name)
        if isinstance(f, TypeTag):
            return self.lib.call_type(self, f, args, kwargs)
        if isinstance(f, tuple) and f and f[0] == 'static':
            return self.call(f[1], args, kwargs)
        if callable(f) and not isinstance(f, (Obj,)):
            return f(*args, **kwargs)
        if isinstance(f, Obj) and f.cls is not None and f.cls.find('__call__'):
            return self.call(f.cls.find('__call__'), [f] + list(args), kwargs)
        raise Unsupported(f'call of {f!r}')

    def instantiate(self, ci, args, kwargs):
        if ci.is_sub('Exception') or ci.is_sub('BaseException'):
            return Obj(ci, {'args': tuple(args), 'cls': ci.name}, tag='exc:' + ci.name)
        o = Obj(ci)
        init = ci.find('__init__')
        if init is not None:
            self.call(init, [o] + list(args), kwargs)
        return o

    def call_closure(self, clo, args, kwargs):
        q = clo.qualname
        if q in self.summaries:
            return self.summaries[q](self, list(args), dict(kwargs))
        if getattr(clo, 'unsupported_decorator', None):
            raise Unsupported(f'function {q} is wrapped by decorator {clo.unsupported_decorator}')
        if getattr(clo, 'memo', None) is not None and not getattr(self, '_in_memo', False):
            key = self.memo_key(args, kwargs)
            for k_, v_ in clo.memo.items():
                if k_ == key:
                    return v_
            self._in_memo = True
            try:
                v_ = self.call_closure(clo, args, kwargs)
            finally:
                self._in_memo = False
            clo.memo[key] = v_
            return v_
        self.prog.note_executed(clo)
        node = clo.node
        env = Env(clo.env)
        self.bind_args(node.args, clo, args, kwargs, env)
        if clo.cls is not None:
            env.vars['__class__'] = clo.cls
            if args:
                env.vars['__self__'] = args[0]
        if isinstance(node, ast.Lambda):
            return self.ev(node.body, env)
        self.depth += 1
        if self.depth > 60:
            raise Unsupported('recursion depth')
        env.vars['__qualname__'] = q
        env.vars['__fnnode__'] = node
        env.vars['__loopctr__'] = [0]
        try:
            self.run(node.body, env)
            return None
        except _Return as r:
            return r.v
        finally:
            self.depth -= 1

    def memo_key(self, args, kwargs):
        """lru_cache key: hashable python values; symbolic scalars are keyed by their term (equal terms hit the cache, as equal floats would;
        different terms that may be equal in value are treated as a miss on this path - the harness chooses identical arguments to exercise hits)"""
        def k(v):
            if is_sym(v):
                return ('sym', v.sexpr())
            if isinstance(v, (int, str, bool, Fraction, type(None))):
                return v
            if isinstance(v, Cx):
                return ('cx', k(v.re), k(v.im))
            if isinstance(v, (tuple,)):
                return tuple(k(x) for x in v)
            raise PyExc('TypeError', 'unhashable argument of a cached function')
        return (tuple(k(a) for a in args), tuple(sorted((n, k(v)) for n, v in kwargs.items())))

    def bind_args(self, a, clo, args, kwargs, env):
        params = [p.arg for p in a.posonlyargs + a.args]
        defaults = a.defaults
        nd = len(defaults)
        args = list(args)
        kwargs = dict(kwargs)
        for i, p in enumerate(params):
            if i < len(args):
                if p in kwargs:
                    raise PyExc('TypeError', f'multiple values for argument {p}')
                env.vars[p] = args[i]
            elif p in kwargs:
                env.vars[p] = kwargs.pop(p)
            else:
                di = i - (len(params) - nd)
                if di < 0:
                    raise PyExc('TypeError', f'missing argument {p} for {clo.name}')
                env.vars[p] = self.ev(defaults[di], clo.env)
        extra = args[len(params):]
        if a.vararg:
            env.vars[a.vararg.arg] = tuple(extra)
        elif extra:
            raise PyExc('TypeError', f'too many positional arguments for {clo.name}')
        for p, d in zip(a.kwonlyargs, a.kw_defaults):
            if p.arg in kwargs:
                env.vars[p.arg] = kwargs.pop(p.arg)
            elif d is not None:
                env.vars[p.arg] = self.ev(d, clo.env)
            else:
                raise PyExc('TypeError', f'missing keyword argument {p.arg}')
        if a.kwarg:
            env.vars[a.kwarg.arg] = kwargs
        elif kwargs:
            raise PyExc('TypeError', f'unexpected keyword arguments {list(kwargs)} for {clo.name}')

    # ---------------------------------------------------------------------------------------- statements
    def run(self, body, env):
        for st in body:
            self.ex(st, env)

    def ex(self, st, env):
        self.steps += 1
        if self.steps > self.max_steps:
            raise Unsupported('step budget exceeded')
        self.ctx.cur_line = getattr(st, 'lineno', None)
        m = getattr(self, 'ex_' + type(st).__name__, None)
        if m is None:
            raise Unsupported(f'statement {type(st).__name__}')
        return m(st, env)

    def ex_Expr(self, st, env):
        if isinstance(st.value, ast.Constant):
            return
        self.ev(st.value, env)

    def ex_Pass(self, st, env):
        pass

    def ex_Import(self, st, env):
        self.do_import(st, env, self.cur_module(env))

    ex_ImportFrom = ex_Import

    def cur_module(self, env):
        e = env
        while e.parent is not None:
            e = e.parent
        for m in self.prog.modules.values():
            if m.globals is e.vars:
                return m
        raise Unsupported('module of env')

    def ex_Assign(self, st, env):
        v = self.ev(st.value, env)
        for t in st.targets:
            self.assign(t, v, env)

    def ex_AnnAssign(self, st, env):
        if st.value is not None:
            self.assign(st.target, self.ev(st.value, env), env)

    def ex_AugAssign(self, st, env):
        t = st.target
        if isinstance(t, ast.Name):
            cur = self.lookup(t.id, env)
            new = self.inplace(st.op, cur, self.ev(st.value, env))
            self.set_name(t.id, new, env)
        elif isinstance(t, ast.Attribute):
            o = self.ev(t.value, env)
            cur = self.getattr(o, t.attr)
            new = self.inplace(st.op, cur, self.ev(st.value, env))
            self.setattr(o, t.attr, new)
        elif isinstance(t, ast.Subscript):
            o = self.ev(t.value, env)
            idx = self.ev_index(t.slice, env)
            if isinstance(o, LArr) and isinstance(idx, (LArr, CArr)) and idx.kind == 'bool':
                # a[mask] op= v  (v scalar)  ==  a = where(mask, a op v, a)   element-wise, in place
                rhs = self.ev(st.value, env)
                if not V.is_scalar(rhs):
                    raise Unsupported('masked augmented assignment with an array value')
                full = self.binop(st.op, o, rhs)
                from . import arrays as A_
                mask = A_.snapshot(A_.to_larr(idx))
                old_ = A_.snapshot(o)
                newv = A_.snapshot(full)
                A_.bshape(o.shape, mask.shape, self.ctx)
                o.elem = lambda i, mask=mask, old_=old_, newv=newv: V.ite(V.zbool(mask.at(*i)), newv.at(*i), old_.at(*i)) if is_sym(mask.at(*i)) else (newv.at(*i) if mask.at(*i) else old_.at(*i))
                o.inv = None
                return
            cur = self.getitem(o, idx)
            rhs = self.ev(st.value, env)
            new = self.binop(st.op, cur, rhs)
            self.setitem(o, idx, new, aug=True)
        else:
            raise Unsupported('augassign target')

    def inplace(self, op, cur, rhs):
        """x op= rhs : arrays are updated in place (same storage), immutables are rebound"""
        if is_arr(cur):
            new = self.binop(op, cur, rhs)
            return self.lib.assign_inplace(self, cur, new)
        if isinstance(cur, list) and isinstance(op, ast.Add):
            cur.extend(list(rhs))
            return cur
        if isinstance(cur, Obj) and cur.cls is None and cur.tag == 'sparse':
            r = self.lib.obj_binop(self, type(op).__name__, cur, rhs)
            if r is NotImplemented:
                raise Unsupported('in-place sparse op')
            if isinstance(r, Obj):
                cur.fields['dense'] = r.fields['dense']      # scipy sparse += is in place (same object)
                return cur
            return r
        if isinstance(cur, Obj) and cur.cls is not None:
            nm = {'Add': '__iadd__', 'Sub': '__isub__', 'Mult': '__imul__', 'Div': '__itruediv__',
                  'MatMult': '__imatmul__'}.get(type(op).__name__)
            f = cur.cls.find(nm) if nm else None
            if f is not None:
                return self.call(f, [cur, rhs])
        return self.binop(op, cur, rhs)

    def set_name(self, name, v, env):
        env.vars[name] = v

    def assign(self, t, v, env):
        if isinstance(t, ast.Name):
            env.vars[t.id] = v
            if self.watches and env.has('__qualname__'):
                w = self.watches.get(env.lookup('__qualname__'))
                if w is not None and t.id in w:
                    w[t.id].append(v)       # ghost access to a local of a function under contract (for lemma cuts; never changes execution)
        elif isinstance(t, (ast.Tuple, ast.List)):
            vals = self.iterate(v)
            if any(isinstance(e, ast.Starred) for e in t.elts):
                raise Unsupported('starred assignment')
            if len(vals) != len(t.elts):
                raise PyExc('ValueError', 'unpack length mismatch')
            for e, x in zip(t.elts, vals):
                self.assign(e, x, env)
        elif isinstance(t, ast.Attribute):
            self.setattr(self.ev(t.value, env), t.attr, v)
        elif isinstance(t, ast.Subscript):
            o = self.ev(t.value, env)
            self.setitem(o, self.ev_index(t.slice, env), v)
        else:
            raise Unsupported(f'assign target {type(t).__name__}')

    def ex_If(self, st, env):
        c = self.ev(st.test, env)
        if is_sym(c) and z3.is_bool(c) and self.mergeable_if(st):
            cz = V.simp(c)
            if isinstance(cz, bool):
                c = cz
            elif self.merge_if(cz, st, env):
                return
        if self.truth(c):
            self.run(st.body, env)
        else:
            self.run(st.orelse, env)

    # if-conversion: an `if` whose branches only (re)bind local scalar names with pure expressions (or print) is executed on both branches and
    # the bindings are merged with ite(cond, then, else) - semantically identical to forking, without doubling the number of paths
    PURE_CALLS = ('abs', 'max', 'min')

    def pure_expr(self, n):
        for x in ast.walk(n):
            if isinstance(x, ast.Call):
                if not (isinstance(x.func, ast.Name) and x.func.id in self.PURE_CALLS and not x.keywords):
                    return False
            elif not isinstance(x, (ast.Name, ast.Constant, ast.BinOp, ast.UnaryOp, ast.Compare, ast.Load, ast.operator, ast.unaryop, ast.cmpop)):
                return False
        return True

    def mergeable_if(self, st):
        for s in list(st.body) + list(st.orelse):
            if isinstance(s, ast.Assign):
                if not (len(s.targets) == 1 and isinstance(s.targets[0], ast.Name) and self.pure_expr(s.value)):
                    return False
            elif isinstance(s, ast.AugAssign):
                if not (isinstance(s.target, ast.Name) and self.pure_expr(s.value)):
                    return False
            elif isinstance(s, ast.Expr):
                v = s.value
                if not (isinstance(v, ast.Call) and ((isinstance(v.func, ast.Name) and v.func.id == 'print') or
                                                     (getattr(self.ctx, 'warnings_unobserved', False) and      # opt-in: the harness does not look at warnings
                                                      isinstance(v.func, ast.Attribute) and isinstance(v.func.value, ast.Name) and
                                                      v.func.value.id == 'warnings' and v.func.attr == 'warn'))):
                    return False
            elif isinstance(s, ast.If):
                if not (self.pure_expr(s.test) and self.mergeable_if(s)):
                    return False
            elif not isinstance(s, ast.Pass):
                return False
        return True

    def merge_if(self, cz, st, env):
        names = set()
        for s in ast.walk(st):
            if isinstance(s, ast.Assign):
                names.add(s.targets[0].id)
            elif isinstance(s, ast.AugAssign):
                names.add(s.target.id)
        for nm in ('abs', 'max', 'min', 'print'):
            if env.has(nm):
                return False                     # shadowed builtin
        if any(isinstance(x, ast.Attribute) for x in ast.walk(st) if x is not st.test and not any(x is y for y in ast.walk(st.test))):
            # warnings.warn(...) inside the branches: only when `warnings` is the library module (modelled as effect-free, DESIGN 2.1)
            try:
                if not (isinstance(self.lookup('warnings', env), Namespace) and self.lookup('warnings', env).name == 'warnings'):
                    return False
            except Unsupported:
                return False
        UNSET = object()
        base = {n: (env.lookup(n) if env.has(n) else UNSET) for n in names}
        local = {n: env.vars.get(n, UNSET) for n in names}

        def restore():
            for n, v in local.items():
                if v is UNSET:
                    env.vars.pop(n, None)
                else:
                    env.vars[n] = v

        def exec_branch(body):
            for s in body:
                if isinstance(s, (ast.Expr, ast.Pass)):
                    continue                     # print(...): dropped (DESIGN 2.1)
                if isinstance(s, ast.If):
                    c2 = self.ev(s.test, env)
                    if is_sym(c2):
                        c2 = V.simp(V.zbool(c2))
                    if is_sym(c2):
                        if not self.merge_if(c2, s, env):
                            raise _MergeAbort()
                    else:
                        exec_branch(s.body if self.truth(c2) else s.orelse)
                    continue
                self.ex(s, env)

        def run_branch(body):
            exec_branch(body)
            return {n: (env.lookup(n) if env.has(n) else UNSET) for n in names}
        old_nf = getattr(self.ctx, 'no_fork', False)
        self.ctx.no_fork = True
        try:
            tv = run_branch(st.body)
            restore()
            fv = run_branch(st.orelse)
            restore()
        except (_MergeAbort, PyExc, Unsupported):
            restore()
            return False
        finally:
            self.ctx.no_fork = old_nf
        merged = {}
        for n in names:
            a, b = tv[n], fv[n]
            if a is b:
                if a is not UNSET:
                    merged[n] = a
                continue
            if a is UNSET or b is UNSET or not (V.is_scalar(a) and V.is_scalar(b)) or isinstance(a, (str, float)) or isinstance(b, (str, float)) or a is None or b is None:
                return False
            if V.kind(a) != V.kind(b):
                return False                     # python type would depend on the branch (int vs float): keep the fork
            try:
                merged[n] = V.ite(cz, a, b)
            except Exception:
                return False
        for n, v in merged.items():
            env.vars[n] = v
        return True

    def ex_Return(self, st, env):
        raise _Return(self.ev(st.value, env) if st.value is not None else None)

    def ex_Assert(self, st, env):
        c = self.ev(st.test, env)
        self.ctx.on_assert(self, c, st)

    def ex_Raise(self, st, env):
        if st.exc is None:
            cur = env.lookup('__curexc__') if env.has('__curexc__') else None
            if cur is None:
                raise Unsupported('bare raise outside handler')
            raise cur
        # error-message contents are dropped (DESIGN 2.1): only the class is evaluated
        node = st.exc
        if isinstance(node, ast.Call) and isinstance(node.func, ast.Attribute) and node.func.attr == 'with_traceback':
            node = node.func.value
        if isinstance(node, ast.Call):
            fn = node.func
            if isinstance(fn, ast.Call) and isinstance(fn.func, ast.Name) and fn.func.id == 'type':
                # raise type(e)(...)  -> same class as e
                e = self.ev(fn.args[0], env)
                raise PyExc(self.exc_name(e), 're-raised')
            try:
                c = self.ev(fn, env)
            except KeyError:
                raise Unsupported('unknown exception class')
            if isinstance(c, Builtin) and c.name == 'with_traceback':
                raise PyExc(c.fn(), 're-raised')
            raise PyExc(self.exc_name(c), 'raised at line %s' % st.lineno)
        c = self.ev(node, env)
        raise PyExc(self.exc_name(c), 'raised at line %s' % st.lineno)

    def exc_name(self, c):
        if isinstance(c, ExcClass):
            return c.name
        if isinstance(c, ClassInfo):
            return c.name
        if isinstance(c, Obj) and c.tag and c.tag.startswith('exc:'):
            return c.tag[4:]
        if isinstance(c, PyExc):
            return c.cls
        raise Unsupported(f'raise of {c!r}')

    def ex_Try(self, st, env):
        try:
            try:
                self.run(st.body, env)
            except PyExc as e:
                for h in st.handlers:
                    if self.handler_matches(h, e, env):
                        if h.name:
                            env.vars[h.name] = Obj(None, {'cls': e.cls, 'args': (e.msg,)}, tag='exc:' + e.cls)
                        old = env.vars.get('__curexc__')
                        env.vars['__curexc__'] = e
                        try:
                            self.run(h.body, env)
                        finally:
                            env.vars['__curexc__'] = old
                        break
                else:
                    raise
            else:
                self.run(st.orelse, env)
        finally:
            if st.finalbody:
                self.run(st.finalbody, env)

    def handler_matches(self, h, e, env):
        if h.type is None:
            return True
        t = self.ev(h.type, env)
        ts = t if isinstance(t, tuple) else (t,)
        for c in ts:
            if V.exc_isinstance(e.cls, self.exc_name(c)):
                return True
        return False

    def ex_For(self, st, env):
        it = self.ev(st.iter, env)
        if isinstance(it, SymRange) or isinstance(it, SymList):
            return self.sym_for(st, it, env)
        items = self.iterate(it)
        try:
            for x in items:
                self.assign(st.target, x, env)
                try:
                    self.run(st.body, env)
                except _Continue:
                    continue
            else:
                self.run(st.orelse, env)
        except _Break:
            pass

    def static_loop_ordinal(self, st, env):
        """k-th `while` statement (source order) of the function being executed"""
        if not env.has('__fnnode__'):
            return None
        fn = env.lookup('__fnnode__')
        k = 0
        for n in ast.walk(fn):
            if isinstance(n, ast.While):
                pass
        whiles = sorted((n for n in ast.walk(fn) if isinstance(n, ast.While)), key=lambda n: (n.lineno, n.col_offset))
        for k, n in enumerate(whiles):
            if n is st:
                return k
        return None

    def ex_While(self, st, env):
        k = self.static_loop_ordinal(st, env)
        spec = self.loop_specs.get((env.lookup('__qualname__'), k)) if (k is not None and env.has('__qualname__')) else None
        if spec is not None:
            return spec.run_while(self, st, env, k)
        n = 0
        try:
            while self.truth(self.ev(st.test, env)):
                n += 1
                if n > self.ctx.unroll_limit:
                    raise Unsupported(f'while loop without invariant exceeds unroll limit (line {st.lineno})')
                try:
                    self.run(st.body, env)
                except _Continue:
                    continue
            else:
                self.run(st.orelse, env)
        except _Break:
            pass

    def next_loop_ordinal(self, env):
        if env.has('__loopctr__'):
            c = env.lookup('__loopctr__')
            c[0] += 1
            return c[0]
        return 0

    def sym_for(self, st, it, env):
        ordinal = self.next_loop_ordinal(env)
        spec = self.loop_specs.get((env.lookup('__qualname__'), ordinal)) if env.has('__qualname__') else None
        if spec is None:
            raise Unsupported(f'for loop over symbolic range without invariant (line {st.lineno})')
        return spec.run_for(self, st, it, env)

    def ex_Break(self, st, env):
        raise _Break()

    def ex_Continue(self, st, env):
        raise _Continue()

    def ex_FunctionDef(self, st, env):
        env.vars[st.name] = self.decorate(Closure(st, env, self.cur_module(env)), st)

    def decorate(self, clo, st):
        """decorators of plain functions: functools.lru_cache / cache are modelled (memoisation on the argument values: the SAME result object is
        returned again - which matters when callers modify the result in place); any other decorator puts the function out of reach"""
        for d in st.decorator_list:
            txt = ast.unparse(d)
            base = txt.split('(')[0]
            if base in ('functools.lru_cache', 'lru_cache', 'functools.cache', 'cache'):
                clo.memo = {}
            else:
                clo.unsupported_decorator = txt
        return clo

    def ex_With(self, st, env):
        for item in st.items:
            v = self.ev(item.context_expr, env)
            if item.optional_vars is not None:
                self.assign(item.optional_vars, v, env)
        self.run(st.body, env)

    def ex_Delete(self, st, env):
        for t in st.targets:
            if isinstance(t, ast.Name):
                env.vars.pop(t.id, None)
            else:
                raise Unsupported('del of non-name')

    def ex_Global(self, st, env):
        raise Unsupported('global')

    # ---------------------------------------------------------------------------------------- expressions
    def ev(self, n, env):
        m = getattr(self, 'ev_' + type(n).__name__, None)
        if m is None:
            raise Unsupported(f'expression {type(n).__name__}')
        return m(n, env)

    def ev_Constant(self, n, env):
        v = n.value
        if isinstance(v, float):
            if v == float('inf') or v == float('-inf') or v != v:
                return v
            return Fraction(repr(v))
        if isinstance(v, complex):
            return Cx(Fraction(repr(v.real)), Fraction(repr(v.imag)))
        if isinstance(v, bytes):
            return v.decode('latin-1')      # token model: bytes and str are both text tokens (encode/decode are identities)
        return v

    def lookup(self, name, env):
        try:
            return env.lookup(name)
        except KeyError:
            pass
        b = self.lib.builtin(self, name)
        if b is not None:
            return b
        raise Unsupported(f'unknown name {name}')

    def ev_Name(self, n, env):
        return self.lookup(n.id, env)

    def ev_Attribute(self, n, env):
        return self.getattr(self.ev(n.value, env), n.attr)

    def getattr(self, o, attr):
        try:
            return self._getattr(o, attr)
        except PyExc as e:
            if self.depth == 0 and e.cls == 'AttributeError':
                # read by the HARNESS (no interpreted function is active): a contract naming an attribute the object does not have has lost its
                # anchor (renamed private field) - out of reach; an AttributeError inside the code under contract stays an exception of the code
                raise Unsupported(f'contract anchor lost: the contract reads attribute {attr!r}, which the object does not have')
            raise

    def _getattr(self, o, attr):
        if isinstance(o, tuple) and len(o) == 3 and o[0] == 'super':
            _, cls, selfv = o
            mro = selfv.cls.mro() if isinstance(selfv, Obj) and selfv.cls is not None else cls.mro()
            k = mro.index(cls) if cls in mro else -1
            for c in mro[k + 1:]:
                if attr in c.methods:
                    f = c.methods[attr]
                    return BoundMethod(selfv, f[1] if isinstance(f, tuple) else f)
            if attr == '__init__':
                return Builtin('object.__init__', lambda *a, **k: None)
            raise PyExc('AttributeError', f'super has no {attr}')
        if isinstance(o, Obj):
            if attr in o.fields:
                return o.fields[attr]
            if o.cls is not None:
                pr = o.cls.find_prop(attr)
                if pr is not None and 'get' in pr:
                    return self.call(pr['get'], [o])
                f = o.cls.find(attr)
                if f is not None:
                    if isinstance(f, tuple):
                        return f[1] if f[0] == 'static' else BoundMethod(o.cls, f[1])
                    return BoundMethod(o, f)
                try:
                    return o.cls.find_attr(attr)
                except KeyError:
                    pass
                if attr == '__class__':
                    return o.cls
            g = self.lib.obj_attr(self, o, attr)
            if g is not NotImplemented:
                return g
            if o.cls is None and not (o.tag or '').startswith('exc:'):
                # an object of a LIBRARY model (sparse matrix, abstract matrix, file, iterator ...): an attribute the model does not know is a limit of
                # the model, not an AttributeError of the program - the function leaves the supported subset (out of reach), no alarm is raised
                raise Unsupported(f'attribute {attr} of library object <{o.tag}> is not modelled')
            raise PyExc('AttributeError', f'{o!r} has no attribute {attr}')
        if isinstance(o, ClassInfo):
            f = o.find(attr)
            if f is not None:
                if isinstance(f, tuple):
                    return f[1] if f[0] == 'static' else BoundMethod(o, f[1])
                return f
            if attr == '__name__':
                return o.name
            try:
                return o.find_attr(attr)
            except KeyError:
                raise PyExc('AttributeError', attr)
        if isinstance(o, Namespace):
            return self.lib.ns_attr(self, o, attr)
        if isinstance(o, tuple) and len(o) == 2 and o[0] == 'pymodule':
            try:
                return self.resolve_pymoto(o[1], attr)
            except Unsupported:
                m = self.load(o[1])
                if attr in m.globals:
                    return m.globals[attr]
                raise
        return self.lib.value_attr(self, o, attr)

    def setattr(self, o, attr, v):
        if isinstance(o, Obj):
            if o.cls is not None:
                pr = o.cls.find_prop(attr)
                if pr is not None:
                    if 'set' not in pr:
                        raise PyExc('AttributeError', f'cannot set {attr}')
                    self.call(pr['set'], [o, v])
                    return
            self.ctx.on_field_write(o, attr, v)
            o.fields[attr] = v
            return
        raise Unsupported(f'setattr on {type(o).__name__}')

    def ev_Tuple(self, n, env):
        return tuple(self.ev_seq(n.elts, env))

    def ev_List(self, n, env):
        return list(self.ev_seq(n.elts, env))

    def ev_Set(self, n, env):
        return set(self.ev_seq(n.elts, env))

    def ev_seq(self, elts, env):
        out = []
        for e in elts:
            if isinstance(e, ast.Starred):
                out.extend(self.iterate(self.ev(e.value, env)))
            else:
                out.append(self.ev(e, env))
        return out

    def ev_Dict(self, n, env):
        d = {}
        for k, v in zip(n.keys, n.values):
            if k is None:
                d.update(self.ev(v, env))
            else:
                d[self.ev(k, env)] = self.ev(v, env)
        return d

    def ev_UnaryOp(self, n, env):
        v = self.ev(n.operand, env)
        return self.unop(n.op, v)

    def unop(self, op, v):
        if isinstance(op, ast.Not):
            if is_arr(v):
                raise Unsupported('not array')
            return V.not_(v) if (is_sym(v) or isinstance(v, bool)) else (not self.truth(v))
        if is_arr(v):
            return self.lib.arr_unop(self, op, v)
        if isinstance(v, Obj) and v.cls is not None:
            nm = {'USub': '__neg__', 'UAdd': '__pos__', 'Invert': '__invert__'}[type(op).__name__]
            f = v.cls.find(nm)
            if f is not None:
                return self.call(f, [v])
        if isinstance(v, Obj) and v.tag == 'mat':
            from . import matalg as MA_
            if isinstance(op, ast.USub):
                return MA_.wrap(-v.fields['m'], v.fields['kind'])
            if isinstance(op, ast.UAdd):
                return v
        if isinstance(op, ast.USub):
            return V.neg(v)
        if isinstance(op, ast.UAdd):
            return v
        if isinstance(op, ast.Invert):
            if is_sym(v) and z3.is_bool(v):
                return V.not_(v)
            if isinstance(v, bool):
                return not v
            return V.sub(V.neg(v), 1)
        raise Unsupported('unary op')

    def ev_BinOp(self, n, env):
        a = self.ev(n.left, env)
        b = self.ev(n.right, env)
        return self.binop(n.op, a, b)

    OPNAMES = {'Add': ('__add__', '__radd__'), 'Sub': ('__sub__', '__rsub__'), 'Mult': ('__mul__', '__rmul__'),
               'Div': ('__truediv__', '__rtruediv__'), 'MatMult': ('__matmul__', '__rmatmul__'),
               'FloorDiv': ('__floordiv__', '__rfloordiv__'), 'Mod': ('__mod__', '__rmod__'), 'Pow': ('__pow__', '__rpow__')}

    def binop(self, op, a, b):
        on = type(op).__name__
        # user-defined operators on repo classes
        if isinstance(a, Obj) and a.cls is not None and on in self.OPNAMES:
            f = a.cls.find(self.OPNAMES[on][0])
            if f is not None:
                r = self.call(f, [a, b])
                if r is not NotImplemented:
                    return r
        if isinstance(b, Obj) and b.cls is not None and on in self.OPNAMES:
            f = b.cls.find(self.OPNAMES[on][1])
            if f is not None:
                return self.call(f, [b, a])
        if isinstance(a, Obj) or isinstance(b, Obj):
            r = self.lib.obj_binop(self, on, a, b)
            if r is not NotImplemented:
                return r
            raise PyExc('TypeError', f'unsupported operand types for {on}')
        if is_arr(a) or is_arr(b):
            return self.lib.arr_binop(self, on, a, b)
        if isinstance(a, (str, FStr)) and on == 'Mod':
            # printf-style formatting: the text is a token list (template + values); contents of messages are not interpreted
            vals = list(b) if isinstance(b, tuple) else [b]
            return FStr((a.parts if isinstance(a, FStr) else [a]) + [('val', v, '%') for v in vals])
        if isinstance(a, (list, tuple)) or isinstance(b, (list, tuple)):
            if on == 'Add' and type(a) is type(b):
                return a + b
            if on == 'Mult':
                if isinstance(a, (list, tuple)) and isinstance(b, int):
                    return a * b
                if isinstance(b, (list, tuple)) and isinstance(a, int):
                    return b * a
            raise Unsupported(f'sequence op {on}')
        if isinstance(a, (str, FStr)) or isinstance(b, (str, FStr)):
            if on == 'Add':
                return self.str_concat(a, b)
            if on == 'Mult' and isinstance(a, str) and isinstance(b, int):
                return a * b
            if on == 'Mod':
                raise Unsupported('% string formatting')
            raise PyExc('TypeError', 'string operand')
        if a is None or b is None:
            raise PyExc('TypeError', f"unsupported operand type(s) for {on}: NoneType")
        if isinstance(a, set) and isinstance(b, set):
            return {'Sub': a - b, 'BitOr': a | b, 'BitAnd': a & b}[on]
        return self.scalar_binop(on, a, b)

    def str_concat(self, a, b):
        if isinstance(a, str) and isinstance(b, str):
            return a + b
        pa = a.parts if isinstance(a, FStr) else [a]
        pb = b.parts if isinstance(b, FStr) else [b]
        if not isinstance(a, (str, FStr)) or not isinstance(b, (str, FStr)):
            raise PyExc('TypeError', 'can only concatenate str')
        return FStr(list(pa) + list(pb))

    def scalar_binop(self, on, a, b):
        for v in (a, b):
            if isinstance(v, float):
                raise Unsupported('non-finite float arithmetic')
        if on == 'Add':
            return V.add(a, b)
        if on == 'Sub':
            return V.sub(a, b)
        if on == 'Mult':
            return V.mul(a, b)
        if on == 'Div':
            self.ctx.on_division(self, b)
            return V.div(a, b)
        if on == 'FloorDiv':
            self.ctx.on_division(self, b)
            return V.floordiv(a, b)
        if on == 'Mod':
            self.ctx.on_division(self, b)
            return V.mod(a, b)
        if on == 'Pow':
            return V.pw(a, b)
        if on == 'BitAnd':
            return V.and_(a, b)
        if on == 'BitOr':
            return V.or_(a, b)
        if on == 'BitXor':
            return V.cmp('!=', V.zbool(a) if is_sym(a) else bool(a), V.zbool(b) if is_sym(b) else bool(b))
        raise Unsupported(f'binary op {on}')

    def ev_BoolOp(self, n, env):
        # short-circuit with python semantics: returns the deciding operand
        is_and = isinstance(n.op, ast.And)
        v = None
        for i, e in enumerate(n.values):
            v = self.ev(e, env)
            if i == len(n.values) - 1:
                return v
            if is_sym(v) and z3.is_bool(v):
                # purely boolean chain: keep symbolic when the remaining operands are pure
                rest = n.values[i + 1:]
                if all(self.is_pure(r) for r in rest):
                    vals = [v] + [self.ev(r, env) for r in rest]
                    if all((is_sym(x) and z3.is_bool(x)) or isinstance(x, bool) for x in vals):
                        out = vals[0]
                        for x in vals[1:]:
                            out = V.and_(out, x) if is_and else V.or_(out, x)
                        return V.simp(out) if is_sym(out) else out
                    # fall through to forking semantics
                    t = self.truth(v)
                    if is_and and not t:
                        return v
                    if (not is_and) and t:
                        return v
                    # re-evaluate rest under the fork
                    sub = ast.BoolOp(op=n.op, values=rest)
                    return self.ev_BoolOp(sub, env) if len(rest) > 1 else self.ev(rest[0], env)
            t = self.truth(v)
            if is_and and not t:
                return v
            if (not is_and) and t:
                return v
        return v

    def is_pure(self, n):
        for x in ast.walk(n):
            if isinstance(x, (ast.Call, ast.NamedExpr, ast.Await, ast.Yield, ast.Subscript, ast.Attribute)):
                return False
        return True

    def ev_Compare(self, n, env):
        left = self.ev(n.left, env)
        res = True
        for op, c in zip(n.ops, n.comparators):
            right = self.ev(c, env)
            r = self.compare(op, left, right)
            if res is True:
                res = r
            else:
                if is_arr(res) or is_arr(r):
                    raise Unsupported('chained array comparison')
                res = V.and_(res, r)
            if res is False:
                return False
            left = right
        return res

    def compare(self, op, a, b):
        on = type(op).__name__
        if on in ('Is', 'IsNot'):
            r = self.identical(a, b)
            return r if on == 'Is' else (not r)
        if on in ('In', 'NotIn'):
            r = self.contains(b, a)
            return r if on == 'In' else V.not_(r)
        sym = {'Lt': '<', 'LtE': '<=', 'Gt': '>', 'GtE': '>=', 'Eq': '==', 'NotEq': '!='}[on]
        if is_arr(a) or is_arr(b):
            return self.lib.arr_compare(self, sym, a, b)
        if isinstance(a, Obj) or isinstance(b, Obj):
            if sym == '==':
                return a is b
            if sym == '!=':
                return a is not b
            raise Unsupported('ordering of objects')
        if isinstance(a, (tuple, list)) and isinstance(b, (tuple, list)):
            if sym in ('==', '!='):
                if len(a) != len(b):
                    return sym == '!='
                r = True
                for x, y in zip(a, b):
                    r = V.and_(r, self.compare(ast.Eq(), x, y))
                return r if sym == '==' else V.not_(r)
            raise Unsupported('sequence ordering')
        if isinstance(a, (TypeTag, ClassInfo, ExcClass, Namespace, Builtin)) or isinstance(b, (TypeTag, ClassInfo, ExcClass, Namespace, Builtin)):
            same = (a is b) or (isinstance(a, TypeTag) and isinstance(b, TypeTag) and a.name == b.name)
            return same if sym == '==' else (not same)
        if a is Ellipsis or b is Ellipsis:
            return (a is b) if sym == '==' else (a is not b)
        if isinstance(a, (dict, set, slice)) or isinstance(b, (dict, set, slice)):
            return (a == b) if sym == '==' else (a != b)
        if isinstance(a, float) or isinstance(b, float):
            return self.lib.cmp_inf(sym, a, b)
        return V.cmp(sym, a, b)

    def identical(self, a, b):
        if a is None or b is None:
            return a is b
        if isinstance(a, bool) or isinstance(b, bool):
            return a is b
        if a is Ellipsis or b is Ellipsis:
            return a is b
        if isinstance(a, (Obj, CArr, LArr, list, dict, ClassInfo, Closure)) or isinstance(b, (Obj, CArr, LArr, list, dict, ClassInfo, Closure)):
            if isinstance(a, CArr) and isinstance(b, CArr):
                return a is b or (a.data is b.data)
            return a is b
        if isinstance(a, TypeTag) and isinstance(b, TypeTag):
            return a.name == b.name
        if isinstance(a, int) and isinstance(b, int):
            return a == b
        raise Unsupported(f'identity of {type(a).__name__} and {type(b).__name__}')

    def contains(self, cont, x):
        if isinstance(cont, str):
            if isinstance(x, str):
                return x in cont
            raise Unsupported('symbolic in str')
        if isinstance(cont, dict):
            return x in cont
        if isinstance(cont, (list, tuple, set)):
            r = False
            for c in cont:
                if isinstance(c, (Obj, ClassInfo, TypeTag)) or isinstance(x, (Obj, ClassInfo, TypeTag)):
                    e = self.identical(c, x)
                elif isinstance(c, str) or isinstance(x, str) or c is None or x is None:
                    e = (c == x) if type(c) is type(x) or (c is None) or (x is None) else False
                else:
                    e = self.compare(ast.Eq(), c, x)
                r = V.or_(r, e)
                if r is True:
                    return True
            return r
        if is_arr(cont):
            return self.lib.arr_contains(self, cont, x)
        raise Unsupported(f'in {type(cont).__name__}')

    def ev_IfExp(self, n, env):
        c = self.ev(n.test, env)
        if is_sym(c) and self.is_pure(n.body) and self.is_pure(n.orelse):
            a, b = self.ev(n.body, env), self.ev(n.orelse, env)
            if V.is_scalar(a) and V.is_scalar(b) and (is_sym(a) or is_sym(b)):
                return V.ite(V.zbool(c), a, b)
        if self.truth(c):
            return self.ev(n.body, env)
        return self.ev(n.orelse, env)

    def ev_Lambda(self, n, env):
        return Closure(n, env, self.cur_module(env))

    def ev_Call(self, n, env):
        # super()
        if isinstance(n.func, ast.Name) and n.func.id == 'super' and not n.args:
            cls = env.lookup('__class__')
            selfv = env.lookup('__self__')
            return ('super', cls, selfv)
        f = self.ev(n.func, env)
        args = []
        for a in n.args:
            if isinstance(a, ast.Starred):
                args.extend(self.iterate(self.ev(a.value, env)))
            else:
                args.append(self.ev(a, env))
        kwargs = {}
        for k in n.keywords:
            if k.arg is None:
                kwargs.update(self.ev(k.value, env))
            else:
                kwargs[k.arg] = self.ev(k.value, env)
        self.ctx.cur_line = getattr(n, 'lineno', self.ctx.cur_line)
        return self.call(f, args, kwargs)

    def ev_Starred(self, n, env):
        raise Unsupported('starred expression')

    def ev_Subscript(self, n, env):
        o = self.ev(n.value, env)
        idx = self.ev_index(n.slice, env)
        return self.getitem(o, idx)

    def ev_index(self, s, env):
        if isinstance(s, ast.Slice):
            return slice(self.ev(s.lower, env) if s.lower else None, self.ev(s.upper, env) if s.upper else None,
                         self.ev(s.step, env) if s.step else None)
        if isinstance(s, ast.Tuple):
            return tuple(self.ev_index(e, env) for e in s.elts)
        return self.ev(s, env)

    def ev_Slice(self, s, env):
        return self.ev_index(s, env)

    def getitem(self, o, idx):
        if isinstance(o, (list, tuple, str)):
            if isinstance(idx, slice):
                if any(is_sym(x) for x in (idx.start, idx.stop, idx.step)):
                    raise Unsupported('symbolic slice of python sequence')
                return o[idx]
            if is_sym(idx):
                idx = V.simp(idx)
            if is_sym(idx):
                # select over a concrete list by forking on the index value
                for k in range(len(o)):
                    if self.truth(V.cmp('==', idx, k)):
                        return o[k]
                for k in range(1, len(o) + 1):
                    if self.truth(V.cmp('==', idx, -k)):
                        return o[-k]
                raise PyExc('IndexError', 'list index out of range')
            if isinstance(idx, (int, np.integer)) and not isinstance(idx, bool) or isinstance(idx, bool):
                try:
                    return o[int(idx)]
                except IndexError:
                    raise PyExc('IndexError', 'index out of range')
            if isinstance(idx, Fraction):
                raise PyExc('TypeError', 'list indices must be integers')
            raise Unsupported(f'index {type(idx).__name__} on sequence')
        if isinstance(o, dict):
            try:
                return o[idx]
            except KeyError:
                raise PyExc('KeyError', str(idx))
        if isinstance(o, SymList):
            return o.getitem(self, idx)
        if is_arr(o):
            return self.lib.arr_getitem(self, o, idx)
        if isinstance(o, Obj):
            if o.cls is not None:
                f = o.cls.find('__getitem__')
                if f is not None:
                    return self.call(f, [o, idx])
            r = self.lib.obj_getitem(self, o, idx)
            if r is not NotImplemented:
                return r
        if V.is_scalar(o):
            raise PyExc('TypeError', 'scalar is not subscriptable')
        if o is None:
            raise PyExc('TypeError', "'NoneType' object is not subscriptable")
        raise Unsupported(f'subscript of {type(o).__name__}')

    def setitem(self, o, idx, v, aug=False):
        if isinstance(o, list):
            if isinstance(idx, slice):
                o[idx] = list(v)
                return
            if is_sym(idx):
                raise Unsupported('symbolic list store')
            try:
                o[int(idx)] = v
            except IndexError:
                raise PyExc('IndexError', 'list assignment index out of range')
            return
        if isinstance(o, dict):
            o[idx] = v
            return
        if is_arr(o):
            return self.lib.arr_setitem(self, o, idx, v, aug=aug)
        if isinstance(o, SymList):
            return o.setitem(self, idx, v)
        if isinstance(o, Obj):
            if o.cls is not None:
                f = o.cls.find('__setitem__')
                if f is not None:
                    return self.call(f, [o, idx, v])
            r = self.lib.obj_setitem(self, o, idx, v)
            if r is not NotImplemented:
                return r
        if isinstance(o, tuple):
            raise PyExc('TypeError', 'tuple does not support item assignment')
        if V.is_scalar(o) or o is None:
            raise PyExc('TypeError', 'object does not support item assignment')
        raise Unsupported(f'item assignment on {type(o).__name__}')

    def iterate(self, v):
        if isinstance(v, (list, tuple)):
            return list(v)
        if isinstance(v, (set, frozenset)):
            return list(v)
        if isinstance(v, dict):
            return list(v.keys())
        if isinstance(v, range):
            return list(v)
        if isinstance(v, str):
            return list(v)
        if isinstance(v, CArr):
            if v.ndim == 0:
                raise PyExc('TypeError', 'iteration over a 0-d array')
            return [self.lib.arr_getitem(self, v, i) for i in range(v.shape[0])]
        if isinstance(v, LArr):
            n = V.simp(v.shape[0]) if is_sym(v.shape[0]) else v.shape[0]
            if isinstance(n, int):
                return [self.lib.arr_getitem(self, v, i) for i in range(n)]
            raise Unsupported('iteration over symbolic-length array')
        if isinstance(v, Obj) and v.tag == 'iter':
            return list(v.fields['items'])
        if isinstance(v, Obj):
            r = self.lib.obj_iter(self, v)
            if r is not NotImplemented:
                return r
        if isinstance(v, SymRange):
            lo, hi = V.simp(v.lo), V.simp(v.hi)
            if isinstance(lo, int) and isinstance(hi, int):
                return list(range(lo, hi))
        raise Unsupported(f'iteration over {type(v).__name__}')

    def ev_ListComp(self, n, env):
        out = []
        self.comp(n.generators, 0, env, lambda e: out.append(self.ev(n.elt, e)))
        return out

    def ev_GeneratorExp(self, n, env):
        out = []
        self.comp(n.generators, 0, env, lambda e: out.append(self.ev(n.elt, e)))
        return Obj(None, {'items': out}, tag='iter')

    def ev_SetComp(self, n, env):
        out = []
        self.comp(n.generators, 0, env, lambda e: out.append(self.ev(n.elt, e)))
        return set(out)

    def ev_DictComp(self, n, env):
        out = {}

        def add(e):
            out[self.ev(n.key, e)] = self.ev(n.value, e)
        self.comp(n.generators, 0, env, add)
        return out

    def comp(self, gens, k, env, emit):
        if k == len(gens):
            emit(env)
            return
        g = gens[k]
        it = self.ev(g.iter, env)
        if isinstance(it, SymList) or isinstance(it, SymRange):
            raise Unsupported('comprehension over symbolic-length sequence (needs contract)')
        for x in self.iterate(it):
            e2 = Env(env)
            self.assign(g.target, x, e2)
            if all(self.truth(self.ev(c, e2)) for c in g.ifs):
                self.comp(gens, k + 1, e2, emit)

    def ev_JoinedStr(self, n, env):
        parts = []
        for p in n.values:
            if isinstance(p, ast.Constant):
                parts.append(p.value)
            else:
                v = self.ev(p.value, env)
                fmt = None
                if p.format_spec is not None:
                    fs = self.ev(p.format_spec, env)
                    fmt = fs if isinstance(fs, str) else repr(fs)
                parts.append(self.lib.format_value(self, v, fmt, p.conversion))
        flat = []
        for p in parts:
            if isinstance(p, FStr):
                flat.extend(p.parts)
            else:
                flat.append(p)
        merged = []
        for p in flat:
            if isinstance(p, str) and merged and isinstance(merged[-1], str):
                merged[-1] += p
            else:
                merged.append(p)
        if all(isinstance(p, str) for p in merged):
            return ''.join(merged)
        return FStr(merged)

    def ev_FormattedValue(self, n, env):
        v = self.ev(n.value, env)
        return self.lib.format_value(self, v, None, n.conversion)

    def ev_NamedExpr(self, n, env):
        v = self.ev(n.value, env)
        env.vars[n.target.id] = v
        return v


# ------------------------------------------------------------------------------------------------ symbolic sequences
class SymRange:
    def __init__(self, lo, hi):
        self.lo, self.hi = lo, hi


class SymList:
    """list of symbolic length: (length, element function position -> value)"""
    def __init__(self, length, elem, name='list'):
        self.length, self.elem, self.name = length, elem, name

    def getitem(self, it, idx):
        if isinstance(idx, slice):
            raise Unsupported('slice of symbolic list')
        it.ctx.safety('list_index_in_range', V.and_(V.cmp('>=', idx, 0), V.cmp('<', idx, self.length)))
        return self.elem(idx)

    def setitem(self, it, idx, v):
        old = self.elem
        self.elem = lambda i, old=old, idx=idx, v=v: _ite_val(V.cmp('==', i, idx), v, old(i))


def _ite_val(c, a, b):
    if not is_sym(c):
        return a if c else b
    return V.ite(c, a, b)


class _Summaries(dict):
    """callee contracts installed by a harness.  A contract for a function the current sources do not define (renamed, removed) has lost its
    anchor: installing it puts the harness out of reach instead of silently executing the renamed body without its contract."""
    def __init__(self, it, initial):
        super().__init__(initial)
        self.it = it

    def __setitem__(self, key, fn):
        if isinstance(key, str) and ':' in key:
            self.it.get_function(key)
        super().__setitem__(key, fn)

    def setdefault(self, key, fn=None):
        if key not in self:
            self[key] = fn
        return self[key]

    def update(self, *a, **k):
        for key, fn in dict(*a, **k).items():
            self[key] = fn


class LoopSpec:
    """inductive invariant for a `while` loop (keyed by function and the loop's source ordinal).

    havoc(ctx, env): rebinds every variable the loop body assigns to a fresh symbolic value
    invariant(ctx, env) -> formula over the current bindings
    Obligations generated:  <name>.init  (holds on entry),  <name>.preserved  (from an arbitrary state with invariant and guard, one body
    execution re-establishes it).  Afterwards execution continues from an arbitrary state satisfying invariant and not guard (partial correctness)."""
    def __init__(self, name, havoc, invariant, executes_at_least_once=None, on_exit=None):
        self.name, self.havoc, self.invariant = name, havoc, invariant
        self.executes_at_least_once = executes_at_least_once
        self.on_exit = on_exit            # callback(ctx, env): obligations about the state in which the loop is left

    def _cb(self, fn, *a):
        """a loop contract names locals of the function; a local that no longer exists (renamed) means the contract lost its anchor: out of reach"""
        try:
            return fn(*a)
        except KeyError as e:
            raise Unsupported(f'contract anchor lost: the loop contract {self.name!r} names local {e.args[0]!r}, which the function does not bind')

    def _havoc(self, ctx, env, phase, assigned):
        before = dict(env.vars)
        self._cb(self.havoc, ctx, env, phase)
        changed = {k for k in env.vars if k not in before or env.vars[k] is not before[k]}
        left = sorted(assigned - changed)
        if left:
            # soundness of the loop rule: every local the body assigns must be arbitrary at the loop head
            raise Unsupported(f'contract anchor lost: the loop body assigns {left}, which the loop contract {self.name!r} does not havoc')

    def run_while(self, it, st, env, k):
        ctx = it.ctx
        if st.orelse:
            raise Unsupported('while/else with invariant')
        assigned = {n.id for b in st.body for n in ast.walk(b) if isinstance(n, ast.Name) and isinstance(n.ctx, ast.Store)}
        ctx.prove(f'{self.name}.init', self._cb(self.invariant, ctx, env, 'init'), kind='loop')
        if self.executes_at_least_once:
            g0 = it.ev(st.test, env)
            ctx.prove(f'{self.name}.entered', V.zbool(g0) if is_sym(g0) else bool(g0), kind='loop')
        with ctx.scope():
            self._havoc(ctx, env, 'pre', assigned)
            ctx.assume(self._cb(self.invariant, ctx, env, 'pre'))
            g = it.ev(st.test, env)
            ctx.assume(V.zbool(g) if is_sym(g) else (z3.BoolVal(True) if it.truth(g) else z3.BoolVal(False)))
            try:
                it.run(st.body, env)
            except (_Break, _Continue):
                raise Unsupported('break/continue inside a loop with invariant')
            ctx.prove(f'{self.name}.preserved', self._cb(self.invariant, ctx, env, 'post'), kind='loop')
        self._havoc(ctx, env, 'exit', assigned)
        ctx.assume(self._cb(self.invariant, ctx, env, 'exit'))
        g = it.ev(st.test, env)
        ctx.assume(V.not_(V.zbool(g)) if is_sym(g) else z3.BoolVal(not it.truth(g)))
        if self.on_exit:
            self._cb(self.on_exit, ctx, env)
