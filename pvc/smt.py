"""Discharge of obligations: z3 5.x (python API) first, then cvc5 / z3 4.8 CLI on `unknown`."""
import os
import subprocess
import tempfile
import time
import z3

Z3_OLD = '/usr/bin/z3'
CVC5 = '/usr/bin/cvc5'


def to_smt2(formulas, logic=None):
    s = z3.Solver()
    for f in formulas:
        s.add(f)
    txt = s.to_smt2()
    return txt


def solve(formulas, timeout_ms=20000, want_model=True, fallback=True, tactics=True):
    """check satisfiability of the conjunction.  returns dict(status, backend, time, model)"""
    t0 = time.time()
    s = z3.Solver()
    s.set('timeout', int(timeout_ms))
    for f in formulas:
        s.add(f)
    r = s.check()
    res = {'status': str(r), 'backend': 'z3-%s' % z3.get_version_string(), 'time': time.time() - t0, 'model': None}
    if r == z3.sat and want_model:
        try:
            m = s.model()
            res['model'] = {str(d): str(m[d]) for d in m.decls() if d.arity() == 0}
            res['model_obj'] = m
        except Exception:
            pass
        return res
    if r == z3.unsat:
        return res
    res['reason'] = s.reason_unknown()
    if tactics:
        # second attempt: nonlinear tactic portfolio
        for tname in ('qfnra-nlsat', 'default'):
            try:
                g = z3.Goal()
                for f in formulas:
                    g.add(f)
                tac = z3.TryFor(z3.Then('simplify', 'solve-eqs', 'smt') if tname == 'default' else
                                z3.Then('simplify', 'purify-arith', 'qfnra-nlsat'), int(min(timeout_ms, 10000)))
                s2 = tac.solver()
                for f in formulas:
                    s2.add(f)
                r2 = s2.check()
                if r2 != z3.unknown:
                    res.update(status=str(r2), backend=f'z3-tactic-{tname}', time=time.time() - t0)
                    if r2 == z3.sat:
                        try:
                            m = s2.model()
                            res['model'] = {str(d): str(m[d]) for d in m.decls() if d.arity() == 0}
                        except Exception:
                            pass
                    return res
            except z3.Z3Exception:
                continue
    if fallback:
        txt = to_smt2(formulas)
        fb_ms = min(timeout_ms, 20000)
        for name, cmd in (('cvc5-1.0', [CVC5, '--tlimit=%d' % fb_ms, '--nl-ext-tplanes']), ('z3-4.8', [Z3_OLD, '-T:%d' % max(1, fb_ms // 2000)])):
            if not os.path.exists(cmd[0]):
                continue
            with tempfile.NamedTemporaryFile('w', suffix='.smt2', delete=False, dir=os.environ.get('PVC_TMP', None)) as f:
                f.write(txt)
                path = f.name
            try:
                out = subprocess.run(cmd + [path], capture_output=True, text=True, timeout=fb_ms / 1000 + 10).stdout.strip().splitlines()
                first = out[0].strip() if out else 'unknown'
            except subprocess.TimeoutExpired:
                first = 'unknown'
            finally:
                os.unlink(path)
            if first in ('sat', 'unsat'):
                res.update(status=first, backend=name, time=time.time() - t0)
                return res
    res['time'] = time.time() - t0
    return res
