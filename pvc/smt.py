"""Discharge of obligations: z3 5.x (python API) first, then cvc5 / z3 4.8 CLI on `unknown`."""
import os
import subprocess
import tempfile
import time
import z3

Z3_OLD = '/usr/bin/z3'
CVC5 = '/usr/bin/cvc5'


def to_smt2(formulas, logic=None):
    s = z3.Solver()
    for f in formulas:
        s.add(f)
    txt = s.to_smt2()
    return txt


def solve(formulas, timeout_ms=20000, want_model=True, fallback=True, tactics=True):
    """check satisfiability of the conjunction.  returns dict(status, backend, time, model)"""
    t0 = time.time()
    s = z3.Solver()
    s.set('timeout', int(timeout_ms))
    for f in formulas:
        s.add(f)
    r = s.check()
    res = {'status': str(r), 'backend': 'z3-%s' % z3.get_version_string(), 'time': time.time() - t0, 'model': None}
    if r == z3.sat and want_model:
        try:
            m = s.model()
            res['model'] = {str(d): str(m[d]) for d in m.decls() if d.arity() == 0}
            res['model_obj'] = m
        except Exception:
            pass
        return res
    if r == z3.unsat:
        return res
    res['reason'] = s.reason_unknown()
    if tactics:
        # second attempt: nonlinear tactic portfolio
        for tname in ('qfnra-nlsat', 'default'):
            try:
                g = z3.Goal()
                for f in formulas:
                    g.add(f)
                tac = z3.TryFor(z3.Then('simplify', 'solve-eqs', 'smt') if tname == 'default' else
                                z3.Then('simplify', 'purify-arith', 'qfnra-nlsat'), int(min(timeout_ms, 10000)))
                s2 = tac.solver()
                for f in formulas:
                    s2.add(f)
                r2 = s2.check()
                if r2 != z3.unknown:
                    res.update(status=str(r2), backend=f'z3-tactic-{tname}', time=time.time() - t0)
                    if r2 == z3.sat:
                        try:
                            m = s2.model()
                            res['model'] = {str(d): str(m[d]) for d in m.decls() if d.arity() == 0}
                        except Exception:
                            pass
                    return res
            except z3.Z3Exception:
                continue
    if fallback:
        txt = to_smt2(formulas)
        fb_ms = min(timeout_ms, 20000)
        for name, cmd in (('cvc5-1.0', [CVC5, '--tlimit=%d' % fb_ms, '--nl-ext-tplanes']), ('z3-4.8', [Z3_OLD, '-T:%d' % max(1, fb_ms // 2000)])):
            if not os.path.exists(cmd[0]):
                continue
            with tempfile.NamedTemporaryFile('w', suffix='.smt2', delete=False, dir=os.environ.get('PVC_TMP', None)) as f:
                f.write(txt)
                path = f.name
            try:
                out = subprocess.run(cmd + [path], capture_output=True, text=True, timeout=fb_ms / 1000 + 10).stdout.strip().splitlines()
                first = out[0].strip() if out else 'unknown'
            except subprocess.TimeoutExpired:
                first = 'unknown'
            finally:
                os.unlink(path)
            if first in ('sat', 'unsat'):
                res.update(status=first, backend=name, time=time.time() - t0)
                return res
    res['time'] = time.time() - t0
    return res


def expand_bounded(f, limit=64):
    """expand  forall q. (lo <= q < hi) => body  with numeric bounds into a finite conjunction (used in refutation mode, where sizes are concrete);
    anything of another shape is returned unchanged"""
    if not z3.is_quantifier(f) or not f.is_forall() or f.num_vars() != 1:
        return f
    body = f.body()
    if not z3.is_implies(body):
        return f
    guard, inner = body.arg(0), body.arg(1)
    q = z3.Var(0, f.var_sort(0))
    lo = hi = None
    parts = list(guard.children()) if z3.is_and(guard) else [guard]
    for p_ in parts:
        p_ = z3.simplify(p_)
        if z3.is_app(p_) and p_.num_args() == 2:
            a, b = p_.arg(0), p_.arg(1)
            k = p_.decl().kind()
            if a.eq(q) and z3.is_int_value(b):
                if k == z3.Z3_OP_GE:
                    lo = b.as_long()
                elif k == z3.Z3_OP_GT:
                    lo = b.as_long() + 1
                elif k == z3.Z3_OP_LT:
                    hi = b.as_long()
                elif k == z3.Z3_OP_LE:
                    hi = b.as_long() + 1
            elif z3.is_not(p_):
                pass
        if z3.is_not(p_) and p_.arg(0).num_args() == 2:
            inner_p = p_.arg(0)
            a, b = inner_p.arg(0), inner_p.arg(1)
            k = inner_p.decl().kind()
            if a.eq(q) and z3.is_int_value(b):          # simplify turns  q < n  into  not (n <= q)
                if k == z3.Z3_OP_GE:
                    hi = b.as_long()
                elif k == z3.Z3_OP_LE:
                    lo = b.as_long() + 1
            elif b.eq(q) and z3.is_int_value(a):
                if k == z3.Z3_OP_LE:
                    hi = a.as_long()
                elif k == z3.Z3_OP_GE:
                    lo = a.as_long() + 1
    if lo is None or hi is None or hi - lo > limit:
        return f
    if hi <= lo:
        return z3.BoolVal(True)
    return z3.And(*[z3.substitute_vars(z3.Implies(guard, inner), z3.IntVal(v)) for v in range(lo, hi)])


def free_consts(formulas):
    seen, out, stack = set(), {}, list(formulas)
    while stack:
        e = stack.pop()
        if e.get_id() in seen:
            continue
        seen.add(e.get_id())
        if z3.is_quantifier(e):
            stack.append(e.body())
            continue
        if z3.is_app(e):
            if e.num_args() == 0 and e.decl().kind() == z3.Z3_OP_UNINTERPRETED:
                out[e.decl().name()] = e
            stack.extend(e.children())
    return out


PALETTE = ['1/2', '1', '3/2', '2', '3', '1/3', '1/4', '2/3', '5/4', '-1/2', '-1', '-2', '1/5', '7/3', '0', '-3/2', '4', '1/10']


def refute_by_sampling(formulas, tries=40, timeout_ms=1500, seed=0, budget_s=40):
    """search for a model of a (nonlinear) query by guessing: random small rationals are substituted for most real constants, the solver decides the
    small remaining query.  Any model found this way is a model of the original query (a guessed part plus a solved part); nothing else is concluded."""
    import random
    rng = random.Random(seed)
    consts = free_consts(formulas)
    reals = sorted(n for n, c in consts.items() if z3.is_real(c))
    if not reals:
        return None
    t0 = time.time()
    for k in range(tries):
        if time.time() - t0 > budget_s:
            break
        keep = set(rng.sample(reals, min(len(reals), rng.choice([0, 1, 2, 3]))))
        sub = [(consts[n], z3.RealVal(rng.choice(PALETTE))) for n in reals if n not in keep]
        fs = [z3.simplify(z3.substitute(f, *sub)) for f in formulas]
        if any(z3.is_false(f) for f in fs):
            continue
        sv = z3.Solver()
        sv.set('timeout', int(timeout_ms))
        for f in fs:
            sv.add(f)
        if sv.check() == z3.sat:
            m = sv.model()
            model = {str(c): str(v) for c, v in sub}
            model.update({str(d): str(m[d]) for d in m.decls() if d.arity() == 0})
            return {'status': 'sat', 'backend': 'z3-%s (model by sampling + solving)' % z3.get_version_string(), 'time': time.time() - t0, 'model': model}
    return None
