"""Verdicts, replay files, known findings, evidence."""
import glob
import re
import hashlib
import json
import os
import subprocess
import sys
import time

from . import runner

HERE = os.path.dirname(os.path.dirname(os.path.abspath(__file__)))
EVID = os.environ.get('PVC_EVIDENCE_DIR') or os.path.join(HERE, 'evidence')
REPO = os.environ.get('PVC_REPO', '/repo')
NATIVE_PY = '/venv/bin/python'

GLOBAL_ASSUMPTIONS = [
    "python int and numpy integer arrays are mathematical integers (no int64/uint32 overflow)",
    "float/complex and numpy floating arrays are reals / pairs of reals; == on them is real equality (no round-off)",
    "the pvc symbolic executor implements the Python/numpy semantics of the supported subset (DESIGN.md 2.2/2.3); it is part of the trusted base",
    "library contracts in pvc/npspec.py, pvc/nplib.py (numpy/scipy/stdlib) are assumed; conformance-tested (bounded), not proved",
    "print/warnings/time/inspect and the text of error messages are modelled as effect-free",
    "termination is not proved (partial correctness)",
    "callee contracts listed under coverage.assumed_callee_contracts are assumed at their call sites (each is proved in the harness of the callee where one exists, see DESIGN.md 9.35)",
    "instance sizes (grids, vector lengths, matrix orders, arities, iteration counts) are enumerated where the executor needs concrete shapes: a stated bound per harness, data always symbolic",
]


def load_known():
    p = os.path.join(HERE, 'known_findings.json')
    if not os.path.exists(p):
        return []
    return json.load(open(p)).get('findings', [])


def load_baseline(prop):
    p = os.path.join(HERE, 'baseline', f'{prop}.json')
    if os.path.exists(p):
        return json.load(open(p))
    return None


def run_native(prop, tier, seed):
    mod = os.path.join(HERE, 'native', f'{prop}.py')
    if not os.path.exists(mod):
        return None
    out = os.path.join(EVID, 'replay', f'{prop}.native.json')
    os.makedirs(os.path.dirname(out), exist_ok=True)
    env = dict(os.environ, PYTHONPATH=f'{REPO}:{HERE}', REPO_ROOT=REPO, MPLBACKEND='Agg', OMP_NUM_THREADS='1', OPENBLAS_NUM_THREADS='1', MKL_NUM_THREADS='1')
    cmd = [NATIVE_PY, os.path.join(HERE, 'native', 'run.py'), prop, '--tier', tier, '--seed', str(seed), '--out', out]
    t0 = time.time()
    try:
        r = subprocess.run(cmd, env=env, capture_output=True, text=True, timeout=3000 if tier == 'thorough' else 900)
    except subprocess.TimeoutExpired:
        return {'error': 'native harness timed out', 'checks': []}
    if r.returncode not in (0,) or not os.path.exists(out):
        return {'error': f'native harness failed rc={r.returncode}: {r.stderr[-2000:]}', 'checks': []}
    d = json.load(open(out))
    d['wall_s'] = time.time() - t0
    return d


def write_replay(prop, name, payload, code=None):
    d = os.path.join(EVID, 'replay')
    os.makedirs(d, exist_ok=True)
    safe = ''.join(c if c.isalnum() or c in '._-' else '_' for c in name)[:120]
    p = os.path.join(d, f'{prop}-{safe}.json')
    if code:
        pp = p[:-5] + '.py'
        open(pp, 'w').write(code)
        payload = dict(payload, replay_py=pp)
    json.dump(payload, open(p, 'w'), indent=1, default=str)
    return p


def run_check(prop, tier, only=None, jobs=None, native=True, proof=True, verbose=False):
    t0 = time.time()
    seed = int(os.environ.get('VERIF_SEED', '0') or 0)
    known = [k for k in load_known() if prop in k.get('properties', [k['property']])]
    open_findings = {k['id']: k for k in known if k.get('status', 'open') == 'open'}
    baseline = load_baseline(prop)
    results = []
    if proof and not os.path.exists(os.path.join(HERE, 'contracts', f'{prop}.py')):
        proof = False          # no contract file yet: only the bounded stand-in runs (such a property is not claimed in MANIFEST.json)
    if proof:
        results = runner.run_property(prop, tier, only=only, jobs=jobs)
    nat = run_native(prop, tier, seed) if native else None
    lean_res = []
    lf = os.path.join(HERE, 'contracts', f'{prop}.lean.txt')
    if proof and os.path.exists(lf) and not only:
        from . import lean
        lean_res = lean.check([l.strip() for l in open(lf) if l.strip() and not l.startswith('#')], force=(tier == 'thorough'))

    violations, undecided, errors, known_hit = [], [], [], {}
    n_obl = n_dis = 0
    backends = {}
    solver_time = 0.0
    functions = {}
    out_of_reach = []
    samples = []
    canaries = 0
    lemma_premises = 0
    for r in sorted(results, key=lambda r: r['harness']):
        for q, info in r.get('executed', {}).items():
            functions.setdefault(q, dict(info, under_contract=q in r['targets']))
            if q in r['targets']:
                functions[q]['under_contract'] = True
        if r['status'] == 'out_of_reach':
            out_of_reach.append(dict(harness=r['harness'], reason=r['reason']))
            continue
        if r['status'] == 'error':
            errors.append(f"{r['harness']}: {r['reason']}")
            continue
        if r.get('hyps_sat') == 'unsat':
            errors.append(f"{r['harness']}: hypotheses are contradictory (vacuous harness)")
            continue
        for ob in r['obligations']:
            solver_time += ob.get('time', 0.0)
            if r['expect'] == 'refuted':
                canaries += 1
                if ob['status'] == 'discharged' and ob['kind'] not in ('lemma-premise', 'safety', 'ghost'):
                    errors.append(f"canary {ob['name']} was discharged: vacuity suspected")
                continue
            fid = r.get('finding')
            if fid:
                if ob['status'] != 'discharged' and ob['kind'] not in ('lemma-premise',):
                    if fid in open_findings:
                        known_hit.setdefault(fid, []).append(ob['name'])
                    else:
                        violations.append(dict(ob=ob, harness=r))
                continue
            n_obl += 1
            if ob['status'] == 'discharged':
                n_dis += 1
                backends[ob['backend'] or 'trivial'] = backends.get(ob['backend'] or 'trivial', 0) + 1
                if len(samples) < 6:
                    samples.append(dict(obligation=ob['name'], kind=ob['kind'], line=ob['line'], backend=ob['backend'], paths=ob['paths']))
            elif ob['status'] == 'refuted':
                violations.append(dict(ob=ob, harness=r))
            else:
                undecided.append(dict(ob=ob, harness=r))
    for lr in lean_res:
        for th in lr['theorems']:
            n_obl += 1
            if lr['status'] == 'accepted':
                n_dis += 1
                backends['lean-4.33+mathlib'] = backends.get('lean-4.33+mathlib', 0) + 1
        if lr['status'] != 'accepted':
            errors.append(f"Lean rejected lemmas/{lr['file']}")
    # obligation-count guard against the committed baseline
    missing = []
    if baseline and proof and not only:
        norm = lambda nm_: re.sub(r'@L\d+', '@L', nm_)     # source line numbers are not part of an obligation's identity
        have = {norm(ob['name']) for r in results for ob in r.get('obligations', [])}
        oor = {o['harness'] for o in out_of_reach}
        for nm in baseline.get('discharged', []):
            if norm(nm) not in have:
                h = nm.split('.', 2)
                if not any(nm.startswith(f"{prop}.{o}.") for o in oor) and not any(nm.startswith(f"{prop}.{e.split(':')[0]}.") for e in errors):
                    missing.append(nm)
    # native (bounded) results
    nat_fail, nat_summary = [], []
    if nat:
        if nat.get('error'):
            errors.append(nat['error'])
        for c in nat.get('checks', []):
            nat_summary.append({k: c[k] for k in ('name', 'cases', 'distinct', 'bound') if k in c})
            for f in c.get('failures', []):
                fid = f.get('finding') or c.get('finding')
                if fid and fid in open_findings:
                    known_hit.setdefault(fid, []).append(c['name'])
                else:
                    nat_fail.append((c, f))
            if c.get('error'):
                errors.append(f"native {c['name']}: {c['error']}")

    lines = []
    rc = 0
    for fid, obs in known_hit.items():
        k = open_findings[fid]
        lines.append(f"KNOWN-FINDING: property={prop} {k['what']} [{fid}; {len(obs)} check(s)]")
    replay_of = {}
    seen_checks = set()
    for c, f in nat_fail:
        if c['name'] in seen_checks:
            continue
        seen_checks.add(c['name'])
        p = write_replay(prop, c['name'], dict(kind='native-contract-failure', check=c['name'], bound=c.get('bound'), failure=f), code=f.get('replay_code'))
        replay_of.setdefault(c.get('covers', c['name']), p)
        lines.append(f"VIOLATION property={prop} replay={p}")
        rc = 1
    baseline_dis = set(baseline.get('discharged', [])) if baseline else set()
    if len(violations) > 6:
        lines.append(f"NOTE {len(violations)} obligations refuted; the first 6 are reported as VIOLATION lines, all are listed in the evidence file")
    for v in violations[:6]:
        ob, r = v['ob'], v['harness']
        # replay of the verifier's counter-model on the real code, where the harness can turn the model into concrete inputs
        code, replayed, rinfo = None, False, None
        spec = runner.HARNESSES.get((prop, r['harness'])) or {}
        if spec.get('replay') and ob.get('model'):
            try:
                code = spec['replay'](ob['name'], dict(ob['model']))
            except Exception as e:
                rinfo = {'error': f'replay builder failed: {e!r}'}
        payload = dict(kind='obligation-refuted', obligation=ob['name'], line=ob.get('line'), backend=ob.get('backend'),
                       counter_model=ob.get('model'), path=ob.get('path'), harness_doc=r.get('doc'), targets=r['targets'],
                       native_replays=[replay_of[k] for k in replay_of])
        p = write_replay(prop, ob['name'], payload, code=code)
        if code:
            env = dict(os.environ, PYTHONPATH=f'{REPO}:{HERE}', REPO_ROOT=REPO, MPLBACKEND='Agg', OMP_NUM_THREADS='1', OPENBLAS_NUM_THREADS='1')
            try:
                rr = subprocess.run([NATIVE_PY, p[:-5] + '.py'], env=env, capture_output=True, text=True, timeout=300)
                replayed = rr.returncode != 0
                rinfo = {'rc': rr.returncode, 'tail': (rr.stdout + rr.stderr)[-1200:]}
            except subprocess.TimeoutExpired:
                rinfo = {'error': 'native replay timed out'}
        if rinfo is not None:
            payload['counter_model_replayed_on_real_code'] = dict(rinfo, reproduces=replayed)
            p = write_replay(prop, ob['name'], payload, code=code)
        tail = '' if (nat_fail or replayed) else ' no-failing-input-found'
        lines.append(f"VIOLATION property={prop} replay={p}{tail}")
        rc = 1
    if len(undecided) > 8:
        lines.append(f"NOTE {len(undecided)} obligations undecided; the first 8 are listed, all are in the evidence file")
    for u in undecided[:8]:
        ob, r = u['ob'], u['harness']
        # an undischarged obligation is *undecided*, never a violation by itself (DESIGN 3.1/3.3): the bounded run-time contracts searched for a
        # failing input; if they found one it is reported above (with replay) and the obligation is attached to it, otherwise exit 2.
        was = ' (discharged on the unchanged tree)' if ob['name'] in baseline_dis else ''
        lines.append(f"UNDECIDED property={prop} obligation={ob['name']} solver={ob['status']} ({ob.get('reason')}){was}")
    if undecided and rc != 1:
        rc = 2
    if missing and rc == 0:
        errors.append(f"{len(missing)} baseline obligations were not generated, e.g. {missing[:3]}")
    if errors:
        for e in errors[:5]:
            lines.append(f"ERROR {e[:1500]}")
        if len(errors) > 5:
            lines.append(f"ERROR ... and {len(errors) - 5} more harness errors")
        if rc == 0:
            rc = 3
    for o in out_of_reach:
        lines.append(f"OUT-OF-REACH {prop}.{o['harness']}: {o['reason']} (bounded run-time contract stands in)")
    if proof and n_obl == 0 and rc == 0 and not only and not out_of_reach:
        lines.append("ERROR zero obligations generated")
        rc = 3
    for l in lines:
        print(l)
    wall = time.time() - t0
    fn_list = [dict(function=q, **info) for q, info in sorted(functions.items())]
    bounded_cases = sum(c.get('cases', 0) for c in nat_summary)
    ev = {
        'property_id': prop, 'tier': tier, 'seed': seed, 'level': 'proof',
        'coverage': {
            'obligations': n_obl, 'discharged': n_dis,
            'checker_cmd': f"./check {prop} --{tier}",
            'trusted_base': ["pvc symbolic executor (/verif/pvc: interp.py arrays.py values.py)", "library contracts pvc/npspec.py pvc/nplib.py",
                             "z3 5.1 / cvc5 1.0 / z3 4.8", "Lean 4.33 + Mathlib for lemmas under /verif/lemmas (where used)",
                             "normalisers for polynomial identities: z3 simplify(som) and sympy.expand (contracts/C01.py poly_zero / poly_zero_full)",
                             "mpmath.iv interval arithmetic and random sampling are used ONLY to validate counter-models (pvc/ieval.py, smt.refute_by_sampling): nothing is discharged by them",
                             "lemma instance schemas in contracts/common.py (euclid, mul_mono) correspond to lemmas/int_lemmas.smt2"],
            'samples': samples,
            'functions_under_contract': [f for f in fn_list if f.get('under_contract')],
            'functions_executed_inside_callers': [f['function'] for f in fn_list if not f.get('under_contract')],
            'harnesses': len(results), 'paths': sum(r.get('paths', 0) for r in results),
            'obligations_by_backend': backends, 'solver_time_s': round(solver_time, 2),
            'canary_obligations_checked': canaries,
            'lean_lemmas': lean_res,
            'refuted': [v['ob']['name'] for v in violations],
            'out_of_reach': out_of_reach, 'undecided': [u['ob']['name'] for u in undecided],
            'bounded_standins': {'label': 'bounded (never counted as proved)', 'checks': nat_summary, 'cases': bounded_cases},
            'known_findings_matched': {k: v for k, v in known_hit.items()},
            'assumed_callee_contracts': sorted({q for r in results for q in r.get('assumed_callee_contracts', [])}),
            'ghost_reads_of_locals': sorted({q for r in results for q in r.get('ghost_reads_of_locals', [])}),
            'precondition_assumptions': sum(r.get('assume_calls', 0) for r in results),
            'evaluations': n_obl + bounded_cases, 'distinct_nontrivial': n_obl,
            'rule': 'one evaluation per named proof obligation (distinct by name) plus one per bounded native contract case',
        },
        'assumptions': GLOBAL_ASSUMPTIONS + _prop_assumptions(prop),
        'wall_s': round(wall, 2),
        'violations': sum(1 for l in lines if l.startswith('VIOLATION')),
    }
    os.makedirs(EVID, exist_ok=True)
    json.dump(ev, open(os.path.join(EVID, f'{prop}.json'), 'w'), indent=1, default=str)
    print(f"{prop} {tier}: obligations={n_obl} discharged={n_dis} undecided={len(undecided)} refuted={len(violations)} "
          f"out_of_reach={len(out_of_reach)} bounded_cases={bounded_cases} native_failures={len(nat_fail)} known={len(known_hit)} wall={wall:.1f}s rc={rc}")
    if verbose:
        for r in sorted(results, key=lambda r: r['harness']):
            print(f"  {r['harness']}: {r['status']} paths={r.get('paths')} t={r.get('time', 0):.1f}s {r.get('reason', '')[-700:]}")
            for ob in r.get('obligations', []):
                if ob['status'] != 'discharged' or verbose:
                    print(f"     {ob['status']:10s} {ob['name']} [{ob.get('backend')}] {ob.get('time', 0):.2f}s {ob.get('model') if ob['status']=='refuted' else ''}")
            for n in r.get('notes', []) or []:
                print('     note:', n)
    if os.environ.get('PVC_WRITE_BASELINE') and rc == 0 and not only:
        os.makedirs(os.path.join(HERE, 'baseline'), exist_ok=True)
        names = sorted(ob['name'] for r in results if r['expect'] != 'refuted' and not r.get('finding') for ob in r.get('obligations', []) if ob['status'] == 'discharged')
        json.dump({'property': prop, 'discharged': names}, open(os.path.join(HERE, 'baseline', f'{prop}.json'), 'w'), indent=0)
    return rc


def _prop_assumptions(prop):
    p = os.path.join(HERE, 'contracts', f'{prop}.assumptions.txt')
    if os.path.exists(p):
        return [l.strip() for l in open(p) if l.strip()]
    return []
