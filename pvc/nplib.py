"""numpy / scipy function contracts (index level).  Each entry handles concrete-shape (CArr) and, where it is used
with symbolic sizes in /repo, symbolic-shape (LArr) arguments.  Reductions over symbolic ranges give Sigma-terms."""
import functools
import itertools
from fractions import Fraction
import numpy as np
import z3
from . import values as V
from . import arrays as A
from .values import Unsupported, PyExc, Obj, CArr, LArr, Cx, is_sym, is_arr
from .arrays import to_carr, to_larr, elementwise, wrap, uf
from . import npspec as S
from .npspec import np_fn, NP


def I():
    from . import interp
    return interp


def conc(v):
    """simplify to a concrete int if possible"""
    if is_sym(v):
        v = V.simp(v)
    return v


def is_conc_shape(shape):
    return all(isinstance(conc(s), int) for s in shape)


def shape_arg(shape):
    if isinstance(shape, (list, tuple)):
        return tuple(conc(s) for s in shape)
    if isinstance(shape, CArr):
        return tuple(conc(s) for s in shape.data.flat)
    return (conc(shape),)


def full(shape, val, kind):
    shape = shape_arg(shape)
    if is_conc_shape(shape):
        d = np.empty(shape, dtype=object)
        d[...] = val
        return CArr(d, kind)
    return LArr(shape, lambda i: val, kind)


def zero_of(kind):
    return {'bool': False, 'int': 0, 'real': Fraction(0), 'complex': Cx(Fraction(0), Fraction(0))}[kind]


def one_of(kind):
    return {'bool': True, 'int': 1, 'real': Fraction(1), 'complex': Cx(Fraction(1), Fraction(0))}[kind]


def kind_of(v):
    if is_arr(v):
        return v.kind
    if isinstance(v, (list, tuple)):
        return to_carr(v).kind
    return V.kind(v)


def cast(v, kind):
    """astype for a scalar"""
    k = V.kind(v)
    if k == kind:
        return v
    if kind == 'real':
        if k == 'complex':
            return V.real_part(v)      # numpy warns (ComplexWarning) and discards the imaginary part
        return V.to_real(v)
    if kind == 'complex':
        return V.cx(V.to_real(v))
    if kind == 'int':
        if k == 'bool':
            return V.zint(v) if is_sym(v) else int(v)
        if k == 'real':
            return V.trunc_int(v)
    if kind == 'bool':
        return V.zbool(v) if is_sym(v) else bool(v != 0) if not isinstance(v, Cx) else V.zbool(v)
    raise Unsupported(f'cast {k}->{kind}')


def astype(ctx, a, kind):
    if kind is None or (kind_of(a) == kind):
        if isinstance(a, CArr):
            return CArr(a.data.copy(), kind)
        if isinstance(a, LArr):
            c = A.snapshot(a)
            return c
        return a
    r = elementwise(ctx, lambda x: cast(x, kind), a, kind=kind)
    return r


# ------------------------------------------------------------------------------------------------ constructors
@np_fn('zeros')
def np_zeros(it, shape, dtype=None, **k):
    kind = S.kind_from_dtype(dtype) or 'real'
    return full(shape, zero_of(kind), kind)


@np_fn('ones')
def np_ones(it, shape, dtype=None, **k):
    kind = S.kind_from_dtype(dtype) or 'real'
    return full(shape, one_of(kind), kind)


@np_fn('empty')
def np_empty(it, shape, dtype=None, **k):
    return np_zeros(it, shape, dtype)


@np_fn('full')
def np_full(it, shape, val, dtype=None, **k):
    kind = S.kind_from_dtype(dtype) or V.kind(val)
    return full(shape, cast(val, kind), kind)


@np_fn('zeros_like')
def np_zeros_like(it, a, dtype=None, **k):
    if isinstance(a, Obj) and a.tag == 'mat':
        from . import matalg as MA_
        return MA_.wrap(MA_.Mat(), S.kind_from_dtype(dtype) or a.fields['kind'])
    if isinstance(a, Obj) and a.cls is not None:
        raise Unsupported('zeros_like on object')
    kind = S.kind_from_dtype(dtype) or kind_of(a)
    if not is_arr(a) and not isinstance(a, (list, tuple)):
        return zero_of(kind)
    a = a if is_arr(a) else to_carr(a)
    return full(a.shape, zero_of(kind), kind)


@np_fn('ones_like')
def np_ones_like(it, a, dtype=None, **k):
    kind = S.kind_from_dtype(dtype) or kind_of(a)
    if not is_arr(a) and not isinstance(a, (list, tuple)):
        return one_of(kind)
    a = a if is_arr(a) else to_carr(a)
    return full(a.shape, one_of(kind), kind)


@np_fn('empty_like')
def np_empty_like(it, a, dtype=None, **k):
    return np_zeros_like(it, a, dtype)


@np_fn('full_like')
def np_full_like(it, a, val, dtype=None, **k):
    kind = S.kind_from_dtype(dtype) or kind_of(a)
    a = a if is_arr(a) else to_carr(a)
    return full(a.shape, cast(val, kind), kind)


@np_fn('array', 'asarray', 'asanyarray', 'ascontiguousarray')
def np_array(it, a, dtype=None, copy=None, **k):
    kind = S.kind_from_dtype(dtype)
    if isinstance(a, Obj) and a.tag == 'iter':
        a = a.fields['items']
    if isinstance(a, LArr):
        return astype(it.ctx, a, kind) if kind and kind != a.kind else a
    if isinstance(a, CArr):
        if kind and kind != a.kind:
            return astype(it.ctx, a, kind)
        return a           # np.asarray returns the argument; np.array copies (aliasing difference handled by np_array_copy)
    if isinstance(a, (list, tuple)):
        if any(isinstance(x, LArr) for x in a):
            return np_stack(it, list(a), axis=0)
        c = to_carr(a)
        c = CArr(c.data, None)
        if kind:
            c = astype(it.ctx, c, kind)
        elif c.size == 0:
            c._kind = 'real'
        return c
    if V.is_scalar(a):
        c = to_carr(cast(a, kind) if kind else a)
        return c
    if isinstance(a, Obj):
        return a
    raise Unsupported(f'np.array of {type(a).__name__}')


def np_array_copy(it, a, dtype=None, copy=True, **k):
    r = np_array(it, a, dtype)
    if r is a and isinstance(a, CArr):
        return CArr(a.data.copy(), a._kind)
    if r is a and isinstance(a, LArr):
        return A.snapshot(a)
    return r


NP[('np', 'array')] = np_array_copy


@np_fn('arange')
def np_arange(it, *args, dtype=None, **k):
    args = [conc(a) for a in args]
    if all(isinstance(a, int) for a in args):
        return CArr(np.array(list(range(*args)), dtype=object).reshape(-1), 'int')
    if len(args) == 1:
        n = args[0]
        it.ctx.safety('arange_nonneg', V.cmp('>=', n, 0))
        return LArr((n,), lambda i: i[0], 'int', inv=lambda v: v)
    if len(args) == 2:
        lo, hi = args
        n = V.simp(V.ite(V.cmp('>', hi, lo), V.sub(hi, lo), 0))
        return LArr((n,), lambda i, lo=lo: V.add(lo, i[0]), 'int', inv=lambda v, lo=lo: V.sub(v, lo))
    raise Unsupported('symbolic arange with step')


@np_fn('linspace')
def np_linspace(it, lo, hi, num=50, **k):
    num = conc(num)
    if not isinstance(num, int):
        raise Unsupported('symbolic linspace')
    if num == 1:
        return to_carr([V.to_real(lo)])
    return to_carr([V.add(V.to_real(lo), V.mul(V.div(V.sub(hi, lo), num - 1), j)) for j in range(num)])


@np_fn('eye', 'identity')
def np_eye(it, n, m=None, dtype=None, **k):
    n = conc(n)
    m = conc(m) if m is not None else n
    kind = S.kind_from_dtype(dtype) or 'real'
    if isinstance(n, int) and isinstance(m, int):
        d = np.empty((n, m), dtype=object)
        for i in range(n):
            for j in range(m):
                d[i, j] = one_of(kind) if i == j else zero_of(kind)
        return CArr(d, kind)
    return LArr((n, m), lambda i: V.ite(V.cmp('==', i[0], i[1]), one_of(kind), zero_of(kind)), kind)


@np_fn('repeat')
def np_repeat(it, a, reps, axis=None):
    reps = conc(reps)
    if not is_arr(a):
        a = to_carr(a)
    if isinstance(a, CArr) and isinstance(reps, int):
        return CArr(np.repeat(a.data, reps, axis=axis), a._kind)
    a = to_larr(a)
    if axis is None:
        if a.ndim != 1:
            raise Unsupported('repeat flattening of symbolic nd array')
        axis = 0
    axis = axis % a.ndim
    it.ctx.safety('repeat_count_nonneg', V.cmp('>=', reps, 0))
    sh = list(a.shape)
    sh[axis] = V.mul(sh[axis], reps)
    snap = A.snapshot(a)

    def elem(i, snap=snap, axis=axis, reps=reps):
        j = list(i)
        j[axis] = V.floordiv(i[axis], reps)
        return snap.at(*j)
    return LArr(tuple(sh), elem, a.kind)


@np_fn('tile')
def np_tile(it, a, reps):
    reps = conc(reps)
    if not is_arr(a):
        a = to_carr(a)
    if isinstance(a, CArr) and (isinstance(reps, int) or (isinstance(reps, (tuple, list)) and all(isinstance(conc(r), int) for r in reps))):
        return CArr(np.tile(a.data, reps if isinstance(reps, int) else tuple(conc(r) for r in reps)), a._kind)
    if isinstance(reps, (tuple, list)):
        raise Unsupported('symbolic tile with tuple reps')
    a = to_larr(a)
    if a.ndim != 1:
        raise Unsupported('tile of symbolic nd array')
    it.ctx.safety('tile_count_nonneg', V.cmp('>=', reps, 0))
    n = a.shape[0]
    snap = A.snapshot(a)
    return LArr((V.mul(n, reps),), lambda i, snap=snap, n=n: snap.at(V.mod(i[0], n)), a.kind)


@np_fn('meshgrid')
def np_meshgrid(it, *xs, indexing='xy', **k):
    if indexing != 'ij':
        raise Unsupported("meshgrid indexing != 'ij'")
    xs = [x if is_arr(x) else to_carr(x) for x in xs]
    if all(isinstance(x, CArr) for x in xs):
        outs = np.meshgrid(*[x.data for x in xs], indexing='ij')
        return [CArr(np.array(o, dtype=object), x._kind or 'int') for o, x in zip(outs, xs)]
    xs = [A.snapshot(to_larr(x)) for x in xs]
    shape = tuple(x.shape[0] for x in xs)
    return [LArr(shape, (lambda i, x=x, k=k: x.at(i[k])), x.kind) for k, x in enumerate(xs)]


@np_fn('stack')
def np_stack(it, arrs, axis=0, **k):
    arrs = [a if is_arr(a) else to_carr(a) for a in it.iterate(arrs)]
    if all(isinstance(a, CArr) for a in arrs):
        try:
            return CArr(np.stack([a.data for a in arrs], axis=axis))
        except ValueError as e:
            raise PyExc('ValueError', str(e))
    ls = [A.snapshot(to_larr(a)) for a in arrs]
    sh = ls[0].shape
    for l in ls[1:]:
        if len(l.shape) != len(sh):
            raise PyExc('ValueError', 'all input arrays must have the same shape')
        for d1, d2 in zip(sh, l.shape):
            e = V.cmp('==', d1, d2)
            if e is False:
                raise PyExc('ValueError', 'all input arrays must have the same shape')
            if e is not True:
                it.ctx.safety('stack_same_shape', e)
    r = len(sh) + 1
    ax = axis % r
    out_shape = sh[:ax] + (len(ls),) + sh[ax:]

    def elem(i, ls=ls, ax=ax):
        k = i[ax]
        rest = i[:ax] + i[ax + 1:]
        if not is_sym(k):
            return ls[int(k)].at(*rest)
        out = None
        for j in range(len(ls) - 1, -1, -1):
            v = ls[j].at(*rest)
            out = v if out is None else V.ite(V.cmp('==', k, j), v, out)
        return out
    return LArr(out_shape, elem, A._result_kind(ls))


@np_fn('hstack')
def np_hstack(it, arrs, **k):
    items = []
    for a in it.iterate(arrs):
        a = a if is_arr(a) else to_carr(a)
        if isinstance(a, CArr) and a.ndim == 0:
            a = CArr(a.data.reshape(1), a._kind)
        items.append(a)
    if any(a.ndim > 1 for a in items):
        return np_concatenate(it, items, axis=1)
    return np_concatenate(it, items, axis=0)


@np_fn('concatenate')
def np_concatenate(it, arrs, axis=0, **k):
    arrs = [a if is_arr(a) else to_carr(a) for a in it.iterate(arrs)]
    arrs = [CArr(a.data.reshape(1)) if isinstance(a, CArr) and a.ndim == 0 and False else a for a in arrs]
    if all(isinstance(a, CArr) for a in arrs):
        try:
            return CArr(np.concatenate([a.data for a in arrs], axis=axis))
        except ValueError as e:
            raise PyExc('ValueError', str(e))
    ls = [A.snapshot(to_larr(a)) for a in arrs]
    if any(l.ndim != 1 for l in ls):
        raise Unsupported('concatenate of symbolic nd arrays')
    offs = [0]
    for l in ls:
        offs.append(V.add(offs[-1], l.shape[0]))

    def elem(i, ls=ls, offs=offs):
        # first block whose end exceeds i; blocks are only evaluated where the (possibly concrete) comparison allows them to be selected
        def from_block(j):
            if j == len(ls) - 1:
                return ls[j].at(V.sub(i[0], offs[j]))
            c = V.cmp('<', i[0], offs[j + 1])
            c = V.simp(c) if is_sym(c) else c
            if c is True:
                return ls[j].at(V.sub(i[0], offs[j]))
            if c is False:
                return from_block(j + 1)
            return V.ite(c, ls[j].at(V.sub(i[0], offs[j])), from_block(j + 1))
        return from_block(0)
    return LArr((offs[-1],), elem, A._result_kind(ls))


def _tri(which):
    def f(it, a, k=0):
        a = a if is_arr(a) else to_carr(a)
        if not isinstance(a, CArr) or a.ndim != 2:
            raise Unsupported(f'np.{which} on a symbolic-shape array')
        out = a.data.copy()
        for i in range(a.shape[0]):
            for j in range(a.shape[1]):
                if (which == 'tril' and j - i > conc(k)) or (which == 'triu' and j - i < conc(k)):
                    out[i, j] = zero_of(a.kind)
        return CArr(out, a.kind)
    return f


NP[('np', 'tril')] = _tri('tril')
NP[('np', 'triu')] = _tri('triu')


@np_fn('ndindex')
def np_ndindex(it, *shape):
    if len(shape) == 1 and isinstance(shape[0], (tuple, list)):
        shape = tuple(shape[0])
    shape = tuple(conc(d) for d in shape)
    if not all(isinstance(d, int) for d in shape):
        raise Unsupported('np.ndindex over a symbolic shape')
    return [tuple(i) for i in np.ndindex(*shape)]        # C order


@np_fn('ix_')
def np_ix_(it, *seqs):
    """open mesh from 1-D index sequences (numpy's own construction on concrete indices; a symbolic boolean mask is case-split first)"""
    out = []
    for q in seqs:
        q = q if is_arr(q) else to_carr(q)
        q = A.concretise_mask(it.ctx, q)
        if not isinstance(q, CArr) or any(is_sym(v) for v in q.data.flat):
            raise Unsupported('np.ix_ on symbolic indices')
        out.append(np.array([bool(v) for v in q.data], dtype=bool) if q.kind == 'bool' else np.array([int(v) for v in q.data], dtype=np.int64))
    return tuple(CArr(np.array(r, dtype=object), 'int') for r in np.ix_(*out))


@np_fn('array_split')
def np_array_split(it, a, sections, axis=0):
    """contract (integer number of sections k, 1-D): k consecutive views; the first n % k have n // k + 1 entries, the others n // k"""
    a = a if is_arr(a) else to_carr(a)
    k = conc(sections)
    if not isinstance(k, int) or a.ndim != 1 or axis != 0:
        raise Unsupported('array_split form')
    if k <= 0:
        raise PyExc('ValueError', 'number sections must be larger than 0.')
    n = a.shape[0]
    base, rem = V.floordiv(n, k), V.mod(n, k)
    out = []
    for i in range(k):
        lo = V.add(V.mul(i, base), V.minv(i, rem))
        hi = V.add(V.mul(i + 1, base), V.minv(i + 1, rem))
        lo, hi = (V.simp(lo) if is_sym(lo) else lo), (V.simp(hi) if is_sym(hi) else hi)
        out.append(A.arr_getitem(it.ctx, a, slice(lo, hi)))
    return out


@np_fn('vstack')
def np_vstack(it, arrs, **k):
    arrs = [a if is_arr(a) else to_carr(a) for a in it.iterate(arrs)]
    if all(isinstance(a, CArr) for a in arrs):
        return CArr(np.vstack([a.data for a in arrs]))
    if all(a.ndim == 1 for a in arrs):
        return np_stack(it, arrs, axis=0)
    raise Unsupported('vstack of symbolic nd arrays')


@np_fn('kron')
def np_kron(it, a, b):
    a = a if is_arr(a) else to_carr(a)
    b = b if is_arr(b) else to_carr(b)
    if isinstance(a, CArr) and isinstance(b, CArr):
        A_, B_ = a.data, b.data
        nd = max(A_.ndim, B_.ndim)
        A_ = A_.reshape((1,) * (nd - A_.ndim) + A_.shape)
        B_ = B_.reshape((1,) * (nd - B_.ndim) + B_.shape)
        out_shape = tuple(x * y for x, y in zip(A_.shape, B_.shape))
        out = np.empty(out_shape, dtype=object)
        for i in np.ndindex(*out_shape):
            ia = tuple(p // s for p, s in zip(i, B_.shape))
            ib = tuple(p % s for p, s in zip(i, B_.shape))
            out[i] = V.mul(A_[ia], B_[ib])
        return CArr(out)
    la, lb = A.snapshot(to_larr(a)), A.snapshot(to_larr(b))
    nd = max(la.ndim, lb.ndim)
    sa = (1,) * (nd - la.ndim) + la.shape
    sb = (1,) * (nd - lb.ndim) + lb.shape
    out_shape = tuple(V.mul(x, y) for x, y in zip(sa, sb))

    def elem(i, la=la, lb=lb, sa=sa, sb=sb):
        ia = tuple(V.floordiv(p, s) for p, s in zip(i, sb))
        ib = tuple(V.mod(p, s) for p, s in zip(i, sb))
        return V.mul(la.at(*ia[nd - la.ndim:]), lb.at(*ib[nd - lb.ndim:]))
    return LArr(out_shape, elem, A._result_kind([la, lb]))


# ------------------------------------------------------------------------------------------------ element-wise math
def _ew1(fn, kind=None):
    def g(it, a, *rest, out=None, **k):
        if isinstance(a, (list, tuple)):
            a = to_carr(a)
        if isinstance(a, Obj) and a.tag == 'mat' and fn is V.conj:
            from . import matalg as MA_
            return MA_.wrap(a.fields['m'].conj(), a.fields['kind'])
        if isinstance(a, Obj):
            raise Unsupported('ufunc on object')
        r = elementwise(it.ctx, fn, a, kind=kind)
        return r
    return g


def _ew2(fn, kind=None):
    def g(it, a, b, *rest, out=None, **k):
        if rest:
            # numpy binds the third positional argument of a binary ufunc to `out`
            out = rest[0]
        r = elementwise(it.ctx, fn, a, b, kind=kind)
        if out is not None:
            if not is_arr(out):
                raise PyExc('TypeError', 'return arrays must be of ArrayType')
            # result is written into `out` (broadcast must match out's shape) and `out` is returned
            S.assign_inplace(it, out, r)
            return out
        return r
    return g


def _sqrt(x):
    return V.sqrt(x)


NP[('np', 'sqrt')] = _ew1(_sqrt)
NP[('np', 'exp')] = _ew1(V.exp)
NP[('np', 'log')] = _ew1(V.log)
NP[('np', 'abs')] = NP[('np', 'absolute')] = _ew1(V.absv)
NP[('np', 'sign')] = _ew1(V.sign)
NP[('np', 'conj')] = NP[('np', 'conjugate')] = _ew1(V.conj)
NP[('np', 'floor')] = _ew1(lambda x: V.to_real(V.floor(x)))
NP[('np', 'ceil')] = _ew1(lambda x: V.to_real(V.ceil(x)))
NP[('np', 'logical_not')] = _ew1(lambda x: V.not_(V.zbool(x) if is_sym(x) else bool(x)), kind='bool')
NP[('np', 'negative')] = _ew1(V.neg)
NP[('np', 'square')] = _ew1(lambda x: V.mul(x, x))
NP[('np', 'maximum')] = _ew2(V.maxv)
NP[('np', 'minimum')] = _ew2(V.minv)
NP[('np', 'logical_and')] = _ew2(lambda a, b: V.and_(_tb(a), _tb(b)), kind='bool')
NP[('np', 'logical_or')] = _ew2(lambda a, b: V.or_(_tb(a), _tb(b)), kind='bool')
NP[('np', 'add')] = _ew2(V.add)
NP[('np', 'subtract')] = _ew2(V.sub)
NP[('np', 'multiply')] = _ew2(V.mul)
NP[('np', 'divide')] = NP[('np', 'true_divide')] = _ew2(V.div)
NP[('np', 'power')] = _ew2(V.pw)
NP[('np', 'mod')] = NP[('np', 'remainder')] = _ew2(V.mod)
NP[('np', 'floor_divide')] = _ew2(V.floordiv)
NP[('np', 'equal')] = _ew2(lambda a, b: V.cmp('==', a, b), kind='bool')
NP[('np', 'not_equal')] = _ew2(lambda a, b: V.cmp('!=', a, b), kind='bool')
NP[('np', 'less')] = _ew2(lambda a, b: V.cmp('<', a, b), kind='bool')
NP[('np', 'greater')] = _ew2(lambda a, b: V.cmp('>', a, b), kind='bool')
NP[('np', 'less_equal')] = _ew2(lambda a, b: V.cmp('<=', a, b), kind='bool')
NP[('np', 'greater_equal')] = _ew2(lambda a, b: V.cmp('>=', a, b), kind='bool')


def _tb(x):
    if is_sym(x):
        return V.zbool(x)
    if isinstance(x, Cx):
        return V.zbool(x)
    return bool(x != 0)


@np_fn('real')
def np_real(it, a):
    if isinstance(a, Obj):
        return it.getattr(a, 'real')
    if kind_of(a) != 'complex':
        return a if is_arr(a) else (to_carr(a) if isinstance(a, (list, tuple)) else a)   # numpy returns the argument itself for real input
    return elementwise(it.ctx, V.real_part, a, kind='real')


@np_fn('imag')
def np_imag(it, a):
    if isinstance(a, Obj):
        return it.getattr(a, 'imag')
    return elementwise(it.ctx, V.imag_part, a, kind='real')


@np_fn('iscomplexobj')
def np_iscomplexobj(it, a):
    if isinstance(a, Obj):
        if a.cls is not None:
            # numpy looks at .dtype
            dt = it.getattr(a, 'dtype')
            return S.kind_from_dtype(dt) == 'complex'
        if 'kind' in a.fields:
            return a.fields['kind'] == 'complex'
        if a.tag == 'sparse':
            return kind_of(a.fields['dense']) == 'complex'
        raise Unsupported('iscomplexobj of object')
    if a is None or isinstance(a, (str, list, tuple, dict)) and not a:
        return False                      # numpy: objects without a complex dtype / type are not complex
    return kind_of(a) == 'complex'


@np_fn('isrealobj')
def np_isrealobj(it, a):
    return not np_iscomplexobj(it, a)


@np_fn('iscomplex')
def np_iscomplex(it, a):
    return elementwise(it.ctx, lambda x: V.cmp('!=', V.imag_part(x), 0), a, kind='bool')


@np_fn('isscalar')
def np_isscalar(it, a):
    return V.is_scalar(a) or isinstance(a, str)


@np_fn('clip')
def np_clip(it, a, lo, hi, out=None, **k):
    def f(x, l, h):
        return V.minv(V.maxv(x, l), h)
    if lo is None:
        return elementwise(it.ctx, V.minv, a, hi)
    if hi is None:
        return elementwise(it.ctx, V.maxv, a, lo)
    return elementwise(it.ctx, f, a, lo, hi)


@np_fn('where')
def np_where(it, c, a=None, b=None):
    if a is None:
        raise Unsupported('np.where with one argument')
    return elementwise(it.ctx, lambda cc, x, y: V.ite(cc, x, y) if is_sym(cc) else (x if cc else y), c, a, b)


@np_fn('isclose')
def np_isclose(it, a, b, rtol=Fraction(1, 100000), atol=Fraction(1, 100000000), **k):
    """|a - b| <= atol + rtol*|b|  element-wise (over the reals; NaN/inf do not exist in the model)"""
    def f(x, y):
        return V.cmp('<=', V.absv(V.sub(x, y)), V.add(atol, V.mul(rtol, V.absv(y))))
    return elementwise(it.ctx, f, a, b, kind='bool')


@np_fn('allclose')
def np_allclose(it, a, b, rtol=Fraction(1, 100000), atol=Fraction(1, 100000000), **k):
    return np_all(it, np_isclose(it, a, b, rtol, atol))


@np_fn('isfinite')
def np_isfinite(it, a):
    return elementwise(it.ctx, lambda x: True, a, kind='bool')


@np_fn('isnan', 'isinf')
def np_isnan(it, a):
    return elementwise(it.ctx, lambda x: False, a, kind='bool')


# ------------------------------------------------------------------------------------------------ reductions
class Sigma:
    """registry of Sigma-terms: Sum over a symbolic range of a summand function"""
    terms = []


def reduce_axis(ctx, fn, a, axis, init=None, name='sum'):
    """reduce a CArr with python scalar fn"""
    data = a.data
    if axis is None:
        items = list(data.flat)
        if not items:
            if init is None:
                raise PyExc('ValueError', 'zero-size array to reduction operation which has no identity')
            return init
        return functools.reduce(fn, items)
    if isinstance(axis, tuple):
        r = a
        for ax in sorted([x % data.ndim for x in axis], reverse=True):
            r = reduce_axis(ctx, fn, r, ax, init, name)
            if not isinstance(r, CArr):
                return r
        return r
    if data.shape[axis] == 0:
        if init is None:
            raise PyExc('ValueError', 'zero-size array to reduction operation which has no identity')
        out = np.empty(tuple(s for k, s in enumerate(data.shape) if k != axis % data.ndim), dtype=object)
        out[...] = init
        return wrap(out) if out.ndim else out[()]
    r = uf(fn, 2).reduce(data, axis=axis)
    return wrap(r) if isinstance(r, np.ndarray) and r.ndim > 0 else (r[()] if isinstance(r, np.ndarray) else r)


def sym_sum(ctx, summand, lo, hi, name='Sum'):
    """Sigma-term  Sum_{t=lo}^{hi-1} summand(t)  as an uninterpreted partial-sum function with its recursive definition"""
    lo_, hi_ = conc(lo), conc(hi)
    if isinstance(lo_, int) and isinstance(hi_, int):
        return functools.reduce(V.add, [summand(t) for t in range(lo_, hi_)], 0)
    probe = summand(z3.Int('t!probe'))
    real = V.kind(probe) in ('real',)
    if V.kind(probe) == 'complex':
        re = sym_sum(ctx, lambda t: V.real_part(summand(t)), lo, hi, name + '_re')
        im = sym_sum(ctx, lambda t: V.imag_part(summand(t)), lo, hi, name + '_im')
        return Cx(re, im)
    lo_z = V.zint(lo)
    # canonical Sigma-terms: the same summand (syntactically, at a canonical bound variable) and lower bound give the same partial-sum function
    canon = z3.Int('t!canon')
    cterm = summand(canon)
    key = ((V.zreal(cterm) if real else V.zint(cterm)).sexpr(), lo_z.sexpr())
    cache = ctx.__dict__.setdefault('sigma_cache', {})
    if key in cache:
        P = cache[key]
    else:
        P = ctx.fresh_fun(name, z3.IntSort(), z3.RealSort() if real else z3.IntSort())
        cache[key] = P
        t = z3.Int(f't!{next(ctx.fresh_ctr)}')
        term = summand(t)
        term = V.zreal(term) if real else V.zint(term)
        ctx.assume(P(lo_z) == 0)
        ctx.hyps.append(z3.ForAll([t], z3.Implies(t >= lo_z, P(t + 1) == P(t) + term), patterns=[P(t + 1)]))
        ctx.sigma_terms = getattr(ctx, 'sigma_terms', []) + [(P, summand, lo)]
    res = P(V.zint(hi))
    return res


def _reduce_generic(it, a, axis, fn, init, name, larr_handler):
    if isinstance(a, Obj) and a.tag == 'iter':
        a = a.fields['items']
    if isinstance(a, (list, tuple)):
        a = to_carr(a)
    if V.is_scalar(a):
        return a
    if isinstance(a, CArr):
        return reduce_axis(it.ctx, fn, a, axis, init, name)
    if isinstance(a, LArr):
        return larr_handler(it, a, axis)
    raise Unsupported(f'{name} of {type(a).__name__}')


def _larr_sum(it, a, axis):
    ctx = it.ctx
    snap = A.snapshot(a)
    if axis is None:
        if a.ndim == 1:
            return sym_sum(ctx, lambda t: snap.at(t), 0, a.shape[0])
        raise Unsupported('full sum of symbolic nd array')
    axis = axis % a.ndim
    n = a.shape[axis]
    out_shape = a.shape[:axis] + a.shape[axis + 1:]
    if isinstance(conc(n), int):
        n = conc(n)
        return LArr(out_shape, lambda i: functools.reduce(V.add, [snap.at(*(i[:axis] + (t,) + i[axis:])) for t in range(n)], 0), a.kind if a.kind != 'bool' else 'int')
    # count/sum along a symbolic axis: a family of partial sums indexed by the remaining indices
    real = a.kind == 'real'
    if a.kind == 'complex':
        raise Unsupported('complex axis sum of symbolic array')
    P = ctx.fresh_fun('AxSum', *([z3.IntSort()] * (len(out_shape) + 1)), z3.RealSort() if real else z3.IntSort())
    qs = [z3.Int(f'l{k}!{next(ctx.fresh_ctr)}') for k in range(len(out_shape))]
    t = z3.Int(f't!{next(ctx.fresh_ctr)}')
    term = snap.at(*(tuple(qs[:axis]) + (t,) + tuple(qs[axis:])))
    term = V.zreal(term) if real else V.zint(term)
    if qs:
        ctx.hyps.append(z3.ForAll(qs, P(*qs, 0) == 0))
    else:
        ctx.hyps.append(P(0) == 0)
    ctx.hyps.append(z3.ForAll(qs + [t], z3.Implies(t >= 0, P(*qs, t + 1) == P(*qs, t) + term), patterns=[P(*qs, t + 1)]))
    res = LArr(out_shape, lambda i, P=P, n=n: P(*[V.zint(x) for x in i], V.zint(n)), 'real' if real else 'int')
    res.meta['axsum'] = (P, snap, axis, n)
    ctx.__dict__.setdefault('axsum_log', []).append((P, snap, axis, n))
    return res


@np_fn('sum')
def np_sum(it, a, axis=None, **k):
    return _reduce_generic(it, a, axis, V.add, 0, 'sum', _larr_sum)


@np_fn('prod')
def np_prod(it, a, axis=None, **k):
    def larr(it, a, axis):
        raise Unsupported('prod of symbolic array')
    return _reduce_generic(it, a, axis, V.mul, 1, 'prod', larr)


def _larr_minmax(which):
    def h(it, a, axis):
        if axis is not None or a.ndim != 1:
            raise Unsupported('axis min/max of symbolic array')
        ctx = it.ctx
        snap = A.snapshot(a)
        n = a.shape[0]
        ctx.safety(f'{which}_of_nonempty', V.cmp('>', n, 0))
        real = a.kind == 'real'
        m = ctx.fresh(which, 'real' if real else 'int')
        w = ctx.fresh('arg' + which, 'int')
        rel = (lambda x: V.cmp('<=', m, x)) if which == 'min' else (lambda x: V.cmp('>=', m, x))
        ctx.assume(ctx.forall(0, n, lambda i: rel(snap.at(i))))
        ctx.assume(z3.And(w >= 0, w < V.zint(n)))
        ctx.assume(V.cmp('==', snap.at(w), m))
        return m
    return h


@np_fn('min', 'amin')
def np_min(it, a, axis=None, **k):
    return _reduce_generic(it, a, axis, V.minv, None, 'min', _larr_minmax('min'))


@np_fn('max', 'amax')
def np_max(it, a, axis=None, **k):
    return _reduce_generic(it, a, axis, V.maxv, None, 'max', _larr_minmax('max'))


@np_fn('mean', 'average')
def np_mean(it, a, axis=None, **k):
    if isinstance(a, (list, tuple)):
        a = to_carr(a)
    if isinstance(a, CArr):
        s = reduce_axis(it.ctx, V.add, a, axis, 0)
        n = a.size if axis is None else a.shape[axis]
        return elementwise(it.ctx, lambda x: V.div(x, n), s) if is_arr(s) else V.div(s, n)
    if isinstance(a, LArr) and axis is None and a.ndim == 1:
        return V.div(np_sum(it, a), a.shape[0])
    raise Unsupported('mean of symbolic array')


@np_fn('all')
def np_all(it, a, axis=None, **k):
    if isinstance(a, (bool,)) or (is_sym(a) and z3.is_bool(a)):
        return a
    if isinstance(a, (list, tuple)):
        a = to_carr(a)
    if isinstance(a, CArr):
        return reduce_axis(it.ctx, lambda x, y: V.and_(_tb(x), _tb(y)), CArr(uf(_tb, 1)(a.data) if a.size else a.data), axis, True)
    if isinstance(a, LArr) and axis is None:
        snap = A.snapshot(a)
        idx = [None] * a.ndim

        def nest(k, pre):
            if k == a.ndim:
                return _tb(snap.at(*pre))
            return it.ctx.forall(0, a.shape[k], lambda i: nest(k + 1, pre + (i,)))
        return nest(0, ())
    raise Unsupported('np.all')


@np_fn('any')
def np_any(it, a, axis=None, **k):
    if isinstance(a, (bool,)) or (is_sym(a) and z3.is_bool(a)):
        return a
    if isinstance(a, (list, tuple)):
        a = to_carr(a)
    if isinstance(a, CArr):
        return reduce_axis(it.ctx, lambda x, y: V.or_(_tb(x), _tb(y)), CArr(uf(_tb, 1)(a.data) if a.size else a.data), axis, False)
    if isinstance(a, LArr) and axis is None:
        r = np_all(it, elementwise(it.ctx, lambda x: V.not_(_tb(x)), a, kind='bool'))
        return V.not_(r)
    raise Unsupported('np.any')


@np_fn('cumsum')
def np_cumsum(it, a, axis=None, **k):
    if isinstance(a, (list, tuple)):
        a = to_carr(a)
    if isinstance(a, CArr) and a.ndim == 1:
        out, acc = [], 0
        for v in a.data:
            acc = V.add(acc, v)
            out.append(acc)
        return to_carr(out) if out else CArr(np.empty((0,), dtype=object), a._kind or 'int')
    raise Unsupported('cumsum')


def _sort_le(a, b):
    """numpy's sort order: real numbers by value, complex numbers lexicographically (real part, then imaginary part)"""
    if isinstance(a, Cx) or isinstance(b, Cx):
        a, b = V.cx(a), V.cx(b)
        return V.or_(V.cmp('<', a.re, b.re), V.and_(V.cmp('==', a.re, b.re), V.cmp('<=', a.im, b.im)))
    return V.cmp('<=', a, b)


@np_fn('argsort')
def np_argsort(it, x, **k):
    ctx = it.ctx
    if isinstance(x, (list, tuple)):
        x = to_carr(x)
    if x.ndim != 1:
        raise Unsupported('argsort nd')
    if isinstance(x, CArr) and not any(is_sym(v) or isinstance(v, Cx) for v in x.data.flat):
        vals = [V.exact(v) for v in x.data]
        order = sorted(range(len(vals)), key=lambda i: vals[i])
        return CArr(np.array(order, dtype=object), 'int')
    xl = A.snapshot(to_larr(x))
    n = x.shape[0]
    perm = ctx.fresh_fun('perm', z3.IntSort(), z3.IntSort())
    rank = ctx.fresh_fun('rank', z3.IntSort(), z3.IntSort())
    nz = V.zint(n)
    ctx.assume(ctx.forall(0, n, lambda k: z3.And(0 <= perm(V.zint(k)), perm(V.zint(k)) < nz, rank(perm(V.zint(k))) == V.zint(k))))
    ctx.assume(ctx.forall(0, n, lambda i: z3.And(0 <= rank(V.zint(i)), rank(V.zint(i)) < nz, perm(rank(V.zint(i))) == V.zint(i))))
    nn = conc(n)
    if isinstance(nn, int):
        for k1 in range(nn - 1):
            ctx.assume(_sort_le(xl.at(perm(k1)), xl.at(perm(k1 + 1))))
        d = np.empty((nn,), dtype=object)
        for k1 in range(nn):
            d[k1] = perm(k1)
        if isinstance(x, CArr):
            # concrete-shape input: the permutation is an ordinary integer array with symbolic entries (ghost facts about perm/rank stay assumed)
            ctx.ghost_log.append(('argsort', perm, rank, xl))
            return CArr(d, 'int')
        r = LArr((nn,), lambda i: perm(V.zint(i[0])), 'int', inv=lambda v: rank(V.zint(v)))
    else:
        k1, k2 = z3.Int(f'k1!{next(ctx.fresh_ctr)}'), z3.Int(f'k2!{next(ctx.fresh_ctr)}')
        ctx.hyps.append(z3.ForAll([k1, k2], z3.Implies(z3.And(0 <= k1, k1 <= k2, k2 < nz),
                                                      V.zbool(V.cmp('<=', xl.at(perm(k1)), xl.at(perm(k2)))))))
        r = LArr((n,), lambda i: perm(V.zint(i[0])), 'int', inv=lambda v: rank(V.zint(v)))
    r.meta['argsort'] = (perm, rank, xl)
    ctx.ghost_log.append(('argsort', perm, rank, xl))
    return r


@np_fn('dot')
def np_dot(it, a, b, **k):
    if isinstance(a, Obj) or isinstance(b, Obj):
        raise Unsupported('np.dot on object')
    a = a if is_arr(a) else (to_carr(a) if isinstance(a, (list, tuple)) else a)
    b = b if is_arr(b) else (to_carr(b) if isinstance(b, (list, tuple)) else b)
    if V.is_scalar(a) or V.is_scalar(b):
        return elementwise(it.ctx, V.mul, a, b)
    if isinstance(a, LArr) and a.ndim == 2 and is_arr(b) and b.ndim == 1:
        return larr_matvec(it, a, b, axis=1)
    if is_arr(a) and a.ndim == 1 and isinstance(b, LArr) and b.ndim == 2:
        return larr_matvec(it, b, a, axis=0)
    if isinstance(a, LArr) and isinstance(b, LArr) and a.ndim == 1 and b.ndim == 1:
        sa, sb = A.snapshot(a), A.snapshot(b)
        A.bshape(a.shape, b.shape, it.ctx)
        return sym_sum(it.ctx, lambda t: V.mul(sa.at(t), sb.at(t)), 0, a.shape[0], 'Dot')
    return A.matmul(it.ctx, a, b)


@np_fn('vdot')
def np_vdot(it, a, b):
    return np_dot(it, elementwise(it.ctx, V.conj, a), b)


@np_fn('outer')
def np_outer(it, a, b):
    a, b = to_carr(a) if not is_arr(a) else a, to_carr(b) if not is_arr(b) else b
    if isinstance(a, CArr) and isinstance(b, CArr):
        return wrap(uf(V.mul, 2)(a.data.reshape(-1)[:, None], b.data.reshape(-1)[None, :]))
    la, lb = A.snapshot(to_larr(a)), A.snapshot(to_larr(b))
    return LArr((la.shape[0], lb.shape[0]), lambda i: V.mul(la.at(i[0]), lb.at(i[1])), A._result_kind([la, lb]))


@np_fn('trace')
def np_trace(it, a):
    if isinstance(a, CArr):
        return functools.reduce(V.add, [a.data[i, i] for i in range(min(a.shape))], 0)
    raise Unsupported('trace of symbolic array')


@np_fn('einsum')
def np_einsum(it, expr, *ops, **k):
    out_arr = k.pop('out', None)
    if out_arr is not None:
        res = np_einsum(it, expr, *ops, **k)
        S.assign_inplace(it, out_arr, res)
        return out_arr
    ops = [o if is_arr(o) else to_carr(o) for o in ops]
    if not all(isinstance(o, CArr) for o in ops):
        raise Unsupported('einsum on symbolic-shape arrays (use the linear-operator contract)')
    expr = expr.replace(' ', '')
    if '...' in expr:
        # expand the ellipsis into explicit (upper-case) subscripts, numpy broadcasting rules for equal-rank ellipses
        lhs, _, rhs = expr.partition('->')
        subs = lhs.split(',')
        nell = 0
        for sub, o in zip(subs, ops):
            if '...' in sub:
                nell = max(nell, o.ndim - (len(sub) - 3))
        letters = 'ABCDEFGH'[:nell]
        new_subs = []
        for sub, o in zip(subs, ops):
            if '...' in sub:
                r = o.ndim - (len(sub) - 3)
                new_subs.append(sub.replace('...', letters[nell - r:]))
            else:
                new_subs.append(sub)
        if '->' in expr:
            rhs = rhs.replace('...', letters)
        else:
            plain = ''.join(new_subs)
            rhs = letters + ''.join(sorted(c for c in set(plain) if c.islower() and plain.count(c) == 1))
        expr = ','.join(new_subs) + '->' + rhs
    if '->' in expr:
        ins, out = expr.split('->')
    else:
        ins = expr
        letters = ins.replace(',', '')
        out = ''.join(sorted(c for c in set(letters) if letters.count(c) == 1))
    ins = ins.split(',')
    if len(ins) != len(ops):
        raise PyExc('ValueError', 'einsum operand count')
    dims = {}
    for sub, o in zip(ins, ops):
        if len(sub) != o.ndim:
            raise PyExc('ValueError', f'einsum subscripts {sub} do not match operand rank {o.ndim}')
        for c, s in zip(sub, o.shape):
            if dims.setdefault(c, s) != s:
                if s == 1 or dims[c] == 1:
                    raise Unsupported('einsum broadcasting of size-1 dims')
                raise PyExc('ValueError', 'einsum size mismatch')
    summed = [c for c in dims if c not in out]
    res = np.empty(tuple(dims[c] for c in out), dtype=object)
    for oi in np.ndindex(*res.shape):
        env = dict(zip(out, oi))
        acc = 0
        for si in itertools.product(*[range(dims[c]) for c in summed]):
            env.update(zip(summed, si))
            term = 1
            for sub, o in zip(ins, ops):
                term = V.mul(term, o.data[tuple(env[c] for c in sub)])
            acc = V.add(acc, term)
        res[oi] = acc
    return wrap(res) if res.ndim else res[()]


@np_fn('argwhere', 'flatnonzero', 'nonzero', 'unique', 'isin', 'setdiff1d', 'argmax', 'argmin', 'sort', 'searchsorted', 'diff',
       'union1d', 'intersect1d', 'count_nonzero', 'roll', 'flip', 'cross', 'tensordot', 'triu', 'tril')
def np_unsupported(it, *a, **k):
    # concrete-only fallbacks
    raise Unsupported('numpy function without a contract in this position')


def _concrete_only(name):
    def g(it, *args, **kw):
        def cv(x):
            if isinstance(x, CArr):
                if any(is_sym(v) or isinstance(v, Cx) for v in x.data.flat):
                    raise Unsupported(f'np.{name} on symbolic entries')
                k = x.kind
                dt = {'bool': bool, 'int': np.int64, 'real': object, 'complex': object}[k]
                return np.array(x.data, dtype=dt) if x.size else np.zeros(x.shape, dtype=np.int64)
            if isinstance(x, (list, tuple)):
                return cv(to_carr(x))
            if isinstance(x, LArr) or is_sym(x):
                raise Unsupported(f'np.{name} on symbolic argument')
            return x
        r = getattr(np, name)(*[cv(a) for a in args], **{k_: cv(v) for k_, v in kw.items()})

        def back(r):
            if isinstance(r, tuple):
                return tuple(back(x) for x in r)
            if isinstance(r, np.ndarray):
                return CArr(r)
            if isinstance(r, np.generic):
                return V.exact(r.item())
            return r
        return back(r)
    return g


for _n in ('argwhere', 'flatnonzero', 'nonzero', 'unique', 'isin', 'setdiff1d', 'argmax', 'argmin', 'sort', 'searchsorted', 'diff',
           'union1d', 'intersect1d', 'count_nonzero', 'roll', 'flip', 'triu', 'tril'):
    NP[('np', _n)] = _concrete_only(_n)


@np_fn('copy')
def np_copy(it, a):
    return arr_method_copy(it, a)


@np_fn('reshape')
def np_reshape(it, a, shape, **k):
    return arr_reshape(it, a, shape)


@np_fn('transpose')
def np_transpose(it, a, axes=None):
    return arr_transpose(it, a, axes)


@np_fn('squeeze')
def np_squeeze(it, a, axis=None):
    if isinstance(a, CArr):
        return CArr(np.squeeze(a.data, axis=axis), a._kind)
    raise Unsupported('squeeze symbolic')


@np_fn('atleast_1d')
def np_atleast_1d(it, a):
    a = a if is_arr(a) else to_carr(a)
    if isinstance(a, CArr):
        return CArr(np.atleast_1d(a.data), a._kind)
    return a


@np_fn('atleast_2d')
def np_atleast_2d(it, a):
    a = a if is_arr(a) else to_carr(a)
    if isinstance(a, CArr):
        return CArr(np.atleast_2d(a.data), a._kind)
    if a.ndim >= 2:
        return a
    raise Unsupported('atleast_2d symbolic')


@np_fn('shape')
def np_shape(it, a):
    return it.getattr(a, 'shape')


@np_fn('size')
def np_size(it, a):
    return it.getattr(a, 'size')


@np_fn('ndim')
def np_ndim(it, a):
    if V.is_scalar(a):
        return 0
    return it.getattr(a, 'ndim')


@np_fn('expand_dims')
def np_expand_dims(it, a, axis):
    if isinstance(a, CArr):
        return CArr(np.expand_dims(a.data, axis), a._kind)
    raise Unsupported('expand_dims symbolic')


@np_fn('broadcast_to')
def np_broadcast_to(it, a, shape):
    a = a if is_arr(a) else to_carr(a)
    shape = shape_arg(shape)
    if isinstance(a, CArr) and is_conc_shape(shape):
        return CArr(np.broadcast_to(a.data, shape), a._kind)
    raise Unsupported('broadcast_to symbolic')


@np_fn('result_type')
def np_result_type(it, *args):
    k = 'bool'
    for a in args:
        ka = S.kind_from_dtype(a) if (isinstance(a, Obj) and a.tag == 'dtype') or isinstance(a, I().TypeTag) else kind_of(a)
        if ka and V.KIND_ORDER[ka] > V.KIND_ORDER[k]:
            k = ka
    return Obj(None, {'kind': k}, tag='dtype')


@np_fn('issubdtype')
def np_issubdtype(it, dt, t):
    k = S.kind_from_dtype(dt)
    n = t.name if isinstance(t, I().TypeTag) else str(t)
    return {'np.complexfloating': k == 'complex', 'np.floating': k == 'real', 'np.integer': k == 'int',
            'np.number': k in ('int', 'real', 'complex'), 'complex': k == 'complex', 'float': k == 'real', 'int': k == 'int',
            'np.bool_': k == 'bool', 'bool': k == 'bool'}[n]


@np_fn('dtype')
def np_dtype(it, t):
    return Obj(None, {'kind': S.kind_from_dtype(t)}, tag='dtype')


@np_fn('finfo')
def np_finfo(it, *a):
    # floating-point format constants are abstract positive reals (their values are outside the real-arithmetic model)
    tiny, eps = z3.Real('finfo_tiny'), z3.Real('finfo_eps')
    V._side(z3.And(tiny > 0, eps > 0, tiny < 1, eps < 1))
    return Obj(None, {'tiny': tiny, 'eps': eps}, tag='finfo')


S.OBJ_ATTR['finfo'] = lambda it, o, attr: o.fields.get(attr, NotImplemented)


@np_fn('pad')
def np_pad(it, a, pad_width, mode='constant', constant_values=0, **k):
    a = a if is_arr(a) else to_carr(a)
    if not isinstance(a, CArr):
        raise Unsupported('np.pad on a symbolic-shape array (index-map contract needed)')
    def cw(x):
        if isinstance(x, CArr):
            return x.data.tolist()
        if isinstance(x, (list, tuple)):
            return [cw(y) for y in x]
        return conc(x)
    pw = cw(pad_width)
    idx = np.arange(a.size).reshape(a.shape)
    if mode == 'constant':
        pidx = np.pad(idx, pw, mode='constant', constant_values=-1)
        out = np.empty(pidx.shape, dtype=object)
        flat = a.data.reshape(-1)
        for o in np.ndindex(*pidx.shape):
            out[o] = flat[pidx[o]] if pidx[o] >= 0 else constant_values
        return CArr(out)
    pidx = np.pad(idx, pw, mode=mode)
    flat = a.data.reshape(-1)
    out = np.empty(pidx.shape, dtype=object)
    for o in np.ndindex(*pidx.shape):
        out[o] = flat[pidx[o]]
    return CArr(out)


@np_fn('log10', 'sin', 'cos', 'tan', 'arctan2', 'arctan', 'tanh')
def np_transc(it, *a, **k):
    raise Unsupported('transcendental function without contract')


# np.add.at
def np_add_at(it, a, idx, v):
    ctx = it.ctx
    if isinstance(a, CArr):
        ci = A.carr_index_concrete(idx)
        if ci is NotImplemented:
            raise Unsupported('np.add.at with symbolic index on concrete array')
        vd = A.as_data(v)
        tgt_shape = a.data[ci].shape if isinstance(a.data[ci], np.ndarray) else ()
        vb = np.broadcast_to(vd, tgt_shape) if isinstance(vd, np.ndarray) else None
        if isinstance(ci, np.ndarray) and ci.ndim >= 2 and a.ndim == 1:
            vv = np.broadcast_to(vd, ci.shape) if isinstance(vd, np.ndarray) else None
            for o in np.ndindex(*ci.shape):
                a.data[ci[o]] = V.add(a.data[ci[o]], vv[o] if vv is not None else vd)
            return None
        if isinstance(ci, np.ndarray) and ci.ndim == 1:
            for t, k in enumerate(ci):
                a.data[k] = elementwise(ctx, V.add, wrap(a.data[k]) if isinstance(a.data[k], np.ndarray) else a.data[k],
                                        (wrap(vb[t]) if isinstance(vb[t], np.ndarray) else vb[t]) if vb is not None else vd).data \
                    if isinstance(a.data[k], np.ndarray) else V.add(a.data[k], vb[t] if vb is not None else vd)
            return None
        raise Unsupported('np.add.at index form')
    raise Unsupported('np.add.at on symbolic array (use the scatter-add contract)')


# ------------------------------------------------------------------------------------------------ array attributes / methods
def arr_method_copy(it, a):
    if isinstance(a, CArr):
        return CArr(a.data.copy(), a._kind)
    if isinstance(a, LArr):
        return A.snapshot(a)
    if isinstance(a, Obj):
        return it.call(it.getattr(a, 'copy'), [])
    return a


def arr_reshape(it, a, shape):
    if isinstance(shape, (int,)) or is_sym(shape):
        shape = (shape,)
    shape = shape_arg(shape)
    a = a if is_arr(a) else to_carr(a)
    if isinstance(a, CArr) and all(isinstance(s, int) for s in shape):
        try:
            return CArr(a.data.reshape(shape), a._kind)
        except ValueError as e:
            raise PyExc('ValueError', str(e))
    la = to_larr(a)
    # C-order reshape via flat index
    shape = list(shape)
    if any((not is_sym(s)) and s == -1 for s in shape):
        k = [j for j, s in enumerate(shape) if (not is_sym(s)) and s == -1][0]
        rest = 1
        for j, s in enumerate(shape):
            if j != k:
                rest = V.mul(rest, s)
        shape[k] = V.floordiv(la.size, rest) if not (isinstance(rest, int) and rest == 1) else la.size
    else:
        it.ctx.safety('reshape_size', V.cmp('==', functools.reduce(V.mul, shape, 1), la.size))
    if la.ndim == 1 and len(shape) == 1:
        return la
    src_shape = la.shape
    live = la if isinstance(a, LArr) else la

    def elem(i, shape=tuple(shape), src_shape=src_shape, live=live):
        flat = 0
        for s, x in zip(shape, i):
            flat = V.add(V.mul(flat, s), x)
        src = []
        for s in reversed(src_shape[1:]):
            src.append(V.mod(flat, s))
            flat = V.floordiv(flat, s)
        src.append(flat)
        return live.at(*reversed(src))
    r = LArr(tuple(shape), elem, la.kind)
    return r


def arr_transpose(it, a, axes=None):
    a = a if is_arr(a) else to_carr(a)
    if isinstance(a, CArr):
        return CArr(np.transpose(a.data, axes), a._kind)
    if axes is None:
        axes = tuple(reversed(range(a.ndim)))
    axes = tuple(axes)
    r = LArr(tuple(a.shape[k] for k in axes), None, a.kind)
    inv = [axes.index(k) for k in range(a.ndim)]
    fwd = lambda o, inv=inv: tuple(o[inv[k]] for k in range(len(inv)))
    r.view_of = (a, fwd)
    r.elem = lambda o, a=a, fwd=fwd: a.at(*fwd(o))
    return r


def arr_flatten(it, a, copy=True):
    if isinstance(a, CArr):
        return CArr(a.data.flatten() if copy else a.data.reshape(-1), a._kind)
    if a.ndim == 1:
        return A.snapshot(a) if copy else a
    r = arr_reshape(it, a, (a.size,))
    return r


def arr_attr(it, a, attr):
    B = lambda f: I().Builtin(attr, f)
    if attr == 'shape':
        return tuple(a.shape)
    if attr == 'ndim':
        return a.ndim
    if attr == 'size':
        return a.size
    if attr == 'dtype':
        return S.dtype_of(a)
    if attr == 'T':
        return arr_transpose(it, a)
    if attr == 'real':
        return np_real(it, a)
    if attr == 'imag':
        return np_imag(it, a)
    if attr == 'flat':
        return arr_flatten(it, a, copy=False)
    if attr == 'copy':
        return B(lambda *x, **k: arr_method_copy(it, a))
    if attr == 'astype':
        def _astype(dt, **k):
            if isinstance(dt, I().TypeTag) and dt.name == 'np.float32':
                # rounding to single precision: an uninterpreted function of the value (f32(0) = 0)
                f32 = V.Ghost.fn('f32')
                V._side(f32(z3.RealVal(0)) == 0)
                return elementwise(it.ctx, lambda x: f32(V.zreal(V.real_part(x))), a, kind='real')
            return astype(it.ctx, a, S.kind_from_dtype(dt))
        return B(_astype)
    if attr == 'flatten':
        return B(lambda *x: arr_flatten(it, a, True))
    if attr == 'ravel':
        return B(lambda *x: arr_flatten(it, a, False))
    if attr == 'reshape':
        return B(lambda *s, **k: arr_reshape(it, a, s[0] if len(s) == 1 else s))
    if attr == 'transpose':
        return B(lambda *ax: arr_transpose(it, a, (ax[0] if len(ax) == 1 and isinstance(ax[0], (tuple, list)) else ax) if ax else None))
    if attr == 'conj' or attr == 'conjugate':
        return B(lambda: elementwise(it.ctx, V.conj, a))
    if attr in ('sum', 'min', 'max', 'prod', 'mean', 'all', 'any', 'dot', 'cumsum', 'argsort', 'clip', 'squeeze', 'trace', 'repeat'):
        f = NP[('np', attr)]
        return B(lambda *x, **k: f(it, a, *x, **k))
    if attr == 'diagonal':
        def diag(k=0):
            if a.ndim != 2:
                raise Unsupported('diagonal of non-matrix')
            if k != 0:
                raise Unsupported('diagonal offset')
            if isinstance(a, CArr):
                return CArr(np.diagonal(a.data).copy(), a._kind)
            n = V.simp(V.ite(V.cmp('<=', a.shape[0], a.shape[1]), a.shape[0], a.shape[1])) if (is_sym(a.shape[0]) or is_sym(a.shape[1])) else min(a.shape)
            snap = A.snapshot(a)
            return LArr((n,), lambda i: snap.at(i[0], i[0]), a.kind)
        return B(diag)
    if attr == 'item':
        def item(*idx):
            if isinstance(a, CArr) and a.size == 1 and not idx:
                return a.data.flat[0]
            raise Unsupported('item')
        return B(item)
    if attr == 'tolist':
        def tolist():
            if isinstance(a, CArr):
                return a.data.tolist()
            raise Unsupported('tolist symbolic')
        return B(tolist)
    if attr == 'fill':
        def fill(v):
            if isinstance(a, CArr):
                a.data[...] = v
            else:
                a.elem = lambda i: v
        return B(fill)
    if attr == 'base':
        # ndarray.base: the owner for views; for the result of advanced indexing numpy may or may not report an internal temporary
        # (implementation detail: a[:, idx] has a non-None base although it is a copy) -> unspecified, both outcomes are explored
        if isinstance(a, LArr):
            if a.view_of is not None:
                return a.view_of[0]
            if a.meta.get('from_adv_index'):
                return Obj(None, {}, tag='opaque_base') if it.truth(it.ctx.fresh('adv_base_reported', 'bool')) else None
            return None
        return wrap(a.data.base) if a.data.base is not None else None
    if attr == 'nbytes' or attr == 'itemsize':
        raise Unsupported('byte-level attribute')
    if attr in ('add_sensitivity',):
        raise PyExc('AttributeError', attr)
    if attr == '__array_priority__':
        raise PyExc('AttributeError', attr)
    raise PyExc('AttributeError', f"'numpy.ndarray' object has no attribute '{attr}'")


# ------------------------------------------------------------------------------------------------ namespaces
TYPE_ATTRS = {
    'np': ['ndarray', 'float64', 'float32', 'int32', 'int64', 'uint32', 'uint64', 'complex128', 'complex64', 'bool_', 'number', 'integer',
           'floating', 'complexfloating', 'generic', 'intp', 'int_', 'double', 'float_', 'complex_'],
    'numbers': ['Number', 'Complex', 'Real', 'Integral'],
    'sps': ['spmatrix', 'csc_matrix', 'csr_matrix', 'coo_matrix', 'sparray', 'csc_array', 'csr_array', 'coo_array', 'dia_matrix', 'lil_matrix'],
}


def ns_attr(it, ns, name):
    T = I()
    n = ns.name
    if (n, name) in NP:
        return T.Builtin(f'{n}.{name}', NP[(n, name)], wants_interp=True)
    if name in TYPE_ATTRS.get(n, ()):
        return T.TypeTag(f'{n}.{name}')
    if n == 'np':
        if name == 'linalg':
            return T.Namespace('np.linalg')
        if name == 'newaxis':
            return None
        if name == 'pi':
            raise Unsupported('np.pi')
        if name == 'inf':
            return float('inf')
        if name == 'nan':
            raise Unsupported('np.nan')
        if name == 'add':
            return Obj(None, {'name': 'add'}, tag='ufunc')
        if name == 'random':
            return T.Namespace('np.random')
        if name in ('int', 'float', 'complex', 'bool'):
            return T.TypeTag(name)
    if n in ('np.linalg', 'spla') and name == 'LinAlgError':
        return T.ExcClass('LinAlgError')
    if n == 'scipy':
        sub = {'sparse': 'sps', 'linalg': 'spla', 'special': 'spsp', 'signal': 'spsig'}.get(name)
        if sub:
            return T.Namespace(sub)
    if n == 'sps' and name == 'linalg':
        return T.Namespace('spsla')
    if n == 'warnings':
        if name in ('warn', 'warn_explicit', 'simplefilter', 'filterwarnings'):
            return T.Builtin('warnings.' + name, lambda *a, **k: it.trace.append(('warn',) + tuple(a[:1])) if name.startswith('warn') else None)
        if name == 'catch_warnings':
            return T.Builtin('catch_warnings', lambda *a, **k: None)
    if n == 'copy':
        if name == 'deepcopy':
            return T.Builtin('copy.deepcopy', lib_deepcopy, wants_interp=True)
        if name == 'copy':
            return T.Builtin('copy.copy', lib_copy, wants_interp=True)
    if n == 'sys':
        if name == 'byteorder':
            return 'little'
        if name == 'exc_info':
            return T.Builtin('exc_info', lambda: (None, None, None))
        if name in ('stdout', 'stderr'):
            return Obj(None, {'filename': name, 'mode': 'w', 'writes': []}, tag='file')
        if name == 'float_info':
            raise Unsupported('sys.float_info')
    if n == 'os':
        if name == 'path':
            return T.Namespace('os.path')
    if n == 'os.path':
        import os
        if name in ('splitext', 'join', 'basename', 'dirname'):
            return T.Builtin(name, lambda *a: getattr(os.path, name)(*a) if all(isinstance(x, str) for x in a) else _unsup('os.path on symbolic string'))
    if n == 'time':
        if name in ('time', 'perf_counter'):
            return T.Builtin('time', lambda: it.ctx.fresh('time', 'real'))
    if n == 'math':
        if name == 'sqrt':
            return T.Builtin('sqrt', V.sqrt)
        if name == 'inf':
            return float('inf')
        if name in ('floor', 'ceil'):
            return T.Builtin(name, V.floor if name == 'floor' else V.ceil)
    if n == 'abc':
        if name == 'ABC':
            return 'ABC'
        if name == 'abstractmethod':
            return T.Builtin('abstractmethod', lambda f: f)
    if n == 'typing':
        return T.TypeTag('typing.' + name)
    if n == 'inspect':
        if name == 'signature':
            return T.Builtin('inspect.signature', lib_signature, wants_interp=True)
        if name == 'Parameter':
            return _INSPECT_PARAMETER
        raise Unsupported('inspect.' + name)
    if n == 'pathlib':
        if name == 'Path':
            return T.Builtin('Path', lambda p: Obj(None, {'path': p}, tag='path'))
    if n == 'base64':
        if name == 'b64encode':
            return T.Builtin('b64encode', lambda x: Obj(None, {'of': x}, tag='b64'))
    if n == 'struct':
        if name == 'pack':
            return T.Builtin('pack', lambda fmt, *x: Obj(None, {'fmt': fmt, 'of': x}, tag='packed'))
    raise Unsupported(f'library attribute {n}.{name}')


def _unsup(msg):
    raise Unsupported(msg)


# inspect.signature of a function defined in the analysed sources: read off the def's argument list (bound methods drop the first parameter)
_INSPECT_EMPTY = Obj(None, {'name': 'empty'}, tag='inspect_const')
_INSPECT_PARAMETER = Obj(None, {}, tag='inspect_Parameter')
_PARAM_KINDS = ('POSITIONAL_ONLY', 'POSITIONAL_OR_KEYWORD', 'VAR_POSITIONAL', 'KEYWORD_ONLY', 'VAR_KEYWORD')


def lib_signature(it, fn):
    T = I()
    bound = isinstance(fn, T.BoundMethod)
    f = fn.fn if bound else fn
    if not isinstance(f, T.Closure):
        raise Unsupported('inspect.signature of a non-source function')
    a = f.node.args
    params = []
    pos = [(x, 'POSITIONAL_ONLY') for x in a.posonlyargs] + [(x, 'POSITIONAL_OR_KEYWORD') for x in a.args]
    ndef = len(a.defaults)
    for k, (x, kind) in enumerate(pos):
        has_default = k >= len(pos) - ndef
        params.append((x.arg, kind, has_default))
    if bound and params:
        params = params[1:]
    if a.vararg:
        params.append((a.vararg.arg, 'VAR_POSITIONAL', False))
    for x, d in zip(a.kwonlyargs, a.kw_defaults):
        params.append((x.arg, 'KEYWORD_ONLY', d is not None))
    if a.kwarg:
        params.append((a.kwarg.arg, 'VAR_KEYWORD', False))
    pd = {}
    for nm, kind, has_default in params:
        pd[nm] = Obj(None, {'name': nm, 'kind': kind, 'default': Obj(None, {'name': 'some default'}, tag='inspect_const') if has_default else _INSPECT_EMPTY},
                     tag='inspect_param')
    return Obj(None, {'parameters': pd}, tag='inspect_signature')


S.OBJ_ATTR['inspect_signature'] = lambda it, o, attr: o.fields['parameters'] if attr == 'parameters' else NotImplemented
S.OBJ_ATTR['inspect_param'] = lambda it, o, attr: o.fields[attr] if attr in ('name', 'kind', 'default') else NotImplemented
S.OBJ_ATTR['inspect_Parameter'] = lambda it, o, attr: (attr if attr in _PARAM_KINDS else _INSPECT_EMPTY if attr == 'empty' else NotImplemented)


def _ufunc_attr(it, o, attr):
    if attr == 'at' and o.fields['name'] == 'add':
        return I().Builtin('np.add.at', np_add_at, wants_interp=True)
    return NotImplemented


S.OBJ_ATTR['ufunc'] = _ufunc_attr


def lib_deepcopy(it, x, memo=None):
    if isinstance(x, CArr):
        return CArr(x.data.copy(), x._kind)
    if isinstance(x, LArr):
        return A.snapshot(x)
    if isinstance(x, list):
        return [lib_deepcopy(it, v) for v in x]
    if isinstance(x, tuple):
        return tuple(lib_deepcopy(it, v) for v in x)
    if isinstance(x, dict):
        return {k: lib_deepcopy(it, v) for k, v in x.items()}
    if isinstance(x, Obj):
        if x.cls is not None:
            f = x.cls.find('__deepcopy__') or x.cls.find('__copy__')
            if f is not None:
                return it.call(f, [x] + ([{}] if f.name == '__deepcopy__' else []))
            o = Obj(x.cls, {k: lib_deepcopy(it, v) for k, v in x.fields.items()})
            return o
        h = DEEPCOPY.get(x.tag)
        if h:
            return h(it, x)
        raise Unsupported(f'deepcopy of {x.tag}')
    return x


DEEPCOPY = {'dtype': lambda it, x: x, 'ufunc': lambda it, x: x, 'opaque_base': lambda it, x: x}


def lib_copy(it, x):
    """copy.copy: shallow - a new container/object whose fields refer to the SAME inner objects (arrays are copied: ndarray.__copy__)"""
    if is_arr(x):
        return lib_deepcopy(it, x)
    if isinstance(x, list):
        return list(x)
    if isinstance(x, dict):
        return dict(x)
    if isinstance(x, Obj):
        if x.cls is not None:
            f = x.cls.find('__copy__')
            if f is not None:
                return it.call(f, [x])
            return Obj(x.cls, dict(x.fields))
        raise Unsupported(f'copy of {x.tag}')
    return x


# np.linalg
@np_fn('norm', ns='np.linalg')
def la_norm(it, a, ord=None, **k):
    if ord is not None:
        raise Unsupported('norm ord')
    a = a if is_arr(a) else to_carr(a)
    axis = k.pop('axis', None)
    if k:
        raise Unsupported('norm keyword ' + ','.join(k))
    if axis is not None and not (a.ndim == 1 and conc(axis) in (0, -1)):
        # vector norm along one axis of a 2-D array: one Euclidean norm per line
        if not (isinstance(a, CArr) and a.ndim == 2):
            raise Unsupported('norm along an axis of a symbolic-shape array')
        ax = conc(axis) % 2
        lines = [a.data[:, j] for j in range(a.shape[1])] if ax == 0 else [a.data[i, :] for i in range(a.shape[0])]
        out = np.empty((len(lines),), dtype=object)
        for q, ln in enumerate(lines):
            out[q] = la_norm(it, CArr(np.array(list(ln), dtype=object), a.kind))
        return CArr(out, 'real')
    sq = lambda x: V.add(V.mul(V.real_part(x), V.real_part(x)), V.mul(V.imag_part(x), V.imag_part(x)))
    if isinstance(a, CArr):
        s = functools.reduce(V.add, [sq(v) for v in a.data.flat], 0)
        if is_sym(s):
            r_ = V.sqrt(s)
            # library fact about the Euclidean norm: ||x|| = 0  <=>  every entry is 0   (a sum of squares vanishes only if every square does)
            zero_all = z3.And(*[z3.And(V.zreal(V.real_part(v)) == 0, V.zreal(V.imag_part(v)) == 0) for v in a.data.flat])
            V._side(z3.And(V.zreal(s) >= 0, (V.zreal(r_) == 0) == zero_all))
            return r_
    else:
        if a.ndim != 1:
            raise Unsupported('norm of symbolic nd array')
        snap = A.snapshot(a)
        s = sym_sum(it.ctx, lambda t: sq(snap.at(t)), 0, a.shape[0], 'NormSq')
        it.ctx.assume(V.cmp('>=', s, 0))
    return V.sqrt(s)


@np_fn('softmax', ns='spsp')
def sp_softmax(it, z, axis=None):
    """scipy.special.softmax(z)_i = exp(z_i) / sum_t exp(z_t)   (1-D)"""
    z = z if is_arr(z) else to_carr(z)
    if z.ndim != 1:
        raise Unsupported('softmax nd')
    e = elementwise(it.ctx, V.exp, z, kind='real')
    tot = np_sum(it, e)
    it.ctx.assume(V.cmp('>', tot, 0)) if is_sym(tot) else None
    return elementwise(it.ctx, lambda v: V.div(v, tot), e, kind='real')


# ------------------------------------------------------------------------------------------------ misc library models used by io code
@np_fn('log10')
def np_log10(it, x):
    x = conc(x)
    if isinstance(x, int) and x > 0:
        # exact for the only use in /repo: int(np.ceil(np.log10(n))) with a concrete positive integer n
        k, p = 0, 1
        while p < x:
            p *= 10
            k += 1
        return k if p == x else Fraction(2 * k - 1, 2)      # strictly between k-1 and k
    raise Unsupported('log10 of symbolic value')


class NdIter:
    pass


@np_fn('rand', ns='np.random')
def np_random_rand(it, *shape):
    """contract: an array of the requested shape with arbitrary entries in [0, 1); a python float when called without arguments"""
    shape = tuple(conc(d) for d in shape)
    if not all(isinstance(d, int) for d in shape):
        raise Unsupported('np.random.rand with symbolic shape')
    data = np.empty(shape, dtype=object)
    for idx in np.ndindex(*shape):
        r = it.ctx.fresh('rand', 'real')
        it.ctx.assume(z3.And(r >= 0, r < 1))
        data[idx] = r
    if shape == ():
        return data[()]
    return CArr(data, 'real')


@np_fn('nditer')
def np_nditer(it, a, flags=(), op_flags=None, **k):
    if a is None:
        raise PyExc('ValueError', 'Iterator operand was NULL')
    if not is_arr(a):
        if isinstance(a, Obj):
            # an object that is not an ndarray (e.g. a scipy sparse matrix) is converted to a 0-d object array: not writeable back
            raise PyExc('TypeError', 'Iterator operand is flagged as writeable, but is an object which cannot be written back to')
        if op_flags and any(f in ('readwrite', 'writeonly') for f in op_flags):
            # numpy: scalars and lists are converted to a temporary array, which cannot be written back to
            raise PyExc('TypeError', 'Iterator operand is flagged as writeable, but is an object which cannot be written back to')
        a = to_carr(a)
    if not isinstance(a, CArr):
        raise Unsupported('nditer over a symbolic-shape array')
    # numpy's default iteration order is the MEMORY order of the operand ('K'): the model's storage is a numpy object array with the layout the same
    # operations give the real array (a transposed view stays a strided view), so numpy itself supplies the order of the multi-indices
    if a.size and a.ndim > 1 and not a.data.flags['C_CONTIGUOUS']:
        probe = np.nditer(a.data, flags=['multi_index', 'refs_ok'], order='K')
        idxs = []
        while not probe.finished:
            idxs.append(tuple(probe.multi_index))
            probe.iternext()
    else:
        idxs = list(np.ndindex(*a.shape))
    return Obj(None, {'arr': a, 'idxs': idxs, 'pos': 0, 'flags': list(flags), 'op_flags': op_flags}, tag='nditer')


def _nditer_attr(it, o, attr):
    T = I()
    f = o.fields
    if attr == 'finished':
        return f['pos'] >= len(f['idxs'])
    if attr == 'iternext':
        def nxt():
            f['pos'] += 1
            return f['pos'] < len(f['idxs'])
        return T.Builtin('iternext', nxt)
    if attr == 'multi_index':
        return tuple(f['idxs'][f['pos']])
    if attr == 'index':
        return f['pos']
    if attr == 'value':
        return f['arr'].data[f['idxs'][f['pos']]]
    return NotImplemented


S.OBJ_ATTR['nditer'] = _nditer_attr
S.OBJ_GETITEM['nditer'] = lambda it, o, idx: o.fields['arr'].data[o.fields['idxs'][o.fields['pos']]]


def _nditer_set(it, o, idx, v):
    o.fields['arr'].data[o.fields['idxs'][o.fields['pos']]] = v


S.OBJ_SETITEM['nditer'] = _nditer_set
S.OBJ_ITER['nditer'] = lambda it, o: [o.fields['arr'].data[i] for i in o.fields['idxs'][o.fields['pos']:]]     # for v in np.nditer(a): the remaining values, iterator order


# ------------------------------------------------------------------------------------------------ scipy.sparse (concrete shape; dense backing)
# contract: M = matrix_type((vals, (rows, cols)), shape): M[i,j] = sum_t [rows_t = i and cols_t = j] vals_t  (duplicates are summed)
def _mk_sparse(dense, fmt):
    return Obj(None, {'dense': dense, 'sparse_format': fmt, 'pytype': fmt + '_matrix'}, tag='sparse')


def _sparse_ctor(fmt):
    def ctor(it, arg, shape=None, dtype=None, **k):
        if isinstance(arg, tuple) and len(arg) == 2 and isinstance(arg[1], tuple):
            vals, (rows, cols) = arg
            vals, rows, cols = [a if is_arr(a) else to_carr(a) for a in (vals, rows, cols)]
            if not all(isinstance(a, CArr) for a in (vals, rows, cols)):
                return sym_sparse(it, fmt, vals, rows, cols, shape)
            n, m = [conc(s) for s in shape]
            if not (isinstance(n, int) and isinstance(m, int)):
                raise Unsupported('sparse matrix of symbolic shape from concrete triplets')
            if not (vals.size == rows.size == cols.size):
                raise PyExc('ValueError', 'row, column, and data array must all be the same length')
            d = np.empty((n, m), dtype=object)
            d[...] = zero_of(vals.kind if vals.size else 'real')
            for v, r, c in zip(vals.data.reshape(-1), rows.data.reshape(-1), cols.data.reshape(-1)):
                r, c = conc(r), conc(c)
                if is_sym(r) or is_sym(c):
                    raise Unsupported('sparse construction with symbolic indices on a concrete shape')
                if not (0 <= r < n and 0 <= c < m):
                    raise PyExc('ValueError', 'index exceeds matrix dimensions')
                d[r, c] = V.add(d[r, c], v)
            return _mk_sparse(CArr(d), fmt)
        if isinstance(arg, Obj) and arg.tag == 'sparse':
            return _mk_sparse(CArr(arg.fields['dense'].data.copy()), fmt)
        if isinstance(arg, CArr):
            return _mk_sparse(CArr(arg.data.copy()), fmt)
        raise Unsupported('sparse constructor form')
    return ctor


def sym_sparse(it, fmt, vals, rows, cols, shape):
    """symbolic-size COO family: kept as triplets; entries are Sigma-terms over the triplet index"""
    vals, rows, cols = [A.snapshot(to_larr(a)) for a in (vals, rows, cols)]
    return Obj(None, {'vals': vals, 'rows': rows, 'cols': cols, 'shape': tuple(shape), 'sparse_format': fmt, 'pytype': fmt + '_matrix'}, tag='sparse_sym')


for _f in ('csc', 'csr', 'coo'):
    NP[('sps', _f + '_matrix')] = _sparse_ctor(_f)
    NP[('sps', _f + '_array')] = _sparse_ctor(_f)


def _sparse_attr(it, o, attr):
    T = I()
    B = lambda f: T.Builtin(attr, f)
    d = o.fields['dense']
    if attr in ('todense', 'toarray'):
        return B(lambda: CArr(d.data.copy()))
    if attr == 'shape':
        return tuple(d.shape)
    if attr == 'ndim':
        return 2
    if attr == 'size' or attr == 'nnz':
        raise Unsupported('number of stored entries of a sparse matrix')
    if attr == 'dtype':
        return S.dtype_of(d)
    if attr == 'T':
        return _mk_sparse(CArr(d.data.T.copy()), o.fields['sparse_format'])
    if attr == 'transpose':
        return B(lambda: _mk_sparse(CArr(d.data.T.copy()), o.fields['sparse_format']))
    if attr in ('conj', 'conjugate'):
        return B(lambda: _mk_sparse(elementwise(it.ctx, V.conj, d), o.fields['sparse_format']))
    if attr == 'copy':
        return B(lambda: _mk_sparse(CArr(d.data.copy()), o.fields['sparse_format']))
    if attr == 'diagonal':
        return B(lambda k=0: CArr(np.diagonal(d.data, k).copy()))
    if attr in ('tocsc', 'tocsr', 'tocoo'):
        return B(lambda: _mk_sparse(CArr(d.data.copy()), attr[2:]))
    if attr == 'dot':
        return B(lambda x: A.matmul(it.ctx, d, x.fields['dense'] if isinstance(x, Obj) and x.tag == 'sparse' else x))
    if attr == 'sum':
        def ssum(axis=None):
            r = reduce_axis(it.ctx, V.add, d, axis, 0)
            if axis is None:
                return r
            # scipy returns an np.matrix: (n,1) for axis=1, (1,m) for axis=0
            return CArr(r.data.reshape((-1, 1)) if axis in (1, -1) else r.data.reshape((1, -1)))
        return B(ssum)
    if attr == 'multiply':
        # element-wise (Hadamard) product with broadcasting; the result of sparse.multiply(dense) is sparse (coo)
        def mult(other):
            od = other.fields['dense'] if isinstance(other, Obj) and other.tag == 'sparse' else (other if is_arr(other) else to_carr(other))
            return _mk_sparse(A.arr_binop(it.ctx, 'Mult', d, od), 'coo')
        return B(mult)
    if attr in ('row', 'col', 'data') and o.fields['sparse_format'] == 'coo':
        # COO triplets of the dense-backed model: every position is stored (explicit zeros are legal in scipy), row-major
        n_, m_ = d.shape
        if attr == 'row':
            return CArr(np.array([i for i in range(n_) for _ in range(m_)], dtype=object), 'int')
        if attr == 'col':
            return CArr(np.array([j for _ in range(n_) for j in range(m_)], dtype=object), 'int')
        return CArr(np.array(list(d.data.reshape(-1)), dtype=object), d.kind)
    if attr == 'real':
        return _mk_sparse(elementwise(it.ctx, V.real_part, d), o.fields['sparse_format'])
    if attr == 'imag':
        return _mk_sparse(elementwise(it.ctx, V.imag_part, d), o.fields['sparse_format'])
    return NotImplemented


def _sparse_binop(it, on, a, b):
    fa = a.fields['dense'] if isinstance(a, Obj) and a.tag == 'sparse' else a
    fb = b.fields['dense'] if isinstance(b, Obj) and b.tag == 'sparse' else b
    fmt = (a if isinstance(a, Obj) and a.tag == 'sparse' else b).fields['sparse_format']
    both_sparse = isinstance(a, Obj) and a.tag == 'sparse' and isinstance(b, Obj) and b.tag == 'sparse'
    if on in ('Add', 'Sub'):
        r = A.arr_binop(it.ctx, on, fa, fb)
        return _mk_sparse(r, fmt) if both_sparse else r      # sparse + dense gives a dense matrix
    if on == 'MatMult':
        r = A.matmul(it.ctx, fa, fb)
        return _mk_sparse(r, fmt) if both_sparse else r
    if on == 'Mult':
        if V.is_scalar(fa) or V.is_scalar(fb):
            return _mk_sparse(A.arr_binop(it.ctx, 'Mult', fa, fb), fmt)
        # scipy sparse matrix * array is the MATRIX product
        r = A.matmul(it.ctx, fa, fb)
        return _mk_sparse(r, fmt) if both_sparse else r
    if on == 'Div' and V.is_scalar(fb):
        return _mk_sparse(A.arr_binop(it.ctx, 'Div', fa, fb), fmt)
    return NotImplemented


def _sparse_getitem(it, o, idx):
    r = A.arr_getitem(it.ctx, o.fields['dense'], idx)
    if isinstance(r, CArr) and r.ndim == 2:
        return _mk_sparse(r, o.fields['sparse_format'])
    if isinstance(r, CArr) and r.ndim == 1:
        # scipy keeps 2-D: row/column slices of a sparse matrix are 1 x n / n x 1 matrices
        raise Unsupported('1-D result of sparse indexing')
    return r


S.OBJ_ATTR['sparse'] = _sparse_attr
S.OBJ_BINOP['sparse'] = _sparse_binop
S.OBJ_GETITEM['sparse'] = _sparse_getitem
DEEPCOPY['sparse'] = lambda it, x: _mk_sparse(CArr(x.fields['dense'].data.copy()), x.fields['sparse_format'])


def _sparse_sym_attr(it, o, attr):
    if attr == 'shape':
        return tuple(o.fields['shape'])
    return NotImplemented


S.OBJ_ATTR['sparse_sym'] = _sparse_sym_attr


@np_fn('issparse', 'isspmatrix', ns='sps')
def sps_issparse(it, x):
    return isinstance(x, Obj) and x.tag in ('sparse', 'sparse_sym')


@np_fn('isin')
def np_isin(it, a, b, **k):
    a = a if is_arr(a) else to_carr(a)
    b = b if is_arr(b) else to_carr(b)
    if isinstance(a, CArr) and isinstance(b, CArr):
        bl = list(b.data.reshape(-1))
        out = np.empty(a.shape, dtype=object)
        for o in np.ndindex(*a.shape):
            r = False
            for v in bl:
                r = V.or_(r, V.cmp('==', a.data[o], v))
            out[o] = r
        return CArr(out, 'bool')
    raise Unsupported('isin on symbolic arrays')


NP[('np', 'bitwise_or')] = NP[('np', 'logical_or')]
NP[('np', 'bitwise_and')] = NP[('np', 'logical_and')]
NP[('np', 'bitwise_not')] = NP[('np', 'logical_not')]


@np_fn('count_nonzero')
def np_count_nonzero(it, a, axis=None, **k):
    a = a if is_arr(a) else to_carr(a)
    if not isinstance(a, CArr):
        raise Unsupported('count_nonzero of a symbolic-shape array')

    def nz(v):
        if not is_sym(v) and not isinstance(v, Cx):
            return 1 if V.exact(v) != 0 else 0
        f = V.zbool(V.cmp('!=', v, 0))
        if V.ORACLE is not None:
            if V.ORACLE(f):
                return 1
            if V.ORACLE(z3.Not(f)):
                return 0
        return V.ite(f, 1, 0)
    flags = CArr(uf(nz, 1)(a.data), 'int')
    return reduce_axis(it.ctx, V.add, flags, axis, 0)


# ------------------------------------------------------------------------------------------------ scipy.linalg contracts (matrix-algebra level)
from . import matalg as MA


def _is_mat(x):
    return isinstance(x, Obj) and x.tag == 'mat'


@np_fn('lu', ns='spla')
def spla_lu(it, A, **k):
    """A = P L U, P a real permutation matrix"""
    if not _is_mat(A):
        raise Unsupported('scipy.linalg.lu on index-level arrays')
    kind = A.fields['kind']
    P = MA.Mat.atom(MA.fresh_name('P'), {'real', 'orthogonal'})
    L = MA.Mat.atom(MA.fresh_name('L'), {'real'} if kind != 'complex' else ())
    U = MA.Mat.atom(MA.fresh_name('U'), {'real'} if kind != 'complex' else ())
    _define(A, P @ L @ U)
    return (MA.wrap(P, 'real'), MA.wrap(L, kind), MA.wrap(U, kind))


def _define(A, word):
    m = A.fields['m']
    if len(m.terms) != 1:
        raise Unsupported('factorisation of a compound matrix expression')
    (w, c), = m.terms.items()
    if len(w) != 1 or not (not is_sym(c) and c == 1):
        raise Unsupported('factorisation of a compound matrix expression')
    n, t, cj, i = w[0]
    d = word
    if i:
        d = d.inv()
    if cj:
        d = d.conj()
    if t:
        d = d.T()
    if n in MA.DEFS:
        raise Unsupported('matrix factorised twice in one harness')
    MA.DEFS[n] = d


@np_fn('qr', ns='spla')
def spla_qr(it, A, **k):
    """A = Q R, Q unitary"""
    kind = A.fields['kind']
    Q = MA.Mat.atom(MA.fresh_name('Q'), {'unitary'} | ({'real'} if kind != 'complex' else set()))
    R = MA.Mat.atom(MA.fresh_name('R'), {'real'} if kind != 'complex' else ())
    _define(A, Q @ R)
    return (MA.wrap(Q, kind), MA.wrap(R, kind))


@np_fn('cholesky', ns='spla')
def spla_cholesky(it, A, lower=False, **k):
    """A = U^H U for Hermitian positive definite A; raises LinAlgError otherwise (the harness decides which case is explored)"""
    if it.ctx.__dict__.get('cholesky_fails'):
        raise PyExc('LinAlgError', 'matrix is not positive definite')
    kind = A.fields['kind']
    U = MA.Mat.atom(MA.fresh_name('Uc'), {'real'} if kind != 'complex' else ())
    _define(A, U.H() @ U)
    return MA.wrap(U, kind)


@np_fn('ldl', ns='spla')
def spla_ldl(it, A, lower=True, hermitian=True, **k):
    """A = L D L^H (hermitian=True) or L D L^T; returns (L, D, perm) where L[perm] is unit lower triangular; D is Hermitian resp. symmetric"""
    kind = A.fields['kind']
    herm = it.truth(hermitian)
    L = MA.Mat.atom(MA.fresh_name('Ll'), {'real'} if kind != 'complex' else ())
    D = MA.Mat.atom(MA.fresh_name('D'), ({'real'} if kind != 'complex' else set()) | ({'hermitian'} if herm else {'symmetric'}))
    _define(A, L @ D @ (L.H() if herm else L.T()))
    Pi = MA.Mat.atom(MA.fresh_name('Pi'), {'real', 'orthogonal'})
    return (MA.wrap(L, kind), MA.wrap(D, kind), Obj(None, {'m': Pi}, tag='perm'))


@np_fn('solve_triangular', ns='spla')
def spla_solve_triangular(it, T, b, trans=0, lower=False, unit_diagonal=False, **k):
    """op(T)^-1 b with op = id / ^T / ^H for trans in {0,'N'} / {1,'T'} / {2,'C'}"""
    Tm, bm = MA.unwrap(T), MA.unwrap(b)
    if trans in (0, 'N'):
        op = Tm
    elif trans in (1, 'T'):
        op = Tm.T()
    elif trans in (2, 'C'):
        op = Tm.H()
    else:
        raise PyExc('ValueError', 'invalid trans')
    return MA.wrap(op.inv() @ bm, 'complex' if 'complex' in (T.fields['kind'], b.fields['kind']) else 'real')


A_matmul = A.matmul


@np_fn('inv', ns='np.linalg')
def la_inv(it, A):
    if _is_mat(A):
        return MA.wrap(MA.unwrap(A).inv(), A.fields['kind'])
    if isinstance(A, CArr) and A.ndim == 2 and A.shape[0] == A.shape[1]:
        # contract of the inverse on a concrete size: a fresh matrix B with A B = I and B A = I (such a B exists iff A is non-singular,
        # which is the caller's precondition; the vacuity check of the harness notices an impossible assumption)
        n = A.shape[0]
        cx = kind_of(A) == 'complex'
        B = np.empty((n, n), dtype=object)
        for i in range(n):
            for j in range(n):
                B[i, j] = Cx(it.ctx.fresh('inv_r', 'real'), it.ctx.fresh('inv_i', 'real')) if cx else it.ctx.fresh('inv', 'real')
        Bc = CArr(B, 'complex' if cx else 'real')
        for P_ in (A_matmul(it.ctx, A, Bc), A_matmul(it.ctx, Bc, A)):
            for i in range(n):
                for j in range(n):
                    it.ctx.assume(V.z(V.cmp('==', P_.data[i, j], 1 if i == j else 0)))
        return Bc
    raise Unsupported('np.linalg.inv on index-level arrays')


@np_fn('inv', ns='spla')
def spla_inv(it, a, overwrite_a=False, check_finite=True):
    """scipy.linalg.inv: the inverse as in np.linalg.inv; with overwrite_a the contents of `a` are DISCARDED (documented: 'may improve performance'):
    after the call they are arbitrary - LAPACK works in place for Fortran-ordered float/complex input"""
    B = la_inv(it, a)
    if conc(overwrite_a) and isinstance(a, CArr):
        for idx in np.ndindex(*a.shape):
            a.data[idx] = Cx(it.ctx.fresh('discarded_r', 'real'), it.ctx.fresh('discarded_i', 'real')) if a.kind == 'complex' else it.ctx.fresh('discarded', 'real')
    return B


@np_fn('diag')
def np_diag(it, a, k=0):
    if _is_mat(a):
        return Obj(None, {'of': a, 'inverted': False}, tag='diagvec')
    if isinstance(a, Obj) and a.tag == 'diagvec':
        # np.diag(np.diag(D))       = D      for a diagonal D  (the caller has established matrix_is_diagonal(D))
        # np.diag(1 / np.diag(D))   = D^-1
        D = a.fields['of']
        return MA.wrap(MA.unwrap(D).inv() if a.fields['inverted'] else MA.unwrap(D), D.fields['kind'])
    a = a if is_arr(a) else to_carr(a)
    if isinstance(a, CArr):
        if a.ndim == 1:
            n = a.shape[0]
            d = np.empty((n, n), dtype=object)
            d[...] = 0
            for i in range(n):
                d[i, i] = a.data[i]
            return CArr(d)
        return CArr(np.diagonal(a.data, k).copy())
    raise Unsupported('np.diag on symbolic-shape array')


def _diagvec_binop(it, on, a, b):
    if on == 'Div' and V.is_scalar(a) and not is_sym(a) and V.exact(a) == 1 and isinstance(b, Obj) and b.tag == 'diagvec':
        return Obj(None, {'of': b.fields['of'], 'inverted': not b.fields['inverted']}, tag='diagvec')
    return NotImplemented


S.OBJ_BINOP['diagvec'] = _diagvec_binop
MA.install(S, __import__('sys').modules[__name__])


def larr_matvec(it, M, v, axis):
    """y[i] = sum_t M[i,t] v[t] (axis=1)  or  y[j] = sum_t v[t] M[t,j] (axis=0): a family of Sigma-terms indexed by the free index"""
    ctx = it.ctx
    Ms, vs = A.snapshot(to_larr(M)), A.snapshot(to_larr(v))
    n = Ms.shape[axis]
    A.bshape((n,), vs.shape, ctx)
    out_n = Ms.shape[1 - axis]
    if Ms.kind == 'complex' or vs.kind == 'complex':
        raise Unsupported('complex symbolic matvec')
    probe_i, probe_t = z3.Int('i!canon'), z3.Int('t!canon')
    term_c = V.zreal(V.mul(Ms.at(probe_i, probe_t) if axis == 1 else Ms.at(probe_t, probe_i), vs.at(probe_t)))
    cache = ctx.__dict__.setdefault('matvec_cache', {})
    key = term_c.sexpr()
    if key in cache:
        F = cache[key]
    else:
        F = ctx.fresh_fun('MatVec', z3.IntSort(), z3.IntSort(), z3.RealSort())
        cache[key] = F
        i, t = z3.Int(f'i!{next(ctx.fresh_ctr)}'), z3.Int(f't!{next(ctx.fresh_ctr)}')
        term = V.zreal(V.mul(Ms.at(i, t) if axis == 1 else Ms.at(t, i), vs.at(t)))
        ctx.hyps.append(z3.ForAll([i], F(i, 0) == 0))
        ctx.hyps.append(z3.ForAll([i, t], z3.Implies(t >= 0, F(i, t + 1) == F(i, t) + term), patterns=[F(i, t + 1)]))
    r = LArr((out_n,), lambda idx, F=F, n=n: F(V.zint(idx[0]), V.zint(n)), 'real')
    r.meta['matvec'] = (F, Ms, vs, axis)
    return r


@np_fn('append')
def np_append(it, a, v, axis=None):
    if axis is not None:
        raise Unsupported('np.append with axis')

    def flat(x):
        if V.is_scalar(x):
            return to_carr([x])
        x = x if is_arr(x) else to_carr(x)
        return arr_flatten(it, x, True) if x.ndim != 1 else x
    fa, fv = flat(a), flat(v)
    if isinstance(fa, CArr) and fa.size == 0:
        return A.snapshot(fv) if isinstance(fv, LArr) else CArr(fv.data.copy(), fv._kind)
    return np_concatenate(it, [fa, fv])


# ------------------------------------------------------------------------------------------------ scipy.signal (concrete shapes, symbolic entries)
def _conv_nd(it, a, w, mode, correlate):
    """N-D convolution / cross-correlation with real weights.
    convolve(a, w, 'valid')[k] = sum_j a[k + K - 1 - j] w[j]  (per axis);  correlate(a, w, 'full')[m] = sum_j a[m + j - (K-1)] w[j] (zero outside)"""
    a = a if is_arr(a) else to_carr(a)
    w = w if is_arr(w) else to_carr(w)
    if not (isinstance(a, CArr) and isinstance(w, CArr)):
        raise Unsupported('scipy.signal.convolve/correlate on symbolic-shape arrays (linear-operator contract needed)')
    if a.ndim != w.ndim:
        raise PyExc('ValueError', 'in1 and in2 should have the same dimensionality')
    Ash, K = a.shape, w.shape
    if mode == 'valid':
        if not all(x >= y for x, y in zip(Ash, K)):
            if all(y >= x for x, y in zip(Ash, K)):
                raise Unsupported("'valid' convolution with the kernel larger than the signal (operands swap)")
            raise PyExc('ValueError', "For 'valid' mode, one must be at least as large as the other in every dimension")
        out_shape = tuple(x - y + 1 for x, y in zip(Ash, K))
        off = tuple(0 for _ in K)
    elif mode == 'full':
        out_shape = tuple(x + y - 1 for x, y in zip(Ash, K))
        off = tuple(-(y - 1) for y in K)
    elif mode == 'same':
        out_shape = tuple(Ash)
        off = tuple(-((y - 1) // 2) for y in K)
    else:
        raise PyExc('ValueError', 'mode')
    out = np.empty(out_shape, dtype=object)
    for o in np.ndindex(*out_shape):
        acc = 0
        for j in np.ndindex(*K):
            if correlate:
                src = tuple(o[d] + off[d] + j[d] for d in range(len(K)))
            else:
                # convolution = correlation with the flipped kernel
                src = tuple(o[d] + off[d] + (K[d] - 1 - j[d]) for d in range(len(K)))
            if all(0 <= src[d] < Ash[d] for d in range(len(K))):
                acc = V.add(acc, V.mul(a.data[src], w.data[j] if not correlate else V.conj(w.data[j])))
        out[o] = acc
    return CArr(out)


@np_fn('convolve', ns='spsig')
def spsig_convolve(it, a, w, mode='full', **k):
    return _conv_nd(it, a, w, mode, correlate=False)


@np_fn('correlate', ns='spsig')
def spsig_correlate(it, a, w, mode='full', **k):
    return _conv_nd(it, a, w, mode, correlate=True)


@np_fn('fill_diagonal')
def np_fill_diagonal(it, a, val, **k):
    if not isinstance(a, CArr) or a.ndim != 2:
        raise Unsupported('fill_diagonal form')
    for i in range(min(a.shape)):
        a.data[i, i] = val
    return None


@np_fn('solve', ns='np.linalg')
def la_solve(it, Am, b):
    """exact solution of a small dense system with symbolic entries (fraction-free Gauss-Jordan with a symbolic non-zero pivot assumption);
    only for concrete sizes n <= 4: x = A^-1 b as rational functions; the non-singularity of the leading minors is a precondition (safety obligation)"""
    if _is_mat(Am):
        return MA.wrap(MA.unwrap(Am).inv() @ MA.unwrap(b), 'complex' if 'complex' in (Am.fields['kind'], b.fields['kind']) else Am.fields['kind'])
    Am = Am if is_arr(Am) else to_carr(Am)
    b = b if is_arr(b) else to_carr(b)
    if not (isinstance(Am, CArr) and isinstance(b, CArr)) or Am.ndim != 2 or Am.shape[0] != Am.shape[1] or Am.shape[0] > 4:
        raise Unsupported('np.linalg.solve beyond small concrete systems')
    n = Am.shape[0]
    M = [[Am.data[i, j] for j in range(n)] for i in range(n)]
    B = b.data.reshape(n, -1)
    R = [[B[i, j] for j in range(B.shape[1])] for i in range(n)]
    for c in range(n):
        piv = M[c][c]
        it.ctx.safety('solve_pivot_nonzero', V.cmp('!=', piv, 0) if not isinstance(piv, Cx) else V.zbool(piv))
        for r in range(n):
            if r == c:
                continue
            f = V.div(M[r][c], piv)
            M[r] = [V.sub(M[r][j], V.mul(f, M[c][j])) for j in range(n)]
            R[r] = [V.sub(R[r][j], V.mul(f, R[c][j])) for j in range(len(R[r]))]
    X = np.empty(B.shape, dtype=object)
    for i in range(n):
        for j in range(B.shape[1]):
            X[i, j] = V.div(R[i][j], M[i][i])
    return CArr(X.reshape(b.shape))


# ------------------------------------------------------------------------------------------------ eigenvalue solvers (library contracts)
# scipy.linalg.eigh(A, b=B):  real ascending W, Q with  A Q = B Q diag(W)  and  Q^H B Q = I   (A, B Hermitian, B positive definite)
# scipy.linalg.eig(A, b=B):   complex W, Q with  A Q = B Q diag(W), every column of unit 2-norm; no order is promised
# scipy.sparse.linalg.eigsh / eigs(A, k, M, sigma, OPinv): k pairs with A q = w M q (eigsh: real w, M-orthonormal q); OPinv must act as
#   (A - sigma M)^-1 - the caller's operator is recorded so that the harness can check that requirement
def _eig_common(it, A, B, n, k, cplx_w, cplx_q, tag):
    ctx = it.ctx

    def fresh(nm, cplx):
        if cplx:
            return Cx(ctx.fresh(nm + 'r', 'real'), ctx.fresh(nm + 'i', 'real'))
        return ctx.fresh(nm, 'real')
    W = np.empty((k,), dtype=object)
    Q = np.empty((n, k), dtype=object)
    for j in range(k):
        W[j] = fresh(f'{tag}_w{j}', cplx_w)
        for r in range(n):
            Q[r, j] = fresh(f'{tag}_q{r}{j}', cplx_q)
    Ad = A.fields['dense'].data if isinstance(A, Obj) else A.data
    Bd = None if B is None else (B.fields['dense'].data if isinstance(B, Obj) else B.data)
    facts = []
    for j in range(k):
        for r in range(n):
            lhs = 0
            rhs = 0
            for c in range(n):
                lhs = V.add(lhs, V.mul(Ad[r, c], Q[c, j]))
                rhs = V.add(rhs, V.mul(Bd[r, c], Q[c, j]) if Bd is not None else (Q[c, j] if c == r else 0))
            rhs = V.mul(W[j], rhs)
            f = V.eq_formula(lhs, rhs)
            ctx.assume(f)
            facts.append(((r, j), f))
    it.trace.append(('eig_result', dict(solver=tag, W=W.copy(), Q=Q.copy(), equation_facts=facts, A=A, B=B)))
    return W, Q, Ad, Bd


def _kind_of_mat(M):
    if M is None:
        return 'real'
    return (M.fields['dense'] if isinstance(M, Obj) else M).kind


@np_fn('eigh', ns='spla')
def spla_eigh(it, A, b=None, **k):
    if not isinstance(A, CArr) or (b is not None and not isinstance(b, CArr)):
        raise Unsupported('eigh on a non-concrete-shape matrix')
    n = A.shape[0]
    cplx = 'complex' in (_kind_of_mat(A), _kind_of_mat(b))
    W, Q, Ad, Bd = _eig_common(it, A, b, n, n, False, cplx, 'eigh')
    ctx = it.ctx
    for j in range(n - 1):
        ctx.assume(V.cmp('<=', W[j], W[j + 1]))
    for i in range(n):
        for j in range(n):
            tot = 0
            for r in range(n):
                for c in range(n):
                    bij = Bd[r, c] if Bd is not None else (1 if r == c else 0)
                    tot = V.add(tot, V.mul(V.mul(V.conj(Q[r, i]), bij), Q[c, j]))
            f = V.eq_formula(tot, 1 if i == j else 0)
            ctx.assume(f)
            it.trace[-1][1].setdefault('orthonormal_facts', []).append(((i, j), f))
    return (CArr(W, 'real'), CArr(Q, 'complex' if cplx else 'real'))


@np_fn('eig', ns='spla')
def spla_eig(it, A, b=None, **k):
    if not isinstance(A, CArr) or (b is not None and not isinstance(b, CArr)):
        raise Unsupported('eig on a non-concrete-shape matrix')
    n = A.shape[0]
    W, Q, Ad, Bd = _eig_common(it, A, b, n, n, True, True, 'eig')
    for j in range(n):
        tot = 0
        for r in range(n):
            tot = V.add(tot, V.real_part(V.mul(V.conj(Q[r, j]), Q[r, j])))
        it.ctx.assume(V.cmp('==', tot, 1))
    return (CArr(W, 'complex'), CArr(Q, 'complex'))


@np_fn('LinearOperator', ns='spsla')
def spsla_linop(it, shape, matvec=None, rmatvec=None, **k):
    return Obj(None, {'shape': tuple(shape), 'matvec': matvec, 'rmatvec': rmatvec}, tag='linop')


def _sparse_eig(fname):
    def f(it, A, k=6, M=None, sigma=None, which='LM', OPinv=None, mode='normal', **kw):
        if not (isinstance(A, Obj) and A.tag == 'sparse'):
            raise Unsupported(fname + ' on a non-sparse matrix')
        n = A.fields['dense'].shape[0]
        k = conc(k)
        if not isinstance(k, int):
            raise Unsupported('symbolic number of modes')
        call = dict(A=A, M=M, k=k, sigma=sigma, OPinv=OPinv, mode=mode, which=which,
                    A_entries=A.fields['dense'].data.copy(), M_entries=None if M is None else M.fields['dense'].data.copy())
        it.trace.append((fname, call))
        if k >= n - (0 if fname == 'eigsh' else 1) or k <= 0:
            raise PyExc('TypeError' if k > 0 else 'ValueError', 'ARPACK: k must satisfy 0 < k < N (eigsh) / 0 < k < N-1 (eigs)')
        cplx = 'complex' in (_kind_of_mat(A), _kind_of_mat(M))
        herm = fname == 'eigsh'
        W, Q, Ad, Bd = _eig_common(it, A, M, n, k, not herm, cplx or not herm, fname)
        if herm:
            for i in range(k):
                for j in range(k):
                    tot = 0
                    for r in range(n):
                        for c in range(n):
                            bij = Bd[r, c] if Bd is not None else (1 if r == c else 0)
                            tot = V.add(tot, V.mul(V.mul(V.conj(Q[r, i]), bij), Q[c, j]))
                    fct = V.eq_formula(tot, 1 if i == j else 0)
                    it.ctx.assume(fct)
                    it.trace[-1][1].setdefault('orthonormal_facts', []).append(((i, j), fct))
        return (CArr(W, 'real' if herm else 'complex'), CArr(Q, 'complex' if (cplx or not herm) else 'real'))
    return f


@np_fn('eye', 'identity', ns='sps')
def sps_eye(it, n, m=None, **k):
    n = conc(n)
    m = n if m is None else conc(m)
    if not (isinstance(n, int) and isinstance(m, int)):
        raise Unsupported('sparse identity of symbolic size')
    d = np.empty((n, m), dtype=object)
    for i in range(n):
        for j in range(m):
            d[i, j] = Fraction(1) if i == j else Fraction(0)
    return _mk_sparse(CArr(d, 'real'), 'dia')


NP[('spsla', 'eigsh')] = _sparse_eig('eigsh')
NP[('spsla', 'eigs')] = _sparse_eig('eigs')
