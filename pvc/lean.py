"""Lean 4 + Mathlib lemma library: acceptance stamps keyed by source hash (compiled by setup.sh / on demand; `thorough` forces a re-check)."""
import hashlib
import os
import re
import subprocess
import time

HERE = os.path.join(os.path.dirname(os.path.dirname(os.path.abspath(__file__))), 'lemmas')


def check(files, force=False):
    """-> list of dict(file, theorems, sha256, status, time)"""
    out = []
    for f in files:
        p = os.path.join(HERE, f)
        src = open(p).read()
        h = hashlib.sha256(src.encode()).hexdigest()
        stamp = os.path.join(HERE, '.build', f + '.ok')
        t0 = time.time()
        ok = (not force) and os.path.exists(stamp) and open(stamp).read().strip() == h
        how = 'stamp (accepted earlier for this exact source)'
        if not ok:
            os.makedirs(os.path.dirname(stamp), exist_ok=True)
            r = subprocess.run(['lean', f], cwd=HERE, capture_output=True, text=True, timeout=3000)
            ok = r.returncode == 0 and 'sorry' not in (r.stdout + r.stderr).lower()
            how = 'lean run'
            if ok:
                open(stamp, 'w').write(h)
            elif os.path.exists(stamp):
                os.unlink(stamp)
        bad = re.findall(r'\b(sorry|admit|axiom)\b', re.sub(r'--.*', '', src))
        out.append(dict(file=f, sha256=h[:16], theorems=re.findall(r'^theorem\s+(\w+)', src, re.M), status='accepted' if ok and not bad else 'rejected',
                        how=how, time=round(time.time() - t0, 1)))
    return out
