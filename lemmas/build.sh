#!/bin/sh
# compile every Lean lemma file; a stamp with the source hash records acceptance (lean exit 0, no output mentioning sorry)
cd "$(dirname "$0")"
mkdir -p .build
rc=0
for f in *.lean; do
  h=$(sha256sum "$f" | cut -d' ' -f1)
  if [ -f ".build/$f.ok" ] && [ "$(cat .build/$f.ok)" = "$h" ] && [ -z "$FORCE" ]; then continue; fi
  out=$(lean "$f" 2>&1); r=$?
  if [ $r -eq 0 ] && ! echo "$out" | grep -qi "sorry"; then echo "$h" > ".build/$f.ok"; echo "lean accepted $f"; else echo "lean REJECTED $f: $out" | head -20; rm -f ".build/$f.ok"; rc=1; fi
done
exit $rc
