import Mathlib.Algebra.BigOperators.Group.Finset.Basic
import Mathlib.Algebra.BigOperators.Ring.Finset
import Mathlib.Algebra.Order.BigOperators.Group.Finset
import Mathlib.Data.Real.Basic
import Mathlib.Tactic

open Finset BigOperators
namespace PymotoSums

set_option linter.unusedSectionVars false

variable {ι τ : Type} [Fintype ι] [DecidableEq ι] [Fintype τ] [DecidableEq τ]

/-! ## 1-3. single / pair terms of a nonnegative sum, 0/1 counts -/

theorem sum_ge_two_terms (f : ι → ℝ) (i j : ι) (hf : ∀ k, 0 ≤ f k) (hij : i ≠ j) :
    f i + f j ≤ ∑ k, f k := by
  have h := Finset.sum_le_sum_of_subset_of_nonneg (f := f)
    (Finset.subset_univ ({i, j} : Finset ι)) (fun k _ _ => hf k)
  rwa [Finset.sum_pair hij] at h

theorem sum_unique_term (f : ι → ℝ) (i : ι) (h : ∀ k, k ≠ i → f k = 0) :
    ∑ k, f k = f i :=
  Fintype.sum_eq_single i h

theorem count_le_one_iff (f : ι → ℝ) (i : ι) (h01 : ∀ k, f k = 0 ∨ f k = 1) (hi : f i = 1) :
    (∑ k, f k ≤ 1 ↔ ∀ k, k ≠ i → f k = 0) := by
  have hnn : ∀ k, 0 ≤ f k := by
    intro k
    rcases h01 k with h | h <;> rw [h]
    exact zero_le_one
  constructor
  · intro hs k hk
    rcases h01 k with h | h
    · exact h
    · exfalso
      have h2 := sum_ge_two_terms f i k hnn (Ne.symm hk)
      rw [hi, h] at h2
      linarith
  · intro h
    rw [sum_unique_term f i h, hi]

/-! ## 4-6. convex combinations, monotonicity -/

theorem convex_comb_bounds (w x : ι → ℝ) (m M : ℝ) (hw : ∀ k, 0 ≤ w k) (h1 : ∑ k, w k = 1)
    (hx : ∀ k, m ≤ x k ∧ x k ≤ M) :
    m ≤ ∑ k, w k * x k ∧ ∑ k, w k * x k ≤ M := by
  constructor
  · have h : ∑ k, w k * m ≤ ∑ k, w k * x k :=
      Finset.sum_le_sum (fun k _ => mul_le_mul_of_nonneg_left (hx k).1 (hw k))
    rwa [← Finset.sum_mul, h1, one_mul] at h
  · have h : ∑ k, w k * x k ≤ ∑ k, w k * M :=
      Finset.sum_le_sum (fun k _ => mul_le_mul_of_nonneg_left (hx k).2 (hw k))
    rwa [← Finset.sum_mul, h1, one_mul] at h

theorem convex_comb_const (w : ι → ℝ) (c : ℝ) (h1 : ∑ k, w k = 1) :
    ∑ k, w k * c = c := by
  rw [← Finset.sum_mul, h1, one_mul]

theorem sum_mono_pointwise (f g : ι → ℝ) (h : ∀ k, f k ≤ g k) :
    ∑ k, f k ≤ ∑ k, g k :=
  Finset.sum_le_sum (fun k _ => h k)

/-! ## 7. scatter (COO accumulate) is the adjoint of gather -/

theorem scatter_gather_adjoint (I : τ → ι) (v : τ → ℝ) (w : ι → ℝ) :
    ∑ k, w k * (∑ t, if I t = k then v t else 0) = ∑ t, w (I t) * v t := by
  simp_rw [Finset.mul_sum]
  rw [Finset.sum_comm]
  refine Finset.sum_congr rfl (fun t _ => ?_)
  simp_rw [mul_ite, mul_zero]
  rw [Finset.sum_ite_eq]
  simp

/-! ## 8-9. assembled COO matrix: bilinear form and symmetry -/

/-- Dense matrix assembled from a triplet family (duplicates are summed). -/
noncomputable def cooMat (R C : τ → ι) (vals : τ → ℝ) (r c : ι) : ℝ :=
  ∑ t, if R t = r ∧ C t = c then vals t else 0

theorem coo_bilinear (R C : τ → ι) (vals : τ → ℝ) (u y : ι → ℝ) :
    ∑ r, ∑ c, u r * cooMat R C vals r c * y c = ∑ t, u (R t) * vals t * y (C t) := by
  unfold cooMat
  have h1 : ∀ r, ∑ c, u r * (∑ t, if R t = r ∧ C t = c then vals t else 0) * y c
      = ∑ t, ∑ c, u r * (if R t = r ∧ C t = c then vals t else 0) * y c := by
    intro r
    simp_rw [Finset.mul_sum, Finset.sum_mul]
    exact Finset.sum_comm
  simp_rw [h1]
  rw [Finset.sum_comm]
  refine Finset.sum_congr rfl (fun t _ => ?_)
  rw [Finset.sum_eq_single (R t)]
  · rw [Finset.sum_eq_single (C t)]
    · simp
    · intro c _ hc
      simp [Ne.symm hc]
    · intro h; exact absurd (Finset.mem_univ _) h
  · intro r _ hr
    refine Finset.sum_eq_zero (fun c _ => ?_)
    simp [Ne.symm hr]
  · intro h; exact absurd (Finset.mem_univ _) h

theorem coo_symmetric (R C : τ → ι) (vals : τ → ℝ) (σ : τ → τ)
    (hσ : ∀ t, σ (σ t) = t) (hR : ∀ t, R (σ t) = C t) (hC : ∀ t, C (σ t) = R t)
    (hv : ∀ t, vals (σ t) = vals t) (r c : ι) :
    cooMat R C vals r c = cooMat R C vals c r := by
  unfold cooMat
  have hinv : Function.Involutive σ := hσ
  rw [← Equiv.sum_comp hinv.toPerm (fun t => if R t = c ∧ C t = r then vals t else 0)]
  refine Finset.sum_congr rfl (fun t _ => ?_)
  simp only [Function.Involutive.coe_toPerm, hR, hC, hv]
  by_cases h1 : R t = r <;> by_cases h2 : C t = c <;> simp [h1, h2]

/-! ## 10. sum over a selection equals masked sum -/

theorem masked_sum_select (f : ι → ℝ) (p : ι → Prop) [DecidablePred p] :
    ∑ k ∈ Finset.univ.filter p, f k = ∑ k, if p k then f k else 0 :=
  Finset.sum_filter p f

end PymotoSums
