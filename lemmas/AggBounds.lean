import Mathlib.Analysis.SpecialFunctions.Log.Basic
import Mathlib.Algebra.BigOperators.Group.Finset.Basic
import Mathlib.Algebra.Order.BigOperators.Group.Finset
import Mathlib.Tactic

open Finset BigOperators
namespace PymotoAgg

theorem ks_lower {n : ℕ} (x : Fin (n+1) → ℝ) (ρ M : ℝ) (hρ : 0 < ρ) (i0 : Fin (n+1)) (h0 : x i0 = M) :
    M ≤ (1/ρ) * Real.log (∑ i, Real.exp (ρ * x i)) := by
  have hs : Real.exp (ρ * M) ≤ ∑ i, Real.exp (ρ * x i) := by
    have := Finset.single_le_sum (f := fun i => Real.exp (ρ * x i)) (s := Finset.univ)
      (fun i _ => (Real.exp_pos _).le) (Finset.mem_univ i0)
    simpa [h0] using this
  have hl : ρ * M ≤ Real.log (∑ i, Real.exp (ρ * x i)) := by
    have := Real.log_le_log (Real.exp_pos (ρ * M)) hs
    simpa using this
  rw [one_div, inv_mul_eq_div, le_div_iff₀ hρ]
  linarith

theorem ks_upper {n : ℕ} (x : Fin (n+1) → ℝ) (ρ M : ℝ) (hρ : 0 < ρ) (hM : ∀ i, x i ≤ M) :
    (1/ρ) * Real.log (∑ i, Real.exp (ρ * x i)) ≤ M + Real.log (n+1) / ρ := by
  have hs : ∑ i, Real.exp (ρ * x i) ≤ (n+1) * Real.exp (ρ * M) := by
    have : ∀ i ∈ (Finset.univ : Finset (Fin (n+1))), Real.exp (ρ * x i) ≤ Real.exp (ρ * M) := by
      intro i _
      exact Real.exp_le_exp.mpr (mul_le_mul_of_nonneg_left (hM i) hρ.le)
    have := Finset.sum_le_card_nsmul _ _ _ this
    simpa using this
  have hpos : 0 < ∑ i, Real.exp (ρ * x i) := Finset.sum_pos (fun i _ => Real.exp_pos _) Finset.univ_nonempty
  have hl : Real.log (∑ i, Real.exp (ρ * x i)) ≤ Real.log (n+1) + ρ * M := by
    have h1 := Real.log_le_log hpos hs
    have hn : (0:ℝ) < n + 1 := by positivity
    rw [Real.log_mul hn.ne' (Real.exp_pos _).ne', Real.log_exp] at h1
    exact h1
  rw [one_div, inv_mul_eq_div, div_le_iff₀ hρ]
  have : (M + Real.log (↑n + 1) / ρ) * ρ = M * ρ + Real.log (↑n + 1) := by
    field_simp
  rw [this]; linarith
end PymotoAgg
