import Mathlib.Algebra.BigOperators.Group.Finset.Basic
import Mathlib.Algebra.BigOperators.Ring.Finset
import Mathlib.Data.Real.Basic
import Mathlib.Tactic

open Finset BigOperators
namespace PymotoRS

variable {ι : Type} [Fintype ι] [DecidableEq ι]

structure PMod (ι : Type) where
  a : ℕ
  b : ℕ
  inp : Fin a → ι
  out : Fin b → ι
  J : Fin b → Fin a → ℝ

def isOut (m : PMod ι) (k : ι) : Prop := ∃ r, m.out r = k

noncomputable def fwd (m : PMod ι) (δ : ι → ℝ) : ι → ℝ := fun k =>
  (if (∃ r, m.out r = k) then 0 else δ k) +
    ∑ r, if m.out r = k then ∑ c, m.J r c * δ (m.inp c) else 0

noncomputable def bwd (m : PMod ι) (s : ι → ℝ) : ι → ℝ := fun k =>
  s k + ∑ c, if m.inp c = k then ∑ r, m.J r c * s (m.out r) else 0

noncomputable def pair (s δ : ι → ℝ) : ℝ := ∑ k, s k * δ k

theorem one_step (m : PMod ι) (s δ : ι → ℝ) (h : ∀ r, δ (m.out r) = 0) :
    pair s (fwd m δ) = pair (bwd m s) δ := by
  unfold pair fwd bwd
  have h1 : ∀ k, (if (∃ r, m.out r = k) then (0:ℝ) else δ k) = δ k := by
    intro k
    split_ifs with hk
    · obtain ⟨r, hr⟩ := hk
      rw [← hr, h r]
    · rfl
  simp only [h1, mul_add, add_mul, Finset.sum_add_distrib]
  congr 1
  -- LHS: ∑ k, s k * ∑ r, ite (out r = k) (∑ c, J r c * δ (inp c)) 0
  -- RHS: ∑ k, (∑ c, ite (inp c = k) (∑ r, J r c * s (out r)) 0) * δ k
  have L : ∑ k, s k * ∑ r, (if m.out r = k then ∑ c, m.J r c * δ (m.inp c) else 0)
      = ∑ r, s (m.out r) * ∑ c, m.J r c * δ (m.inp c) := by
    simp only [Finset.mul_sum]
    rw [Finset.sum_comm]
    apply Finset.sum_congr rfl
    intro r _
    simp [mul_ite, Finset.sum_ite_eq, Finset.mul_sum]
  have R : ∑ k, (∑ c, (if m.inp c = k then ∑ r, m.J r c * s (m.out r) else 0)) * δ k
      = ∑ c, (∑ r, m.J r c * s (m.out r)) * δ (m.inp c) := by
    simp only [Finset.sum_mul]
    rw [Finset.sum_comm]
    apply Finset.sum_congr rfl
    intro c _
    simp [ite_mul, Finset.sum_ite_eq, Finset.sum_mul]
  rw [L, R]
  simp only [Finset.mul_sum, Finset.sum_mul]
  rw [Finset.sum_comm]
  apply Finset.sum_congr rfl; intro c _
  apply Finset.sum_congr rfl; intro r _
  ring

noncomputable def Fwd : List (PMod ι) → (ι → ℝ) → (ι → ℝ)
  | [], δ => δ
  | m :: ms, δ => Fwd ms (fwd m δ)

noncomputable def Bwd : List (PMod ι) → (ι → ℝ) → (ι → ℝ)
  | [], s => s
  | m :: ms, s => bwd m (Bwd ms s)

/-- outputs of distinct modules in the list are disjoint -/
def DisjointOuts : List (PMod ι) → Prop
  | [] => True
  | m :: ms => (∀ m' ∈ ms, ∀ r r', m.out r ≠ m'.out r') ∧ DisjointOuts ms

theorem fwd_vanish (m : PMod ι) (δ : ι → ℝ) (k : ι) (hk : ¬ ∃ r, m.out r = k) (hδ : δ k = 0) :
    fwd m δ k = 0 := by
  unfold fwd
  rw [if_neg hk, hδ, zero_add]
  apply Finset.sum_eq_zero
  intro r _
  rw [if_neg]
  intro h; exact hk ⟨r, h⟩

theorem reverse_sweep (ms : List (PMod ι)) (s δ : ι → ℝ)
    (hd : DisjointOuts ms) (hδ : ∀ m ∈ ms, ∀ r, δ (m.out r) = 0) :
    pair s (Fwd ms δ) = pair (Bwd ms s) δ := by
  induction ms generalizing δ with
  | nil => rfl
  | cons m ms ih =>
    simp only [Fwd, Bwd]
    have hδ' : ∀ m' ∈ ms, ∀ r, fwd m δ (m'.out r) = 0 := by
      intro m' hm' r'
      apply fwd_vanish
      · rintro ⟨r, hr⟩
        exact hd.1 m' hm' r r' hr
      · exact hδ m' (List.mem_cons_of_mem _ hm') r'
    rw [ih (fwd m δ) hd.2 hδ']
    exact one_step m (Bwd ms s) δ (hδ m List.mem_cons_self)
end PymotoRS
