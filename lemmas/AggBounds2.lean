import Mathlib.Analysis.SpecialFunctions.Log.Basic
import Mathlib.Analysis.SpecialFunctions.Pow.Real
import Mathlib.Algebra.BigOperators.Group.Finset.Basic
import Mathlib.Algebra.Order.BigOperators.Group.Finset
import Mathlib.Algebra.Order.Chebyshev
import Mathlib.Tactic

open Finset BigOperators
namespace PymotoAgg2

/-! ## 1. KS with negative parameter (approximates the minimum) -/

theorem ks_neg_upper {n : ℕ} (x : Fin (n+1) → ℝ) (ρ m : ℝ) (hρ : ρ < 0) (i0 : Fin (n+1))
    (h0 : x i0 = m) :
    (1/ρ) * Real.log (∑ i, Real.exp (ρ * x i)) ≤ m := by
  have hs : Real.exp (ρ * m) ≤ ∑ i, Real.exp (ρ * x i) := by
    have := Finset.single_le_sum (f := fun i => Real.exp (ρ * x i)) (s := Finset.univ)
      (fun i _ => (Real.exp_pos _).le) (Finset.mem_univ i0)
    simpa [h0] using this
  have hl : ρ * m ≤ Real.log (∑ i, Real.exp (ρ * x i)) := by
    have := Real.log_le_log (Real.exp_pos (ρ * m)) hs
    simpa using this
  rw [one_div, inv_mul_eq_div, div_le_iff_of_neg hρ]
  linarith

theorem ks_neg_lower {n : ℕ} (x : Fin (n+1) → ℝ) (ρ m : ℝ) (hρ : ρ < 0) (hm : ∀ i, m ≤ x i) :
    m + Real.log (n+1) / ρ ≤ (1/ρ) * Real.log (∑ i, Real.exp (ρ * x i)) := by
  have hs : ∑ i, Real.exp (ρ * x i) ≤ (n+1) * Real.exp (ρ * m) := by
    have : ∀ i ∈ (Finset.univ : Finset (Fin (n+1))), Real.exp (ρ * x i) ≤ Real.exp (ρ * m) := by
      intro i _
      exact Real.exp_le_exp.mpr (mul_le_mul_of_nonpos_left (hm i) hρ.le)
    have := Finset.sum_le_card_nsmul _ _ _ this
    simpa using this
  have hpos : 0 < ∑ i, Real.exp (ρ * x i) :=
    Finset.sum_pos (fun i _ => Real.exp_pos _) Finset.univ_nonempty
  have hl : Real.log (∑ i, Real.exp (ρ * x i)) ≤ Real.log (n+1) + ρ * m := by
    have h1 := Real.log_le_log hpos hs
    have hn : (0:ℝ) < n + 1 := by positivity
    rw [Real.log_mul hn.ne' (Real.exp_pos _).ne', Real.log_exp] at h1
    exact h1
  rw [one_div, inv_mul_eq_div, le_div_iff_of_neg hρ]
  have hne : ρ ≠ 0 := hρ.ne
  have : (m + Real.log (↑n + 1) / ρ) * ρ = m * ρ + Real.log (↑n + 1) := by
    field_simp
  rw [this]; linarith

/-! ## 2. P-norm, positive data, p > 0 (approximates the maximum) -/

theorem pnorm_lower {n : ℕ} (x : Fin (n+1) → ℝ) (p M : ℝ) (hp : 0 < p) (hx : ∀ i, 0 < x i)
    (i0 : Fin (n+1)) (h0 : x i0 = M) :
    M ≤ (∑ i, (x i) ^ p) ^ (1/p) := by
  have hMpos : 0 < M := h0 ▸ hx i0
  have hs : M ^ p ≤ ∑ i, (x i) ^ p := by
    have := Finset.single_le_sum (f := fun i => (x i) ^ p) (s := Finset.univ)
      (fun i _ => (Real.rpow_pos_of_pos (hx i) p).le) (Finset.mem_univ i0)
    simpa [h0] using this
  have h1 : (M ^ p) ^ (1/p) ≤ (∑ i, (x i) ^ p) ^ (1/p) :=
    Real.rpow_le_rpow (Real.rpow_nonneg hMpos.le p) hs (by positivity)
  rw [one_div] at h1 ⊢
  rwa [Real.rpow_rpow_inv hMpos.le hp.ne'] at h1

theorem pnorm_upper {n : ℕ} (x : Fin (n+1) → ℝ) (p M : ℝ) (hp : 0 < p) (hx : ∀ i, 0 < x i)
    (hM : ∀ i, x i ≤ M) :
    (∑ i, (x i) ^ p) ^ (1/p) ≤ ((n+1 : ℝ)) ^ (1/p) * M := by
  have hMpos : 0 < M := lt_of_lt_of_le (hx 0) (hM 0)
  have hn : (0:ℝ) ≤ n + 1 := by positivity
  have hs : ∑ i, (x i) ^ p ≤ (n+1) * M ^ p := by
    have : ∀ i ∈ (Finset.univ : Finset (Fin (n+1))), (x i) ^ p ≤ M ^ p := by
      intro i _
      exact Real.rpow_le_rpow (hx i).le (hM i) hp.le
    have := Finset.sum_le_card_nsmul _ _ _ this
    simpa using this
  have hnn : 0 ≤ ∑ i, (x i) ^ p :=
    Finset.sum_nonneg (fun i _ => (Real.rpow_pos_of_pos (hx i) p).le)
  have h1 : (∑ i, (x i) ^ p) ^ (1/p) ≤ ((n+1 : ℝ) * M ^ p) ^ (1/p) :=
    Real.rpow_le_rpow hnn hs (by positivity)
  rw [one_div] at h1 ⊢
  rwa [Real.mul_rpow hn (Real.rpow_nonneg hMpos.le p),
    Real.rpow_rpow_inv hMpos.le hp.ne'] at h1

theorem pnorm_abs_lower {n : ℕ} (x : Fin (n+1) → ℝ) (p M : ℝ) (hp : 0 < p) (hx : ∀ i, 0 < x i)
    (i0 : Fin (n+1)) (h0 : x i0 = M) :
    M ≤ (∑ i, |x i| ^ p) ^ (1/p) := by
  have : ∀ i, |x i| = x i := fun i => abs_of_pos (hx i)
  simp only [this]
  exact pnorm_lower x p M hp hx i0 h0

theorem pnorm_abs_upper {n : ℕ} (x : Fin (n+1) → ℝ) (p M : ℝ) (hp : 0 < p) (hx : ∀ i, 0 < x i)
    (hM : ∀ i, x i ≤ M) :
    (∑ i, |x i| ^ p) ^ (1/p) ≤ ((n+1 : ℝ)) ^ (1/p) * M := by
  have : ∀ i, |x i| = x i := fun i => abs_of_pos (hx i)
  simp only [this]
  exact pnorm_upper x p M hp hx hM

/-! ## 3. P-norm, positive data, p < 0 (approximates the minimum) -/

theorem pnorm_neg_upper {n : ℕ} (x : Fin (n+1) → ℝ) (p m : ℝ) (hp : p < 0) (hx : ∀ i, 0 < x i)
    (i0 : Fin (n+1)) (h0 : x i0 = m) :
    (∑ i, (x i) ^ p) ^ (1/p) ≤ m := by
  have hmpos : 0 < m := h0 ▸ hx i0
  have hs : m ^ p ≤ ∑ i, (x i) ^ p := by
    have := Finset.single_le_sum (f := fun i => (x i) ^ p) (s := Finset.univ)
      (fun i _ => (Real.rpow_pos_of_pos (hx i) p).le) (Finset.mem_univ i0)
    simpa [h0] using this
  have hp' : 1/p ≤ 0 := by
    rw [one_div]; exact (inv_lt_zero.mpr hp).le
  have h1 : (∑ i, (x i) ^ p) ^ (1/p) ≤ (m ^ p) ^ (1/p) :=
    Real.rpow_le_rpow_of_nonpos (Real.rpow_pos_of_pos hmpos p) hs hp'
  rw [one_div] at h1 ⊢
  rwa [Real.rpow_rpow_inv hmpos.le hp.ne] at h1

theorem pnorm_neg_lower {n : ℕ} (x : Fin (n+1) → ℝ) (p m : ℝ) (hp : p < 0) (hx : ∀ i, 0 < x i)
    (hm : ∀ i, m ≤ x i) :
    ((n+1 : ℝ)) ^ (1/p) * m ≤ (∑ i, (x i) ^ p) ^ (1/p) := by
  have hn : (0:ℝ) ≤ n + 1 := by positivity
  have hpos : 0 < ∑ i, (x i) ^ p :=
    Finset.sum_pos (fun i _ => Real.rpow_pos_of_pos (hx i) p) Finset.univ_nonempty
  rcases le_or_gt m 0 with hm0 | hmpos
  · -- degenerate case: the lower bound `m` is not positive, so the left side is ≤ 0
    have h1 : ((n+1 : ℝ)) ^ (1/p) * m ≤ 0 :=
      mul_nonpos_of_nonneg_of_nonpos (Real.rpow_nonneg hn _) hm0
    exact h1.trans (Real.rpow_nonneg hpos.le _)
  have hs : ∑ i, (x i) ^ p ≤ (n+1) * m ^ p := by
    have : ∀ i ∈ (Finset.univ : Finset (Fin (n+1))), (x i) ^ p ≤ m ^ p := by
      intro i _
      exact Real.rpow_le_rpow_of_nonpos hmpos (hm i) hp.le
    have := Finset.sum_le_card_nsmul _ _ _ this
    simpa using this
  have hp' : 1/p ≤ 0 := by
    rw [one_div]; exact (inv_lt_zero.mpr hp).le
  have h1 : ((n+1 : ℝ) * m ^ p) ^ (1/p) ≤ (∑ i, (x i) ^ p) ^ (1/p) :=
    Real.rpow_le_rpow_of_nonpos hpos hs hp'
  rw [one_div] at h1 ⊢
  rwa [Real.mul_rpow hn (Real.rpow_nonneg hmpos.le p),
    Real.rpow_rpow_inv hmpos.le hp.ne] at h1

theorem pnorm_abs_neg_upper {n : ℕ} (x : Fin (n+1) → ℝ) (p m : ℝ) (hp : p < 0)
    (hx : ∀ i, 0 < x i) (i0 : Fin (n+1)) (h0 : x i0 = m) :
    (∑ i, |x i| ^ p) ^ (1/p) ≤ m := by
  have : ∀ i, |x i| = x i := fun i => abs_of_pos (hx i)
  simp only [this]
  exact pnorm_neg_upper x p m hp hx i0 h0

theorem pnorm_abs_neg_lower {n : ℕ} (x : Fin (n+1) → ℝ) (p m : ℝ) (hp : p < 0)
    (hx : ∀ i, 0 < x i) (hm : ∀ i, m ≤ x i) :
    ((n+1 : ℝ)) ^ (1/p) * m ≤ (∑ i, |x i| ^ p) ^ (1/p) := by
  have : ∀ i, |x i| = x i := fun i => abs_of_pos (hx i)
  simp only [this]
  exact pnorm_neg_lower x p m hp hx hm

/-! ## 4. Soft max/min is a convex combination -/

theorem softmax_le_max {n : ℕ} (x : Fin (n+1) → ℝ) (α M : ℝ) (hM : ∀ i, x i ≤ M) :
    (∑ i, x i * Real.exp (α * x i)) / (∑ i, Real.exp (α * x i)) ≤ M := by
  have hpos : 0 < ∑ i, Real.exp (α * x i) :=
    Finset.sum_pos (fun i _ => Real.exp_pos _) Finset.univ_nonempty
  rw [div_le_iff₀ hpos, Finset.mul_sum]
  exact Finset.sum_le_sum (fun i _ => mul_le_mul_of_nonneg_right (hM i) (Real.exp_pos _).le)

theorem softmax_ge_min {n : ℕ} (x : Fin (n+1) → ℝ) (α m : ℝ) (hm : ∀ i, m ≤ x i) :
    m ≤ (∑ i, x i * Real.exp (α * x i)) / (∑ i, Real.exp (α * x i)) := by
  have hpos : 0 < ∑ i, Real.exp (α * x i) :=
    Finset.sum_pos (fun i _ => Real.exp_pos _) Finset.univ_nonempty
  rw [le_div_iff₀ hpos, Finset.mul_sum]
  exact Finset.sum_le_sum (fun i _ => mul_le_mul_of_nonneg_right (hm i) (Real.exp_pos _).le)

/-! ## 5. Soft max/min versus the arithmetic mean (Chebyshev sum inequality) -/

theorem softmax_ge_mean_pos {n : ℕ} (x : Fin (n+1) → ℝ) (α : ℝ) (hα : 0 < α) :
    (∑ i, x i) / (n+1) ≤ (∑ i, x i * Real.exp (α * x i)) / (∑ i, Real.exp (α * x i)) := by
  have hpos : 0 < ∑ i, Real.exp (α * x i) :=
    Finset.sum_pos (fun i _ => Real.exp_pos _) Finset.univ_nonempty
  have hn : (0:ℝ) < n + 1 := by positivity
  have hmono : Monovary x (fun i => Real.exp (α * x i)) := by
    intro i j hij
    have h := Real.exp_lt_exp.mp hij
    exact (lt_of_mul_lt_mul_left h hα.le).le
  have hc := hmono.sum_mul_sum_le_card_mul_sum
  simp only [Fintype.card_fin, Nat.cast_add, Nat.cast_one] at hc
  rw [div_le_div_iff₀ hn hpos]
  linarith

theorem softmax_le_mean_neg {n : ℕ} (x : Fin (n+1) → ℝ) (α : ℝ) (hα : α < 0) :
    (∑ i, x i * Real.exp (α * x i)) / (∑ i, Real.exp (α * x i)) ≤ (∑ i, x i) / (n+1) := by
  have hpos : 0 < ∑ i, Real.exp (α * x i) :=
    Finset.sum_pos (fun i _ => Real.exp_pos _) Finset.univ_nonempty
  have hn : (0:ℝ) < n + 1 := by positivity
  have hanti : Antivary x (fun i => Real.exp (α * x i)) := by
    intro i j hij
    have h := Real.exp_lt_exp.mp hij
    exact (lt_of_mul_lt_mul_of_nonpos_left h hα.le).le
  have hc := hanti.card_mul_sum_le_sum_mul_sum
  simp only [Fintype.card_fin, Nat.cast_add, Nat.cast_one] at hc
  rw [div_le_div_iff₀ hpos hn]
  linarith

end PymotoAgg2
