"""C14 - overhang filter (pymoto/modules/filter.py: OverhangFilter._prepare, set_parameters, _response).

Direction parsing is decided completely (all admissible strings, symbolic axis vectors).  The layer sweep is executed from the real source on
enumerated small grids with SYMBOLIC densities and parameters (grid sizes are a stated bound; contents, p, xi_0, eps are unbounded): every
element is compared with Langelaar's layer formula built independently, the overshoot bound is proved in nonlinear real arithmetic, and
mirror / axis-swap equivariance is proved by running the real code twice.
"""
import itertools
import z3
from pvc import values as V
from pvc.values import CArr, LArr, Obj, PyExc
from pvc.arrays import to_carr
from pvc.runner import harness
from .C18 import mk_signal

P = 'C14'
F = 'pymoto.modules.filter:OverhangFilter'
DOM = 'pymoto.common.domain:DomainDefinition'


def mk_filter(ctx, it, size, direction, nsampling=None, symbolic_params=True):
    dom = it.call(it.get_function(DOM), list(size))
    mod = it.new_object(it.get_function(F), sig_in=[], sig_out=[])
    if symbolic_params:
        xi0, p, eps = ctx.sym('xi_0', 'real'), ctx.sym('p', 'real'), ctx.sym('eps', 'real')
        ctx.assume(z3.And(xi0 > 0, xi0 < 1, p > 1, eps >= 0))
        it.call(it.getattr(mod, '_prepare'), [dom, direction, xi0, p, eps, nsampling])
    else:
        it.call(it.getattr(mod, '_prepare'), [dom, direction], {'nsampling': nsampling} if nsampling else {})
    return dom, mod


AXES = {'x': 0, 'y': 1, 'z': 2}


def string_cases(dim):
    for ax in 'xyz'[:dim]:
        for form, sign in ((ax, 1), ('+' + ax, 1), (ax + '+', 1), ('-' + ax, -1), (ax + '-', -1)):
            yield form, ax, sign
            yield form.upper(), ax, sign


for _dim in (2, 3):
    @harness(P, f'_prepare.direction_strings[dim={_dim}]', targets=[f'{F}._prepare'])
    def h_dir_str(ctx, it, dim=_dim):
        """every admissible string ('x', '+x', 'x+', '-x', 'x-', upper case, for each axis of the domain) gives the signed unit vector"""
        size = (3, 2, 0) if dim == 2 else (2, 2, 2)
        for form, ax, sign in string_cases(dim):
            dom, mod = mk_filter(ctx, it, size, form, symbolic_params=False)
            d = it.getattr(mod, 'direction')
            want = [0, 0, 0]
            want[AXES[ax]] = sign
            ctx.prove(f'direction[{form}]', tuple(d.shape) == (3,) and all(V.cmp('==', d.data[k], want[k]) is True for k in range(3)))
        for bad in ('xy', '', 'w', '+'):
            try:
                mk_filter(ctx, it, size, bad, symbolic_params=False)
                ctx.prove(f'invalid_string_rejected[{bad}]', False)
            except PyExc as e:
                ctx.prove(f'invalid_string_rejected[{bad}]', e.cls == 'ValueError')

    @harness(P, f'_prepare.direction_vectors[dim={_dim}]', targets=[f'{F}._prepare'])
    def h_dir_vec(ctx, it, dim=_dim):
        """a vector with exactly one non-zero component (any magnitude, either sign; 2- or 3-vector in 2D) gives the signed unit vector;
        default nsampling is 3 (2D) / 5 (3D)"""
        size = (3, 2, 0) if dim == 2 else (2, 2, 2)
        mag = ctx.sym('mag', 'real')
        ctx.assume(mag != 0)
        for ax in range(dim):
            for ln in ({2, 3} if dim == 2 else {3}):
                vec = [0] * ln
                vec[ax] = mag
                dom, mod = mk_filter(ctx, it, size, tuple(vec), symbolic_params=False)
                d = it.getattr(mod, 'direction')
                sgn = z3.If(mag > 0, 1, -1)
                ctx.prove(f'direction[axis={ax},len={ln}]', z3.And(*[V.zreal(d.data[k]) == (sgn if k == ax else 0) for k in range(3)]))
                ctx.prove(f'nsampling_default[axis={ax},len={ln}]', it.getattr(mod, 'nsampling') == (3 if dim == 2 else 5))


def sqrt_axioms(term):
    """defining facts of the sqrt ghost for every sqrt application inside a (substituted) term: t >= 0 => sqrt(t) >= 0 and sqrt(t)^2 = t"""
    out, seen, todo = [], set(), [term]
    while todo:
        t = todo.pop()
        if t.get_id() in seen:
            continue
        seen.add(t.get_id())
        if z3.is_app(t):
            if t.decl().name() == 'sqrt' and t.num_args() == 1:
                a = t.arg(0)
                out.append(z3.Implies(a >= 0, z3.And(t >= 0, t * t == a)))
            todo.extend(t.children())
    return out


def offsets(ns):
    return [[-1, 0], [0, 0], [1, 0], [0, -1], [0, 1], [-1, -1], [-1, 1], [1, -1], [1, 1]][:ns]


def spec_filter(x_of, size, axis, sgn, ns, p, q, shift, backshift, eps):
    """Langelaar's scheme, written independently: returns dict element index (i,j,k) -> printed density term"""
    nl = size[axis]
    o1, o2 = (axis + 1) % 3, (axis + 2) % 3
    if o1 == 2 and size[2] == 1 and False:
        pass
    y = {}
    layers = range(nl) if sgn > 0 else range(nl - 1, -1, -1)
    prev = None
    for l in layers:
        for a in range(size[o1]):
            for b in range(size[o2]):
                e = [0, 0, 0]
                e[axis], e[o1], e[o2] = l, a, b
                e = tuple(e)
                if prev is None:
                    y[e] = x_of(e)
                    continue
                acc = 0
                for da, db in offs_for(size, axis, ns):
                    aa, bb = a + da, b + db
                    if 0 <= aa < size[o1] and 0 <= bb < size[o2]:
                        s = [0, 0, 0]
                        s[axis], s[o1], s[o2] = prev, aa, bb
                        acc = V.add(acc, V.pw(V.add(y[tuple(s)], shift), p))
                smax = V.sub(V.pw(acc, V.div(1, q)), backshift)
                r1 = V.sub(x_of(e), smax)
                y[e] = V.div(V.add(V.sub(V.add(x_of(e), smax), V.sqrt(V.add(V.mul(r1, r1), eps))), V.sqrt(eps)), 2)
                y[('smax',) + e] = smax
        prev = l
    return y


def offs_for(size, axis, ns):
    """support offsets (d_orth1, d_orth2) with the 2D convention that the in-plane orthogonal axis comes first"""
    o1, o2 = (axis + 1) % 3, (axis + 2) % 3
    swap = (o1 == 2 and size[2] == 1)
    out = []
    for d in offsets(ns):
        out.append((d[1], d[0]) if swap else (d[0], d[1]))
    return out


GRIDS = [((3, 3, 0), 3), ((2, 4, 0), 3), ((1, 3, 0), 3), ((3, 1, 0), 3), ((2, 2, 3), 5), ((2, 3, 2), 9), ((3, 2, 2), 5)]


def run_filter(ctx, it, size, axis, sgn, ns, tag=''):
    vec = [0, 0, 0]
    vec[axis] = sgn
    dom, mod = mk_filter(ctx, it, size, tuple(vec), ns)
    nel = size[0] * size[1] * max(size[2], 1)
    xs = [ctx.sym(f'x{tag}_{e}', 'real') for e in range(nel)]
    for v in xs:
        ctx.assume(z3.And(v >= 0, v <= 1))
    x = CArr(to_carr(xs).data, 'real')
    ctx.safety_on = False
    y = it.call(it.getattr(mod, '_response'), [x])
    return dom, mod, xs, x, y


for (_size, _ns) in GRIDS:
    _dim = 2 if _size[2] == 0 else 3
    for _axis in range(_dim):
        for _sgn in (1, -1):
            @harness(P, f'_response.layers[{_size[0]}x{_size[1]}x{_size[2]},axis={_axis},sign={_sgn},ns={_ns}]', targets=[f'{F}._response', f'{F}.set_parameters', f'{F}._prepare'],
                     timeout=60000)
            def h_layers(ctx, it, size=_size, ns=_ns, axis=_axis, sgn=_sgn):
                """base layer unchanged; every other element equals smin_eps(x_e, smax_{P,Q}(printed supports in the previous layer)) with the
                in-domain 3/5/9 support set w.r.t. the requested direction; y_e <= x_e + sqrt(eps)/2 and y_e <= smax_e + sqrt(eps)/2; smax is
                stored for every non-base element; the input is not modified"""
                dom, mod, xs, x, y = run_filter(ctx, it, size, axis, sgn, ns)
                sz = (size[0], size[1], max(size[2], 1))
                g = it.getattr
                p, q, shift, backshift, eps = (g(mod, k) for k in ('p', 'q', 'shift', 'backshift', 'eps'))
                xi0 = g(mod, 'xi_0')
                # the parameters in effect are the caller's (xi_0, p, eps >= 0 incl. the documented boundary value eps = 0: exact minimum)
                ctx.prove('param.as_given', z3.And(V.zbool(V.cmp('==', p, ctx.sym('p', 'real'))), V.zbool(V.cmp('==', eps, ctx.sym('eps', 'real'))),
                                                   V.zbool(V.cmp('==', xi0, ctx.sym('xi_0', 'real')))))
                # parameters of the paper
                ctx.prove('param.q', V.cmp('==', q, V.add(p, V.div(V.log(ns), V.log(xi0)))))
                ctx.prove('param.backshift', V.cmp('==', backshift, V.mul(V.mul(V.pw(ns, V.div(1, q)), V.pw(shift, V.div(p, q))), V.div(95, 100))))
                en = lambda e: e[0] + sz[0] * (e[1] + sz[1] * e[2])
                spec = spec_filter(lambda e: xs[en(e)], sz, axis, sgn, ns, p, q, shift, backshift, eps)
                base_l = 0 if sgn > 0 else sz[axis] - 1
                ctx.prove('output_shape', tuple(y.shape) == (len(xs),) and y is not x)
                smax_arr = g(mod, 'smax')
                se = V.sqrt(eps)
                for e in itertools.product(range(sz[0]), range(sz[1]), range(sz[2])):
                    k = en(e)
                    if e[axis] == base_l:
                        ctx.prove(f'base_layer{e}', V.cmp('==', y.data[k], xs[k]))
                    else:
                        ctx.prove(f'layer_formula{e}', V.cmp('==', y.data[k], spec[e]))
                        ctx.prove(f'smax_stored{e}', V.cmp('==', smax_arr.data[k], spec[('smax',) + e]))
                        # the overshoot bounds hold for ANY value m of the smooth maximum: abstract the (deeply nested) smax term that the
                        # code stored by a fresh variable inside the code's own output term
                        m = ctx.fresh('m', 'real')
                        yk = z3.substitute(V.zreal(y.data[k]), (V.zreal(smax_arr.data[k]), m))
                        ctx.prove(f'bound_abstraction_applies{e}', z3.BoolVal(m.sexpr() in yk.sexpr()))
                        local = sqrt_axioms(yk) + sqrt_axioms(V.zreal(se)) + [V.zreal(eps) >= 0]
                        ctx.prove_isolated(f'bound_x{e}', yk <= V.zreal(xs[k]) + V.zreal(se) / 2, local)
                        ctx.prove_isolated(f'bound_support{e}', yk <= m + V.zreal(se) / 2, local)
                    ctx.prove(f'input_unchanged{e}', x.data[k] is xs[k])


def mirror_map(sz, kind, a, b=None):
    """index maps for the symmetries: mirror along axis a, or swap of axes a and b"""
    if kind == 'mirror':
        return lambda e: tuple(sz[a] - 1 - e[t] if t == a else e[t] for t in range(3))
    return lambda e: tuple(e[b] if t == a else (e[a] if t == b else e[t]) for t in range(3))


for (_size, _ns) in [((3, 3, 0), 3), ((2, 3, 0), 3), ((2, 2, 3), 5), ((2, 3, 2), 9)]:
    _dim = 2 if _size[2] == 0 else 3
    for _axis in range(_dim):
        @harness(P, f'_response.equivariance[{_size[0]}x{_size[1]}x{_size[2]},axis={_axis},ns={_ns}]', targets=[f'{F}._response', f'{F}._prepare'], timeout=60000)
        def h_equiv(ctx, it, size=_size, ns=_ns, axis=_axis):
            """filtering the design mirrored along the print axis in the opposite direction gives the mirrored result; mirroring along an
            orthogonal axis (same direction) gives the mirrored result; swapping two axes of equal extent maps the direction accordingly"""
            sz = (size[0], size[1], max(size[2], 1))
            dim = 2 if size[2] == 0 else 3
            en = lambda e: e[0] + sz[0] * (e[1] + sz[1] * e[2])
            dom, mod, xs, x, y = run_filter(ctx, it, size, axis, 1, ns, 'a')
            cells = list(itertools.product(range(sz[0]), range(sz[1]), range(sz[2])))

            def rerun(mp, axis2, sgn2, size2, tag):
                # the mapped design: x2[mp(e)] = x[e]
                vec = [0, 0, 0]
                vec[axis2] = sgn2
                dom2, mod2 = mk_filter(ctx, it, size2, tuple(vec), ns)
                sz2 = (size2[0], size2[1], max(size2[2], 1))
                en2 = lambda e: e[0] + sz2[0] * (e[1] + sz2[1] * e[2])
                x2 = [None] * len(xs)
                for e in cells:
                    x2[en2(mp(e))] = xs[en(e)]
                y2 = it.call(it.getattr(mod2, '_response'), [CArr(to_carr(x2).data, 'real')])
                for e in cells:
                    ctx.prove(f'{tag}{e}', V.cmp('==', y2.data[en2(mp(e))], y.data[en(e)]))
            rerun(mirror_map(sz, 'mirror', axis), axis, -1, size, 'mirror_print_axis')
            for o in range(dim):
                if o != axis:
                    rerun(mirror_map(sz, 'mirror', o), axis, 1, size, f'mirror_orth{o}')
            for a, b in itertools.combinations(range(dim), 2):
                size2 = list(size)
                size2[a], size2[b] = size[b], size[a]
                ax2 = b if axis == a else (a if axis == b else axis)
                rerun(mirror_map(sz, 'swap', a, b), ax2, 1, tuple(size2), f'swap{a}{b}')
