"""C20 - result files (pymoto/common/domain.py: write_to_vti; pymoto/modules/io.py: WriteToVTI, ScalarToFile).

Token level: a file is the sequence of text tokens written to it; f-strings with symbolic holes are token lists; base64/struct/number
formatting are opaque library contracts (the byte-level round trip is the bounded stand-in native/C20.py); astype(float32) is an
uninterpreted rounding function f32.
"""
import z3
from pvc import values as V
from pvc.values import CArr, LArr, Obj, PyExc
from pvc.interp import FStr
from pvc.arrays import to_carr
from pvc.runner import harness
from .C18 import arr, mk_signal

P = 'C20'
DOM = 'pymoto.common.domain:DomainDefinition'
IO = 'pymoto.modules.io'


def flat_tokens(writes):
    out = []
    for w in writes:
        if isinstance(w, FStr):
            out.extend(w.parts)
        else:
            out.append(w)
    return out


def text_of(tokens):
    """concatenate str tokens; symbolic holes become {k} placeholders collected in a list"""
    txt, holes = '', []
    for t in tokens:
        if isinstance(t, str):
            txt += t
        elif isinstance(t, tuple) and t[0] == 'val':
            txt += '{%d}' % len(holes)
            holes.append(t[1])
        else:
            txt += '{%d}' % len(holes)
            holes.append(t)
    return txt, holes


def abstract_domain(ctx, it, dim):
    nel, nnodes = ctx.sym('nel'), ctx.sym('nnodes')
    nx, ny, nz = ctx.sym('nelx'), ctx.sym('nely'), ctx.sym('nelz')
    ctx.assume(z3.And(nel >= 1, nnodes >= 2, nx >= 1, ny >= 1, nz >= (1 if dim == 3 else 0), nz <= (0 if dim == 2 else nz)))
    es = to_carr([ctx.sym('ux', 'real'), ctx.sym('uy', 'real'), ctx.sym('uz', 'real')])
    return it.new_object(it.get_function(DOM), nel=nel, nnodes=nnodes, nelx=nx, nely=ny, nelz=nz, dim=dim, element_size=es), nel, nnodes


def run_vti(ctx, it, dom, vectors, **kw):
    it.trace.clear()
    it.call(it.getattr(dom, 'write_to_vti'), [vectors], kw)
    files = [t for t in it.trace if t[0] == 'open']
    return files


for _dim in (2, 3):
    for _kind in ('cell', 'point'):
        for _k in (1, 2, 3):
            @harness(P, f'write_to_vti.vector[{_kind},k={_k},dim={_dim}]', targets=[f'{DOM}.write_to_vti'],
                     finding=None)
            def h_vti(ctx, it, dim=_dim, kind=_kind, k=_k):
                """a vector of k*nel entries is written as CellData, k*nnodes as PointData, with NumberOfComponents=k (2D point vectors with k=2
                padded to 3 components: out[3m+c] = v[2m+c], out[3m+2] = 0), the data block is the float32 image of the input, header fields
                describe the domain.  Precondition (from the property): nel and nnodes do not divide each other, AND the sharper admissibility
                nel does not divide k*nnodes (the size-based classification is ambiguous otherwise: known finding C20-classification)"""
                dom, nel, nnodes = abstract_domain(ctx, it, dim)
                base = nel if kind == 'cell' else nnodes
                n = k * base
                ctx.assume(z3.And(nel % nnodes != 0, nnodes % nel != 0))
                if kind == 'point':
                    ctx.assume((k * nnodes) % nel != 0)
                v, V0 = arr(ctx, 'v', (n,))
                scale = ctx.sym('scale', 'real')
                files = run_vti(ctx, it, dom, {'vec': v}, filename='out', scale=scale)
                ctx.prove('one_file', len(files) == 1 and files[0][1] == 'out.vti' and 'w' in files[0][2])
                toks = flat_tokens(files[0][3].fields['writes'])
                txt, holes = text_of(toks)
                sect = 'CellData' if kind == 'cell' else 'PointData'
                other = 'PointData' if kind == 'cell' else 'CellData'
                ctx.prove('classified', f'<{sect}>' in txt and f'</{sect}>' in txt and f'<{other}>' not in txt)
                pad = (kind == 'point' and k == 2 and dim == 2)
                ncomp = 3 if pad else k
                # the DataArray header
                import re
                m = re.search(r'<DataArray type="Float32" Name="vec" NumberOfComponents="(\{\d+\}|\d+)" format="binary">\n\{(\d+)\}\{(\d+)\}\n</DataArray>', txt)
                ctx.prove('data_array_tokens', m is not None)
                if m is None:
                    return
                nc = m.group(1)
                ncv = holes[int(nc[1:-1])] if nc.startswith('{') else int(nc)
                ctx.prove('ncomponents', V.cmp('==', ncv, ncomp))
                lenblock, datablock = holes[int(m.group(2))], holes[int(m.group(3))]
                ctx.prove('blocks_are_base64', isinstance(lenblock, Obj) and lenblock.tag == 'b64' and isinstance(datablock, Obj) and datablock.tag == 'b64')
                data = datablock.fields['of']
                f32 = V.Ghost.fn('f32')
                i = ctx.fresh('i')
                if pad:
                    ctx.prove('padded_size', V.cmp('==', data.shape[0], 3 * nnodes))
                    mm, c = ctx.fresh('m'), ctx.fresh('c')
                    ctx.assume(z3.And(mm >= 0, mm < nnodes, c >= 0, c < 3))
                    ctx.prove('padded_layout', V.zreal(data.at(3 * mm + c)) == z3.If(c < 2, f32(V0(2 * mm + c)), 0))
                else:
                    ctx.assume(z3.And(i >= 0, i < n))
                    ctx.prove('data_size', V.cmp('==', data.shape[0], n))
                    ctx.prove('data_is_float32_of_input', V.zreal(data.at(i)) == f32(V0(i)))
                # header: extent, origin, spacing
                hm = re.search(r'<ImageData WholeExtent="0 \{(\d+)\} 0 \{(\d+)\} 0 \{(\d+)\}" Origin="\{(\d+)\} \{(\d+)\} \{(\d+)\}" Spacing="\{(\d+)\} \{(\d+)\} \{(\d+)\}">\n<Piece Extent="0 \{(\d+)\} 0 \{(\d+)\} 0 \{(\d+)\}">', txt)
                ctx.prove('header_tokens', hm is not None)
                if hm is None:
                    return
                H = [holes[int(g)] for g in hm.groups()]
                g = it.getattr
                ctx.prove('extent', z3.And(*[V.zbool(V.cmp('==', a, b)) for a, b in zip(H[0:3] + H[9:12], [g(dom, 'nelx'), g(dom, 'nely'), g(dom, 'nelz')] * 2)]))
                es = g(dom, 'element_size')
                ctx.prove('spacing', z3.And(*[V.zbool(V.cmp('==', H[6 + a], V.mul(es.data[a], scale))) for a in range(3)]))
                ctx.prove('origin', z3.And(*[V.zbool(V.cmp('==', H[3 + a], 0)) for a in range(3)]))
                ctx.prove('well_formed_skeleton', txt.startswith('<?xml version="1.0"?>\n<VTKFile type="ImageData"') and txt.endswith('</Piece>\n</ImageData>\n</VTKFile>')
                          and txt.count('<DataArray') == 1 and txt.count('</DataArray>') == 1)
                ctx.prove('input_unchanged', V.cmp('==', v.at(i), V0(i)))


@harness(P, 'write_to_vti.classification_ambiguous', targets=[f'{DOM}.write_to_vti'], finding='C20-classification')
def h_vti_finding(ctx, it):
    """FINDING region: nel and nnodes do not divide each other but nel | k*nnodes: a k-component nodal vector is written as cell data"""
    dom, nel, nnodes = abstract_domain(ctx, it, 3)
    ctx.assume(z3.And(nel % nnodes != 0, nnodes % nel != 0, (3 * nnodes) % nel == 0))
    v, V0 = arr(ctx, 'v', (3 * nnodes,))
    files = run_vti(ctx, it, dom, {'vec': v}, filename='out.vti')
    txt, holes = text_of(flat_tokens(files[0][3].fields['writes']))
    ctx.prove('nodal_vector_is_point_data', '<PointData>' in txt and '<CellData>' not in txt)


for _kind in ('cell', 'point'):
    for _ax in (0, 1):
        @harness(P, f'write_to_vti.block_vector[{_kind},axis={_ax}]', targets=[f'{DOM}.write_to_vti'])
        def h_vti_block(ctx, it, kind=_kind, ax=_ax):
            """block vectors (nv, k*base) or (k*base, nv): one DataArray per block, array i holds row/column i"""
            dom, nel, nnodes = abstract_domain(ctx, it, 3)
            base = nel if kind == 'cell' else nnodes
            ctx.assume(z3.And(nel % nnodes != 0, nnodes % nel != 0, nnodes % nel != 0, (3 * nnodes) % nel != 0, base > 3, 2 % nnodes != 0, 2 % nel != 0, (6 * nnodes) % nel != 0))
            nv, k = 2, 3 if kind == 'point' else 1
            shape = (nv, k * base) if ax == 0 else (k * base, nv)
            v, V0 = arr(ctx, 'v', shape)
            files = run_vti(ctx, it, dom, {'blk': v}, filename='b.vti')
            txt, holes = text_of(flat_tokens(files[0][3].fields['writes']))
            import re
            ms = re.findall(r'<DataArray type="Float32" Name="blk\((\d+)\)" NumberOfComponents="(\{\d+\}|\d+)" format="binary">\n\{(\d+)\}\{(\d+)\}\n</DataArray>', txt)
            ctx.prove('one_array_per_block', len(ms) == nv and [int(m[0]) for m in ms] == list(range(nv)))
            ctx.prove('section', ('<CellData>' in txt) == (kind == 'cell') and ('<PointData>' in txt) == (kind == 'point'))
            f32 = V.Ghost.fn('f32')
            j = ctx.fresh('j')
            ctx.assume(z3.And(j >= 0, j < k * base))
            for b_, m in enumerate(ms):
                ncv = holes[int(m[1][1:-1])] if m[1].startswith('{') else int(m[1])
                ctx.prove(f'ncomponents[{b_}]', V.cmp('==', ncv, k))
                data = holes[int(m[3])].fields['of']
                want = V0(b_, j) if ax == 0 else V0(j, b_)
                ctx.prove(f'block_select[{b_}]', z3.And(V.zbool(V.cmp('==', data.shape[0], k * base)), V.zreal(data.at(j)) == f32(want)))


@harness(P, 'write_to_vti.skips_and_extension', targets=[f'{DOM}.write_to_vti'])
def h_vti_misc(ctx, it):
    """vectors that are neither cell nor point sized are skipped (no file when nothing remains); '.vti' is appended when missing"""
    dom, nel, nnodes = abstract_domain(ctx, it, 2)
    n = ctx.sym('n')
    ctx.assume(z3.And(n >= 1, n % nel != 0, n % nnodes != 0))
    v, _ = arr(ctx, 'v', (n,))
    files = run_vti(ctx, it, dom, {'odd': v}, filename='x.vti')
    ctx.prove('nothing_written', len(files) == 0)
    w, _ = arr(ctx, 'w', (nel,))
    files = run_vti(ctx, it, dom, {'odd': v, 'rho': w}, filename='dir/name')
    ctx.prove('extension_appended', len(files) == 1 and files[0][1] == 'dir/name.vti')
    txt, _ = text_of(flat_tokens(files[0][3].fields['writes']))
    ctx.prove('only_valid_vector_written', 'Name="rho"' in txt and 'Name="odd"' not in txt)


for _ow in (False, True):
    @harness(P, f'WriteToVTI._response[overwrite={_ow}]', targets=[f'{IO}:WriteToVTI._response', f'{IO}:WriteToVTI._prepare'])
    def h_writer(ctx, it, ow=_ow):
        """per call: all input states are handed to write_to_vti under their tags, file name carries the 4-digit iteration unless overwrite,
        the counter advances once per call and the CURRENT states are written (no caching between calls)"""
        calls = []
        it.summaries[f'{DOM}.write_to_vti'] = lambda itp, args, kw: calls.append((args[1], kw))
        dom = it.new_object(it.get_function(DOM))
        s1, s2 = mk_signal(it, ctx.sym('a', 'real')), mk_signal(it, ctx.sym('b', 'real'))
        it.setattr(s1, 'tag', 'rho'); it.setattr(s2, 'tag', 'u')
        scale = ctx.sym('scale', 'real')
        mod = it.new_object(it.get_function(f'{IO}:WriteToVTI'), sig_in=[s1, s2], sig_out=[])
        it.call(it.getattr(mod, '_prepare'), [dom, 'res/out.vti', ow, scale])
        states = []
        for k in range(3):
            a_k, b_k = ctx.sym(f'a{k}', 'real'), ctx.sym(f'b{k}', 'real')
            it.setattr(s1, 'state', a_k); it.setattr(s2, 'state', b_k)
            states.append((a_k, b_k))
            r = it.call(it.getattr(mod, '_response'), [a_k, b_k])
            ctx.prove(f'no_output[{k}]', r is None)
        ctx.prove('one_write_per_call', len(calls) == 3)
        for k, (data, kw) in enumerate(calls):
            ctx.prove(f'filename[{k}]', kw.get('filename') == ('res/out.vti' if ow else f'res/out.{k:04d}.vti'))
            ctx.prove(f'current_states_by_tag[{k}]', isinstance(data, dict) and list(data.keys()) == ['rho', 'u'] and data['rho'] is states[k][0] and data['u'] is states[k][1])
            ctx.prove(f'scale_passed[{k}]', kw.get('scale') is scale)
        ctx.prove('counter', it.getattr(mod, 'iter') == 3)


for _fmt, _sep, _file in (('.10e', '\t', 'log.txt'), ('.3f', ';', 'out/log.dat'), ('g', '\t', 'log.csv')):
    @harness(P, f'ScalarToFile._response[{_file}]', targets=[f'{IO}:ScalarToFile._response', f'{IO}:ScalarToFile._prepare'])
    def h_scalar(ctx, it, fmt=_fmt, sep=_sep, fname=_file):
        """header exactly once (file truncated at iteration 0, appended afterwards), one row per call, 1 + total size columns, column 0 is the
        iteration number, every value formatted with the chosen format, .csv forces a comma"""
        s1 = mk_signal(it, None); it.setattr(s1, 'tag', 'f')
        s2 = mk_signal(it, None); it.setattr(s2, 'tag', 'g')
        mod = it.new_object(it.get_function(f'{IO}:ScalarToFile'), sig_in=[s1, s2], sig_out=[])
        it.call(it.getattr(mod, '_prepare'), [fname, fmt, sep])
        want_sep = ',' if '.csv' in fname else sep
        ctx.prove('separator', it.getattr(mod, 'separator') == want_sep)
        rows = []
        for k in range(3):
            a = ctx.sym(f'a{k}', 'real')
            vec = to_carr([ctx.sym(f'g{k}_{j}', 'real') for j in range(3)])
            it.setattr(s1, 'state', a); it.setattr(s2, 'state', vec)
            it.trace.clear()
            it.call(it.getattr(mod, '_response'), [a, vec])
            opens = [t for t in it.trace if t[0] == 'open']
            writes = [t for t in it.trace if t[0] == 'write']
            modes = [o[2] for o in opens]
            all_toks = flat_tokens([w[2] for w in writes])
            txt, holes = text_of(all_toks)
            row = want_sep.join([str(k)] + ['{%d}' % j for j in range(4)]) + '\n'
            if k == 0:
                # the file is truncated at iteration 0 (first open in a 'w' mode), anything opened afterwards appends
                ctx.prove('first_call_truncates', len(opens) >= 1 and 'w' in modes[0] and all('w' not in m_ for m_ in modes[1:]) and all(o[1] == fname for o in opens))
                ctx.prove('header_then_row', txt == want_sep.join(['Iteration', 'f', 'g[0]', 'g[1]', 'g[2]']) + '\n' + row)
            else:
                ctx.prove(f'later_calls_append_only[{k}]', len(opens) >= 1 and all('w' not in m_ and 'a' in m_ for m_ in modes) and all(o[1] == fname for o in opens))
                ctx.prove(f'row_layout[{k}]', txt == row)
            vals = [a] + list(vec.data)
            fm = [t for t in all_toks if isinstance(t, tuple)]
            ctx.prove(f'row_values_and_format[{k}]', len(fm) == 4 and all(t[1] is v and t[2] == fmt for t, v in zip(fm, vals)))
        ctx.prove('counter', it.getattr(mod, 'iter') == 3)


for _layout in ('row_major', 'transposed_view'):
    @harness(P, f'ScalarToFile.matrix_columns[{_layout}]', targets=[f'{IO}:ScalarToFile._response', f'{IO}:ScalarToFile._prepare'])
    def h_scalar_matrix(ctx, it, layout=_layout):
        """a matrix-valued signal: the column headed  tag[i, j]  holds the entry [i, j] of the state in every row - for a row-major matrix and for a
        transposed view (column-major memory: numpy's iterator then runs in memory order; header names and values must come in the SAME order)"""
        import numpy as np
        s1 = mk_signal(it, None); it.setattr(s1, 'tag', 'H')
        mod = it.new_object(it.get_function(f'{IO}:ScalarToFile'), sig_in=[s1], sig_out=[])
        it.call(it.getattr(mod, '_prepare'), ['log.txt', '.4e', '\t'])
        header = None
        for k in range(2):
            base = np.array([[ctx.sym(f'h{k}_{i}{j}', 'real') for j in range(3)] for i in range(2)], dtype=object)
            M = CArr(base if layout == 'row_major' else base.T, 'real')            # shape (2,3) C-order / shape (3,2) view in column-major memory
            it.setattr(s1, 'state', M)
            it.trace.clear()
            it.call(it.getattr(mod, '_response'), [M])
            toks = flat_tokens([w[2] for w in it.trace if w[0] == 'write'])
            txt, holes = text_of(toks)
            fm = [t for t in toks if isinstance(t, tuple)]
            if k == 0:
                header = txt.split('\n')[0].split('\t')
                ctx.prove('header.columns', len(header) == 1 + M.size and header[0] == 'Iteration')
            ctx.prove(f'row{k}.one_value_per_column', len(fm) == M.size)
            if header is None or len(header) != 1 + M.size or len(fm) != M.size:
                return
            ok = True
            for col, t in zip(header[1:], fm):
                ij = tuple(int(v) for v in col[col.index('[') + 1:col.index(']')].split(','))
                ok = ok and (t[1] is M.data[ij])
            ctx.prove(f'row{k}.value_under_its_own_name', ok)
