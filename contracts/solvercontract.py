"""Functional form of the LinearSolver contract (C05/C06) shared by the history (C03) and seed-linearity (C04) contracts."""
import numpy as np
import z3
from pvc import values as V
from pvc.values import CArr, Obj, Cx, PyExc
from pvc.arrays import to_carr

SOLV = 'pymoto.solvers.solvers'
MC = 'pymoto.solvers.matrix_checks'


class FunctionalSolvers:
    """contract of LinearSolver objects (C05/C06) in functional form: update(M) factorises the entries M has at that moment;
    solve(b, x0, trans) = Solve_trans(entries of the factorised matrix, entries of b), the same function for every solver object
    (all solver classes compute op(M)^-1 b; the initial guess x0 does not change the result beyond the solver tolerance)"""
    def __init__(self, ctx, it, hermitian, is_complex, sparse):
        self.ctx, self.it = ctx, it
        self.cur = {}
        self.log = []
        it.summaries[f'{MC}:matrix_is_sparse'] = lambda itp, a, k: bool(isinstance(a[0], Obj) and a[0].tag == 'sparse')
        it.summaries[f'{MC}:matrix_is_complex'] = lambda itp, a, k: is_complex
        it.summaries[f'{MC}:matrix_is_hermitian'] = lambda itp, a, k: hermitian
        it.summaries[f'{MC}:matrix_is_symmetric'] = lambda itp, a, k: hermitian and not is_complex
        LS = it.get_function(f'{SOLV}:LinearSolver')
        it.summaries['pymoto.solvers.auto_determine:auto_determine_solver'] = lambda itp, a, k: it.new_object(LS)
        for c in ('LinearSolver', 'LDAWrapper'):
            it.summaries[f'{SOLV}:{c}.update'] = self.upd
            it.summaries[f'{SOLV}:{c}.solve'] = self.slv

    def root(self, o):
        while isinstance(o, Obj) and o.cls is not None and o.cls.name == 'LDAWrapper':
            o = self.it.getattr(o, 'solver')
        return o

    def upd(self, itp, args, kw):
        o = self.root(args[0])
        M = args[1]
        d = M.fields['dense'] if isinstance(M, Obj) else M
        self.cur[id(o)] = (tuple(d.shape), list(d.data.reshape(-1)))
        self.log.append(('update', id(o)))
        return args[0]

    def slv(self, itp, args, kw):
        o = self.root(args[0])
        b = args[1]
        trans = kw.get('trans', args[3] if len(args) > 3 else 'N')
        if id(o) not in self.cur:
            raise PyExc('RuntimeError', 'solve before update')
        shape, ents = self.cur[id(o)]
        b = b if isinstance(b, CArr) else to_carr(b)
        bents = list(b.data.reshape(-1))
        cplx = any(isinstance(v, Cx) for v in ents + bents)
        zargs = []
        for v in ents + bents:
            if cplx:
                c = V.cx(v)
                zargs += [V.zreal(c.re), V.zreal(c.im)]
            else:
                zargs.append(V.zreal(v))
        out = np.empty(b.shape, dtype=object)
        for r, idx in enumerate(np.ndindex(*b.shape)):
            base = f'Solve{trans}_{shape[0]}x{"x".join(map(str, b.shape))}_{"c" if cplx else "r"}_{r}'
            if cplx:
                fr = z3.Function(base + '_re', *([z3.RealSort()] * len(zargs)), z3.RealSort())
                fi = z3.Function(base + '_im', *([z3.RealSort()] * len(zargs)), z3.RealSort())
                out[idx] = Cx(fr(*zargs), fi(*zargs))
            else:
                out[idx] = z3.Function(base, *([z3.RealSort()] * len(zargs)), z3.RealSort())(*zargs)
        self.log.append(('solve', id(o), trans))
        return CArr(out, 'complex' if cplx else 'real')


