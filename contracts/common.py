"""Shared helpers for contract files."""
import os
import z3
from pvc import values as V
from pvc.values import CArr, LArr, Obj, Cx
from pvc.arrays import to_carr
from pvc.runner import harness

DOMAIN = 'pymoto.common.domain:DomainDefinition'


def euclid(ctx, q, d, r, tag='euclid'):
    """lemma instance (Euclid uniqueness, lemmas/int_lemmas.smt2): d > 0 and 0 <= r < d  ==>  (q*d + r) div d = q and mod = r.
    premises are proved first (LCF style), then the conclusion is assumed."""
    q, d, r = V.zint(q), V.zint(d), V.zint(r)
    ctx.prove(f'lemma.{tag}.premise', z3.And(d > 0, r >= 0, r < d), kind='lemma-premise')
    n = q * d + r
    ctx.assume(z3.And(n / d == q, n % d == r))
    ctx.lemmas_used = getattr(ctx, 'lemmas_used', []) + ['euclid_unique']


def mul_mono(ctx, a, b, c, tag='mono'):
    """0 <= a <= b-1 and c >= 0  ==>  a*c <= (b-1)*c ; (lemmas/int_lemmas.smt2: product monotonicity)"""
    a, b, c = V.zint(a), V.zint(b), V.zint(c)
    ctx.prove(f'lemma.{tag}.premise', z3.And(a >= 0, a <= b - 1, c >= 0), kind='lemma-premise')
    ctx.assume(a * c <= (b - 1) * c)
    ctx.assume(a * c >= 0)


def sym_domain(ctx, it, dim, init=True, positive_units=True, check_init=False):
    """a DomainDefinition built by running the real __init__ on symbolic sizes (dim selects the admissible size class)"""
    nelx, nely, nelz = ctx.sym('nelx'), ctx.sym('nely'), ctx.sym('nelz')
    ux, uy, uz = ctx.sym('unitx', 'real'), ctx.sym('unity', 'real'), ctx.sym('unitz', 'real')
    ctx.assume(V.cmp('>=', nelx, 1))
    if dim == 1:
        ctx.assume(V.and_(V.cmp('==', nely, 0), V.cmp('==', nelz, 0)))
    elif dim == 2:
        ctx.assume(V.and_(V.cmp('>=', nely, 1), V.cmp('==', nelz, 0)))
    else:
        ctx.assume(V.and_(V.cmp('>=', nely, 1), V.cmp('>=', nelz, 1)))
    if positive_units:
        for u in (ux, uy, uz):
            ctx.assume(V.cmp('>', u, 0))
    cls = it.get_function(DOMAIN)
    # the constructor's own safety obligations (index bounds of its scatter) are proved once, in C13.__init__.counts / __init__.conn
    old = ctx.safety_on
    ctx.safety_on = check_init
    dom = it.call(cls, [nelx, nely, nelz, ux, uy, uz])
    ctx.safety_on = old
    return dom, (nelx, nely, nelz), (ux, uy, uz)


def real_vec(ctx, name, n):
    return to_carr([ctx.sym(f'{name}{k}', 'real') for k in range(n)])


# ------------------------------------------------------------------------------------------------ replay of counter-models on the real code
def _num(v, default=None):
    """value of a z3 model entry ('3', '1/2', '1.41?') as python number"""
    from fractions import Fraction
    if v is None:
        return default
    t = str(v).rstrip('?')
    try:
        return int(t)
    except ValueError:
        try:
            return float(Fraction(t))
        except (ValueError, ZeroDivisionError):
            try:
                return float(t)
            except ValueError:
                return default


def replay_on_grid(prop, checks=None):
    """builder for harnesses whose inputs are a structured grid: the counter-model's grid size (nelx, nely, nelz; element sizes where present) is handed
    to the property's native contract (native/<prop>.py, the concrete interpretation of the same clauses), which runs on exactly that grid"""
    def build(name, model):
        sz = {k: _num(model.get(k, model.get('size:' + k))) for k in ('nelx', 'nely', 'nelz')}
        if sz['nelx'] is None:
            return None
        nx, ny, nz = int(sz['nelx']), int(sz['nely'] or 0), int(sz['nelz'] or 0)
        if nx < 1 or ny < 0 or nz < 0 or nx * max(ny, 1) * max(nz, 1) > 20000:
            return None
        return f'''# replay of a counter-model of obligation {name}
# inputs taken from the verifier's model: grid {nx} x {ny} x {nz}
import os, sys, json
sys.path.insert(0, os.environ.get('REPO_ROOT', '/repo'))
sys.path.insert(1, {os.path.dirname(os.path.dirname(os.path.abspath(__file__)))!r})
import native.{prop} as N
from native.util import Recorder
N.grids = lambda tier: iter([({nx}, {ny}, {nz})])
bad = []
for nm, fn in N.CHECKS:
    if {checks!r} and nm not in {checks!r}:
        continue
    rec = {{'name': nm, 'cases': 0, 'distinct': 0, 'failures': []}}
    fn(Recorder(rec), 'quick', 0)
    bad += [(nm, f['what'], f['input']) for f in rec['failures']]
print(json.dumps(bad[:5], default=str))
sys.exit(1 if bad else 0)
'''
    return build
