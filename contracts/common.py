"""Shared helpers for contract files."""
import z3
from pvc import values as V
from pvc.values import CArr, LArr, Obj, Cx
from pvc.arrays import to_carr
from pvc.runner import harness

DOMAIN = 'pymoto.common.domain:DomainDefinition'


def euclid(ctx, q, d, r, tag='euclid'):
    """lemma instance (Euclid uniqueness, lemmas/int_lemmas.smt2): d > 0 and 0 <= r < d  ==>  (q*d + r) div d = q and mod = r.
    premises are proved first (LCF style), then the conclusion is assumed."""
    q, d, r = V.zint(q), V.zint(d), V.zint(r)
    ctx.prove(f'lemma.{tag}.premise', z3.And(d > 0, r >= 0, r < d), kind='lemma-premise')
    n = q * d + r
    ctx.assume(z3.And(n / d == q, n % d == r))
    ctx.lemmas_used = getattr(ctx, 'lemmas_used', []) + ['euclid_unique']


def mul_mono(ctx, a, b, c, tag='mono'):
    """0 <= a <= b-1 and c >= 0  ==>  a*c <= (b-1)*c ; (lemmas/int_lemmas.smt2: product monotonicity)"""
    a, b, c = V.zint(a), V.zint(b), V.zint(c)
    ctx.prove(f'lemma.{tag}.premise', z3.And(a >= 0, a <= b - 1, c >= 0), kind='lemma-premise')
    ctx.assume(a * c <= (b - 1) * c)
    ctx.assume(a * c >= 0)


def sym_domain(ctx, it, dim, init=True, positive_units=True, check_init=False):
    """a DomainDefinition built by running the real __init__ on symbolic sizes (dim selects the admissible size class)"""
    nelx, nely, nelz = ctx.sym('nelx'), ctx.sym('nely'), ctx.sym('nelz')
    ux, uy, uz = ctx.sym('unitx', 'real'), ctx.sym('unity', 'real'), ctx.sym('unitz', 'real')
    ctx.assume(V.cmp('>=', nelx, 1))
    if dim == 1:
        ctx.assume(V.and_(V.cmp('==', nely, 0), V.cmp('==', nelz, 0)))
    elif dim == 2:
        ctx.assume(V.and_(V.cmp('>=', nely, 1), V.cmp('==', nelz, 0)))
    else:
        ctx.assume(V.and_(V.cmp('>=', nely, 1), V.cmp('>=', nelz, 1)))
    if positive_units:
        for u in (ux, uy, uz):
            ctx.assume(V.cmp('>', u, 0))
    cls = it.get_function(DOMAIN)
    # the constructor's own safety obligations (index bounds of its scatter) are proved once, in C13.__init__.counts / __init__.conn
    old = ctx.safety_on
    ctx.safety_on = check_init
    dom = it.call(cls, [nelx, nely, nelz, ux, uy, uz])
    ctx.safety_on = old
    return dom, (nelx, nely, nelz), (ux, uy, uz)


def real_vec(ctx, name, n):
    return to_carr([ctx.sym(f'{name}{k}', 'real') for k in range(n)])
