"""C04 - back-propagation is linear in the seed, accumulative, and leaves states untouched (single modules).

For every catalogue entry (contracts/modcat.py: the real module on an enumerated small instance with SYMBOLIC data) the real _response /
_sensitivity / _reset are executed several times from the same state:
  frames      _response does not modify the objects that are its input states, nor any sensitivity; _sensitivity and _reset modify no state
  two-run     a second _sensitivity call with the same seed returns the same values as the first (so Module.sensitivity, proved in C02 to
              add the returned contribution exactly once per call, adds the same contribution twice), and the seed VALUES seen by a later call are
              the ones the caller set (a module may normalise its seed idempotently, e.g. bc masking, but not accumulate into it)
  linearity   g(a w1 + b w2) = a g(w1) + b g(w2)   for symbolic seeds and scalars (identity of polynomials / rational functions / ghost terms)
Instance sizes are a stated bound; data, seeds and scalars are unbounded.  Solver-based modules: bounded stand-in (native/C04.py).
"""
import numpy as np
import z3
from pvc import values as V
from pvc.values import CArr, LArr, Obj, Cx, PyExc
from pvc.arrays import to_carr
from pvc.runner import harness
from .modcat import CASES, Sym, flat, as_list
from .C01 import run_case, seed_like, out_entries, poly_zero, re, im

P = 'C04'


def snapshot_vals(v):
    return list(flat(v)) if v is not None else None


def eq_lists(a, b):
    if a is None or b is None:
        return a is b
    if len(a) != len(b):
        return False
    out = []
    for x, y in zip(a, b):
        for p, q in ((re(x), re(y)), (im(x), im(y))):
            if not poly_zero(p - q):
                out.append(p == q)
    return z3.And(*out) if out else True


def combo(a, w1, b, w2):
    """a*w1 + b*w2 for seeds of equal structure (arrays, scalars, DyadCarrier objects are handled by the caller)"""
    if isinstance(w1, CArr):
        d = np.empty(w1.shape, dtype=object)
        for i in np.ndindex(*w1.shape):
            d[i] = V.add(V.mul(a, w1.data[i]), V.mul(b, w2.data[i]))
        return CArr(d, w1._kind)
    return V.add(V.mul(a, w1), V.mul(b, w2))


for _case in CASES:
    @harness(P, f'module.{_case.name}', targets=_case.targets, timeout=40000)
    def h_c04(ctx, it, case=_case):
        """frames of _response/_sensitivity/_reset, two-run determinism, linearity in the seed"""
        mod, inputs, extra, ys = run_case(ctx, it, case)
        if extra.get('seed') == 'dyad':
            ctx.prove('covered_by_dense_seed_variant', True)
            return
        in_sigs, out_sigs = it.getattr(mod, 'sig_in'), it.getattr(mod, 'sig_out')
        # --- response frames (run_case has executed _response once with the inputs as states)
        for k, (s, x) in enumerate(zip(in_sigs, inputs)):
            ctx.prove(f'response.input_state_object_kept[{k}]', it.getattr(s, 'state') is x.value)
            want = [Cx(r_, i_) if i_ is not None else r_ for r_, i_ in x.leaves]
            ctx.prove(f'response.input_values_untouched[{k}]', eq_lists(snapshot_vals(x.value), want))
        # a second response gives the same values (no accumulation into a retained buffer) and again leaves the inputs alone
        y2 = as_list(it.call(it.getattr(mod, '_response'), [x.value for x in inputs]), len(out_sigs))
        for k, (a, b) in enumerate(zip(ys, y2)):
            ctx.prove(f'response.repeatable[{k}]', eq_lists(snapshot_vals(a), snapshot_vals(b)))
        for s, yy in zip(out_sigs, y2):
            it.setattr(s, 'state', yy)
        # --- seeds
        W1, W2 = [], []
        for k, yy in enumerate(y2):
            w1, e1 = seed_like(ctx, it, yy, f'w{k}_')
            w2, e2 = seed_like(ctx, it, yy, f'u{k}_')
            W1.append((w1, e1)); W2.append((w2, e2))
        a, b = ctx.sym('a', 'real'), ctx.sym('b', 'real')

        def sens(seeds):
            for s, w in zip(out_sigs, seeds):
                it.setattr(s, 'sensitivity', w)
            g = as_list(it.call(it.getattr(mod, '_sensitivity'), list(seeds)), len(inputs))
            return [snapshot_vals(gk) if gk is not None else [0] * len(x.leaves) for gk, x in zip(g, inputs)], g
        states_before = [it.getattr(s, 'state') for s in in_sigs + out_sigs]
        vals_before = [snapshot_vals(v) for v in states_before]
        g1, raw1 = sens([w for w, _ in W1])
        g1b, raw1b = sens([w for w, _ in W1])
        for k in range(len(inputs)):
            ctx.prove(f'two_run.same_contribution[{k}]', eq_lists(g1[k], g1b[k]))
        for k, s in enumerate(in_sigs + out_sigs):
            ctx.prove(f'sensitivity.state_object_kept[{k}]', it.getattr(s, 'state') is states_before[k])
            ctx.prove(f'sensitivity.state_values_untouched[{k}]', eq_lists(snapshot_vals(it.getattr(s, 'state')), vals_before[k]))
        # scalar outputs may legitimately be seeded with a 0-d array (state*0 + 1.0): the module sees the stored object by reference
        if any(not isinstance(w, (CArr, Obj)) for w, _ in W1):
            def arr0(v):
                d = np.empty((), dtype=object)
                d[()] = v
                return CArr(d, 'complex' if isinstance(v, Cx) else 'real')
            seeds0 = [w if isinstance(w, (CArr, Obj)) else arr0(w) for w, _ in W1]
            h1, _ = sens(seeds0)
            h2, _ = sens(seeds0)
            for k in range(len(inputs)):
                ctx.prove(f'two_run.array_seed.same_as_scalar_seed[{k}]', eq_lists(h1[k], g1[k]))
                ctx.prove(f'two_run.array_seed.same_contribution[{k}]', eq_lists(h1[k], h2[k]))
            for k, ((w, _), w0) in enumerate(zip(W1, seeds0)):
                if w0 is not w:
                    ctx.prove(f'two_run.array_seed.seed_values_kept[{k}]', eq_lists(snapshot_vals(w0), [w]))
        it.call(it.getattr(mod, '_reset'), [])
        for k, s in enumerate(in_sigs + out_sigs):
            ctx.prove(f'reset.state_untouched[{k}]', it.getattr(s, 'state') is states_before[k] and eq_lists(snapshot_vals(it.getattr(s, 'state')), vals_before[k]) is True
                      if isinstance(eq_lists(snapshot_vals(it.getattr(s, 'state')), vals_before[k]), bool) else eq_lists(snapshot_vals(it.getattr(s, 'state')), vals_before[k]))
        g2, _ = sens([w for w, _ in W2])
        gc, _ = sens([combo(a, w1, b, w2) for (w1, _), (w2, _) in zip(W1, W2)])
        for k in range(len(inputs)):
            want = [V.add(V.mul(a, p), V.mul(b, q)) for p, q in zip(g1[k], g2[k])]
            ctx.prove(f'linear_in_seed[{k}]', eq_lists(gc[k], want))
        # the inputs still hold their values after all of this
        for k, (s, x) in enumerate(zip(in_sigs, inputs)):
            want = [Cx(r_, i_) if i_ is not None else r_ for r_, i_ in x.leaves]
            ctx.prove(f'final.input_values_untouched[{k}]', eq_lists(snapshot_vals(it.getattr(s, 'state')), want))


# ------------------------------------------------------------------------------------------------ EigenSolve (sparse, eigenvector seeds): which modes are skipped
from .solvercontract import FunctionalSolvers, SOLV   # noqa: E402
from .modcat import mk_module   # noqa: E402


@harness(P, 'EigenSolve.sparse_eigvec_sens.mode_skipped_iff_seed_column_zero', targets=['pymoto.modules.linalg:EigenSolve._sparse_eigvec_sens',
                                                                                      'pymoto.modules.linalg:EigenSolve._sensitivity'], timeout=5000)
def h_eig_skip(ctx, it):
    """linearity in the seed requires that only an all-zero seed column contributes nothing: a mode is skipped (no adjoint solve) iff its
    eigenvector seed column is entirely zero - in particular a CONSTANT non-zero column and a column with entries of both signs are solved"""
    from .C11 import sym_matrix, sparse_of, install_class, ES
    from .C03 import set_states
    n, k = 3, 2
    install_class(it, True, sparse=True)
    fs = FunctionalSolvers(ctx, it, hermitian=True, is_complex=False, sparse=True)
    solves = []
    orig = fs.slv

    def slv(itp, args, kw):
        solves.append(id(fs.root(args[0])))
        return orig(itp, args, kw)
    for c in ('LinearSolver', 'LDAWrapper'):
        it.summaries[f'{SOLV}:{c}.solve'] = slv
    mod = mk_module(it, ES, 2, 2, nmodes=k)
    ctx.assert_mode = 'assume'
    ctx.warnings_unobserved = True
    ctx.safety_on = False
    ctx.feasible_timeout_ms = 300
    DCq = 'pymoto.common.dyadcarrier:DyadCarrier.'
    it.summaries[DCq + '__init__'] = lambda itp, a, kw: None
    for nm in ('__neg__', '__iadd__', '__isub__', 'real', 'conj', '__pos__'):
        it.summaries[DCq + nm] = lambda itp, a, kw: a[0]
    # the skip logic does not depend on the matrices: a concrete pencil keeps the hypotheses (ARPACK contract) trivially satisfiable, so that a
    # violated count is reported with a model instead of staying undecided
    from fractions import Fraction
    A = CArr(np.array([[Fraction(1 if i == j else 0) * (1 + i * i) for j in range(n)] for i in range(n)], dtype=object), 'real')
    B = CArr(np.array([[Fraction(1 if i == j else 0) for j in range(n)] for i in range(n)], dtype=object), 'real')
    As, Bs = sparse_of(A), sparse_of(B)
    set_states(it, mod, [As, Bs])
    W, Q = it.call(it.getattr(mod, '_response'), [As, Bs])
    for s, v in zip(it.getattr(mod, 'sig_out'), (W, Q)):
        it.setattr(s, 'state', v)
    c = ctx.sym('c', 'real')
    ctx.assume(c != 0)
    u = [ctx.sym(f'u{r}', 'real') for r in range(n)]
    ctx.assume(z3.And(u[0] > 0, u[1] < 0))
    cases = {'constant_column': [c] * n, 'zero_column': [0] * n, 'mixed_sign_column': u, 'single_entry': [0, c, 0]}
    for tag, col in cases.items():
        d = np.empty((n, k), dtype=object)
        for r in range(n):
            d[r, 0], d[r, 1] = col[r], 0
        n0 = len(solves)
        it.call(it.getattr(mod, '_sensitivity'), [None, CArr(d, 'real')])
        want = 0 if tag == 'zero_column' else 1
        ctx.prove(f'{tag}.adjoint_solves', len(solves) - n0 == want)
        it.call(it.getattr(mod, '_reset'), [])


@harness(P, 'ComplexNorm.zero_entry.states_untouched', targets=['pymoto.modules.complex:ComplexNorm._sensitivity', 'pymoto.modules.complex:ComplexNorm._response'])
def h_cnorm_zero(ctx, it):
    """an input with an entry that is exactly zero (where the derivative of |z| does not exist): whatever sensitivity value is returned there,
    _sensitivity must not write to the input or output STATES (a guard against 0/0 must work on a copy)"""
    ctx.safety_on = False
    z = [Cx(ctx.sym(f'z{k}r', 'real'), ctx.sym(f'z{k}i', 'real')) for k in range(2)]
    ctx.assume(z3.And(z[0].re == 0, z[0].im == 0, z[1].re != 0))
    zin = CArr(np.array(z, dtype=object), 'complex')
    mod = mk_module(it, 'pymoto.modules.complex:ComplexNorm', 1, 1)
    it.setattr(it.getattr(mod, 'sig_in')[0], 'state', zin)
    y = it.call(it.getattr(mod, '_response'), [zin])
    it.setattr(it.getattr(mod, 'sig_out')[0], 'state', y)
    y0 = list(y.data)
    w = CArr(np.array([ctx.sym(f'w{k}', 'real') for k in range(2)], dtype=object), 'real')
    it.call(it.getattr(mod, '_sensitivity'), [w])
    out_now = it.getattr(it.getattr(mod, 'sig_out')[0], 'state')
    ctx.prove('output_state_object_kept', out_now is y)
    ctx.prove('output_state_values_untouched', z3.And(*[V.z(V.cmp('==', a_, b_)) for a_, b_ in zip(out_now.data, y0)]))
    ctx.prove('input_state_values_untouched', z3.And(*[z3.And(V.zreal(a_.re) == V.zreal(b_.re), V.zreal(a_.im) == V.zreal(b_.im)) for a_, b_ in zip(zin.data, z)]))


for _part in (([0], [1, 2]), ([1, 2], [0])):
    @harness(P, f'SystemOfEquations.seed_history[f={_part[0]},p={_part[1]}]', targets=['pymoto.modules.linalg:SystemOfEquations._sensitivity',
                                                                                      'pymoto.modules.linalg:SystemOfEquations._response'], timeout=30000)
    def h_soe_seeds(ctx, it, part=_part):
        """accumulation / linearity presuppose that a sensitivity call does not depend on EARLIER seeds: after response, sensitivity(seed on b only),
        reset, the call sensitivity(seed on x only) returns exactly what a twin object returns for that seed directly after its response (solver
        objects through the functional contract of C05/C06) - no adjoint buffer may survive between calls"""
        from . import C03 as H
        mods, ins = [], None
        for k in range(2):
            m_, ins, _ = H.b_soe(ctx, it, part)
            mods.append(m_)
        vals = [x.value for x in ins]
        ys = [H.do_response(it, m_, vals) for m_ in mods]
        nx = len(flat(ys[0][0]))
        wb = CArr(np.array([ctx.sym(f'wb{k}', 'real') for k in range(nx)], dtype=object), 'real')
        wx = CArr(np.array([ctx.sym(f'wx{k}', 'real') for k in range(nx)], dtype=object), 'real')
        H.do_sensitivity(it, mods[0], [None, wb], 3)
        it.call(it.getattr(mods[0], '_reset'), [])
        gH = H.do_sensitivity(it, mods[0], [wx, None], 3)
        gF = H.do_sensitivity(it, mods[1], [wx, None], 3)
        for k, (a_, b_) in enumerate(zip(gH, gF)):
            ctx.prove(f'input{k}.independent_of_earlier_seed', H.same_values(ctx, it, H.dense_entries(a_), H.dense_entries(b_)))
