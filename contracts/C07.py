"""C07 - linear-system modules satisfy their defining equations (pymoto/modules/linalg.py: Inverse, LinSolve, SystemOfEquations,
StaticCondensation).

The solver objects are used through the contract that C05 (solver classes) and C06 (LDAWrapper) establish for them:
    update(M) makes M the current matrix;  solve(b, x0, trans) returns op(M_current)^-1 b  for every initial guess x0.
LinSolve._response is executed in the matrix-algebra domain (symbolic size) for every detected class, solver override and wrapper option, also as
a two-call history with a changed matrix.  SystemOfEquations._response / StaticCondensation._response are executed at index level on every dof
partition of a small system with SYMBOLIC entries; the inner LinSolve is used through its contract by the solution parametrisation

    pick the solution x_f (resp. X) as free symbols and DEFINE the data it solves for (b_f := A_ff x_f + A_fp x_p, resp. A_fm := A_ff X);

every admissible input (A_ff non-singular) arises this way with x_f the unique solution, and the obligation `inner_system_matches` proves that
the system the code hands to the inner module is solved by exactly that x_f - so all obligations are polynomial identities without hypotheses.
"""
import itertools
import numpy as np
import z3
from pvc import values as V
from pvc import matalg as MA
from pvc.values import CArr, LArr, Obj, Cx, PyExc
from pvc.arrays import to_carr
from pvc import arrays as A_
from pvc import nplib
from pvc.runner import harness
from .modcat import Sym, flat, mk_module, as_list
from .C01 import poly_zero, re, im

P = 'C07'
L = 'pymoto.modules.linalg'
S = 'pymoto.solvers.solvers'
MC = 'pymoto.solvers.matrix_checks'


def eq_entries(a, b):
    """entry-wise equality of two flat lists of (possibly complex) terms as one formula; True when every difference normalises to zero"""
    if len(a) != len(b):
        return False
    out = []
    for x, y in zip(a, b):
        for p, q in ((re(x), re(y)), (im(x), im(y))):
            d = V.sub(p, q)
            if not poly_zero(d):
                out.append(V.z(V.cmp('==', d, 0)))
    return z3.And(*out) if out else True


def matmul(ctx, a, b):
    return A_.matmul(ctx, a, b)


# ------------------------------------------------------------------------------------------------ Inverse
for _kind in ('real', 'complex'):
    @harness(P, f'Inverse.algebra[{_kind}]', targets=[f'{L}:Inverse._response'])
    def h_inverse_alg(ctx, it, kind=_kind):
        """symbolic size: the returned matrix B satisfies A B = I and B A = I (np.linalg.inv through its contract)"""
        MA.reset()
        mod = mk_module(it, f'{L}:Inverse', 1, 1)
        Am = MA.Mat.atom('A', {'real'} if kind == 'real' else ())
        B = it.call(it.getattr(mod, '_response'), [MA.wrap(Am, kind)])
        Bm = MA.unwrap(B)
        ctx.prove('A_B_is_identity', (Am @ Bm - MA.Mat.identity()).is_zero())
        ctx.prove('B_A_is_identity', (Bm @ Am - MA.Mat.identity()).is_zero())

for _n in (1, 2, 3):
    for _kind in ('real', 'complex'):
        @harness(P, f'Inverse.entries[n={_n},{_kind}]', targets=[f'{L}:Inverse._response'], timeout=60000)
        def h_inverse_idx(ctx, it, n=_n, kind=_kind):
            """concrete size, symbolic entries (leading minors non-zero): A B = I entry by entry; the argument is not modified"""
            mod = mk_module(it, f'{L}:Inverse', 1, 1)
            Asym = Sym(ctx, 'a', (n, n), kind)
            before = list(flat(Asym.value))
            B = it.call(it.getattr(mod, '_response'), [Asym.value])
            ctx.prove('shape', isinstance(B, CArr) and B.shape == (n, n))
            eye = [1 if i == j else 0 for i in range(n) for j in range(n)]
            ctx.prove('A_B_is_identity', eq_entries(flat(matmul(ctx, Asym.value, B)), eye))
            ctx.prove('B_A_is_identity', eq_entries(flat(matmul(ctx, B, Asym.value)), eye))
            ctx.prove('argument_untouched', eq_entries(flat(Asym.value), before))


# ------------------------------------------------------------------------------------------------ LinSolve
class SolverModel:
    """contract of a LinearSolver object (C05/C06): the matrix of the last update() is the one solve() works with"""
    def __init__(self, it, cls=f'{S}:LinearSolver', tol=None):
        self.obj = it.new_object(it.get_function(cls))
        self.updates, self.solves = [], []
        if tol is not None:
            it.setattr(self.obj, 'tol', tol)


def install_solver_contract(it, models):
    by_id = {id(m.obj): m for m in models}

    def find(o):
        # an LDAWrapper delegates to its inner solver; by C06 its own contract is the same as the inner one's
        while id(o) not in by_id:
            o = it.getattr(o, 'solver')
        return by_id[id(o)]

    def upd(itp, args, kw):
        m = find(args[0])
        m.updates.append(args[1])
        m.current = args[1]
        return args[0]

    def slv(itp, args, kw):
        m = find(args[0])
        rhs = args[1]
        x0 = kw.get('x0', args[2] if len(args) > 2 else None)
        trans = kw.get('trans', args[3] if len(args) > 3 else 'N')
        cur = MA.unwrap(m.current)
        op = {'N': cur, 'T': cur.T(), 'H': cur.H()}[trans]
        m.solves.append((rhs, x0, trans))
        return MA.wrap(op.inv() @ MA.unwrap(rhs), 'complex')
    for c in ('LinearSolver', 'LDAWrapper'):
        it.summaries[f'{S}:{c}.update'] = upd
        it.summaries[f'{S}:{c}.solve'] = slv


LS_CONFIGS = []
for _sparse, _cx, _herm in itertools.product((False, True), (False, True), (False, True)):
    for _override in ('auto', 'plain', 'lda', 'plain_with_tol'):
        for _use_lda in (True, False):
            LS_CONFIGS.append((_sparse, _cx, _herm, _override, _use_lda))

for (_sparse, _cx, _herm, _override, _use_lda) in LS_CONFIGS:
    @harness(P, f'LinSolve.response[sparse={_sparse},complex={_cx},herm={_herm},solver={_override},lda={_use_lda}]',
             targets=[f'{L}:LinSolve._response', f'{L}:LinSolve._prepare'])
    def h_linsolve(ctx, it, sparse=_sparse, cx=_cx, herm=_herm, override=_override, use_lda=_use_lda):
        """x = A^-1 b for the CURRENT matrix in the first call and after a change of matrix and right-hand side on the same object; the solver is
        updated exactly once per call with the matrix of that call before it is asked to solve; the wrapper option is honoured"""
        MA.reset()
        auto = SolverModel(it)
        given = SolverModel(it, tol=V.exact(1e-7) if override == 'plain_with_tol' else None)
        install_solver_contract(it, [auto, given])
        it.summaries[f'{MC}:matrix_is_sparse'] = lambda itp, a, k: sparse
        it.summaries[f'{MC}:matrix_is_complex'] = lambda itp, a, k: cx
        it.summaries[f'{MC}:matrix_is_hermitian'] = lambda itp, a, k: herm
        it.summaries[f'{MC}:matrix_is_symmetric'] = lambda itp, a, k: herm and not cx
        it.summaries['pymoto.solvers.auto_determine:auto_determine_solver'] = lambda itp, a, k: auto.obj
        kw = {}
        if override != 'auto':
            sol = given.obj
            if override == 'lda':
                sol = it.call(it.get_function(f'{S}:LDAWrapper'), [given.obj])
            kw['solver'] = sol
        mod = mk_module(it, f'{L}:LinSolve', 2, 1, **kw)
        if not use_lda:
            it.setattr(mod, 'use_lda_solver', False)
        used = auto if override == 'auto' else given
        kind = 'complex' if cx else 'real'
        props = ({'real'} if not cx else set()) | ({'hermitian'} if herm else set())
        for call, (an, bn) in enumerate((('A1', 'b1'), ('A2', 'b2'))):
            Am, bm = MA.Mat.atom(an, props), MA.Mat.atom(bn, {'real'} if not cx else ())
            nu, ns = len(used.updates), len(used.solves)
            x = it.call(it.getattr(mod, '_response'), [MA.wrap(Am, kind), MA.wrap(bm, kind)])
            ctx.prove(f'call{call}.solves_current_system', (Am @ MA.unwrap(x) - bm).is_zero())
            ctx.prove(f'call{call}.one_update_with_current_matrix', len(used.updates) == nu + 1 and MA.unwrap(used.updates[-1]) is Am)
            ctx.prove(f'call{call}.one_solve_untransposed', len(used.solves) == ns + 1 and used.solves[-1][2] == 'N')
            ctx.prove(f'call{call}.solution_stored', it.getattr(mod, 'u') is x)
            sol = it.getattr(mod, 'solver')
            is_lda = isinstance(sol, Obj) and sol.cls is not None and sol.cls.name == 'LDAWrapper'
            ctx.prove(f'call{call}.wrapper_option', is_lda == (use_lda or override == 'lda'))
            other = given if used is auto else auto
            ctx.prove(f'call{call}.override_respected', not other.updates and not other.solves)


@harness(P, 'LinSolve.response.complex_rhs_real_sparse', targets=[f'{L}:LinSolve._response'])
def h_linsolve_typeerror(ctx, it):
    """the one documented refusal: real sparse matrix with complex right-hand side raises TypeError (nothing is solved, nothing is stored)"""
    MA.reset()
    auto = SolverModel(it)
    install_solver_contract(it, [auto])
    it.summaries[f'{MC}:matrix_is_sparse'] = lambda itp, a, k: True
    it.summaries[f'{MC}:matrix_is_complex'] = lambda itp, a, k: False
    it.summaries[f'{MC}:matrix_is_hermitian'] = lambda itp, a, k: False
    it.summaries['pymoto.solvers.auto_determine:auto_determine_solver'] = lambda itp, a, k: auto.obj
    mod = mk_module(it, f'{L}:LinSolve', 2, 1)
    try:
        it.call(it.getattr(mod, '_response'), [MA.wrap(MA.Mat.atom('A', {'real'}), 'real'), MA.wrap(MA.Mat.atom('b'), 'complex')])
        ctx.prove('raises_TypeError', False)
    except PyExc as e:
        ctx.prove('raises_TypeError', e.cls == 'TypeError')
    ctx.prove('nothing_solved', not auto.solves and it.getattr(mod, 'u') is None)


# ------------------------------------------------------------------------------------------------ partitions
def sym_matrix(ctx, name, n, kind, symmetric):
    d = np.empty((n, n), dtype=object)
    for i in range(n):
        for j in range(n):
            if symmetric and j < i:
                d[i, j] = d[j, i]
            elif kind == 'complex':
                d[i, j] = Cx(ctx.sym(f'{name}{i}{j}r', 'real'), ctx.sym(f'{name}{i}{j}i', 'real'))
            else:
                d[i, j] = ctx.sym(f'{name}{i}{j}', 'real')
    return d


def sym_block(ctx, name, shape, kind):
    d = np.empty(shape, dtype=object)
    for i in np.ndindex(*shape):
        tag = ''.join(str(k) for k in i)
        d[i] = Cx(ctx.sym(f'{name}{tag}r', 'real'), ctx.sym(f'{name}{tag}i', 'real')) if kind == 'complex' else ctx.sym(f'{name}{tag}', 'real')
    return d


def dot_rows(M, X):
    """M (r x c object array) times X (c,) or (c,k) object array"""
    if X.ndim == 1:
        out = np.empty(M.shape[0], dtype=object)
        for i in range(M.shape[0]):
            acc = 0
            for j in range(M.shape[1]):
                acc = V.add(acc, V.mul(M[i, j], X[j]))
            out[i] = acc
        return out
    out = np.empty((M.shape[0], X.shape[1]), dtype=object)
    for c in range(X.shape[1]):
        out[:, c] = dot_rows(M, X[:, c])
    return out


def add_arr(a, b):
    out = np.empty(a.shape, dtype=object)
    for i in np.ndindex(*a.shape):
        out[i] = V.add(a[i], b[i])
    return out


def partitions(n):
    """ordered (free, prescribed) index lists of {0..n-1}, both non-empty, including non-sorted orders"""
    out = []
    for r in range(1, n):
        for f in itertools.combinations(range(n), r):
            p = tuple(i for i in range(n) if i not in f)
            out.append((list(f), list(p)))
    # one unsorted instance per size
    if n >= 3:
        out.append(([2, 0], [1] + list(range(3, n))))
        out.append(([1], [2, 0] + list(range(3, n))))
    return out


def idx(a):
    return CArr(np.array(a, dtype=object), 'int')


SOE_CASES = []
for _n in (2, 3):
    for _f, _p in partitions(_n):
        for _given in ('both', 'free', 'prescribed'):
            if _given != 'both' and (sorted(_f) != _f or sorted(_p) != _p):
                continue         # the derived index set is sorted by construction
            for _kind in ('real', 'complex'):
                for _k in (None, 2):
                    if _n == 3 and _kind == 'complex' and _k == 2 and _given != 'both':
                        continue
                    SOE_CASES.append((_n, _f, _p, _given, _kind, _k))


def run_soe(ctx, it, n, f, p, given, kind, k, symmetric=True, fmt='csc'):
    Ad = sym_matrix(ctx, 'a', n, kind, symmetric)
    sh = (lambda m: (m,) if k is None else (m, k))
    xf = sym_block(ctx, 'xf', sh(len(f)), 'complex' if kind == 'complex' else 'real')
    xp = sym_block(ctx, 'xp', sh(len(p)), 'complex' if kind == 'complex' else 'real')
    Aff, Afp = Ad[np.ix_(f, f)], Ad[np.ix_(f, p)]
    bf = add_arr(dot_rows(Aff, xf), dot_rows(Afp, xp))          # parametrisation: b_f := A_ff x_f + A_fp x_p
    Asp = nplib._mk_sparse(CArr(Ad.copy(), kind), fmt)
    kw = {}
    if given in ('both', 'free'):
        kw['free'] = idx(f)
    if given in ('both', 'prescribed'):
        kw['prescribed'] = idx(p)
    mod = mk_module(it, f'{L}:SystemOfEquations', 3, 2, **kw)
    inner = []

    def linsolve_contract(itp, args, kwa):
        _self, mat, rhs = args
        md = mat.fields['dense'] if isinstance(mat, Obj) and mat.tag == 'sparse' else mat
        rhs_c = rhs if isinstance(rhs, CArr) else to_carr(rhs)
        inner.append((md, rhs_c))
        return CArr(xf.copy(), 'complex' if kind == 'complex' else 'real')
    it.summaries[f'{L}:LinSolve._response'] = linsolve_contract
    bf_v, xp_v = CArr(bf.copy(), kind), CArr(xp.copy(), kind)
    r = it.call(it.getattr(mod, '_response'), [Asp, bf_v, xp_v])
    return dict(Ad=Ad, xf=xf, xp=xp, bf=bf, inner=inner, result=r, mod=mod, Asp=Asp, bf_v=bf_v, xp_v=xp_v)


for (_n, _f, _p, _given, _kind, _k) in SOE_CASES:
    @harness(P, f'SystemOfEquations.response[n={_n},f={_f},p={_p},given={_given},{_kind},rhs={"vec" if _k is None else _k}]',
             targets=[f'{L}:SystemOfEquations._response', f'{L}:SystemOfEquations._prepare'], timeout=60000)
    def h_soe(ctx, it, n=_n, f=_f, p=_p, given=_given, kind=_kind, k=_k):
        """symmetric (complex: complex-symmetric) sparse A with symbolic entries, symbolic loads and prescribed values: A x = b on every row,
        x = x_p on prescribed dofs, b = b_f on free dofs; shapes follow the right-hand side; the arguments are not modified"""
        o = run_soe(ctx, it, n, f, p, given, kind, k)
        Ad, xf, xp, bf = o['Ad'], o['xf'], o['xp'], o['bf']
        ctx.prove('one_inner_solve', len(o['inner']) == 1)
        md, rhs = o['inner'][0]
        ctx.prove('inner_system_matches', isinstance(md, CArr) and md.shape == (len(f), len(f)) and rhs.shape == xf.shape
                  and eq_entries(flat(matmul(ctx, md, CArr(xf.copy()))), flat(rhs)))
        ctx.prove('inner_matrix_is_free_block', eq_entries(flat(md), list(Ad[np.ix_(f, f)].reshape(-1))))
        x, b = o['result']
        want_shape = (n,) if k is None else (n, k)
        ctx.prove('shapes', isinstance(x, CArr) and isinstance(b, CArr) and x.shape == want_shape and b.shape == want_shape)
        ctx.prove('x_prescribed', eq_entries(flat(A_.arr_getitem(ctx, x, idx(p))), list(xp.reshape(-1))))
        ctx.prove('x_free_is_inner_solution', eq_entries(flat(A_.arr_getitem(ctx, x, idx(f))), list(xf.reshape(-1))))
        ctx.prove('b_free_is_applied_load', eq_entries(flat(A_.arr_getitem(ctx, b, idx(f))), list(bf.reshape(-1))))
        ctx.prove('A_x_equals_b', eq_entries(list(dot_rows(Ad, x.data).reshape(-1)), flat(b)))
        ctx.prove('kind', (x.kind == 'complex') == (kind == 'complex') or all(not isinstance(v, Cx) for v in x.data.flat))
        ctx.prove('arguments_untouched', eq_entries(flat(o['Asp']), list(Ad.reshape(-1))) and eq_entries(flat(o['bf_v']), list(bf.reshape(-1)))
                  and eq_entries(flat(o['xp_v']), list(xp.reshape(-1))))


@harness(P, 'SystemOfEquations.response.nonsymmetric', targets=[f'{L}:SystemOfEquations._response'], finding='C07-soe-nonsymmetric')
def h_soe_nonsym(ctx, it):
    """general (non-symmetric) A: the reaction rows use A_fp^T instead of A_pf - recorded finding C07-soe-nonsymmetric"""
    o = run_soe(ctx, it, 2, [0], [1], 'both', 'real', None, symmetric=False)
    x, b = o['result']
    ctx.prove('A_x_equals_b', eq_entries(list(dot_rows(o['Ad'], x.data).reshape(-1)), flat(b)))


@harness(P, 'SystemOfEquations.bad_arguments', targets=[f'{L}:SystemOfEquations._response', f'{L}:SystemOfEquations._prepare'])
def h_soe_bad(ctx, it):
    """neither index set given, or sizes that do not add up: refused by an assertion instead of a wrong answer"""
    try:
        mk_module(it, f'{L}:SystemOfEquations', 3, 2)
        ctx.prove('no_index_set_refused', False)
    except PyExc as e:
        ctx.prove('no_index_set_refused', e.cls == 'AssertionError')
    Ad = sym_matrix(ctx, 'a', 3, 'real', True)
    mod = mk_module(it, f'{L}:SystemOfEquations', 3, 2, free=idx([0, 1]), prescribed=idx([2]))
    it.summaries[f'{L}:LinSolve._response'] = lambda itp, a, k: (_ for _ in ()).throw(AssertionError('inner solve reached'))
    for nm, (nb, nx) in (('too_few', (1, 1)), ('too_many', (2, 2))):
        try:
            it.call(it.getattr(mod, '_response'), [nplib._mk_sparse(CArr(Ad.copy(), 'real'), 'csc'), CArr(sym_block(ctx, 'b' + nm, (nb,), 'real')),
                                                   CArr(sym_block(ctx, 'x' + nm, (nx,), 'real'))])
            ctx.prove(f'size_mismatch_refused[{nm}]', False)
        except PyExc as e:
            ctx.prove(f'size_mismatch_refused[{nm}]', e.cls == 'AssertionError')


# ------------------------------------------------------------------------------------------------ StaticCondensation
def sc_partitions(n):
    """(main, free) disjoint non-empty index lists; the remaining dofs are prescribed to zero"""
    out = []
    for r in range(1, n):
        for m in itertools.combinations(range(n), r):
            rest = [i for i in range(n) if i not in m]
            for s in range(1, len(rest) + 1):
                for f in itertools.combinations(rest, s):
                    out.append((list(m), list(f)))
    if n >= 3:
        out.append(([2, 0], [1]))
        out.append(([1], [2, 0]))
    return out


SC_CASES = [(n, m, f, kind) for n in (2, 3, 4) for (m, f) in sc_partitions(n) for kind in ('real', 'complex')
            if not (n == 4 and (kind == 'complex' or len(m) + len(f) < 3 or len(f) > 2))]

for (_n, _m, _f, _kind) in SC_CASES:
    @harness(P, f'StaticCondensation.response[n={_n},m={_m},f={_f},{_kind}]',
             targets=[f'{L}:StaticCondensation._response', f'{L}:StaticCondensation._prepare'], timeout=60000)
    def h_sc(ctx, it, n=_n, m=_m, f=_f, kind=_kind):
        """general sparse A with symbolic entries: the result is A_mm - A_mf A_ff^-1 A_fm, and for every main-dof vector x_m the full system (other
        dofs zero) with x_f = -A_ff^-1 A_fm x_m has zero load on the free dofs and load A_red x_m on the main dofs"""
        Ad = sym_matrix(ctx, 'a', n, kind, False)
        X = sym_block(ctx, 'X', (len(f), len(m)), kind)
        Aff = Ad[np.ix_(f, f)]
        Afm = dot_rows(Aff, X)                       # parametrisation: A_fm := A_ff X
        for i, fi in enumerate(f):
            for j, mj in enumerate(m):
                Ad[fi, mj] = Afm[i, j]
        Asp = nplib._mk_sparse(CArr(Ad.copy(), kind), 'csc')
        mod = mk_module(it, f'{L}:StaticCondensation', 1, 1, idx(m), idx(f))
        inner = []

        def linsolve_contract(itp, args, kwa):
            _self, mat, rhs = args
            md = mat.fields['dense'] if isinstance(mat, Obj) and mat.tag == 'sparse' else mat
            inner.append((md, rhs if isinstance(rhs, CArr) else to_carr(rhs)))
            return CArr(X.copy(), kind)
        it.summaries[f'{L}:LinSolve._response'] = linsolve_contract
        R = it.call(it.getattr(mod, '_response'), [Asp])
        ctx.prove('one_inner_solve', len(inner) == 1)
        md, rhs = inner[0]
        ctx.prove('inner_system_matches', isinstance(md, CArr) and md.shape == (len(f), len(f)) and rhs.shape == X.shape
                  and eq_entries(flat(matmul(ctx, md, CArr(X.copy()))), flat(rhs)))
        ctx.prove('inner_matrix_is_free_block', eq_entries(flat(md), list(Aff.reshape(-1))))
        ctx.prove('inner_wrapper_disabled', it.getattr(it.getattr(mod, 'module_LinSolve'), 'use_lda_solver') is False)
        Rd = R.fields['dense'] if isinstance(R, Obj) and R.tag == 'sparse' else R
        ctx.prove('shape', isinstance(Rd, CArr) and Rd.shape == (len(m), len(m)))
        Amm, Amf = Ad[np.ix_(m, m)], Ad[np.ix_(m, f)]
        schur = add_arr(Amm, np.vectorize(lambda v: V.mul(-1, v), otypes=[object])(dot_rows(Amf, X)))
        ctx.prove('is_schur_complement', eq_entries(flat(Rd), list(schur.reshape(-1))))
        xm = sym_block(ctx, 'xm', (len(m),), kind)
        xfv = np.vectorize(lambda v: V.mul(-1, v), otypes=[object])(dot_rows(X, xm))
        full = np.empty(n, dtype=object)
        full[...] = 0
        for i, mi in enumerate(m):
            full[mi] = xm[i]
        for i, fi in enumerate(f):
            full[fi] = xfv[i]
        load = dot_rows(Ad, full)
        ctx.prove('condensed_system.free_rows_unloaded', eq_entries([load[fi] for fi in f], [0] * len(f)))
        ctx.prove('condensed_system.main_rows_reproduced', eq_entries([load[mi] for mi in m], list(dot_rows(Rd.data, xm))))
        ctx.prove('argument_untouched', eq_entries(flat(Asp), list(Ad.reshape(-1))))


@harness(P, 'SystemOfEquations.input_signal_kept', targets=[f'{L}:SystemOfEquations._response'], finding='C04-soe-overwrites-input')
def h_soe_sig(ctx, it):
    """the state of the input matrix SIGNAL after _response is still the full matrix - recorded finding C04-soe-overwrites-input (the inner
    LinSolve shares sig_in[0], so the signal is left holding the free-free block)"""
    o = run_soe(ctx, it, 2, [0], [1], 'both', 'real', None)
    st = it.getattr(it.getattr(o['mod'], 'sig_in')[0], 'state')
    ctx.prove('matrix_signal_state_is_not_the_free_block', not (isinstance(st, Obj) and st.tag == 'sparse' and st.fields['dense'].shape == (1, 1)))


# the LDAS wrapper's update (clears the stored bases, re-detects the decoupled dofs for EVERY new matrix) is part of what makes "x = A^-1 b for the
# CURRENT matrix" true when LinSolve wraps its solver: the C06 obligations on that function are regenerated under this property as well
from . import C06 as _c06   # noqa: E402,F401
from pvc.runner import HARNESSES as _H   # noqa: E402
_H[(P, 'solver_contract.LDAWrapper.update.clears')] = dict(_H[('C06', 'LDAWrapper.update.clears')])


for _cx, _herm, _symflag, _hermflag in ((True, False, True, None), (False, True, True, None), (True, True, None, None), (True, False, None, False), (False, False, False, None)):
    @harness(P, f'LinSolve.class_flags[complex={_cx},hermitian={_herm},symmetric_arg={_symflag},hermitian_arg={_hermflag}]',
             targets=[f'{L}:LinSolve._response', f'{L}:LinSolve._prepare'])
    def h_linsolve_flags(ctx, it, cx=_cx, herm=_herm, symflag=_symflag, hermflag=_hermflag):
        """the class information LinSolve hands to the solver selection and to the LDAS wrapper is TRUE of the matrix: `hermitian` is what the user
        stated or what was detected - the `symmetric` flag implies it for REAL matrices only (a complex symmetric matrix is not Hermitian) -, and
        `symmetric` is passed on as given"""
        MA.reset()
        auto = SolverModel(it)
        install_solver_contract(it, [auto])
        seen = {}
        it.summaries[f'{MC}:matrix_is_sparse'] = lambda itp, a, k: False
        it.summaries[f'{MC}:matrix_is_complex'] = lambda itp, a, k: cx
        it.summaries[f'{MC}:matrix_is_hermitian'] = lambda itp, a, k: herm
        it.summaries[f'{MC}:matrix_is_symmetric'] = lambda itp, a, k: (herm and not cx) or bool(symflag)

        def auto_det(itp, a, k):
            seen['auto'] = dict(k)
            return auto.obj
        it.summaries['pymoto.solvers.auto_determine:auto_determine_solver'] = auto_det
        kw = {}
        if symflag is not None:
            kw['symmetric'] = symflag
        if hermflag is not None:
            kw['hermitian'] = hermflag
        mod = mk_module(it, f'{L}:LinSolve', 2, 1, **kw)
        props = ({'real'} if not cx else set()) | ({'hermitian'} if herm else set()) | ({'symmetric'} if symflag else set())
        Am, bm = MA.Mat.atom('A', props), MA.Mat.atom('b', {'real'} if not cx else ())
        x = it.call(it.getattr(mod, '_response'), [MA.wrap(Am, 'complex' if cx else 'real'), MA.wrap(bm, 'complex' if cx else 'real')])
        truly_herm = herm if hermflag is None else hermflag          # a user statement is taken as true (admissibility)
        ctx.prove('selection_gets_true_hermitian_flag', seen.get('auto', {}).get('ishermitian') is truly_herm)
        ctx.prove('module_flag_true', it.getattr(mod, 'ishermitian') is truly_herm)
        sol = it.getattr(mod, 'solver')
        if isinstance(sol, Obj) and sol.cls is not None and sol.cls.name == 'LDAWrapper':
            ctx.prove('wrapper_gets_true_hermitian_flag', it.getattr(sol, 'hermitian') is truly_herm)
            ctx.prove('wrapper_gets_symmetric_flag_as_given', it.getattr(sol, 'symmetric') is symflag)
        ctx.prove('solves', (Am @ MA.unwrap(x) - bm).is_zero())
