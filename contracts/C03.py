"""C03 - results depend only on current inputs and seeds, never on call history.

Relational contract, executed from the real source:  for every entry of the module catalogue (contracts/modcat.py, real module built by its real
_prepare on an enumerated small instance) TWO objects are built from the same constructor arguments,

   H (history):  response(x_old) . sensitivity(w_old) . reset . response(x_old') . reset  . response(x) . sensitivity(w)
   F (fresh):                                                                               response(x) . sensitivity(w)

with SYMBOLIC x, w and arbitrary (independent, symbolic) earlier data x_old, x_old', w_old, and the obligation is that every output state and
every returned sensitivity of the last cycle is equal, entry by entry, for H and F.  The documented memories are handled as documented: a
Scaling without bounds and a damped AggScaling keep their first value / running factor, so their first response is the same for H and F
(`pre` of the catalogue entry) and the history is inserted AFTER it.

The protocol-level clauses (reset leaves no sensitivity anywhere, sensitivity() without a seed changes nothing) are the obligations of the
C02 / C18 contracts re-registered here on the same real functions.  Caching components with solver objects use a FUNCTIONAL solver contract
(update(M) factorises the entries M has at that moment; solve(b, trans) = Solve_trans(entries of that M, entries of b), an uninterpreted function),
so "the same current matrix and right-hand side reach the solver" is exactly what makes H and F agree.
"""
import itertools
import numpy as np
import z3
from pvc import values as V
from pvc.values import CArr, LArr, Obj, Cx, PyExc, is_sym
from pvc.arrays import to_carr
from pvc.runner import harness, HARNESSES
from .modcat import CASES, Sym, flat, as_list, mk_module
from .C01 import seed_like, poly_zero, re, im
from .C04 import eq_lists, snapshot_vals

P = 'C03'


def perturbed(ctx, x, tag):
    """an arbitrary other value of the same shape/kind as the symbolic input x (fresh symbols; admissibility constraints of the entry, e.g.
    positivity, are repeated by the caller where the catalogue entry states them)"""
    def one(v, k):
        if isinstance(v, Cx):
            return Cx(ctx.sym(f'{tag}{k}r', 'real'), ctx.sym(f'{tag}{k}i', 'real'))
        return ctx.sym(f'{tag}{k}', 'real')
    if isinstance(x.value, CArr):
        d = np.empty(x.value.shape, dtype=object)
        for k, idx in enumerate(np.ndindex(*x.value.shape)):
            d[idx] = one(x.value.data[idx], k)
        return CArr(d, x.value._kind)
    return one(x.value, 0)


def constrain_like(ctx, x, val):
    """repeat the sign constraints that the catalogue entry put on x for the earlier data (positive / non-zero leaves)"""
    hyps = [h.sexpr() for h in ctx.hyps]
    for (r_, _), v in zip(x.leaves, flat(val)):
        vr = v.re if isinstance(v, Cx) else v
        if f'(> {r_} 0.0)' in hyps or f'(> {r_} 0)' in hyps:
            ctx.assume(vr > 0)
        if f'(not (= {r_} 0.0))' in hyps or f'(distinct {r_} 0.0)' in hyps or f'(not (= 0.0 {r_}))' in hyps:
            ctx.assume(vr != 0)


def set_states(it, mod, vals):
    for s, v in zip(it.getattr(mod, 'sig_in'), vals):
        it.setattr(s, 'state', v)


def do_response(it, mod, vals):
    set_states(it, mod, vals)
    ys = as_list(it.call(it.getattr(mod, '_response'), list(vals)), len(it.getattr(mod, 'sig_out')))
    for s, yy in zip(it.getattr(mod, 'sig_out'), ys):
        it.setattr(s, 'state', yy)
    return ys


def do_sensitivity(it, mod, seeds, nin):
    for s, w in zip(it.getattr(mod, 'sig_out'), seeds):
        it.setattr(s, 'sensitivity', w)
    return as_list(it.call(it.getattr(mod, '_sensitivity'), list(seeds)), nin)


def dense_entries(v):
    """entries of a state / sensitivity (arrays, scalars, sparse matrices, DyadCarrier through its dense abstraction)"""
    if v is None:
        return None
    if isinstance(v, Obj) and v.cls is not None and v.cls.name == 'DyadCarrier':
        return ('dyad', v)
    return list(flat(v))


def eq_struct(a, b):
    """entry lists equal: structurally identical terms first (deep ghost-function chains), the polynomial normal form / the solver otherwise"""
    if len(a) != len(b):
        return False
    rest_a, rest_b = [], []
    for x, y in zip(a, b):
        same = True
        for p_, q_ in ((re(x), re(y)), (im(x), im(y))):
            if is_sym(p_) and is_sym(q_):
                same = same and p_.eq(q_)
            elif is_sym(p_) or is_sym(q_):
                same = False
            else:
                same = same and (p_ == q_)
        if not same:
            rest_a.append(x)
            rest_b.append(y)
    return eq_lists(rest_a, rest_b) if rest_a else True


def same_values(ctx, it, a, b):
    if a is None or b is None:
        return a is b
    if isinstance(a, tuple) or isinstance(b, tuple):
        if not (isinstance(a, tuple) and isinstance(b, tuple)):
            return False
        da = it.call(it.getattr(a[1], 'todense'), [])
        db = it.call(it.getattr(b[1], 'todense'), [])
        return eq_struct(list(flat(da)), list(flat(db)))
    return eq_struct(a, b)


for _case in CASES:
    @harness(P, f'history.{_case.name}', targets=_case.targets, timeout=40000)
    def h_history(ctx, it, case=_case):
        """the last response/sensitivity cycle of an object with an arbitrary earlier history equals that of a fresh object"""
        ctx.safety_on = False
        modH, inputs, extra = case.build(ctx, it)
        modF, inputsF, extraF = case.build(ctx, it)
        ctx.prove('setup.distinct_objects', modH is not modF)
        if 'scaling=True' in case.name:
            # documented exemption: a DAMPED AggScaling keeps a running factor; without damping (the default) nothing may be remembered
            ctx.assume(ctx.sym('damp', 'real') == 0)
        nin = len(inputs)
        for m_, e_ in ((modH, extra), (modF, extraF)):
            if e_.get('pre'):
                e_['pre']()          # documented memory (first value / running factor): identical first evaluation for both objects
        xs = [x.value for x in inputs]
        # ---- earlier history on H only
        for rnd in range(extra.get('rounds', 2)):
            old = [perturbed(ctx, x, f'old{rnd}_{k}_') for k, x in enumerate(inputs)]
            for x, o in zip(inputs, old):
                constrain_like(ctx, x, o)
            ys_old = do_response(it, modH, old)
            if rnd == 0:
                seeds_old = [seed_like(ctx, it, yy, f'wold{k}_', seed=extra.get('seed', 'dense'))[0] for k, yy in enumerate(ys_old)]
                do_sensitivity(it, modH, seeds_old, nin)
            it.call(it.getattr(modH, '_reset'), [])
            for s in it.getattr(modH, 'sig_in') + it.getattr(modH, 'sig_out'):
                it.setattr(s, 'sensitivity', None)
        # ---- the cycle that is compared
        yH = do_response(it, modH, xs)
        yF = do_response(it, modF, [x.value for x in inputsF])
        for k, (a, b) in enumerate(zip(yH, yF)):
            ctx.prove(f'state[{k}].equal_to_fresh', same_values(ctx, it, dense_entries(a), dense_entries(b)))
        seeds = [seed_like(ctx, it, yy, f'w{k}_', seed=extra.get('seed', 'dense'))[0] for k, yy in enumerate(yF)]
        gH = do_sensitivity(it, modH, seeds, nin)
        gF = do_sensitivity(it, modF, seeds, nin)
        for k, (a, b) in enumerate(zip(gH, gF)):
            ctx.prove(f'sensitivity[{k}].equal_to_fresh', same_values(ctx, it, dense_entries(a), dense_entries(b)))


# ------------------------------------------------------------------------------------------------ caches that the catalogue instances do not exercise
from .modcat import Case, FIL, AGG, DOMAIN
from fractions import Fraction

EXTRA = []


def extra_case(name, spec, targets=()):
    def deco(fn):
        EXTRA.append(Case(name, spec, fn, [spec + '._response', spec + '._sensitivity'] + list(targets)))
        return fn
    return deco


for _size, _dir in (((2, 2, 0), (0, 1)), ((2, 3, 0), '-y'), ((3, 2, 0), 'x'), ((2, 2, 2), (0, 0, 1))):
    @extra_case(f'OverhangFilter.layers[{_size},{_dir}]', f'{FIL}:OverhangFilter', targets=[f'{FIL}:OverhangFilter._prepare'])
    def b_over_layers(ctx, it, size=_size, dirn=_dir):
        """multi-layer domains: the stored layer maxima (smax) of an earlier design must never reach a later sensitivity"""
        dom = it.call(it.get_function(DOMAIN), list(size))
        xi0, p, eps = ctx.sym('xi_0', 'real'), ctx.sym('p', 'real'), ctx.sym('eps', 'real')
        ctx.assume(z3.And(xi0 > 0, xi0 < 1, p > 1, eps > 0))
        mod = mk_module(it, f'{FIL}:OverhangFilter', 1, 1, dom, dirn, xi0, p, eps, 3 if size[2] == 0 else 5)
        return mod, [Sym(ctx, 'x', (size[0] * size[1] * max(size[2], 1),), positive=True)], {}


for _cls in ('PNorm', 'KSFunction'):
    for _aset in ('amount', 'value'):
        @extra_case(f'{_cls}.active_set[{_aset}]', f'{AGG}:{_cls}', targets=[f'{AGG}:Aggregation._response', f'{AGG}:Aggregation._sensitivity', f'{AGG}:AggActiveSet.__call__'])
        def b_agg_aset(ctx, it, cls=_cls, aset=_aset):
            """aggregation over an active set: the selection of an earlier design must not be reused"""
            par = ctx.sym('par', 'real')
            ctx.assume(par != 0)
            AS = it.get_function(f'{AGG}:AggActiveSet')
            if aset == 'amount':
                a = it.call(AS, [], dict(lower_amt=Fraction(1, 3)))
            else:
                a = it.call(AS, [], dict(lower_rel=Fraction(1, 4)))
            mod = mk_module(it, f'{AGG}:{cls}', 1, 1, par, None, a)
            return mod, [Sym(ctx, 'x', (2,), positive=True)], dict(rounds=1)


for _case in EXTRA:
    HARNESSES[(P, f'history.{_case.name}')] = dict(HARNESSES[(P, f'history.{CASES[0].name}')], fn=(lambda c: (lambda ctx, it: h_history(ctx, it, case=c)))(_case),
                                                   targets=_case.targets, timeout=60000)


# ------------------------------------------------------------------------------------------------ solver-based caching components
from pvc import nplib
L = 'pymoto.modules.linalg'
SOLV = 'pymoto.solvers.solvers'
MC = 'pymoto.solvers.matrix_checks'


class SymMat:
    """symbolic n x n matrix input (dense ndarray or sparse) of a fixed class; `other` builds another member of the SAME class (admissibility
    precondition of C03: matrix class and dtype do not change over the history - the class flags and the chosen solver are sticky by design)"""
    def __init__(self, ctx, name, n, cls='gen', sparse=False):
        self.ctx, self.n, self.cls, self.sparse = ctx, n, cls, sparse
        d = np.empty((n, n), dtype=object)
        self.leaves = []
        for i in range(n):
            for j in range(n):
                if cls in ('sym', 'csym') and j < i:
                    d[i, j] = d[j, i]
                    continue
                re_ = ctx.sym(f'{name}{i}{j}', 'real')
                if cls in ('cgen', 'csym'):
                    im_ = ctx.sym(f'{name}{i}{j}i', 'real')
                    d[i, j] = Cx(re_, im_)
                    self.leaves.append((re_, im_))
                else:
                    d[i, j] = re_
                    self.leaves.append((re_, None))
        self.dense = CArr(d, 'complex' if cls in ('cgen', 'csym') else 'real')
        self.value = nplib._mk_sparse(self.dense, 'csc') if sparse else self.dense
        self.shape = (n, n)

    def other(self, ctx, tag):
        return SymMat(ctx, tag, self.n, self.cls, self.sparse).value


_old_perturbed = perturbed


def perturbed(ctx, x, tag):          # noqa: F811  (matrix inputs bring their own generator)
    if hasattr(x, 'other'):
        return x.other(ctx, tag)
    return _old_perturbed(ctx, x, tag)


from .solvercontract import FunctionalSolvers   # noqa: E402


class SymVec:
    def __init__(self, ctx, name, shape, kind='real'):
        s = Sym(ctx, name, shape, kind)
        self.value, self.leaves, self.shape = s.value, s.leaves, shape


def solver_case(name, spec, targets=()):
    def deco(fn):
        c = Case(name, spec, fn, [spec + '._response', spec + '._sensitivity'] + list(targets))
        HARNESSES[(P, f'history.{name}')] = dict(HARNESSES[(P, f'history.{CASES[0].name}')], fn=(lambda cc: (lambda ctx, it: h_history(ctx, it, case=cc)))(c),
                                                 targets=c.targets, timeout=60000)
        return fn
    return deco


for _cls, _sparse, _lda in (('gen', False, True), ('sym', True, True), ('cgen', False, False), ('csym', True, True), ('gen', True, False)):
    for _rhs in ((2,), (2, 2)):
        @solver_case(f'LinSolve[{_cls},sparse={_sparse},lda={_lda},rhs={_rhs}]', f'{L}:LinSolve', targets=[f'{L}:LinSolve._prepare'])
        def b_linsolve(ctx, it, cls=_cls, sparse=_sparse, lda=_lda, rhs=_rhs):
            """LinSolve keeps its solver object, class flags and the last solution (initial guess) between calls: every response must update the
            solver with the CURRENT matrix before solving, and the adjoint solve of a sensitivity must use the matrix of the latest response"""
            fs = getattr(it, '_fs', None)
            if fs is None:
                fs = it._fs = FunctionalSolvers(ctx, it, hermitian=cls in ('sym',), is_complex=cls in ('cgen', 'csym'), sparse=sparse)
            mod = mk_module(it, f'{L}:LinSolve', 2, 1)
            if not lda:
                it.setattr(mod, 'use_lda_solver', False)
            kind = 'complex' if cls in ('cgen', 'csym') else 'real'
            return mod, [SymMat(ctx, 'a', 2, cls, sparse), SymVec(ctx, 'b', rhs, kind)], {}


for _part in (([0], [1, 2]), ([1, 2], [0]), ([2, 0], [1])):
    @solver_case(f'SystemOfEquations[f={_part[0]},p={_part[1]}]', f'{L}:SystemOfEquations', targets=[f'{L}:SystemOfEquations._prepare', f'{L}:LinSolve._response'])
    def b_soe(ctx, it, part=_part):
        """x, Afp, App and the inner LinSolve (with its solver and stored solution) are rewritten by every response"""
        if getattr(it, '_fs', None) is None:
            it._fs = FunctionalSolvers(ctx, it, hermitian=True, is_complex=False, sparse=True)
        f, p = part
        mod = mk_module(it, f'{L}:SystemOfEquations', 3, 2, free=CArr(np.array(f, dtype=object), 'int'), prescribed=CArr(np.array(p, dtype=object), 'int'))
        return mod, [SymMat(ctx, 'a', 3, 'sym', True), SymVec(ctx, 'bf', (len(f),)), SymVec(ctx, 'xp', (len(p),))], {}


for _part in (([0], [1, 2]), ([0, 2], [1])):
    @solver_case(f'StaticCondensation[m={_part[0]},f={_part[1]}]', f'{L}:StaticCondensation', targets=[f'{L}:StaticCondensation._prepare', f'{L}:LinSolve._response'])
    def b_sc(ctx, it, part=_part):
        """X and n and the inner LinSolve are rewritten by every response"""
        if getattr(it, '_fs', None) is None:
            it._fs = FunctionalSolvers(ctx, it, hermitian=True, is_complex=False, sparse=True)
        m, f = part
        mod = mk_module(it, f'{L}:StaticCondensation', 1, 1, CArr(np.array(m, dtype=object), 'int'), CArr(np.array(f, dtype=object), 'int'))
        return mod, [SymMat(ctx, 'a', 3, 'sym', True)], {}


# ------------------------------------------------------------------------------------------------ EigenSolve: cached per-mode adjoint solvers
from .C11 import sym_matrix as c11_matrix, sparse_of, install_class, ES, eqc


def _concrete_pencil(tag, n):
    from fractions import Fraction
    t = int(tag)
    A = CArr(np.array([[Fraction((1 + i * i + 2 * t) if i == j else 0) for j in range(n)] for i in range(n)], dtype=object), 'real')
    B = CArr(np.array([[Fraction(1 + t if i == j else 0) for j in range(n)] for i in range(n)], dtype=object), 'real')
    return A, B


@harness(P, 'EigenSolve.adjoint_solvers_follow_the_current_pencil', targets=[f'{ES}._sparse_eigvec_sens', f'{ES}._sensitivity', f'{ES}._response', f'{ES}._sparse_eigs'],
         timeout=3000)
def h_eig_adjoint(ctx, it, concrete=False):
    """sparse EigenSolve with eigenvector seeds keeps one factorised solver per mode.  History: response(A1,B1), sensitivity seeding both modes,
    reset, response(A2,B2), sensitivity seeding mode 1 only, reset, sensitivity seeding mode 0 only (no new response in between).
    Every adjoint solve of mode i must run on a solver whose factorised matrix is  A - lambda_i B  of the LATEST response (entry by entry)"""
    n, k = 3, 2
    install_class(it, True, sparse=True)
    fs = FunctionalSolvers(ctx, it, hermitian=True, is_complex=False, sparse=True)
    solves = []
    orig = fs.slv

    def slv(itp, args, kw):
        o = fs.root(args[0])
        if id(o) in fs.cur:
            solves.append((id(o), list(fs.cur[id(o)][1]), kw.get('trans', 'N')))
        return orig(itp, args, kw)
    for c in ('LinearSolver', 'LDAWrapper'):
        it.summaries[f'{SOLV}:{c}.solve'] = slv
    mod = mk_module(it, ES, 2, 2, nmodes=k)
    ctx.assert_mode = 'assume'
    ctx.warnings_unobserved = True
    ctx.safety_on = False
    ctx.feasible_timeout_ms = 300
    # the matrix sensitivities themselves (DyadCarrier objects) are not the subject here: their construction is used through the trivial contract
    # "returns a DyadCarrier" (C15 proves the operations); this removes the zero-vector case splits of add_dyad from the exploration
    DCq = 'pymoto.common.dyadcarrier:DyadCarrier.'
    it.summaries[DCq + '__init__'] = lambda itp, a, kw: None
    for nm in ('__neg__', '__iadd__', '__isub__', 'real', 'conj', '__pos__'):
        it.summaries[DCq + nm] = lambda itp, a, kw: a[0]

    def respond(tag):
        A, B = _concrete_pencil(tag, n) if concrete else (c11_matrix(ctx, f'a{tag}_', n, 'sym'), c11_matrix(ctx, f'b{tag}_', n, 'sym'))
        As, Bs = sparse_of(A), sparse_of(B)
        set_states(it, mod, [As, Bs])
        W, Q = it.call(it.getattr(mod, '_response'), [As, Bs])
        for s, v in zip(it.getattr(mod, 'sig_out'), (W, Q)):
            it.setattr(s, 'state', v)
        return A, B, W, Q

    def seed(tag, cols):
        d = np.empty((n, k), dtype=object)
        for r in range(n):
            for c in range(k):
                d[r, c] = ctx.sym(f'dq{tag}_{r}{c}', 'real') if c in cols else 0
        for c in cols:
            ctx.assume(d[0, c] != 0)
        return CArr(d, 'real')

    def sens(tag, cols):
        n0 = len(solves)
        it.call(it.getattr(mod, '_sensitivity'), [None, seed(tag, cols)])
        return solves[n0:]

    def expect(A, B, W, i):
        return [V.sub(A.data[r, c], V.mul(W.data[i], B.data[r, c])) for r in range(n) for c in range(n)]
    A1, B1, W1, Q1 = respond(1)
    s_a = sens('a', (0, 1))
    ctx.prove('round1.one_adjoint_solve_per_seeded_mode', len(s_a) == 2 and s_a[0][0] != s_a[1][0])
    if len(s_a) != 2:
        return
    for i in range(2):
        ctx.prove(f'round1.mode{i}.solver_holds_current_shifted_matrix', z3.And(*[eqc(x, y) for x, y in zip(s_a[i][1], expect(A1, B1, W1, i))]))
    it.call(it.getattr(mod, '_reset'), [])
    A2, B2, W2, Q2 = respond(2)
    s_b = sens('b', (1,))
    ctx.prove('round2.only_the_seeded_mode_is_solved', len(s_b) == 1 and s_b[0][0] == s_a[1][0])
    if len(s_b) == 1:
        ctx.prove('round2.mode1.solver_holds_current_shifted_matrix', z3.And(*[eqc(x, y) for x, y in zip(s_b[0][1], expect(A2, B2, W2, 1))]))
    it.call(it.getattr(mod, '_reset'), [])
    s_c = sens('c', (0,))
    ctx.prove('round2.second_sensitivity.mode0_solved_on_its_own_solver', len(s_c) == 1 and s_c[0][0] == s_a[0][0])
    if len(s_c) == 1:
        ctx.prove('round2.second_sensitivity.mode0.solver_holds_current_shifted_matrix', z3.And(*[eqc(x, y) for x, y in zip(s_c[0][1], expect(A2, B2, W2, 0))]))
        ctx.prove('round2.second_sensitivity.adjoint_mode', s_c[0][2] == 'T')


HARNESSES[(P, 'EigenSolve.adjoint_solvers_follow_the_current_pencil.concrete_pencils')] = dict(
    HARNESSES[(P, 'EigenSolve.adjoint_solvers_follow_the_current_pencil')], fn=lambda ctx, it: h_eig_adjoint(ctx, it, concrete=True), timeout=10000,
    doc='the same history on two different CONCRETE pencils (eigenpairs through the ARPACK contract): the hypotheses are trivially satisfiable, so a stale '
        'factorisation is reported with a counter-model instead of staying undecided')


# ------------------------------------------------------------------------------------------------ protocol-level clauses: the same obligations, same real functions
# "reset() leaves no sensitivity behind" = Signal.reset / SignalSlice reset (C18) + Module.reset reaches every signal (C02) + Network.reset reaches
# every module (C02); "sensitivity() without any seed changes nothing" = the unseeded patterns of Module.sensitivity (C02); "stored solution
# bases are cleared by every update" = LDAWrapper.update (C06).  They are re-registered under C03 so that a change to those functions that breaks
# history independence is reported for this property too (the obligations are generated again from the current source, nothing is cached).
from . import C02 as _c02, C18 as _c18, C06 as _c06   # noqa: E402,F401

for (_p, _n), _spec in list(HARNESSES.items()):
    if ((_p == 'C18' and _n.startswith('Signal.reset')) or (_p == 'C02' and (_n.startswith('Module.reset') or _n.startswith('Network.order') or
                                                                               _n in ('Module.sensitivity[1x1]', 'Module.sensitivity[2x2]', 'Module.sensitivity[1x2]')))
            or (_p == 'C06' and _n == 'LDAWrapper.update.clears')):
        HARNESSES[(P, f'protocol.{_n}')] = dict(_spec)

# the shift-invert factorisation cached by EigenSolve (refreshed in every response, also when the same matrix objects come back updated in place):
# the C11 two-call harnesses on the symmetric classes, regenerated under this property
from . import C11 as _c11   # noqa: E402,F401
for (_p, _n), _spec in list(HARNESSES.items()):
    if _p == 'C11' and _n.startswith('EigenSolve.sparse') and 'A=sym' in _n:
        HARNESSES[(P, f'cache.{_n}')] = dict(_spec)
