"""C13 - structured-grid numbering, connectivity and shape functions (pymoto/common/domain.py).

Every harness runs the real DomainDefinition.__init__ on symbolic sizes and then the method under contract.
Postconditions are taken from the property statement: bijections with Cartesian indices, documented local corner order,
dof expansion, positions = index * element size, partition of unity / Kronecker / gradient of the shape functions.
"""
import itertools
import z3
from pvc import values as V
from pvc.values import CArr, LArr
from pvc.arrays import to_carr, to_larr
from pvc.runner import harness
from .common import DOMAIN, sym_domain, euclid, mul_mono, real_vec, replay_on_grid
import os

GRID_REPLAY = replay_on_grid('C13', ['numbering', 'connectivity'])

P = 'C13'
T = lambda m: f'{DOMAIN}.{m}'


def _nz(nelz):
    return V.ite(V.cmp('>=', nelz, 1), nelz, 1) if V.is_sym(nelz) else max(nelz, 1)


def layout_hints(c, t, nx_, ny_, nzz):
    """lemma instances for the constructor's enumeration  t = (ix*ny + iy)*nzz + iz  (repeat/tile layout) and the element number it produces"""
    m = V.mul(ny_, nzz)
    ix, r = V.floordiv(t, m), V.mod(t, m)
    iy, iz = V.floordiv(r, nzz), V.mod(r, nzz)
    c.prove('lemma.divmod_def', z3.And(V.zint(t) == V.zint(ix) * V.zint(m) + V.zint(r), V.zint(r) == V.zint(iy) * V.zint(nzz) + V.zint(iz),
                                       V.zint(r) >= 0, V.zint(r) < V.zint(m), V.zint(iz) >= 0, V.zint(iz) < V.zint(nzz)), kind='lemma-premise')
    c.assume(V.zint(t) == V.zint(ix) * V.zint(m) + V.zint(r))
    c.assume(V.zint(r) == V.zint(iy) * V.zint(nzz) + V.zint(iz))
    c.assume(z3.And(V.zint(r) >= 0, V.zint(r) < V.zint(m), V.zint(iz) >= 0, V.zint(iz) < V.zint(nzz)))
    c.prove('lemma.quotients_in_range', z3.And(V.zint(ix) >= 0, V.zint(ix) < V.zint(nx_), V.zint(iy) >= 0, V.zint(iy) < V.zint(ny_)), kind='lemma-premise')
    c.assume(z3.And(V.zint(ix) >= 0, V.zint(ix) < V.zint(nx_), V.zint(iy) >= 0, V.zint(iy) < V.zint(ny_)))
    mul_mono(c, iy, ny_, nzz, 'h_iy')
    mul_mono(c, ix, nx_, m, 'h_ix')
    e = V.add(V.mul(V.add(V.mul(iz, ny_), iy), nx_), ix)
    euclid(c, V.add(V.mul(iz, ny_), iy), nx_, ix, 'h1')
    euclid(c, iz, ny_, iy, 'h2')
    c.prove('lemma.ring_identity', V.zint(e) == V.zint(iz) * (V.zint(nx_) * V.zint(ny_)) + (V.zint(iy) * V.zint(nx_) + V.zint(ix)), kind='lemma-premise')
    c.assume(V.zint(e) == V.zint(iz) * (V.zint(nx_) * V.zint(ny_)) + (V.zint(iy) * V.zint(nx_) + V.zint(ix)))
    mul_mono(c, iy, ny_, nx_, 'h_iy2')
    mul_mono(c, iz, nzz, V.mul(nx_, ny_), 'h_iz')
    mul_mono(c, V.add(V.mul(iz, ny_), iy), V.mul(nzz, ny_), nx_, 'h_q')
    mul_mono(c, iz, nzz, ny_, 'h_iz2')
    euclid(c, iz, V.mul(nx_, ny_), V.add(V.mul(iy, nx_), ix), 'h3')


# ------------------------------------------------------------------------------------------------ counts
for _dim in (2, 3):
    @harness(P, f'__init__.counts[dim={_dim}]', targets=[T('__init__')], replay=GRID_REPLAY)
    def h_counts(ctx, it, dim=_dim):
        """nel, nnodes, dim, elemnodes as documented"""
        nx_, ny_, nz_ = ctx.sym('nelx'), ctx.sym('nely'), ctx.sym('nelz')
        ctx.gather_hints = lambda c, arr, pos: layout_hints(c, pos[0], nx_, ny_, _nz(nz_)) if len(pos) == 1 else None
        dom, (nx, ny, nz), _ = sym_domain(ctx, it, dim, check_init=True)
        g = it.getattr
        ctx.prove('dim', V.cmp('==', g(dom, 'dim'), dim))
        ctx.prove('elemnodes', V.cmp('==', g(dom, 'elemnodes'), 2 ** dim))
        ctx.prove('nel', V.cmp('==', g(dom, 'nel'), V.mul(V.mul(nx, ny), _nz(nz))))
        ctx.prove('nnodes', V.cmp('==', g(dom, 'nnodes'), V.mul(V.mul(V.add(nx, 1), V.add(ny, 1)), V.add(nz, 1))))
        nn = g(dom, 'node_numbering')
        # documented local order: node c sits at (+-1, +-1, +-1) with x fastest, then y, then z
        ok = True
        for c in range(2 ** dim):
            want = [(+1 if (c >> a) & 1 else -1) if a < dim else -1 for a in range(3)]
            ok = ok and list(nn[c]) == want
        ctx.prove('node_numbering_table', ok)


# ------------------------------------------------------------------------------------------------ element numbering
def _box(ctx, pre, nx, ny, nzz, node=False):
    i, j, k = ctx.sym(pre + 'i'), ctx.sym(pre + 'j'), ctx.sym(pre + 'k')
    e = 1 if node else 0
    ctx.assume(z3.And(i >= 0, i < V.zint(nx) + e, j >= 0, j < V.zint(ny) + e, k >= 0, k < V.zint(nzz) + e))
    return i, j, k


for _dim in (2, 3):
    @harness(P, f'get_elemnumber.bijection[dim={_dim}]', targets=[T('get_elemnumber')], replay=GRID_REPLAY)
    def h_elemnumber(ctx, it, dim=_dim):
        """element number is a bijection between the index box and [0, nel)"""
        dom, (nx, ny, nz), _ = sym_domain(ctx, it, dim)
        nzz = _nz(nz)
        nel = it.getattr(dom, 'nel')
        f = it.getattr(dom, 'get_elemnumber')
        i, j, k = _box(ctx, 'a', nx, ny, nzz)
        e = it.call(f, [i, j, k])
        # range: (k*ny + j)*nx + i <= ((nzz-1)*ny + ny-1)*nx + nx-1
        q = V.add(V.mul(k, ny), j)
        mul_mono(ctx, q, V.mul(nzz, ny), nx, 'q_nx')
        mul_mono(ctx, k, nzz, ny, 'k_ny')
        ctx.prove('range', z3.And(e >= 0, e < V.zint(nel)))
        # injective
        i2, j2, k2 = _box(ctx, 'b', nx, ny, nzz)
        e2 = it.call(f, [i2, j2, k2])
        q2 = V.add(V.mul(k2, ny), j2)
        euclid(ctx, q, nx, i, 'e1'); euclid(ctx, q2, nx, i2, 'e2')
        euclid(ctx, k, ny, j, 'e3'); euclid(ctx, k2, ny, j2, 'e4')
        ctx.prove('injective', z3.Implies(e == e2, z3.And(i == i2, j == j2, k == k2)))
        # surjective: witness by div/mod
        n = ctx.sym('n')
        ctx.assume(z3.And(n >= 0, n < V.zint(nel)))
        wi, r = V.mod(n, nx), V.floordiv(n, nx)
        wj, wk = V.mod(r, ny), V.floordiv(r, ny)
        en = it.call(f, [wi, wj, wk])
        ctx.prove('surjective.witness_in_box', z3.And(wi >= 0, wi < V.zint(nx), wj >= 0, wj < V.zint(ny), wk >= 0, wk < V.zint(nzz)))
        ctx.prove('surjective.maps_to_n', en == n)
        if dim == 2:
            # 2D call form with the default elk=0
            ctx.prove('default_k', it.call(f, [i, j]) == it.call(f, [i, j, 0]))

    @harness(P, f'get_nodenumber.bijection[dim={_dim}]', targets=[T('get_nodenumber'), T('get_node_indices')], replay=GRID_REPLAY)
    def h_nodenumber(ctx, it, dim=_dim):
        """node number is a bijection between the node index box and [0, nnodes); get_node_indices is its inverse"""
        dom, (nx, ny, nz), _ = sym_domain(ctx, it, dim)
        nn = it.getattr(dom, 'nnodes')
        f = it.getattr(dom, 'get_nodenumber')
        nx1, ny1, nz1 = V.add(nx, 1), V.add(ny, 1), V.add(nz, 1)
        i, j, k = _box(ctx, 'a', nx, ny, nz, node=True)
        e = it.call(f, [i, j, k])
        q = V.add(V.mul(k, ny1), j)
        mul_mono(ctx, q, V.mul(nz1, ny1), nx1, 'q_nx')
        mul_mono(ctx, k, nz1, ny1, 'k_ny')
        ctx.prove('range', z3.And(e >= 0, e < V.zint(nn)))
        i2, j2, k2 = _box(ctx, 'b', nx, ny, nz, node=True)
        e2 = it.call(f, [i2, j2, k2])
        q2 = V.add(V.mul(k2, ny1), j2)
        euclid(ctx, q, nx1, i, 'e1'); euclid(ctx, q2, nx1, i2, 'e2')
        euclid(ctx, k, ny1, j, 'e3'); euclid(ctx, k2, ny1, j2, 'e4')
        ctx.prove('injective', z3.Implies(e == e2, z3.And(i == i2, j == j2, k == k2)))
        # get_node_indices(get_nodenumber(i,j,k)) == (i,j[,k])
        gi = it.getattr(dom, 'get_node_indices')
        ijk = it.call(gi, [e])
        ctx.prove('indices.shape', tuple(ijk.shape) == (dim,))
        want = [i, j, k][:dim]
        # (q*nx1 + i) // (nx1*ny1) = k needs the nested-division fact  (n // a) // b = n // (a*b):
        # instantiate Euclid for n = k*(ny1*nx1) + (j*nx1 + i)
        if dim == 3:
            mul_mono(ctx, j, ny1, nx1, 'j_nx')
            ctx.assume(V.zint(e) == V.zint(k) * (V.zint(nx1) * V.zint(ny1)) + (V.zint(j) * V.zint(nx1) + V.zint(i)))   # ring identity
            ctx.prove('ring_identity', V.zint(e) == (V.zint(k) * V.zint(ny1) + V.zint(j)) * V.zint(nx1) + V.zint(i))
            euclid(ctx, k, V.mul(nx1, ny1), V.add(V.mul(j, nx1), i), 'e5')
        ctx.prove('indices.left_inverse', z3.And(*[V.zbool(V.cmp('==', ijk.data[a], want[a])) for a in range(dim)]))
        # surjective + right inverse: for n in [0, nnodes): indices in the box and numbering(indices) == n
        n = ctx.sym('n')
        ctx.assume(z3.And(n >= 0, n < V.zint(nn)))
        w = it.call(gi, [n])
        wi, wj = w.data[0], w.data[1]
        wk = w.data[2] if dim == 3 else 0
        r = V.floordiv(n, nx1)
        if dim == 3:
            # (n // nx1) // ny1 == n // (nx1*ny1)
            euclid(ctx, V.floordiv(r, ny1), ny1, V.mod(r, ny1), 'e6')
            ctx.assume(V.zint(n) == V.zint(r) * V.zint(nx1) + V.zint(V.mod(n, nx1)))
            rr, jj = V.floordiv(r, ny1), V.mod(r, ny1)
            ctx.assume(V.zint(r) == V.zint(rr) * V.zint(ny1) + V.zint(jj))
            mul_mono(ctx, jj, ny1, nx1, 'jj_nx')
            ctx.assume(V.zint(n) == V.zint(rr) * (V.zint(nx1) * V.zint(ny1)) + (V.zint(jj) * V.zint(nx1) + V.zint(V.mod(n, nx1))))
            euclid(ctx, rr, V.mul(nx1, ny1), V.add(V.mul(jj, nx1), V.mod(n, nx1)), 'e7')
        ctx.prove('indices.in_box', z3.And(wi >= 0, wi < V.zint(nx1), wj >= 0, wj < V.zint(ny1), V.zint(wk) >= 0, V.zint(wk) < V.zint(nz1)))
        ctx.prove('indices.right_inverse', it.call(f, [wi, wj, wk]) == n)


# ------------------------------------------------------------------------------------------------ positions
for _dim in (2, 3):
    @harness(P, f'get_node_position.scaled_index[dim={_dim}]', targets=[T('get_node_position'), T('get_node_indices')], replay=GRID_REPLAY)
    def h_position(ctx, it, dim=_dim):
        """node position = Cartesian index times element size"""
        dom, (nx, ny, nz), (ux, uy, uz) = sym_domain(ctx, it, dim)
        n = ctx.sym('n')
        ctx.assume(z3.And(n >= 0, n < V.zint(it.getattr(dom, 'nnodes'))))
        pos = it.call(it.getattr(dom, 'get_node_position'), [n])
        idx = it.call(it.getattr(dom, 'get_node_indices'), [n])
        ctx.prove('shape', tuple(pos.shape) == (dim,))
        units = [ux, uy, uz]
        ctx.prove('scaled', z3.And(*[V.zbool(V.cmp('==', pos.data[a], V.mul(units[a], idx.data[a]))) for a in range(dim)]))


# ------------------------------------------------------------------------------------------------ connectivity
for _dim in (2, 3):
    @harness(P, f'get_elemconnectivity.corners[dim={_dim}]', targets=[T('get_elemconnectivity')], replay=GRID_REPLAY)
    def h_elemconn(ctx, it, dim=_dim):
        """connectivity of element (i,j,k) lists its 2^dim corner nodes in the documented local order, all distinct"""
        dom, (nx, ny, nz), _ = sym_domain(ctx, it, dim)
        nzz = _nz(nz)
        i, j, k = _box(ctx, 'a', nx, ny, nzz)
        if dim == 2:
            ctx.assume(k == 0)
        c = it.call(it.getattr(dom, 'get_elemconnectivity'), [i, j, k])
        ctx.prove('shape', tuple(c.shape) == (2 ** dim,))
        f = it.getattr(dom, 'get_nodenumber')
        for cc in range(2 ** dim):
            off = [(cc >> a) & 1 if a < dim else 0 for a in range(3)]
            want = it.call(f, [V.add(i, off[0]), V.add(j, off[1]), V.add(k, off[2])])
            ctx.prove(f'corner[{cc}]', V.cmp('==', c.data[cc], want))
        ctx.prove('distinct', z3.Distinct(*[V.zint(x) for x in c.data]))

    @harness(P, f'__init__.conn[dim={_dim}]', targets=[T('__init__'), T('get_elemconnectivity'), T('get_elemnumber')], tier=('quick' if _dim == 2 else 'experimental'), replay=GRID_REPLAY)
    def h_conn(ctx, it, dim=_dim):
        """conn[e, c] is corner c of the element whose number is e (every row is defined exactly once); elements/nodes tables"""
        nx_, ny_, nz_ = ctx.sym('nelx'), ctx.sym('nely'), ctx.sym('nelz')
        nzz = _nz(nz_)

        # ghost inverse of the element enumeration used by the constructor's scatter  conn[el, :] = ...
        def provider(c, arr):
            return lambda e: V.add(V.mul(V.add(V.mul(V.mod(e, nx_), ny_), V.mod(V.floordiv(e, nx_), ny_)), nzz), V.floordiv(e, V.mul(nx_, ny_)))

        def hints(c, arr, t):
            layout_hints(c, t, nx_, ny_, nzz)

        ctx.inverse_provider = provider
        ctx.inverse_hints = hints
        dom, (nx, ny, nz), _ = sym_domain(ctx, it, dim)
        conn = it.getattr(dom, 'conn')
        ctx.prove('shape', z3.And(V.zbool(V.cmp('==', conn.shape[0], it.getattr(dom, 'nel'))), V.zbool(V.cmp('==', conn.shape[1], 2 ** dim))))
        i, j, k = _box(ctx, 'a', nx, ny, nzz)
        e = it.call(it.getattr(dom, 'get_elemnumber'), [i, j, k])
        q = V.add(V.mul(k, ny), j)
        mul_mono(ctx, q, V.mul(nzz, ny), nx, 'q_nx')
        mul_mono(ctx, k, nzz, ny, 'k_ny')
        euclid(ctx, q, nx, i, 'c1'); euclid(ctx, k, ny, j, 'c2')
        ctx.assume(V.zint(e) == V.zint(k) * (V.zint(nx) * V.zint(ny)) + (V.zint(j) * V.zint(nx) + V.zint(i)))
        mul_mono(ctx, j, ny, nx, 'j_nx')
        euclid(ctx, k, V.mul(nx, ny), V.add(V.mul(j, nx), i), 'c3')
        mul_mono(ctx, j, ny, nzz, 'j_nzz')
        mul_mono(ctx, i, nx, V.mul(ny, nzz), 'i_m')
        f = it.getattr(dom, 'get_nodenumber')
        for cc in range(2 ** dim):
            off = [(cc >> a) & 1 if a < dim else 0 for a in range(3)]
            want = it.call(f, [V.add(i, off[0]), V.add(j, off[1]), V.add(k, off[2])])
            ctx.prove(f'conn_corner[{cc}]', V.cmp('==', conn.at(e, cc), want))
        els = it.getattr(dom, 'elements')
        nds = it.getattr(dom, 'nodes')
        ctx.prove('elements_table', V.cmp('==', els.at(i, j, k), e))
        ni, nj, nk = _box(ctx, 'n', nx, ny, nz, node=True)
        ctx.prove('nodes_table', V.cmp('==', nds.at(ni, nj, nk), it.call(f, [ni, nj, nk])))
        ctx.prove('tables_shape', z3.And(*[V.zbool(V.cmp('==', a, b)) for a, b in
                                           list(zip(els.shape, (nx, ny, nzz))) + list(zip(nds.shape, (V.add(nx, 1), V.add(ny, 1), V.add(nz, 1))))]))


@harness(P, 'get_dofconnectivity.expand', targets=[T('get_dofconnectivity')], replay=GRID_REPLAY)
def h_dofconn(ctx, it):
    """dofconn[e, c*ndof + d] == conn[e, c]*ndof + d  for an arbitrary connectivity table and any ndof >= 1"""
    cls = it.get_function(DOMAIN)
    nel, en, ndof = ctx.sym('nel'), ctx.sym('elemnodes_case'), ctx.sym('ndof')
    ctx.assume(z3.And(nel >= 1, ndof >= 1))
    for en_c in (2, 4, 8):
        C = ctx.fresh_fun('conn', z3.IntSort(), z3.IntSort(), z3.IntSort())
        conn = LArr((nel, en_c), lambda i, C=C: C(V.zint(i[0]), V.zint(i[1])), 'int')
        dom = it.new_object(cls, conn=conn, elemnodes=en_c)
        r = it.call(it.getattr(dom, 'get_dofconnectivity'), [ndof])
        e, c, d = ctx.fresh('e'), ctx.fresh('c'), ctx.fresh('d')
        ctx.assume(z3.And(e >= 0, e < nel, c >= 0, c < en_c, d >= 0, d < ndof))
        col = c * ndof + d
        euclid(ctx, c, ndof, d, f'col{en_c}')
        mul_mono(ctx, c, en_c, ndof, f'c_ndof{en_c}')
        ctx.prove(f'shape[{en_c}]', z3.And(V.zbool(V.cmp('==', r.shape[0], nel)), V.zbool(V.cmp('==', r.shape[1], V.mul(en_c, ndof)))))
        ctx.prove(f'expand[{en_c}]', V.cmp('==', r.at(e, col), C(e, c) * ndof + d))
        from pvc.arrays import root_of
        ctx.prove(f'fresh_result[{en_c}]', (r is not conn) and (root_of(r)[0] is not conn))
    # ndof == 1 (a concrete case of its own: shortcuts for it must still return a fresh table)
    C1 = ctx.fresh_fun('conn1', z3.IntSort(), z3.IntSort(), z3.IntSort())
    conn1 = LArr((nel, 4), lambda i: C1(V.zint(i[0]), V.zint(i[1])), 'int')
    dom1 = it.new_object(cls, conn=conn1, elemnodes=4)
    r1 = it.call(it.getattr(dom1, 'get_dofconnectivity'), [1])
    from pvc.arrays import root_of
    ctx.prove('ndof1.fresh_result', (r1 is not conn1) and (root_of(r1)[0] is not conn1))
    e1, c1 = ctx.fresh('e'), ctx.fresh('c')
    ctx.assume(z3.And(e1 >= 0, e1 < nel, c1 >= 0, c1 < 4))
    ctx.prove('ndof1.values', V.cmp('==', r1.at(e1, c1), C1(e1, c1)))


# ------------------------------------------------------------------------------------------------ shape functions
def _shape_setup(ctx, it, dim):
    dom, _, units = sym_domain(ctx, it, dim)
    pos = real_vec(ctx, 'p', dim)
    return dom, units[:dim], pos


for _dim in (1, 2, 3):
    @harness(P, f'eval_shape_fun.partition_kronecker[dim={_dim}]', targets=[T('eval_shape_fun')], timeout=120000)
    def h_shape(ctx, it, dim=_dim):
        """N_c >= 0 inside the element, sum_c N_c = 1 everywhere, N_c(node c') = delta_cc'"""
        dom, units, pos = _shape_setup(ctx, it, dim)
        f = it.getattr(dom, 'eval_shape_fun')
        N = it.call(f, [pos])
        ctx.prove('shape', tuple(N.shape) == (2 ** dim,))
        total = 0
        for v in N.data:
            total = V.add(total, v)
        ctx.prove('sum_one', V.cmp('==', total, 1))
        inside = z3.And(*[z3.And(V.zreal(pos.data[a]) >= -V.zreal(units[a]) / 2, V.zreal(pos.data[a]) <= V.zreal(units[a]) / 2) for a in range(dim)])
        for c in range(2 ** dim):
            ctx.prove(f'nonneg[{c}]', z3.Implies(inside, V.zreal(N.data[c]) >= 0))
        for c2 in range(2 ** dim):
            node = to_carr([V.mul(V.div(units[a], 2), (1 if (c2 >> a) & 1 else -1)) for a in range(dim)])
            Nn = it.call(f, [node])
            for c in range(2 ** dim):
                ctx.prove(f'kronecker[{c},{c2}]', V.cmp('==', Nn.data[c], 1 if c == c2 else 0))

    @harness(P, f'eval_shape_fun_der.gradient[dim={_dim}]', targets=[T('eval_shape_fun_der'), T('eval_shape_fun')], timeout=120000)
    def h_shape_der(ctx, it, dim=_dim):
        """dN[i,c] * h == N_c(p + h e_i) - N_c(p) for every h (exact for multilinear functions): dN is the gradient of N"""
        dom, units, pos = _shape_setup(ctx, it, dim)
        N0 = it.call(it.getattr(dom, 'eval_shape_fun'), [pos])
        dN = it.call(it.getattr(dom, 'eval_shape_fun_der'), [pos])
        ctx.prove('shape', tuple(dN.shape) == (dim, 2 ** dim))
        h = ctx.sym('h', 'real')
        for i in range(dim):
            p2 = to_carr([V.add(pos.data[a], h) if a == i else pos.data[a] for a in range(dim)])
            N1 = it.call(it.getattr(dom, 'eval_shape_fun'), [p2])
            for c in range(2 ** dim):
                ctx.prove(f'divided_difference[{i},{c}]', V.cmp('==', V.mul(dN.data[i, c], h), V.sub(N1.data[c], N0.data[c])))


for _dim in (2, 3):
    @harness(P, f'get_elemconnectivity.array_args[dim={_dim}]', targets=[T('get_elemconnectivity')], replay=GRID_REPLAY)
    def h_elemconn_arr(ctx, it, dim=_dim):
        """vectorised form: for index arrays of any (here rank-dim, symbolic) shape the result has the argument shape plus a trailing
        local-node axis, result[..., c] = corner c of element (i[...], j[...], k[...])"""
        dom, (nx, ny, nz), _ = sym_domain(ctx, it, dim)
        shp = tuple(ctx.sym(f's{a}') for a in range(dim))
        for s in shp:
            ctx.assume(s >= 1)
        fs = [ctx.fresh_fun(n, *([z3.IntSort()] * dim), z3.IntSort()) for n in 'IJK']
        arrs = [LArr(shp, (lambda idx, F=F: F(*[V.zint(x) for x in idx])), 'int') for F in fs]
        if dim == 2:
            arrs[2] = 0
        c = it.call(it.getattr(dom, 'get_elemconnectivity'), arrs)
        ctx.prove('rank', c.ndim == dim + 1)
        ctx.prove('shape', z3.And(*[V.zbool(V.cmp('==', c.shape[a], shp[a])) for a in range(dim)] + [V.zbool(V.cmp('==', c.shape[dim], 2 ** dim))]) if c.ndim == dim + 1 else False)
        pt = tuple(ctx.fresh('o') for _ in range(dim))
        for a in range(dim):
            ctx.assume(z3.And(pt[a] >= 0, pt[a] < shp[a]))
        f = it.getattr(dom, 'get_nodenumber')
        if c.ndim == dim + 1:
            for cc in range(2 ** dim):
                off = [(cc >> a) & 1 if a < dim else 0 for a in range(3)]
                ijk = [arrs[a].at(*pt) if isinstance(arrs[a], LArr) else arrs[a] for a in range(3)]
                want = it.call(f, [V.add(ijk[0], off[0]), V.add(ijk[1], off[1]), V.add(ijk[2], off[2])])
                ctx.prove(f'corner[{cc}]', V.cmp('==', c.at(*pt, cc), want))
