"""C12 - element-level operators (pymoto/modules/assembly.py: ElementOperation, Strain, Stress, ElementAverage, NodalOperation, ThermoMechanical)."""
import itertools
import numpy as np
import z3
from pvc import values as V
from pvc.values import CArr, LArr, Obj, PyExc
from pvc.arrays import to_carr, matmul
from pvc.runner import harness
from .common import DOMAIN
from .C08 import conc_domain, material, affine_field, voigt_strain, node_pos, quad, all_eq, mk_module, functools_prod, functools_sum, T
from .C18 import mk_signal

P = 'C12'


def shear_rows(dim):
    return [2] if dim == 2 else [3, 4, 5]


for _dim in (2, 3):
    @harness(P, f'Strain.affine_normal[dim={_dim}]', targets=[T('Strain._prepare'), T('get_B')], timeout=60000)
    def h_strain(ctx, it, dim=_dim):
        """for any affine displacement field the element strain operator returns the normal strains of sym G exactly (voigt True and False);
        the shear rows are the right components up to the known doubling (finding C12-shear-doubled, separate harness)"""
        dom, units = conc_domain(ctx, it, dim)
        G, t, u = affine_field(ctx, dim, units)
        for voigt in (True, False):
            mod = mk_module(it, 'Strain', dom, voigt=voigt)
            Bm = it.getattr(mod, 'element_matrix')
            ctx.prove(f'shape[{voigt}]', tuple(Bm.shape) == (3 if dim == 2 else 6, dim * 2 ** dim))
            eps = matmul(ctx, Bm, u)
            want = voigt_strain(G, dim, True)
            for r in range(dim):
                ctx.prove(f'normal_strain[{voigt},{r}]', V.cmp('==', eps.data[r], want[r]))
            for r in shear_rows(dim):
                # right component in the right (Voigt: yz, zx, xy) row, some fixed positive multiple of the engineering shear
                ctx.prove(f'shear_component_position[{voigt},{r}]', z3.Or(V.zreal(eps.data[r]) == V.zreal(want[r]), V.zreal(eps.data[r]) == 2 * V.zreal(want[r])))

    @harness(P, f'Strain.affine_shear[dim={_dim}]', targets=[T('Strain._prepare')], finding='C12-shear-doubled', timeout=60000)
    def h_strain_shear(ctx, it, dim=_dim):
        """FINDING region: engineering shear in Voigt form, gamma = G_ij + G_ji (the code returns twice that)"""
        dom, units = conc_domain(ctx, it, dim)
        G, t, u = affine_field(ctx, dim, units)
        mod = mk_module(it, 'Strain', dom, voigt=True)
        eps = matmul(ctx, it.getattr(mod, 'element_matrix'), u)
        want = voigt_strain(G, dim, True)
        for r in shear_rows(dim):
            ctx.prove(f'engineering_shear[{r}]', V.cmp('==', eps.data[r], want[r]))


for _dim, _plane in ((2, 'strain'), (2, 'stress'), (3, 'strain')):
    @harness(P, f'Stress.D_times_strain[dim={_dim},{_plane}]', targets=[T('Stress._prepare'), T('Strain._prepare'), T('get_D')], timeout=60000)
    def h_stress(ctx, it, dim=_dim, plane=_plane):
        """the stress operator is the constitutive matrix (times the out-of-plane thickness in 2D) times the Voigt strain operator"""
        dom, units = conc_domain(ctx, it, dim)
        E, nu = material(ctx)
        smod = mk_module(it, 'Strain', dom, voigt=True)
        mod = mk_module(it, 'Stress', dom, e_modulus=E, poisson_ratio=nu, plane=plane)
        D = it.call(it.get_function(T('get_D')), [E, nu, '3d' if dim == 3 else plane])
        Bs = it.getattr(smod, 'element_matrix')
        S = it.getattr(mod, 'element_matrix')
        thick = units[2] if dim == 2 else 1
        want = matmul(ctx, D, Bs)
        ctx.prove('shape', tuple(S.shape) == tuple(Bs.shape))
        for r in range(S.shape[0]):
            ctx.prove(f'row[{r}]', all_eq(list(S.data[r]), [V.mul(thick, w) for w in want.data[r]]))

    @harness(P, f'energy_identity.shear_free[dim={_dim},{_plane}]', targets=[T('Stress._prepare'), T('Strain._prepare'), T('AssembleStiffness._prepare')],
             timeout=120000, tier=('quick' if _dim == 2 else 'thorough'))
    def h_energy(ctx, it, dim=_dim, plane=_plane):
        """V_e stress.strain = u^T K_e u for affine fields without shear (unit out-of-plane thickness in 2D); with shear the known doubling
        breaks it (finding harness below)"""
        dom, units = conc_domain(ctx, it, dim)
        if dim == 2:
            ctx.assume(units[2] == 1)
        E, nu = material(ctx)
        G, t, u = affine_field(ctx, dim, units)
        for i in range(dim):
            for j in range(dim):
                if i != j:
                    ctx.assume(V.zreal(G[i][j]) == -V.zreal(G[j][i]))       # no shear strain (rotation allowed)
        Bs = it.getattr(mk_module(it, 'Strain', dom, voigt=True), 'element_matrix')
        Ss = it.getattr(mk_module(it, 'Stress', dom, e_modulus=E, poisson_ratio=nu, plane=plane), 'element_matrix')
        K = it.getattr(mk_module(it, 'AssembleStiffness', dom, e_modulus=E, poisson_ratio=nu, plane=plane), 'stiffness_element')
        eps, sig = matmul(ctx, Bs, u), matmul(ctx, Ss, u)
        vol = functools_prod(units[:dim])
        ctx.prove('energy', V.cmp('==', V.mul(vol, functools_sum([V.mul(a, b) for a, b in zip(sig.data, eps.data)])), quad(K, u)))


@harness(P, 'energy_identity.with_shear[dim=2]', targets=[T('Stress._prepare'), T('Strain._prepare'), T('AssembleStiffness._prepare')], finding='C12-shear-doubled', timeout=4000)
def h_energy_shear(ctx, it):
    """FINDING region: the energy identity for a general affine field (fails through the doubled shear rows)"""
    dom, units = conc_domain(ctx, it, 2)
    ctx.assume(units[2] == 1)
    E, nu = material(ctx)
    G, t, u = affine_field(ctx, 2, units)
    Bs = it.getattr(mk_module(it, 'Strain', dom, voigt=True), 'element_matrix')
    Ss = it.getattr(mk_module(it, 'Stress', dom, e_modulus=E, poisson_ratio=nu, plane='stress'), 'element_matrix')
    K = it.getattr(mk_module(it, 'AssembleStiffness', dom, e_modulus=E, poisson_ratio=nu, plane='stress'), 'stiffness_element')
    eps, sig = matmul(ctx, Bs, u), matmul(ctx, Ss, u)
    ctx.prove('energy', V.cmp('==', V.mul(functools_prod(units[:2]), functools_sum([V.mul(a, b) for a, b in zip(sig.data, eps.data)])), quad(K, u)))


for _dim in (1, 2, 3):
    @harness(P, f'ElementAverage.centroid[dim={_dim}]', targets=[T('ElementAverage._prepare'), f'{DOMAIN}.eval_shape_fun'])
    def h_avg(ctx, it, dim=_dim):
        """the averaging operator holds the shape functions at the centroid, 2^-dim each, so a linear nodal field is mapped to its centroid value"""
        dom, units = conc_domain(ctx, it, dim)
        mod = mk_module(it, 'ElementAverage', dom)
        w = it.getattr(mod, 'element_matrix')
        ctx.prove('weights.shape', tuple(w.shape) == (2 ** dim,))
        ctx.prove('weights', all_eq(list(w.data), [V.div(1, 2 ** dim)] * (2 ** dim)))
        g = [ctx.sym(f'g{a}', 'real') for a in range(dim)]
        c0 = ctx.sym('c0', 'real')
        lin = [V.add(c0, functools_sum([V.mul(g[a], node_pos(dim, units, c)[a]) for a in range(dim)])) for c in range(2 ** dim)]
        ctx.prove('linear_field_centroid_value', V.cmp('==', functools_sum([V.mul(a, b) for a, b in zip(w.data, lin)]), c0))


GRIDS = [((2, 1, 0), 1), ((2, 2, 0), 2), ((1, 2, 0), 3), ((1, 1, 1), 1), ((2, 1, 1), 3)]

for (_size, _ndof) in GRIDS:
    @harness(P, f'ElementOperation.gather_apply[{_size[0]}x{_size[1]}x{_size[2]},ndof={_ndof}]',
             targets=[T('ElementOperation._response'), T('ElementOperation._prepare'), T('NodalOperation._response'), T('NodalOperation._prepare')], timeout=60000)
    def h_elop(ctx, it, size=_size, ndof=_ndof):
        """ElementOperation: y[..., e] = B u_e (per-dof operator), and with a per-node operator the same operator is applied to every dof separately
        (y[d, ..., e] = B u_e[d::ndof]); NodalOperation with the same matrix is its transpose: <EO(u), y> = <u, NO(y)>; inputs untouched"""
        ctx.safety_on = False
        dom = it.call(it.get_function(DOMAIN), list(size))
        dim = 2 if size[2] == 0 else 3
        en = 2 ** dim
        nel, nn = it.getattr(dom, 'nel'), it.getattr(dom, 'nnodes')
        conn = np.array([[int(v) for v in row] for row in it.getattr(dom, 'conn').data.tolist()])
        dofconn = (conn[:, :, None] * ndof + np.arange(ndof)[None, None, :]).reshape(nel, -1)
        us = [ctx.sym(f'u{k}', 'real') for k in range(ndof * nn)]
        u = to_carr(us)
        # (a) operator over all element dofs, two output rows
        Bv = [[ctx.sym(f'B{r}_{k}', 'real') for k in range(en * ndof)] for r in range(2)]
        mod = mk_module(it, 'ElementOperation', dom, to_carr(Bv))
        y = it.call(it.getattr(mod, '_response'), [u])
        ctx.prove('full.shape', tuple(y.shape) == (2, nel))
        for e in range(nel):
            for r in range(2):
                want = functools_sum([V.mul(Bv[r][k], us[dofconn[e, k]]) for k in range(en * ndof)])
                ctx.prove(f'full.value[{r},{e}]', V.cmp('==', y.data[r, e], want))
        # transpose relation with NodalOperation for the same matrix (1-D operator)
        bv = [ctx.sym(f'b{k}', 'real') for k in range(en * ndof)]
        eo = mk_module(it, 'ElementOperation', dom, to_carr(bv))
        no = mk_module(it, 'NodalOperation', dom, to_carr(bv))
        ys = [ctx.sym(f'y{e}', 'real') for e in range(nel)]
        eu = it.call(it.getattr(eo, '_response'), [u])
        ny = it.call(it.getattr(no, '_response'), [to_carr(ys)])
        ctx.prove('nodal.shape', tuple(ny.shape) == (ndof * nn,) and tuple(eu.shape) == (nel,))
        ctx.prove('nodal_is_transpose', V.cmp('==', functools_sum([V.mul(a, b) for a, b in zip(eu.data, ys)]), functools_sum([V.mul(a, b) for a, b in zip(us, ny.data)])))
        for k in range(ndof * nn):
            want = functools_sum([V.mul(bv[i], ys[e]) for e in range(nel) for i in range(en * ndof) if dofconn[e, i] == k])
            ctx.prove(f'nodal.scatter[{k}]', V.cmp('==', ny.data[k], want))
        # the same with the two-row operator of (a): NodalOperation takes a (2, nel) field and is the transpose of the (2, nel)-valued ElementOperation
        no2 = mk_module(it, 'NodalOperation', dom, to_carr(Bv))
        Ys = [[ctx.sym(f'Y{r}_{e}', 'real') for e in range(nel)] for r in range(2)]
        nY = it.call(it.getattr(no2, '_response'), [to_carr(Ys)])
        ctx.prove('nodal.two_rows.shape', tuple(nY.shape) == (ndof * nn,))
        ctx.prove('nodal.two_rows.is_transpose', V.cmp('==', functools_sum([V.mul(y.data[r, e], Ys[r][e]) for r in range(2) for e in range(nel)]),
                                                       functools_sum([V.mul(a, b) for a, b in zip(us, nY.data)])))
        for k in range(ndof * nn):
            want = functools_sum([V.mul(Bv[r][i], Ys[r][e]) for r in range(2) for e in range(nel) for i in range(en * ndof) if dofconn[e, i] == k])
            ctx.prove(f'nodal.two_rows.scatter[{k}]', V.cmp('==', nY.data[k], want))
        # a second response must not accumulate into the previous result
        ny2 = it.call(it.getattr(no, '_response'), [to_carr(ys)])
        ctx.prove('nodal.second_call_fresh', ny2 is not ny)
        ctx.prove('nodal.second_call_equal', all_eq(list(ny2.data), list(ny.data)))
        # (b) per-node operator applied per dof
        if ndof > 1:
            pv = [ctx.sym(f'p{k}', 'real') for k in range(en)]
            mod2 = mk_module(it, 'ElementOperation', dom, to_carr(pv))
            y2 = it.call(it.getattr(mod2, '_response'), [u])
            ctx.prove('pernode.shape', tuple(y2.shape) == (ndof, nel))
            for e in range(nel):
                for d in range(ndof):
                    want = functools_sum([V.mul(pv[c], us[conn[e, c] * ndof + d]) for c in range(en)])
                    ctx.prove(f'pernode.value[{d},{e}]', V.cmp('==', y2.data[d, e], want))
            y3 = it.call(it.getattr(mod2, '_response'), [u])
            ctx.prove('pernode.second_call_shape', tuple(y3.shape) == (ndof, nel))
            ctx.prove('pernode.second_call_equal', all_eq(list(y3.data.reshape(-1)), list(y2.data.reshape(-1))) if tuple(y3.shape) == (ndof, nel) else False)
        ctx.prove('input_untouched', all(u.data[k] is us[k] for k in range(len(us))))


for _dim, _plane in ((2, 'strain'), (2, 'stress'), (3, 'strain')):
    @harness(P, f'ThermoMechanical.element_load[dim={_dim},{_plane}]', targets=[T('ThermoMechanical._prepare'), T('get_B'), T('get_D')], timeout=120000,
             tier=('quick' if _dim == 2 else 'thorough'))
    def h_thermo(ctx, it, dim=_dim, plane=_plane):
        """the thermal element load is self-equilibrated (orthogonal to every rigid motion) and, in plane stress and 3D, equals the element stiffness
        times the free thermal expansion field u_th = alpha * p"""
        dom, units = conc_domain(ctx, it, dim)
        E, nu = material(ctx)
        alpha = ctx.sym('alpha', 'real')
        mod = mk_module(it, 'ThermoMechanical', dom, e_modulus=E, poisson_ratio=nu, alpha=alpha, plane=plane)
        f = it.getattr(mod, 'element_matrix')
        n = dim * 2 ** dim
        ctx.prove('shape', tuple(f.shape) == (n,))
        G, t, r = affine_field(ctx, dim, units)
        skew = z3.And(*[V.zreal(G[i][j]) == -V.zreal(G[j][i]) for i in range(dim) for j in range(dim)])
        ctx.prove('self_equilibrated', z3.Implies(skew, V.zreal(functools_sum([V.mul(a, b) for a, b in zip(f.data, r.data)])) == 0))
        if dim == 3 or plane == 'stress':
            K = it.getattr(mk_module(it, 'AssembleStiffness', dom, e_modulus=E, poisson_ratio=nu, plane=plane), 'stiffness_element')
            uth = to_carr([V.mul(alpha, node_pos(dim, units, c)[i]) for c in range(2 ** dim) for i in range(dim)])
            Ku = matmul(ctx, K, uth)
            ctx.prove('equals_K_times_free_expansion', all_eq(list(f.data), list(Ku.data)))
