"""C08 - finite-element assembly (pymoto/modules/assembly.py: AssembleGeneral, AssembleStiffness/Mass/Poisson, get_B, get_D).

Element level: the real Gauss-integration code is executed with SYMBOLIC element sizes and material data (sqrt(3) as an algebraic number);
symmetry, rigid-body null space, constitutive positive semi-definiteness, mass and Poisson identities are nonlinear-real obligations.
Assembly level: the triplet family built by _prepare/_response is proved equal to the scatter specification (index level, symbolic grid, no
bc) and, with boundary conditions / constants / matrix types, on enumerated small grids with symbolic contents.
"""
import itertools
import functools
import numpy as np
import z3
from pvc import values as V
from pvc.values import Cx  # noqa: F401
from pvc.values import CArr, LArr, Obj, PyExc
from pvc.arrays import to_carr, matmul, elementwise
from pvc.runner import harness
from .common import DOMAIN, euclid, mul_mono
from .C18 import arr, mk_signal

P = 'C08'
ASM = 'pymoto.modules.assembly'
T = lambda m: f'{ASM}:{m}'


def conc_domain(ctx, it, dim, n=(2, 2, 2)):
    ux, uy, uz = ctx.sym('hx', 'real'), ctx.sym('hy', 'real'), ctx.sym('hz', 'real')
    for u in (ux, uy, uz):
        ctx.assume(u > 0)
    size = [n[0], n[1] if dim >= 2 else 0, n[2] if dim == 3 else 0]
    ctx.safety_on = False
    dom = it.call(it.get_function(DOMAIN), size + [ux, uy, uz])
    return dom, (ux, uy, uz)


def material(ctx):
    E, nu = ctx.sym('E', 'real'), ctx.sym('nu', 'real')
    ctx.assume(z3.And(E > 0, nu > -1, 2 * nu < 1))
    return E, nu


def node_pos(dim, units, c):
    """coordinates of local node c relative to the element centre"""
    return [V.mul(V.div(units[a], 2), (1 if (c >> a) & 1 else -1)) for a in range(dim)]


def affine_field(ctx, dim, units, tag='G'):
    """u(p) = t + G p at the element's nodes -> element dof vector, with the symbolic gradient G and translation t"""
    G = [[ctx.sym(f'{tag}{i}{j}', 'real') for j in range(dim)] for i in range(dim)]
    t = [ctx.sym(f't{i}', 'real') for i in range(dim)]
    u = []
    for c in range(2 ** dim):
        p = node_pos(dim, units, c)
        for i in range(dim):
            v = t[i]
            for j in range(dim):
                v = V.add(v, V.mul(G[i][j], p[j]))
            u.append(v)
    return G, t, to_carr(u)


def voigt_strain(G, dim, voigt=True):
    if dim == 2:
        return [G[0][0], G[1][1], V.add(G[0][1], G[1][0])]
    g = lambda a, b: V.add(G[a][b], G[b][a])
    return [G[0][0], G[1][1], G[2][2]] + ([g(1, 2), g(2, 0), g(0, 1)] if voigt else [g(0, 1), g(1, 2), g(2, 0)])


def quad(K, u):
    return matmul(None, to_carr(list(u.data)), matmul(None, K, u))


def all_eq(a, b):
    return z3.And(*[V.zbool(V.cmp('==', x, y)) for x, y in zip(a, b)])


for _dim in (2, 3):
    @harness(P, f'get_B.affine_strain[dim={_dim}]', targets=[T('get_B'), f'{DOMAIN}.eval_shape_fun_der'], timeout=60000)
    def h_getB(ctx, it, dim=_dim):
        """at every point of the element B(p) u_affine = Voigt(sym G) (engineering shear), for both shear orderings in 3D"""
        dom, units = conc_domain(ctx, it, dim)
        G, t, u = affine_field(ctx, dim, units)
        pos = to_carr([ctx.sym(f'p{a}', 'real') for a in range(dim)])
        dN = it.call(it.getattr(dom, 'eval_shape_fun_der'), [pos])
        for voigt in ((True, False) if dim == 3 else (True,)):
            B = it.call(it.get_function(T('get_B')), [dN, voigt])
            ctx.prove(f'shape[{voigt}]', tuple(B.shape) == (3 if dim == 2 else 6, dim * 2 ** dim))
            eps = matmul(ctx, B, u)
            want = voigt_strain(G, dim, voigt)
            for r in range(len(want)):
                ctx.prove(f'strain_row[{voigt},{r}]', V.cmp('==', eps.data[r], want[r]))


for _mode in ('strain', 'stress', '3d', 'Plane Strain', 'STRESS'):
    @harness(P, f'get_D.symmetric_psd[{_mode}]', targets=[T('get_D')], timeout=60000)
    def h_getD(ctx, it, mode=_mode):
        """D is symmetric and eps^T D eps >= 0 for E > 0, -1 < nu < 1/2; it is the inverse of the compliance of the stated plane mode"""
        E, nu = material(ctx)
        D = it.call(it.get_function(T('get_D')), [E, nu, mode])
        n = D.shape[0]
        ctx.prove('shape', tuple(D.shape) == ((6, 6) if '3d' in mode.lower() else (3, 3)))
        ctx.prove('symmetric', all_eq([D.data[i, j] for i in range(n) for j in range(n)], [D.data[j, i] for i in range(n) for j in range(n)]))
        e = to_carr([ctx.sym(f'e{k}', 'real') for k in range(n)])
        q = quad(D, e)
        if n == 3:
            ctx.prove('psd', V.cmp('>=', q, 0))
        else:
            # 3D: split into the normal block and the (diagonal) shear block
            en = to_carr([e.data[0], e.data[1], e.data[2], 0, 0, 0])
            es = to_carr([0, 0, 0, e.data[3], e.data[4], e.data[5]])
            ctx.prove('psd.normal_block', V.cmp('>=', quad(D, en), 0))
            ctx.prove('psd.shear_block', V.cmp('>=', quad(D, es), 0))
            ctx.prove('psd.blocks_decouple', V.cmp('==', q, V.add(quad(D, en), quad(D, es))))
        # constitutive meaning: sigma = D eps reproduces Hooke's law of the mode
        s = matmul(ctx, D, e)
        m = mode.lower()
        if 'stress' in m:
            # plane stress: eps_x = (s_x - nu s_y)/E, eps_y = (s_y - nu s_x)/E, gamma = 2(1+nu)/E tau
            ctx.prove('hooke', z3.And(V.zreal(e.data[0]) * E == V.zreal(s.data[0]) - nu * V.zreal(s.data[1]),
                                      V.zreal(e.data[1]) * E == V.zreal(s.data[1]) - nu * V.zreal(s.data[0]),
                                      V.zreal(e.data[2]) * E == 2 * (1 + nu) * V.zreal(s.data[2])))
        elif 'strain' in m:
            # plane strain: s_z = nu (s_x + s_y); eps_x = (s_x - nu (s_y + s_z))/E
            sz = nu * (V.zreal(s.data[0]) + V.zreal(s.data[1]))
            ctx.prove('hooke', z3.And(V.zreal(e.data[0]) * E == V.zreal(s.data[0]) - nu * (V.zreal(s.data[1]) + sz),
                                      V.zreal(e.data[1]) * E == V.zreal(s.data[1]) - nu * (V.zreal(s.data[0]) + sz),
                                      V.zreal(e.data[2]) * E == 2 * (1 + nu) * V.zreal(s.data[2])))
        else:
            ctx.prove('hooke', z3.And(*[V.zreal(e.data[a]) * E == V.zreal(s.data[a]) - nu * (V.zreal(s.data[(a + 1) % 3]) + V.zreal(s.data[(a + 2) % 3])) for a in range(3)]
                                      + [V.zreal(e.data[3 + a]) * E == 2 * (1 + nu) * V.zreal(s.data[3 + a]) for a in range(3)]))


@harness(P, 'get_D.invalid_mode', targets=[T('get_D')])
def h_getD_bad(ctx, it):
    try:
        it.call(it.get_function(T('get_D')), [1, 0, 'axisymmetric'])
        ctx.prove('raises', False)
    except PyExc as e:
        ctx.prove('raises', e.cls == 'ValueError')


def mk_module(it, cname, dom, *args, **kw):
    mod = it.new_object(it.get_function(T(cname)), sig_in=[], sig_out=[])
    it.call(it.getattr(mod, '_prepare'), [dom] + list(args), kw)
    return mod


for _dim, _plane in ((2, 'strain'), (2, 'stress'), (3, 'strain')):
    @harness(P, f'AssembleStiffness.element[dim={_dim},{_plane}]', targets=[T('AssembleStiffness._prepare'), T('get_B'), T('get_D')], timeout=120000,
             tier=('quick' if _dim == 2 else 'thorough'))
    def h_stiff(ctx, it, dim=_dim, plane=_plane):
        """K_e is symmetric, annihilates the 3 (2D) / 6 (3D) rigid motions, equals V_e * thickness * B^T D B on affine fields (so the energy of an
        affine field is V_e eps^T D eps >= 0), and carries the out-of-plane thickness in 2D"""
        dom, units = conc_domain(ctx, it, dim)
        E, nu = material(ctx)
        mod = mk_module(it, 'AssembleStiffness', dom, e_modulus=E, poisson_ratio=nu, plane=plane)
        K = it.getattr(mod, 'stiffness_element')
        n = dim * 2 ** dim
        ctx.prove('shape', tuple(K.shape) == (n, n))
        ctx.prove('same_as_assembled_element_matrix', it.getattr(mod, 'elmat') is K)
        for i in range(n):
            ctx.prove(f'symmetric_row[{i}]', all_eq([K.data[i, j] for j in range(i + 1, n)], [K.data[j, i] for j in range(i + 1, n)]) if i < n - 1 else True)
        G, t, u = affine_field(ctx, dim, units)
        Ku = matmul(ctx, K, u)
        skew = z3.And(*[V.zreal(G[i][j]) == -V.zreal(G[j][i]) for i in range(dim) for j in range(dim)])
        for r in range(n):
            ctx.prove(f'rigid_motion_annihilated[{r}]', z3.Implies(skew, V.zreal(Ku.data[r]) == 0))
        # energy of an affine field = V_e * thickness * eps^T D eps
        D = it.call(it.get_function(T('get_D')), [E, nu, '3d' if dim == 3 else plane])
        eps = to_carr(voigt_strain(G, dim))
        vol = functools_prod(units[:dim]) if True else None
        thick = units[2] if dim == 2 else 1
        ctx.prove('affine_energy', V.cmp('==', quad(K, u), V.mul(V.mul(vol, thick), quad(D, eps))))


def functools_prod(xs):
    r = 1
    for x in xs:
        r = V.mul(r, x)
    return r


for _dim, _ndof in ((2, 1), (2, 2), (3, 1), (3, 3), (2, 3)):
    @harness(P, f'AssembleMass.element[dim={_dim},ndof={_ndof}]', targets=[T('AssembleMass._prepare')], timeout=120000)
    def h_mass(ctx, it, dim=_dim, ndof=_ndof):
        """the element mass matrix is symmetric and carries total mass rho*V_e (times thickness in 2D) per direction, none across directions;
        the default diagonal value for constrained dofs is 0"""
        dom, units = conc_domain(ctx, it, dim)
        rho = ctx.sym('rho', 'real')
        ctx.assume(rho > 0)
        mod = mk_module(it, 'AssembleMass', dom, material_property=rho, ndof=ndof)
        M = it.getattr(mod, 'el_mat')
        n = ndof * 2 ** dim
        ctx.prove('shape', tuple(M.shape) == (n, n) and it.getattr(mod, 'elmat') is M)
        ctx.prove('symmetric', all_eq([M.data[i, j] for i in range(n) for j in range(n)], [M.data[j, i] for i in range(n) for j in range(n)]))
        vol = functools_prod(units)        # 2D: area * thickness
        for a in range(ndof):
            for b in range(ndof):
                tot = 0
                for i in range(2 ** dim):
                    for j in range(2 ** dim):
                        tot = V.add(tot, M.data[i * ndof + a, j * ndof + b])
                ctx.prove(f'total_mass[{a},{b}]', V.cmp('==', tot, V.mul(rho, vol) if a == b else 0))
        ctx.prove('bcdiagval_default_zero', V.cmp('==', it.getattr(mod, 'bcdiagval'), 0))


for _dim in (2, 3):
    @harness(P, f'AssemblePoisson.element[dim={_dim}]', targets=[T('AssemblePoisson._prepare')], timeout=120000)
    def h_poisson(ctx, it, dim=_dim):
        """P_e is symmetric, annihilates constants and reproduces the energy k*V_e*|grad|^2 of a linear field"""
        dom, units = conc_domain(ctx, it, dim)
        k = ctx.sym('k', 'real')
        ctx.assume(k > 0)
        mod = mk_module(it, 'AssemblePoisson', dom, material_property=k)
        Pm = it.getattr(mod, 'poisson_element')
        n = 2 ** dim
        ctx.prove('shape', tuple(Pm.shape) == (n, n) and it.getattr(mod, 'elmat') is Pm)
        ctx.prove('symmetric', all_eq([Pm.data[i, j] for i in range(n) for j in range(n)], [Pm.data[j, i] for i in range(n) for j in range(n)]))
        ones = to_carr([1] * n)
        P1 = matmul(ctx, Pm, ones)
        ctx.prove('constants_annihilated', all_eq(list(P1.data), [0] * n))
        g = [ctx.sym(f'g{a}', 'real') for a in range(dim)]
        c0 = ctx.sym('c0', 'real')
        lin = to_carr([V.add(c0, functools_sum([V.mul(g[a], node_pos(dim, units, c)[a]) for a in range(dim)])) for c in range(n)])
        vol = functools_prod(units)
        ctx.prove('linear_field_energy', V.cmp('==', quad(Pm, lin), V.mul(V.mul(k, vol), functools_sum([V.mul(x, x) for x in g]))))


def functools_sum(xs):
    r = 0
    for x in xs:
        r = V.add(r, x)
    return r


# ------------------------------------------------------------------------------------------------ assembly = scaled scatter
def dense_scatter_spec(dofconn, K, x, n):
    A = np.empty((n, n), dtype=object)
    A[...] = 0
    nel, k = dofconn.shape
    for e in range(nel):
        for i in range(k):
            for j in range(k):
                A[dofconn[e, i], dofconn[e, j]] = V.add(A[dofconn[e, i], dofconn[e, j]], V.mul(x[e], K[i][j]))
    return A


GRIDS = [((2, 1, 0), 1), ((2, 2, 0), 2), ((1, 1, 1), 1), ((2, 1, 1), 1)]

for (_size, _ndof), _bc, _mt in list(itertools.product(GRIDS, ('none', 'some', 'empty'), ('csc', 'csr'))) + [(((2, 1, 0), 1), 'some', 'csc-complex-x'), (((2, 1, 0), 1), 'none', 'csc-complex-x')]:
    if _mt == 'csr' and _bc != 'some':
        continue

    @harness(P, f'AssembleGeneral.scatter[{_size[0]}x{_size[1]}x{_size[2]},ndof={_ndof},bc={_bc},{_mt}]',
             targets=[T('AssembleGeneral._prepare'), T('AssembleGeneral._response'), f'{DOMAIN}.get_dofconnectivity'], timeout=60000)
    def h_scatter(ctx, it, size=_size, ndof=_ndof, bc=_bc, mt=_mt):
        """A = sum_e x_e scatter(K_e) (+ constant) for a general, non-symmetric symbolic element matrix; rows and columns of constrained dofs are
        zero with the chosen value (default max K_e; an explicit 0 is respected) on their diagonal; inputs are not modified"""
        ctx.safety_on = False
        dom = it.call(it.get_function(DOMAIN), list(size))
        dim = 2 if size[2] == 0 else 3
        k = ndof * 2 ** dim
        Kv = [[ctx.sym(f'K{i}_{j}', 'real') for j in range(k)] for i in range(k)]
        K = to_carr(Kv)
        nel = it.getattr(dom, 'nel')
        nn = it.getattr(dom, 'nnodes')
        n = ndof * nn
        cx_x = mt.endswith('complex-x')          # complex scaling vector (e.g. a complex-valued material interpolation): the matrix is complex
        mt = mt.split('-')[0]
        xs = [Cx(ctx.sym(f'x{e}r', 'real'), ctx.sym(f'x{e}i', 'real')) if cx_x else ctx.sym(f'x{e}', 'real') for e in range(nel)]
        x = CArr(to_carr(xs).data, 'complex') if cx_x else to_carr(xs)
        if cx_x:
            ctx.safety_on = True                 # storing a complex value into a real buffer is a (silent) loss of the imaginary part
        conn = np.array([[int(v) for v in row] for row in it.getattr(dom, 'conn').data.tolist()])
        dofconn = (conn[:, :, None] * ndof + np.arange(ndof)[None, None, :]).reshape(nel, -1)
        bcs = {'none': None, 'empty': [], 'some': [n - 1, 0, ndof]}[bc]
        from pvc import nplib
        sps = it.lib.ns_attr(it, __import__('pvc.interp', fromlist=['Namespace']).Namespace('sps'), mt + '_matrix')
        for diag in (None, 0, ctx.sym('dval', 'real')):
            for const in ((None, 'dense') if bc == 'some' and mt == 'csc' else (None,)):
                Cm = None
                if const:
                    Cm = CArr(to_carr([[ctx.sym(f'C{i}_{j}', 'real') for j in range(n)] for i in range(n)]).data)
                kw = dict(bc=(to_carr(bcs) if bcs else (CArr(np.empty((0,), dtype=object), 'int') if bcs == [] else None)), bcdiagval=diag, matrix_type=sps, add_constant=Cm)
                if bcs is None:
                    kw['bc'] = None
                mod = mk_module(it, 'AssembleGeneral', dom, K, **kw)
                A = it.call(it.getattr(mod, '_response'), [x])
                tag = f'[diag={"default" if diag is None else ("0" if (isinstance(diag, int) and diag == 0) else "sym")},const={const}]'
                ctx.prove(f'matrix_type{tag}', (isinstance(A, Obj) and A.fields.get('sparse_format') == mt) if Cm is None else True)
                Ad = A.fields['dense'].data if isinstance(A, Obj) else A.data
                spec = dense_scatter_spec(dofconn, Kv, xs, n)
                if diag is None:
                    dv = Kv[0][0]
                    for row in Kv:
                        for v in row:
                            dv = V.maxv(dv, v)
                else:
                    dv = diag
                ok = []
                for r in range(n):
                    for c in range(n):
                        if bcs and (r in bcs or c in bcs):
                            want = dv if (r == c) else 0
                        else:
                            want = spec[r, c]
                        if Cm is not None:
                            want = V.add(want, Cm.data[r, c])
                        ok.append(V.zbool(V.cmp('==', Ad[r, c], want)))
                ctx.prove(f'equals_scaled_scatter{tag}', z3.And(*ok))
                ctx.prove(f'inputs_untouched{tag}', all(x.data[e] is xs[e] for e in range(nel)) and all(K.data[i, j] is Kv[i][j] for i in range(k) for j in range(k)))
