"""C11 - EigenSolve returns genuine, normalised, ordered eigenpairs (pymoto/modules/linalg.py: EigenSolve._prepare/_response/_sparse_eigs).

LAPACK / ARPACK enter through their contracts (pvc/nplib.py: spla.eigh / spla.eig / spsla.eigsh / spsla.eigs return pairs with
A Q = B Q diag(W); eigh additionally ascending and B-orthonormal, eig with unit-norm columns; completeness of the dense spectrum and
"closest to the shift" are the libraries' own promises: not applicable).  What is proved is everything EigenSolve itself does with those
pairs, from the real source, for n = 2, 3 with SYMBOLIC matrix entries:

  * values and vectors are permuted by ONE permutation (the sorting function's), default ascending;
  * the in-place column scaling keeps  A q_i = lambda_i B q_i  and establishes  q_i^T B q_i = 1  (bilinear form, no conjugation);
  * for real vectors the mean entry is non-negative;
  * a user sorting function's order is respected;
  * the sparse path hands ARPACK an operator that acts as (A - sigma B)^-1 for the CURRENT matrices in every call (cached factorisation refreshed).
"""
import functools
import itertools
import numpy as np
import z3
from pvc import values as V
from pvc.values import CArr, LArr, Obj, Cx, PyExc, is_sym
from pvc.arrays import to_carr
from pvc.runner import harness
from .modcat import Sym, flat, mk_module
from .C01 import poly_zero

P = 'C11'
L = 'pymoto.modules.linalg'
MC = 'pymoto.solvers.matrix_checks'
ES = f'{L}:EigenSolve'


def sym_matrix(ctx, name, n, cls):
    """cls: 'sym' real symmetric | 'herm' complex Hermitian | 'gen' real general | 'cgen' complex general | 'csym' complex symmetric"""
    d = np.empty((n, n), dtype=object)
    for i in range(n):
        for j in range(n):
            if cls in ('sym', 'herm', 'csym') and j < i:
                d[i, j] = V.conj(d[j, i]) if cls == 'herm' else d[j, i]
                continue
            re = ctx.sym(f'{name}{i}{j}', 'real')
            if cls in ('sym', 'gen') or (cls == 'herm' and i == j):
                d[i, j] = re
            else:
                d[i, j] = Cx(re, ctx.sym(f'{name}{i}{j}i', 'real'))
    return CArr(d, 'real' if cls in ('sym', 'gen') else 'complex')


def dense_of(M):
    return M.fields['dense'] if isinstance(M, Obj) else M


def col(Q, i):
    return [Q.data[r, i] for r in range(Q.shape[0])]


def matvec(M, v, n):
    if M is None:
        return list(v)
    out = []
    for r in range(n):
        t = 0
        for c in range(n):
            t = V.add(t, V.mul(M.data[r, c], v[c]))
        out.append(t)
    return out


def bil(u, v):
    t = 0
    for a, b in zip(u, v):
        t = V.add(t, V.mul(a, b))
    return t


def eqc(a, b):
    return V.z(V.cmp('==', a, b))


def perm_cases(ctx, n):
    """[(sigma, substitution, condition)] for every value of the ghost permutation(s) introduced by argsort on this path"""
    user = getattr(ctx, 'user_perm', None)
    perms = [g[1] for g in ctx.ghost_log if g[0] == 'argsort']
    if not perms and not user:
        return [((), [], z3.BoolVal(True))]
    terms = user if user else [perms[-1](z3.IntVal(k)) for k in range(n)]
    out = []
    for sg in itertools.permutations(range(n)):
        sub = [(terms[k], z3.IntVal(sg[k])) for k in range(n)]
        out.append((sg, sub, z3.And(*[a == b for a, b in sub])))
    return out


def prove_by_perm(ctx, name, goal, n, keep=lambda h: True):
    """complete case split over the sort permutation: in each case the permutation is substituted into goal and hypotheses (the ite-chains of
    symbolic gathers collapse) and the goal is proved from the quantifier-free hypotheses"""
    hyps = [h for h in ctx.all_hyps() if not z3.is_quantifier(h)]
    for sg, sub, cond in perm_cases(ctx, n):
        hs = [z3.simplify(z3.substitute(h, *sub)) if sub else h for h in hyps]
        hs = [h for h in hs if not z3.is_true(h) and keep(h)]
        g = z3.simplify(z3.substitute(V.z(goal), *sub)) if sub else V.z(goal)
        # hs already contains the path condition with the case substituted; a case that contradicts the sortedness facts is vacuous
        ctx.path_obls.append(__import__('pvc.harness', fromlist=['Obligation']).Obligation(
            f"{ctx.prop}.{ctx.hname}.{name}[perm={''.join(map(str, sg))}]", hs, g, ctx.cur_line, 'post', path=list(d[0] for d in ctx.decisions)))


def norm_proves(g):
    """True when g is a conjunction of arithmetic equalities each of which is closed by z3's sum-of-monomials normal form"""
    if z3.is_true(g):
        return True
    if z3.is_and(g):
        return all(norm_proves(c) for c in g.children())
    if z3.is_eq(g) and z3.is_arith(g.arg(0)):
        return poly_zero(g.arg(0) - g.arg(1))
    return False


def same_equations(g, h):
    """g and h are (conjunctions of) arithmetic equalities  a = b  whose differences a - b agree pairwise up to sign in the normal form"""
    gs = list(g.children()) if z3.is_and(g) else [g]
    hs = list(h.children()) if z3.is_and(h) else [h]
    if len(gs) != len(hs) or not all(z3.is_eq(x) and z3.is_arith(x.arg(0)) for x in gs + hs):
        return False
    for a, b in zip(gs, hs):
        da, db = a.arg(0) - a.arg(1), b.arg(0) - b.arg(1)
        if not (poly_zero(da - db) or poly_zero(da + db)):
            return False
    return True


class Steps:
    """LCF-style proof steps.  A step is a GENERIC lemma (a template instantiated with fresh variables, discharged by the solver as a small
    query) applied to actual terms: the instance of the conclusion is recorded as established once every instantiated premise has itself been
    established by an earlier step (checked mechanically: an unestablished premise is a harness error, never silently assumed).
    The obligation posted carries the generic query as the reduced form and the actual instance (all path hypotheses) as the full form."""
    def __init__(self, ctx, tag, S, cond):
        self.ctx, self.tag, self.S, self.cond = ctx, tag, S, cond
        self.established = set()

    def key(self, f):
        return self.S(f).sexpr()

    def fact(self, name, f, hyps):
        """a fact proved directly from the listed hypotheses of the path (library contracts, side conditions, path condition)"""
        S = self.S
        if len(hyps) == 1 and same_equations(S(f), S(hyps[0])):
            self.ctx.prove(f'{name}[perm={self.tag}]', True)      # the goal is the hypothesis rearranged (difference of both sides has the same normal form)
        else:
            self.ctx.prove_isolated(f'{name}[perm={self.tag}]', S(f), [S(h) for h in hyps], full_goal=S(f), extra_full_hyps=[self.cond])
        self.established.add(self.key(f))
        return f

    def fresh_like(self, v):
        if isinstance(v, (list, tuple)):
            return [self.fresh_like(x) for x in v]
        if isinstance(v, Cx):
            return Cx(self.ctx.fresh('g', 'real'), self.ctx.fresh('g', 'real'))
        return self.ctx.fresh('g', 'real')

    def apply(self, name, template, actual, generalise):
        """template(*args) -> (premises, conclusion); `generalise` lists the argument positions replaced by fresh variables in the generic lemma"""
        gen_args = [self.fresh_like(a) if i in generalise else a for i, a in enumerate(actual)]
        prem_g, concl_g = template(*gen_args)
        prem_i, concl_i = template(*actual)
        for pr in prem_i:
            if self.key(pr) not in self.established:
                raise AssertionError(f'step {name}: premise not established: {self.S(pr).sexpr()[:300]}')
        S = self.S
        g = S(concl_g)
        if not prem_g and norm_proves(g):
            self.ctx.prove(f'{name}[perm={self.tag}]', True)      # polynomial identity closed by the sum-of-monomials normal form
        else:
            self.ctx.prove_isolated(f'{name}[perm={self.tag}]', g, [S(h) for h in prem_g], full_goal=S(concl_i), extra_full_hyps=[self.cond])
        self.established.add(self.key(concl_i))
        return concl_i


def check_pairs(ctx, it, A, B, W, Q, lib, watch, herm, n, m):
    """the returned (W, Q) against the library pairs in `lib` (m modes of size n): proof chain per mode, per value of the sort permutation.
    B is the matrix of the generalised problem as _response sees it (None for a standard problem)"""
    W0, Q0 = lib['W'], lib['Q']
    A, B = dense_of(A), dense_of(B)
    ok_shape = isinstance(W, CArr) and isinstance(Q, CArr) and tuple(W.shape) == (m,) and tuple(Q.shape) == (n, m)
    ctx.prove('shapes', ok_shape)
    if not ok_shape:
        return False
    Wl = [W.data[i] for i in range(m)]
    Ql = [[Q.data[r, c] for c in range(m)] for r in range(n)]
    sfs, nvs, sgns = watch['sf'], watch['normval'], watch['sgn']
    for g_ in (sfs, nvs, sgns):
        g_.count()          # a renamed local: out of reach, not a violation
    ctx.prove('one_scale_factor_per_mode', len(sfs) == m and len(nvs) == m and len(sgns) == m)
    if len(sfs) != m or len(nvs) != m or len(sgns) != m:
        return False
    real_q = Q.kind == 'real'
    # bilinear norm of every library vector; the code asserts that the scale factor is finite, i.e. this does not vanish
    Sp = [bil([Q0[r, j] for r in range(n)], matvec(B, [Q0[r, j] for r in range(n)], n)) for j in range(m)]
    if not (real_q and herm):
        for j in range(m):
            ctx.assume(z3.Not(eqc(Sp[j], 0)))
    side = [h for h in ctx.all_hyps() if not z3.is_quantifier(h) and any(g in h.sexpr() for g in ('sqrt', 'csqrt'))]
    ortho = [f for _, f in lib.get('orthonormal_facts', [])]
    eqf = dict(lib['equation_facts'])
    pcs = list(ctx.pc)
    for sg, sub, cond in perm_cases(ctx, m):
        S = lambda f: z3.simplify(z3.substitute(V.z(f), *sub)) if sub else V.z(f)
        tag = ''.join(map(str, sg))
        pc_s = [c for c in pcs] + [h for h in ctx.hyps if not z3.is_quantifier(h) and 'perm' in h.sexpr() and len(h.sexpr()) < 4000]
        st = Steps(ctx, tag, S, cond)
        for i in range(m):
            j = sg[i]
            k, nv, sgn = sfs[i], nvs[i], sgns[i]
            x = [Q0[r, j] for r in range(n)]
            qi = [Ql[r][i] for r in range(n)]
            wi = Wl[i]
            M = f'mode{i}'
            # (1) value i is library value j, vector i is k * library vector j (what the in-place column scaling did)
            f_w = st.fact(f'{M}.value_is_library_value', eqc(wi, W0[j]), pc_s)
            f_q = [st.fact(f'{M}.vector_is_scaled_library_vector.row{r}', eqc(qi[r], V.mul(k, x[r])), pc_s) for r in range(n)]
            # (2) eigen-equation:  residual(q) = k * residual(x)  and  residual(x) = 0  (library contract)
            Hx = [V.sub(a_, V.mul(W0[j], b_)) for a_, b_ in zip(matvec(A, x, n), matvec(B, x, n))]
            for r in range(n):
                f_h = st.fact(f'{M}.eigen_equation.row{r}.library_residual_zero', eqc(Hx[r], 0), [eqf[(r, j)]])

                def t_scale(q_, k_, w_, r=r):
                    Dq = V.sub(matvec(A, q_, n)[r], V.mul(w_, matvec(B, q_, n)[r]))
                    return [eqc(w_, W0[j])] + [eqc(q_[c], V.mul(k_, x[c])) for c in range(n)], eqc(Dq, V.mul(k_, Hx[r]))
                f_d = st.apply(f'{M}.eigen_equation.row{r}.residual_scales', t_scale, [qi, k, wi], {0, 1, 2})
                Dq = V.sub(matvec(A, qi, n)[r], V.mul(wi, matvec(B, qi, n)[r]))

                def t_zero(d_, h_, k_):
                    return [eqc(d_, V.mul(k_, h_)), eqc(h_, 0)], eqc(d_, 0)
                st.apply(f'{M}.eigen_equation.row{r}', t_zero, [Dq, Hx[r], k], {0, 1, 2})
            # (3) bilinear normalisation  q^T B q = k^2 S' = 1  with S' = x^T B x, normval^2 = S', k = sgn / normval
            if real_q and herm:
                f_s = st.fact(f'{M}.library_norm_is_one', eqc(Sp[j], 1), ortho)
                f_snz = st.apply(f'{M}.library_norm_nonzero', lambda s_: ([eqc(s_, 1)], z3.Not(eqc(s_, 0))), [Sp[j]], {0})
            else:
                f_snz = z3.Not(eqc(Sp[j], 0))
                st.established.add(st.key(f_snz))          # precondition (assumed above): the code asserts a finite scale factor
            f_nvsq = st.fact(f'{M}.normval_squared', eqc(V.mul(nv, nv), Sp[j]), side + ([f_s] if real_q and herm else [f_snz]))
            f_nvnz = st.apply(f'{M}.normval_nonzero', lambda n_, s_: ([eqc(V.mul(n_, n_), s_), z3.Not(eqc(s_, 0))], z3.Not(eqc(n_, 0))), [nv, Sp[j]], {0, 1})
            f_kdef = st.fact(f'{M}.scale_factor_definition', eqc(k, V.div(sgn, nv)), [])
            f_sgn = st.fact(f'{M}.sign_is_plus_or_minus_one', V.z(V.or_(V.cmp('==', sgn, 1), V.cmp('==', sgn, -1))), [])
            f_knv = st.apply(f'{M}.scale_times_normval_is_sign', lambda k_, n_: ([eqc(k_, V.div(sgn, n_)), z3.Not(eqc(n_, 0))], eqc(V.mul(k_, n_), sgn)), [k, nv], {0, 1})
            P, KK, NN = V.mul(k, nv), V.mul(k, k), V.mul(nv, nv)
            f_b = st.apply(f'{M}.scale_squared.step_b', lambda p_: ([eqc(p_, sgn), V.z(V.or_(V.cmp('==', sgn, 1), V.cmp('==', sgn, -1)))], eqc(V.mul(p_, p_), 1)), [P], {0})
            f_c = st.apply(f'{M}.scale_squared.step_c', lambda k_, n_: ([], eqc(V.mul(V.mul(k_, n_), V.mul(k_, n_)), V.mul(V.mul(k_, k_), V.mul(n_, n_)))), [k, nv], {0, 1})
            f_d2 = st.apply(f'{M}.scale_squared.step_d', lambda kk_, nn_, s_: ([eqc(nn_, s_)], eqc(V.mul(kk_, nn_), V.mul(kk_, s_))), [KK, NN, Sp[j]], {0, 1, 2})
            T1, T2, T3 = V.mul(P, P), V.mul(KK, NN), V.mul(KK, Sp[j])
            f_k2 = st.apply(f'{M}.scale_squared', lambda t1, t2, t3: ([eqc(t1, 1), eqc(t1, t2), eqc(t2, t3)], eqc(t3, 1)), [T1, T2, T3], {0, 1, 2})

            def t_bil(q_, k_):
                return [eqc(q_[c], V.mul(k_, x[c])) for c in range(n)], eqc(bil(q_, matvec(B, q_, n)), V.mul(V.mul(k_, k_), Sp[j]))
            f_g = st.apply(f'{M}.bilinear_norm_scales', t_bil, [qi, k], {0, 1})
            G = bil(qi, matvec(B, qi, n))
            st.apply(f'{M}.bilinear_unit_norm', lambda g_, t_: ([eqc(g_, t_), eqc(t_, 1)], eqc(g_, 1)), [G, T3], {0, 1})
            if real_q:
                tot, totx = 0, 0
                for v, xv in zip(qi, x):
                    tot, totx = V.add(tot, v), V.add(totx, xv)
                # the sign rule of the code: sgn = 1 iff the mean of the (unscaled) vector is non-negative
                f_rule = st.fact(f'{M}.sign_rule', z3.Or(z3.And(V.z(V.cmp('==', sgn, 1)), V.z(V.cmp('>=', totx, 0))),
                                                         z3.And(V.z(V.cmp('==', sgn, -1)), V.z(V.cmp('<', totx, 0)))), pc_s)
                f_nvge = st.fact(f'{M}.normval_nonnegative', V.z(V.cmp('>=', nv, 0)), side + [f_s] if herm else side + [f_snz])
                f_sum = st.apply(f'{M}.mean_scales', lambda q_, k_: ([eqc(q_[c], V.mul(k_, x[c])) for c in range(n)],
                                                                     eqc(functools.reduce(V.add, q_, 0), V.mul(k_, totx))), [qi, k], {0, 1})

                def t_sign(t_, k_, n_, m_):
                    return ([eqc(t_, V.mul(k_, m_)), eqc(V.mul(k_, n_), sgn), V.z(V.cmp('>=', n_, 0)), z3.Not(eqc(n_, 0)),
                             z3.Or(z3.And(V.z(V.cmp('==', sgn, 1)), V.z(V.cmp('>=', m_, 0))), z3.And(V.z(V.cmp('==', sgn, -1)), V.z(V.cmp('<', m_, 0))))],
                            V.z(V.cmp('>=', t_, 0)))
                st.apply(f'{M}.nonnegative_mean', t_sign, [functools.reduce(V.add, qi, 0), k, nv, totx], {0, 1, 2, 3})


def install_class(it, herm, sparse=False):
    it.summaries[f'{MC}:matrix_is_hermitian'] = lambda itp, a, k: herm
    it.summaries[f'{MC}:matrix_is_sparse'] = lambda itp, a, k: sparse


DENSE = [('sym', None), ('sym', 'sym'), ('gen', None), ('gen', 'sym'), ('herm', None), ('herm', 'herm'), ('cgen', None), ('csym', 'sym')]
for _n in (2, 3):
    for _acls, _bcls in DENSE:
        for _sort in ('default', 'user'):
            if _n == 3 and (_sort == 'user' or _acls not in ('sym', 'gen')):
                continue

            @harness(P, f'EigenSolve.dense[n={_n},A={_acls},B={_bcls},sort={_sort}]', targets=[f'{ES}._response', f'{ES}._prepare'], timeout=60000,
                     tier='quick' if _n == 2 else 'thorough')
            def h_dense(ctx, it, n=_n, acls=_acls, bcls=_bcls, sort=_sort):
                """dense path: library pairs (W0, Q0) -> returned (W, Q): one permutation for values and vectors, eigen-equation kept, bilinear
                B-normalisation, sign rule for real vectors, default order ascending; arguments untouched"""
                herm = acls in ('sym', 'herm')
                install_class(it, herm)
                A = sym_matrix(ctx, 'a', n, acls)
                B = sym_matrix(ctx, 'b', n, bcls) if bcls else None
                a_before = list(flat(A))
                log = {}
                kw = {}
                if sort == 'user':
                    # an arbitrary user order: a symbolic permutation of range(n)
                    pi = [ctx.sym(f'pi{k}') for k in range(n)]
                    ctx.assume(z3.And(*[z3.And(p >= 0, p < n) for p in pi]))
                    ctx.assume(z3.Distinct(*pi))
                    ctx.user_perm = pi
                    from pvc.interp import Builtin

                    def user_sort(W, Q):
                        log['W0'], log['Q0'] = list(flat(W)), [list(r) for r in np.array(Q.data)]
                        return CArr(np.array(pi, dtype=object), 'int')
                    kw['sorting_func'] = Builtin('user_sort', user_sort)
                else:
                    ctx.user_perm = None
                mod = mk_module(it, ES, 2 if B is not None else 1, 2, **kw)
                watch = it.watches.setdefault(f'{ES}._response', {'sf': [], 'normval': [], 'sgn': []})
                watch['sf'], watch['normval'], watch['sgn'] = [V.GhostList(nm_, 'EigenSolve._response') for nm_ in ('sf', 'normval', 'sgn')]
                ctx.assert_mode = 'assume'
                ctx.warnings_unobserved = True      # `assert np.isfinite(sf)` is the code's own guard against a vanishing bilinear norm
                args = [A] + ([B] if B is not None else [])
                W, Q = it.call(it.getattr(mod, '_response'), args)
                lib = [t[1] for t in it.trace if t[0] == 'eig_result'][-1]
                ctx.prove('library.solver_matches_class', lib['solver'] == ('eigh' if herm else 'eig') and lib['A'] is A and lib['B'] is B)
                if check_pairs(ctx, it, A, B, W, Q, lib, watch, herm, n, n) is False:
                    return
                Wl = [W.data[i] for i in range(n)]
                Ql = [[Q.data[r, c] for c in range(n)] for r in range(n)]
                W0, Q0 = lib['W'], lib['Q']
                if sort == 'default':
                    # eigh's values are real; for eig the default argsort orders complex values lexicographically (numpy): real part first
                    for i in range(n - 1):
                        a, b = Wl[i], Wl[i + 1]
                        if isinstance(a, Cx) or isinstance(b, Cx):
                            a, b = V.cx(a), V.cx(b)
                            ctx.prove(f'ascending[{i}]', V.or_(V.cmp('<', a.re, b.re), V.and_(V.cmp('==', a.re, b.re), V.cmp('<=', a.im, b.im))))
                        else:
                            ctx.prove(f'ascending[{i}]', V.cmp('<=', a, b))
                else:
                    # value i is library value pi[i], vector i is a multiple of library vector pi[i]
                    W0, Q0 = log['W0'], log['Q0']
                    for i in range(n):
                        for j in range(n):
                            hit = pi[i] == j
                            par = z3.And(*[eqc(V.mul(Ql[r][i], Q0[0][j]), V.mul(Ql[0][i], Q0[r][j])) for r in range(1, n)])
                            ctx.prove(f'user_order[{i}<-{j}]', z3.Implies(hit, z3.And(eqc(Wl[i], W0[j]), par)))
                ctx.prove('argument_untouched', z3.And(*[eqc(x, y) for x, y in zip(flat(A), a_before)]))


# ------------------------------------------------------------------------------------------------ sparse path
class IndexSolver:
    """index-level contract of a LinearSolver object (C05/C06): update(M) factorises M as it is at that moment; solve(b, trans) returns a
    fresh x with op(M_factorised) x = b"""
    def __init__(self, ctx, it):
        self.ctx, self.it = ctx, it
        self.obj = it.new_object(it.get_function('pymoto.solvers.solvers:LinearSolver'))
        self.updates = []
        self.current = None

    def install(self):
        S_ = 'pymoto.solvers.solvers'
        me = self

        def upd(itp, args, kw):
            M = dense_of(args[1])
            me.updates.append(args[1])
            me.current = M.data.copy()
            return args[0]

        def slv(itp, args, kw):
            b = args[1]
            trans = kw.get('trans', args[3] if len(args) > 3 else 'N')
            M = me.current
            n = M.shape[0]
            cplx = any(isinstance(v, Cx) for v in M.flat) or b.kind == 'complex'
            x = [Cx(me.ctx.fresh('xr', 'real'), me.ctx.fresh('xi', 'real')) if cplx else me.ctx.fresh('x', 'real') for _ in range(n)]
            for r in range(n):
                t = 0
                for c in range(n):
                    e = M[r, c] if trans == 'N' else (M[c, r] if trans == 'T' else V.conj(M[c, r]))
                    t = V.add(t, V.mul(e, x[c]))
                me.ctx.assume(eqc(t, b.data[r]))
            return CArr(np.array(x, dtype=object), 'complex' if cplx else 'real')
        for c in ('LinearSolver', 'LDAWrapper'):
            self.it.summaries[f'{S_}:{c}.update'] = upd
            self.it.summaries[f'{S_}:{c}.solve'] = slv
        self.it.summaries['pymoto.solvers.auto_determine:auto_determine_solver'] = lambda itp, a, k: me.obj


def sparse_of(M):
    from pvc import nplib
    return nplib._mk_sparse(M, 'csc')


SPARSE = [('sym', None), ('sym', 'sym'), ('herm', None), ('herm', 'herm'), ('gen', None), ('gen', 'sym')]
for _acls, _bcls in SPARSE:
    for _sigma in ('none', 'zero', 'nonzero'):
        @harness(P, f'EigenSolve.sparse[A={_acls},B={_bcls},sigma={_sigma}]', targets=[f'{ES}._response', f'{ES}._sparse_eigs', f'{ES}._prepare'], timeout=60000)
        def h_sparse(ctx, it, acls=_acls, bcls=_bcls, sigma=_sigma, inplace=False):
            """sparse path, TWO responses on one object with different matrices (n = 4 for eigs / 3 for eigsh, one mode requested): in each call
            ARPACK receives the current A, M = B (identity when a shift is used without B), k = nmodes, sigma, and an operator OPinv that acts
            as (A - sigma B)^-1 for the CURRENT matrices (x = OPinv b satisfies (A - sigma B) x = b entry by entry, also for the adjoint);
            the returned pairs are post-processed exactly as in the dense path"""
            herm = acls in ('sym', 'herm')
            n = 3 if herm else 4
            install_class(it, herm, sparse=True)
            sol = IndexSolver(ctx, it)
            sol.install()
            kw = dict(nmodes=1)
            sg = None
            if sigma == 'zero':
                kw['sigma'] = sg = 0
            elif sigma == 'nonzero':
                sg = ctx.sym('sigma', 'real')
                ctx.assume(sg != 0)
                kw['sigma'] = sg
            mod = mk_module(it, ES, 2 if bcls else 1, 2, **kw)
            watch = it.watches.setdefault(f'{ES}._response', {'sf': [], 'normval': [], 'sgn': []})
            ctx.assert_mode = 'assume'
            ctx.warnings_unobserved = True
            for call in (1, 2):
                watch['sf'], watch['normval'], watch['sgn'] = [V.GhostList(nm_, 'EigenSolve._response') for nm_ in ('sf', 'normval', 'sgn')]
                A = sym_matrix(ctx, f'a{call}_', n, acls)
                B = sym_matrix(ctx, f'b{call}_', n, bcls) if bcls else None
                if inplace and call == 2:
                    # the SAME matrix objects come back with their values overwritten in place (in-place assembly): object identity says nothing
                    As_prev.fields['dense'].data[...] = A.data
                    As = As_prev
                    if B is not None:
                        Bs_prev.fields['dense'].data[...] = B.data
                        Bs = Bs_prev
                    else:
                        Bs = None
                else:
                    As, Bs = sparse_of(A), (sparse_of(B) if B is not None else None)
                As_prev, Bs_prev = As, Bs
                n_tr = len(it.trace)
                n_upd = len(sol.updates)
                W, Q = it.call(it.getattr(mod, '_response'), [As] + ([Bs] if Bs is not None else []))
                calls = [t for t in it.trace[n_tr:] if t[0] in ('eigsh', 'eigs')]
                ctx.prove(f'call{call}.one_arpack_call_of_the_right_kind', len(calls) == 1 and calls[0][0] == ('eigsh' if herm else 'eigs'))
                if len(calls) != 1:
                    return
                c = calls[0][1]
                ctx.prove(f'call{call}.arpack_gets_current_A', z3.And(*[eqc(x, y) for x, y in zip(c['A_entries'].flat, A.data.flat)]))
                sgv = 0 if sg is None else sg
                if B is not None:
                    ctx.prove(f'call{call}.arpack_gets_current_B', c['M_entries'] is not None and z3.And(*[eqc(x, y) for x, y in zip(c['M_entries'].flat, B.data.flat)]))
                else:
                    # standard problem: M is None, or the identity that the shift introduces
                    ctx.prove(f'call{call}.arpack_M_is_identity', c['M_entries'] is None or z3.And(*[eqc(c['M_entries'][i, j], 1 if i == j else 0) for i in range(n) for j in range(n)]))
                ctx.prove(f'call{call}.arpack_k_sigma', V.and_(c['k'] == 1, V.cmp('==', c['sigma'], sgv)))
                # requirement on OPinv:  x = OPinv b  solves (A - sigma B) x = b  for the matrices of THIS call
                op = c['OPinv']
                ctx.prove(f'call{call}.opinv_given', isinstance(op, Obj) and op.tag == 'linop' and tuple(op.fields['shape']) == (n, n))
                bvec = CArr(np.array([ctx.sym(f'rhs{call}_{r}', 'real') for r in range(n)], dtype=object), 'real')
                for which, trans in (('matvec', 'N'), ('rmatvec', 'H')):
                    x = it.call(op.fields[which], [bvec])
                    xs = list(x.data.flat)
                    for r in range(n):
                        t = 0
                        for cc in range(n):
                            bb = (B.data[r, cc] if trans == 'N' else V.conj(B.data[cc, r])) if B is not None else (1 if r == cc else 0)
                            aa = A.data[r, cc] if trans == 'N' else V.conj(A.data[cc, r])
                            t = V.add(t, V.mul(V.sub(aa, V.mul(sgv, bb)), xs[cc]))
                        ctx.prove(f'call{call}.opinv.{which}.row{r}', eqc(t, bvec.data[r]))
                lib = [t[1] for t in it.trace if t[0] == 'eig_result'][-1]
                # post-processing of the returned pairs: the generalised problem seen by ARPACK and by the normalisation loop is (A, B)
                with_M = B if B is not None else None
                if check_pairs(ctx, it, A, with_M, W, Q, lib, watch, herm, n, 1) is False:
                    return


for (_acls, _bcls, _sigma) in (('sym', None, 'none'), ('sym', 'sym', 'zero'), ('sym', 'sym', 'nonzero'), ('gen', None, 'none')):
    from pvc.runner import HARNESSES as _HH
    _HH[(P, f'EigenSolve.sparse.same_objects_updated_in_place[A={_acls},B={_bcls},sigma={_sigma}]')] = dict(
        _HH[(P, f'EigenSolve.sparse[A={_acls},B={_bcls},sigma={_sigma}]')],
        fn=(lambda a_, b_, s_: (lambda ctx, it: _HH[(P, f'EigenSolve.sparse[A={a_},B={b_},sigma={s_}]')]['fn'](ctx, it, inplace=True)))(_acls, _bcls, _sigma),
        doc='as EigenSolve.sparse, but the second response receives the same matrix OBJECTS with their entries overwritten in place')


@harness(P, 'EigenSolve.dense.class_redetected', targets=[f'{ES}._response'], finding='C11-stale-hermitian-flag')
def h_stale_flag(ctx, it):
    """recorded finding C11-stale-hermitian-flag: the Hermitian flag is detected in the first response only, so a symmetric matrix followed by a
    non-symmetric one on the same object is handed to eigh (this harness states the property-side expectation and must keep failing)"""
    state = {'calls': 0}

    def is_herm(itp, a, k):
        state['calls'] += 1
        return state['first']
    it.summaries[f'{MC}:matrix_is_hermitian'] = is_herm
    it.summaries[f'{MC}:matrix_is_sparse'] = lambda itp, a, k: False
    mod = mk_module(it, ES, 1, 2)
    ctx.assert_mode = 'assume'
    ctx.warnings_unobserved = True
    state['first'] = True
    it.call(it.getattr(mod, '_response'), [sym_matrix(ctx, 'a', 2, 'sym')])
    state['first'] = False
    it.call(it.getattr(mod, '_response'), [sym_matrix(ctx, 'c', 2, 'gen')])
    libs = [t[1] for t in it.trace if t[0] == 'eig_result']
    ctx.prove('second_call_uses_general_solver', len(libs) == 2 and libs[0]['solver'] == 'eigh' and libs[1]['solver'] == 'eig')


@harness(P, 'canary.strictly_ascending_is_not_promised', targets=[f'{ES}._response'], expect='refuted', timeout=5000)
def h_canary(ctx, it):
    """vacuity guard: the returned values are ascending, not STRICTLY ascending (multiple eigenvalues exist) - this statement must not be
    provable from the hypotheses of the dense harness"""
    install_class(it, True)
    A = sym_matrix(ctx, 'a', 2, 'sym')
    mod = mk_module(it, ES, 1, 2)
    ctx.assert_mode = 'assume'
    ctx.warnings_unobserved = True
    W, Q = it.call(it.getattr(mod, '_response'), [A])
    ctx.prove('strictly_ascending', V.cmp('<', W.data[0], W.data[1]))


# ------------------------------------------------------------------------------------------------ replay of counter-models (dense path)
def dense_replay(name, model):
    """the matrix entries of the verifier's counter-model are handed to the real EigenSolve; the clauses of the property are evaluated natively
    (eigen-equation residual, bilinear normalisation, ascending order, non-negative mean of real vectors) with a round-off tolerance"""
    import re
    from .common import _num
    m = re.search(r'dense\[n=(\d),A=(\w+),B=(\w+),sort=(\w+)\]', name)
    if not m or m.group(4) != 'default':
        return None
    n, acls, bcls = int(m.group(1)), m.group(2), m.group(3)

    def mat(prefix, cls):
        rows = []
        for i in range(n):
            row = []
            for j in range(n):
                a, b = (i, j) if (cls in ('gen', 'cgen') or j >= i) else (j, i)
                re_ = _num(model.get(f'{prefix}{a}{b}'), 0.0)
                im_ = _num(model.get(f'{prefix}{a}{b}i'), 0.0)
                if cls == 'herm' and j < i:
                    im_ = -im_
                row.append(complex(re_, im_) if cls in ('herm', 'cgen', 'csym') else re_)
            rows.append(row)
        return rows
    A = mat('a', acls)
    B = mat('b', bcls) if bcls != 'None' else None
    return f'''# replay of a counter-model of obligation {name}: matrices from the verifier's model
import os, sys
sys.path.insert(0, os.environ.get('REPO_ROOT', '/repo'))
import numpy as np
import pymoto as pym
A = np.array({A!r})
B = {('np.array(' + repr(B) + ')') if B is not None else 'None'}
sigs = [pym.Signal('A', A)] + ([pym.Signal('B', B)] if B is not None else [])
m = pym.EigenSolve(sigs)
m.response()
W, Q = [s.state for s in m.sig_out]
Bm = np.eye({n}) if B is None else B
bad = []
for i in range(W.size):
    q = Q[:, i]
    if np.linalg.norm(A @ q - W[i] * (Bm @ q)) > 1e-8 * (1 + np.linalg.norm(A) * np.linalg.norm(q)):
        bad.append(('eigen-equation', i))
    if abs(q @ (Bm @ q) - 1) > 1e-8:
        bad.append(('bilinear norm', i, complex(q @ (Bm @ q))))
    if np.isrealobj(q) and np.mean(q) < -1e-12:
        bad.append(('mean sign', i))
if np.isrealobj(W) and np.any(np.diff(W) < -1e-12):
    bad.append(('order', W.tolist()))
print(bad)
sys.exit(1 if bad else 0)
'''


from pvc.runner import HARNESSES as _ALL   # noqa: E402
for (_p, _n), _spec in _ALL.items():
    if _p == P and _n.startswith('EigenSolve.dense[') and 'sort=default' in _n:
        _spec['replay'] = dense_replay
