"""C15 - DyadCarrier (pymoto/common/dyadcarrier.py).

Abstraction: dense(D) = sum_k u_k v_k^T over the stored vector lists.  Every public operation is executed from the real source on carriers of
enumerated small shapes / dyad counts with SYMBOLIC real and complex entries; the obligation is  dense(result) = op(dense(operands))  entry by
entry (polynomial identities), plus shape, real/complex kind, and "no operand other than the target of an in-place operation changes".
Shapes and dyad counts are a stated bound; entries are unbounded.  Sequences follow by modularity (each operation proved from arbitrary contents).
"""
import itertools
import numpy as np
import z3
from pvc import values as V
from pvc.values import CArr, LArr, Obj, PyExc, Cx
from pvc.arrays import to_carr, matmul, elementwise, uf
from pvc.runner import harness

P = 'C15'
DC = 'pymoto.common.dyadcarrier:DyadCarrier'
T = lambda m: f'{DC}.{m}'


def vec(ctx, name, n, kind):
    if kind == 'real':
        vals = [ctx.sym(f'{name}{k}', 'real') for k in range(n)]
    else:
        vals = [Cx(ctx.sym(f'{name}{k}r', 'real'), ctx.sym(f'{name}{k}i', 'real')) for k in range(n)]
    first = vals[0]
    ctx.assume(V.zbool(V.cmp('!=', first.re if isinstance(first, Cx) else first, 0)))      # non-zero vectors (zero vectors: separate harness)
    return CArr(to_carr(vals).data, 'complex' if kind != 'real' else 'real'), vals


def carrier(ctx, it, tag, shape, ndyads, ukind='real', vkind='real'):
    us, vs, raw = [], [], []
    for k in range(ndyads):
        u, uv = vec(ctx, f'{tag}u{k}_', shape[0], ukind)
        v, vv = vec(ctx, f'{tag}v{k}_', shape[1], vkind)
        us.append(u); vs.append(v); raw.append((uv, vv))
    D = it.call(it.get_function(DC), [us, vs] if ndyads else [], {} if ndyads else {'shape': shape})
    return D, raw, (us, vs)


def dense_raw(raw, shape):
    M = np.empty(shape, dtype=object)
    M[...] = 0
    for uv, vv in raw:
        for i in range(shape[0]):
            for j in range(shape[1]):
                M[i, j] = V.add(M[i, j], V.mul(uv[i], vv[j]))
    return M


def dense_of(it, D):
    """abstraction function evaluated on the carrier's CURRENT vector lists"""
    sh = it.getattr(D, 'shape')
    M = np.empty(tuple(sh), dtype=object)
    M[...] = 0
    for u, v in zip(it.getattr(D, 'u'), it.getattr(D, 'v')):
        for i in range(sh[0]):
            for j in range(sh[1]):
                M[i, j] = V.add(M[i, j], V.mul(u.data[i], v.data[j]))
    return M


def poly_eq(a, b):
    """equality of two scalars; polynomial identities are decided by normalisation (sum-of-monomials simplifier) before any SMT query"""
    e = V.cmp('==', a, b)
    if e is True or e is False:
        return e
    parts = [(V.real_part(a), V.real_part(b)), (V.imag_part(a), V.imag_part(b))] if isinstance(a, Cx) or isinstance(b, Cx) else [(a, b)]
    out = []
    for x, y in parts:
        d = z3.simplify(V.zreal(V.sub(x, y)), som=True, flat=True)
        if z3.is_rational_value(d) and d.numerator_as_long() == 0:
            continue
        out.append(V.zreal(x) == V.zreal(y))       # not an identity by itself (it may hold under the path condition): keep the factored form
    return z3.And(*out) if out else True


def same(ctx, name, got, want):
    got = got.data if isinstance(got, CArr) else got
    if isinstance(got, np.ndarray) or isinstance(want, np.ndarray):
        got = np.asarray(got, dtype=object) if not isinstance(got, np.ndarray) else got
        ctx.prove(name + '.shape', tuple(got.shape) == tuple(np.shape(want)))
        if tuple(got.shape) == tuple(np.shape(want)):
            ctx.prove(name + '.value', z3.And(*[V.zbool(poly_eq(a, b)) for a, b in zip(got.reshape(-1), np.asarray(want, dtype=object).reshape(-1))]) if got.size else True)
    else:
        ctx.prove(name + '.value', poly_eq(got, want))


def unchanged(ctx, it, name, D, raw):
    ctx.prove(name + '.operand_unchanged', z3.And(*[V.zbool(V.cmp('==', a, b)) for (uv, vv), u, v in zip(raw, it.getattr(D, 'u'), it.getattr(D, 'v'))
                                                     for a, b in list(zip(u.data, uv)) + list(zip(v.data, vv))]) if raw else True)
    ctx.prove(name + '.operand_dyad_count', len(it.getattr(D, 'u')) == len(raw) and len(it.getattr(D, 'v')) == len(raw))


def is_carrier(x):
    return isinstance(x, Obj) and x.cls is not None and x.cls.name == 'DyadCarrier'


KINDS = [('real', 'real'), ('complex', 'real'), ('real', 'complex')]
SHAPES = [((2, 3), 2), ((3, 2), 1), ((2, 2), 0)]

UNARY_OPS = ['construct', 'copy', 'pos', 'neg', 'T', 'conj', 'real', 'imag', 'scalar_left', 'scalar_right', 'complex_scalar_left', 'diagonal']

for (_shape, _nd), (_uk, _vk), _op in itertools.product(SHAPES, KINDS, UNARY_OPS):
    if _nd == 0 and (_uk, _vk) != ('real', 'real'):
        continue

    @harness(P, f'{_op}[{_shape[0]}x{_shape[1]},dyads={_nd},{_uk[0]}{_vk[0]}]',
             targets=[T('__init__'), T('add_dyad'), T('copy'), T('__neg__'), T('__pos__'), T('transpose'), T('conj'), T('real'), T('imag'), T('__mul__'), T('__rmul__'),
                      T('todense'), T('diagonal'), T('iscomplex')], timeout=60000)
    def h_unary(ctx, it, shape=_shape, nd=_nd, uk=_uk, vk=_vk, op=_op):
        """construction / copy / +D / -D / transpose / conj / real / imag / scalar*D / D*scalar / todense / diagonal(k) / iscomplex:
        dense(result) = op(dense(D)), shape, kind, operand unchanged, result shares no storage with the operand"""
        import ast
        ctx.safety_on = False
        D, raw, _ = carrier(ctx, it, 'a', shape, nd, uk, vk)
        A = dense_raw(raw, shape)
        cplx = 'complex' in (uk, vk) and nd > 0
        if op == 'construct':
            same(ctx, 'construct', dense_of(it, D), A)
            ctx.prove('construct.shape_attr', tuple(it.getattr(D, 'shape')) == shape and it.getattr(D, 'n_dyads') == nd)
            ctx.prove('construct.iscomplex', it.truth(it.call(it.getattr(D, 'iscomplex'), [])) == cplx)
            same(ctx, 'todense', it.call(it.getattr(D, 'todense'), []), A)
            unchanged(ctx, it, 'todense', D, raw)
            return
        if op == 'diagonal':
            for k in range(-shape[0], shape[1] + 1):
                d = it.call(it.getattr(D, 'diagonal'), [k])
                want = np.array([A[i, i + k] for i in range(shape[0]) if 0 <= i + k < shape[1]], dtype=object)
                same(ctx, f'diagonal[{k}]', d, want)
            unchanged(ctx, it, 'diagonal', D, raw)
            return
        s_ = ctx.sym('s', 'real')
        ctx.assume(s_ != 0)
        cs = Cx(ctx.sym('cr', 'real'), ctx.sym('ci', 'real'))
        ctx.assume(ctx.sym('cr', 'real') != 0)
        ops = {
            'copy': (lambda: it.call(it.getattr(D, 'copy'), []), A),
            'pos': (lambda: it.unop(ast.UAdd(), D), A),
            'neg': (lambda: it.unop(ast.USub(), D), uf(V.neg, 1)(A)),
            'T': (lambda: it.call(it.getattr(D, 'transpose'), []), A.T),
            'conj': (lambda: it.call(it.getattr(D, 'conj'), []), uf(V.conj, 1)(A)),
            'real': (lambda: it.getattr(D, 'real'), uf(V.real_part, 1)(A)),
            'imag': (lambda: it.getattr(D, 'imag'), uf(V.imag_part, 1)(A)),
            'scalar_left': (lambda: it.binop(ast.Mult(), s_, D), uf(lambda x: V.mul(s_, x), 1)(A)),
            'scalar_right': (lambda: it.binop(ast.Mult(), D, s_), uf(lambda x: V.mul(x, s_), 1)(A)),
            'complex_scalar_left': (lambda: it.binop(ast.Mult(), cs, D), uf(lambda x: V.mul(cs, x), 1)(A)),
        }
        fn, want = ops[op]
        r = fn()
        ctx.prove(f'{op}.is_carrier', is_carrier(r) and r is not D)
        if is_carrier(r):
            ctx.prove(f'{op}.shape_attr', tuple(it.getattr(r, 'shape')) == tuple(want.shape))
            same(ctx, op, dense_of(it, r), want)
            if op == 'T':
                same(ctx, 'T_property', dense_of(it, it.getattr(D, 'T')), want)
            if len(it.getattr(r, 'u')):
                it.setitem(r, (0, slice(None)), 0)       # the result shares no storage with the operand
        unchanged(ctx, it, op, D, raw)


BIN_GROUPS = ['add', 'sub', 'add_zero', 'radd_zero', 'rsub_zero', 'dense', 'matmul', 'rmatmul', 'matvec', 'dot', 'vecmat', 'inplace']

for (_shape, _nd), (_uk, _vk), _grp in itertools.product([((2, 3), 2), ((2, 2), 1), ((2, 3), 0)], [('real', 'real'), ('complex', 'real')], BIN_GROUPS):
    @harness(P, f'{_grp}[{_shape[0]}x{_shape[1]},dyads={_nd},{_uk[0]}{_vk[0]}]',
             targets=[T('__add__'), T('__sub__'), T('__iadd__'), T('__isub__'), T('__radd__'), T('__rsub__'), T('__matmul__'), T('__rmatmul__'), T('__dot__'), T('__rdot__'), T('dot')],
             timeout=60000)
    def h_binary(ctx, it, shape=_shape, nd=_nd, uk=_uk, vk=_vk, grp=_grp):
        """D + E, D - E, D += E, D -= E, D + 0, 0 + D, 0 - D, D + dense, dense - D, D @ dense, dense @ D, D @ vector, vector @ D, dot, D @ E"""
        import ast
        ctx.safety_on = False
        D, rawD, _ = carrier(ctx, it, 'a', shape, nd, uk, vk)
        E, rawE, _ = carrier(ctx, it, 'b', shape, 1, 'real', uk)
        A, B = dense_raw(rawD, shape), dense_raw(rawE, shape)
        add = uf(V.add, 2)
        sub = uf(V.sub, 2)
        for name, fn, want in (('add', lambda: it.binop(ast.Add(), D, E), add(A, B)), ('sub', lambda: it.binop(ast.Sub(), D, E), sub(A, B)),
                               ('add_zero', lambda: it.binop(ast.Add(), D, 0), A), ('radd_zero', lambda: it.binop(ast.Add(), 0, D), A),
                               ('rsub_zero', lambda: it.binop(ast.Sub(), 0, D), uf(V.neg, 1)(A))):
            if name != grp:
                continue
            r = fn()
            ctx.prove(f'{name}.is_carrier', is_carrier(r) and r is not D and r is not E)
            if is_carrier(r):
                same(ctx, name, dense_of(it, r), want)
                if len(it.getattr(r, 'u')):
                    it.setitem(r, (slice(None), 0), 0)          # later in-place changes of the result must not reach the operands
                    it.call(it.getattr(r, '__iadd__'), [E])
            unchanged(ctx, it, name + '.D', D, rawD)
            unchanged(ctx, it, name + '.E', E, rawE)
        if grp in ('add', 'sub', 'add_zero', 'radd_zero', 'rsub_zero'):
            return
        # dense operands
        Mv = [[ctx.sym(f'M{i}_{j}', 'real') for j in range(shape[1])] for i in range(shape[0])]
        Md = CArr(to_carr(Mv).data, 'real')
        Mn = np.array(Mv, dtype=object)
        if grp == 'dense':
            same(ctx, 'add_dense', it.binop(ast.Add(), D, Md), add(A, Mn))
            same(ctx, 'radd_dense', it.binop(ast.Add(), Md, D), add(Mn, A))
            same(ctx, 'rsub_dense', it.binop(ast.Sub(), Md, D), sub(Mn, A))
            unchanged(ctx, it, 'dense_ops', D, rawD)
            return
        if grp == 'inplace':
            D2 = it.call(it.getattr(D, 'copy'), [])
            r = it.inplace(ast.Add(), D2, E)
            ctx.prove('iadd.same_object', r is D2)
            same(ctx, 'iadd', dense_of(it, D2), add(A, B))
            r = it.inplace(ast.Sub(), D2, E)
            same(ctx, 'isub', dense_of(it, D2), A)
            unchanged(ctx, it, 'inplace.E', E, rawE)
            unchanged(ctx, it, 'inplace.D', D, rawD)
            return
        # products
        Rv = [[ctx.sym(f'R{i}_{j}', 'real') for j in range(2)] for i in range(shape[1])]
        Lv = [[ctx.sym(f'L{i}_{j}', 'real') for j in range(shape[0])] for i in range(2)]
        Rd, Ld = CArr(to_carr(Rv).data, 'real'), CArr(to_carr(Lv).data, 'real')
        def factored(left=None, right=None):
            # (L A R)[i,j] = sum_d (L u_d)[i] * (v_d^T R)[j]   -- the dense product written dyad by dyad (bilinearity of the outer product)
            rows = shape[0] if left is None else left.shape[0]
            cols = shape[1] if right is None else right.shape[1]
            W = np.empty((rows, cols), dtype=object)
            W[...] = 0
            for uv, vv in rawD:
                lu = list(uv) if left is None else list(matmul(ctx, left, CArr(to_carr(list(uv)).data)).data)
                vr = list(vv) if right is None else list(matmul(ctx, CArr(to_carr(list(vv)).data), right).data)
                for i_ in range(rows):
                    for j_ in range(cols):
                        W[i_, j_] = V.add(W[i_, j_], V.mul(lu[i_], vr[j_]))
            return W
        if grp == 'matmul':
            r = it.binop(ast.MatMult(), D, Rd)
            ctx.prove('matmul.is_carrier', is_carrier(r))
            if is_carrier(r):
                same(ctx, 'matmul', dense_of(it, r), factored(right=Rd))
        if grp == 'rmatmul':
            r = it.binop(ast.MatMult(), Ld, D)
            ctx.prove('rmatmul.is_carrier', is_carrier(r))
            if is_carrier(r):
                same(ctx, 'rmatmul', dense_of(it, r), factored(left=Ld))
        xv = CArr(to_carr([ctx.sym(f'xv{j}', 'real') for j in range(shape[1])]).data, 'real')
        yv = CArr(to_carr([ctx.sym(f'yv{j}', 'real') for j in range(shape[0])]).data, 'real')
        if grp == 'matvec':
            same(ctx, 'matvec', it.binop(ast.MatMult(), D, xv), matmul(ctx, CArr(A), xv).data)
        if grp == 'dot':
            same(ctx, 'dot', it.call(it.getattr(D, 'dot'), [xv]), matmul(ctx, CArr(A), xv).data)
        if grp == 'vecmat':
            same(ctx, 'vecmat', it.binop(ast.MatMult(), yv, D), matmul(ctx, yv, CArr(A)).data)
        unchanged(ctx, it, 'products', D, rawD)


@harness(P, 'zero_vectors_and_blocks', targets=[T('add_dyad'), T('__init__')])
def h_zero(ctx, it):
    """zero vectors are dropped (the dense matrix does not change), block inputs (2-D arrays) add one dyad per ... summed rows, scalars broadcast,
    mismatching sizes raise; data handed to the constructor are copied"""
    ctx.safety_on = False
    a = CArr(to_carr([ctx.sym('a0', 'real'), ctx.sym('a1', 'real')]).data, 'real')
    b = CArr(to_carr([ctx.sym('b0', 'real'), ctx.sym('b1', 'real'), ctx.sym('b2', 'real')]).data, 'real')
    ctx.assume(z3.And(ctx.sym('a0', 'real') != 0, ctx.sym('b0', 'real') != 0))
    z2 = CArr(to_carr([0, 0]).data, 'real')
    D = it.call(it.get_function(DC), [[a, z2], [b, b]])
    ctx.prove('zero_vector_dropped', it.getattr(D, 'n_dyads') == 1)
    want = np.array([[V.mul(a.data[i], b.data[j]) for j in range(3)] for i in range(2)], dtype=object)
    same(ctx, 'dense_unaffected', dense_of(it, D), want)
    a.data[0] = ctx.sym('changed', 'real')
    same(ctx, 'constructor_copies', dense_of(it, D)[1:], want[1:])
    ctx.prove('constructor_copies.first_row', V.cmp('==', dense_of(it, D)[0, 0], V.mul(ctx.sym('a0', 'real'), b.data[0])))
    try:
        it.call(it.get_function(DC), [[a], [b, b]])
        ctx.prove('count_mismatch_raises', False)
    except PyExc as e:
        ctx.prove('count_mismatch_raises', e.cls == 'TypeError')
    try:
        it.call(it.getattr(D, 'add_dyad'), [b, b])
        ctx.prove('size_mismatch_raises', False)
    except PyExc as e:
        ctx.prove('size_mismatch_raises', e.cls == 'TypeError')


# ------------------------------------------------------------------------------------------------ slicing, zeroing of rows / columns, contraction
def idx_arr(vals):
    return CArr(np.array(list(vals), dtype=object), 'int')


SLICES = {'rows_slice': ((slice(1, 3), slice(None)), lambda M: M[1:3, :]), 'cols_slice': ((slice(None), slice(0, 1)), lambda M: M[:, 0:1]),
          'block': ((slice(0, 2), slice(1, 2)), lambda M: M[0:2, 1:2]), 'entry': ((2, 1), lambda M: M[2, 1]),
          'row_vector': ((1, slice(None)), lambda M: M[1, :]), 'int_arrays': ((idx_arr([2, 0]), idx_arr([1, 1])), lambda M: np.array([M[2, 1], M[0, 1]], dtype=object))}

for _nm in SLICES:
    for _nd, _uk in ((1, 'real'), (2, 'real'), (2, 'complex')):
        @harness(P, f'getitem[{_nm},dyads={_nd},{_uk}]', targets=[T('__getitem__'), T('__init__'), T('add_dyad')], timeout=20000)
        def h_getitem(ctx, it, nm=_nm, nd=_nd, uk=_uk):
            """D[subscript] equals dense(D)[subscript]: a carrier for 2-D slices, the entry / vector for scalar and integer-array subscripts; D unchanged and
            the result shares no storage with it"""
            ctx.safety_on = False
            D, raw, _ = carrier(ctx, it, 'a', (3, 2), nd, uk, 'real')
            sub, ref = SLICES[nm]
            r = it.getitem(D, sub)
            want = ref(dense_raw(raw, (3, 2)))
            if is_carrier(r):
                same(ctx, 'slice', dense_of(it, r), want)
                ctx.prove('slice.no_shared_storage', all(not np.shares_memory(a.data, b.data) for a in it.getattr(r, 'u') + it.getattr(r, 'v')
                                                         for b in it.getattr(D, 'u') + it.getattr(D, 'v')))
            else:
                same(ctx, 'slice', r, want)
            unchanged(ctx, it, 'slice', D, raw)


ZERO = {'rows': ((idx_arr([0, 2]), slice(None)), lambda M: [(i, j) for i in (0, 2) for j in range(2)]), 'row_range': ((slice(1, 3), slice(None)), lambda M: [(i, j) for i in (1, 2) for j in range(2)]),
        'column': ((slice(None), 1), lambda M: [(i, 1) for i in range(3)])}
for _nm in ZERO:
    @harness(P, f'setitem_zero[{_nm}]', targets=[T('__setitem__'), T('copy'), T('contract'), T('contract_multi')], timeout=30000)
    def h_setitem(ctx, it, nm=_nm):
        """D[rows, :] = 0 / D[:, cols] = 0 zeroes exactly those rows / columns of dense(D); a copy taken before is not affected; contractions evaluated
        AFTER the zeroing see the zeroed matrix (no stale cached data), also when a contraction was evaluated before; other values are refused"""
        ctx.safety_on = False
        D, raw, _ = carrier(ctx, it, 'a', (3, 2), 2)
        C = it.call(it.getattr(D, 'copy'), [])
        B = CArr(np.array([[ctx.sym(f'b{i}{j}', 'real') for j in range(2)] for i in range(3)], dtype=object), 'real')
        from pvc import nplib
        Bs = nplib._mk_sparse(B, 'coo')
        before = it.call(it.getattr(D, 'contract'), [B])
        before_multi = it.call(it.getattr(D, 'contract_multi'), [[Bs]])
        M0 = dense_raw(raw, (3, 2))
        sub, cells = ZERO[nm]
        it.setitem(D, sub, 0)
        want = M0.copy()
        for (i, j) in cells(M0):
            want[i, j] = 0
        same(ctx, 'zeroed', dense_of(it, D), want)
        same(ctx, 'copy_taken_before_is_unaffected', dense_of(it, C), M0)
        quad = lambda M: functools.reduce(V.add, [V.mul(M[i, j], B.data[i, j]) for i in range(3) for j in range(2)], 0)
        same(ctx, 'contract_before', before, quad(M0))
        after = it.call(it.getattr(D, 'contract'), [B])
        same(ctx, 'contract_after_sees_zeroed_matrix', after, quad(want))
        if before_multi is not None:
            same(ctx, 'contract_multi_before', before_multi.data[0], quad(M0))
            after_multi = it.call(it.getattr(D, 'contract_multi'), [[Bs]])
            same(ctx, 'contract_multi_after_sees_zeroed_matrix', after_multi.data[0], quad(want))
        try:
            it.setitem(D, sub, 1)
            ctx.prove('nonzero_value_refused', False)
        except PyExc as e:
            ctx.prove('nonzero_value_refused', e.cls == 'ValueError')


import functools   # noqa: E402
