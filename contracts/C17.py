"""C17 - optimality criteria (pymoto/routines.py: minimize_oc, obtain_sensitivities; pymoto/utils.py).

minimize_oc is executed with an abstract network and variable signals of symbolic length; the bisection loop carries an inductive
invariant (bracket ordered; the trial design is the clipped update for the last multiplier), so that for ANY number of bisection steps the
new design respects bounds and move limit, the bracket is narrower than the tolerance on exit, and the right slices are written back.
"Volume equals the target" and convergence are the bounded stand-in (they need monotonicity / Lipschitz data of the volume in the multiplier).
"""
import itertools
import z3
from pvc import values as V
from pvc.values import CArr, LArr, Obj, PyExc
from pvc.arrays import to_carr, to_larr
from pvc.interp import LoopSpec, Builtin
from pvc.runner import harness
from .C18 import arr, mk_signal
from .C10 import abstract_network

P = 'C17'
R = 'pymoto.routines'

LAYOUTS = {'one_array': ['a'], 'two_arrays': ['a', 'a'], 'three_unequal': ['a', 'a', 'a'], 'two_signals_one_initial_array': ['a', 'alias']}

for _lay, _bk in itertools.product(LAYOUTS, ('scalar', 'per_variable')):
    @harness(P, f'minimize_oc.update[{_lay},bounds={_bk}]', targets=[f'{R}:minimize_oc', f'{R}:obtain_sensitivities', 'pymoto.utils:_concatenate_to_array'], timeout=60000)
    def h_oc(ctx, it, lay=_lay, bk=_bk):
        """every new design lies within [xmin, xmax] and within the move limit of the previous design (for any number of bisection steps), the
        multiplier bracket is narrower than l1l2tol on exit, positive gradients are clipped to zero, the objective alone is seeded with 1 after a
        reset, and every variable signal receives its own slice of the new design; the caller's arrays are not modified"""
        kinds = LAYOUTS[lay]
        lens, sigs, FX = [], [], []
        for k, kind in enumerate(kinds):
            if kind == 'alias':
                # a second design signal initialised with the SAME array object as the first (x0 = np.full(n, v); Signal(.., x0), Signal(.., x0))
                lens.append(lens[0]); FX.append(FX[0])
                sigs.append(mk_signal(it, it.getattr(sigs[0], 'state')))
                continue
            nk = ctx.sym(f'n{k}')
            ctx.assume(nk >= 1)
            st, F = arr(ctx, f'x{k}', (nk,))
            lens.append(nk); FX.append(F)
            sigs.append(mk_signal(it, st))
        offs = [0]
        for l in lens:
            offs.append(V.add(offs[-1], l))
        ntot = offs[-1]
        init_states = [it.getattr(s_, 'state') for s_ in sigs]
        obj = mk_signal(it, ctx.sym('f', 'real'))
        ctx.assume(ctx.sym('f', 'real') != 0)
        log = []
        net = abstract_network(ctx, it, log)
        # the abstract network: sensitivity() leaves arbitrary sensitivities on the variables (None for the last one: "no dependence")
        DF = []

        def sens(itp, a, k):
            log.append(('sensitivity', it.getattr(obj, 'sensitivity')))
            for kk, s in enumerate(sigs):
                if kk == len(sigs) - 1 and len(sigs) > 1:
                    it.setattr(s, 'sensitivity', None)
                    DF.append(None)
                else:
                    d, D = arr(ctx, f'df{kk}_{len(log)}', (lens[kk],))
                    it.setattr(s, 'sensitivity', d)
                    DF.append(D)
        it.summaries['pymoto.core_objects:Network.sensitivity'] = sens
        move, tol = ctx.sym('move', 'real'), ctx.sym('l1l2tol', 'real')
        l1i, l2i = ctx.sym('l1init', 'real'), ctx.sym('l2init', 'real')
        maxvol = ctx.sym('maxvol', 'real')
        ctx.assume(z3.And(move > 0, tol > 0, l1i >= 0, l2i - l1i > tol))
        if bk == 'scalar':
            xmin, xmax = ctx.sym('xmin', 'real'), ctx.sym('xmax', 'real')
            LO, HI = (lambda j: xmin), (lambda j: xmax)
        else:
            (xmin, LOf), (xmax, HIf) = arr(ctx, 'xmin', (ntot,)), arr(ctx, 'xmax', (ntot,))
            LO, HI = (lambda j: LOf(V.zint(j))), (lambda j: HIf(V.zint(j)))
        # admissibility: the start design is inside the bounds (outer-loop invariant of the iteration)
        for k in range(len(kinds)):
            q = z3.Int(f'q!adm{k}')
            ctx.hyps.append(z3.ForAll([q], z3.Implies(z3.And(q >= 0, q < lens[k]), z3.And(V.zreal(LO(V.add(offs[k], q))) <= FX[k](q), FX[k](q) <= V.zreal(HI(V.add(offs[k], q)))))))
        state = {}

        def havoc(c, env, phase):
            for v in ('l1', 'l2', 'lmid'):
                env.vars[v] = c.fresh(v, 'real')
            xn, XN = arr(c, f'xnew_{phase}', (ntot,))
            env.vars['xnew'] = xn
            state['has_xnew'] = True
            state['XN_' + phase] = XN

        def inv(c, env, phase):
            l1, l2 = env.vars['l1'], env.vars['l2']
            base = z3.And(V.zreal(l1) >= 0, V.zreal(l1) <= V.zreal(l2))
            if phase == 'init':
                return base
            xn, xv = env.vars['xnew'], env.vars['xval']
            j = c.fresh('jinv')
            lo = z3.If(V.zreal(LO(j)) >= V.zreal(xv.at(j)) - move, V.zreal(LO(j)), V.zreal(xv.at(j)) - move)
            hi = z3.If(V.zreal(HI(j)) <= V.zreal(xv.at(j)) + move, V.zreal(HI(j)), V.zreal(xv.at(j)) + move)
            inside = z3.Implies(z3.And(j >= 0, j < ntot), z3.And(V.zreal(xn.at(j)) >= lo, V.zreal(xn.at(j)) <= hi))
            if phase == 'post':
                return z3.And(base, inside)                       # to prove: for the fresh index j
            q = z3.Int(f'q!inv{phase}')
            lo_q = z3.If(V.zreal(LO(q)) >= V.zreal(xv.at(q)) - move, V.zreal(LO(q)), V.zreal(xv.at(q)) - move)
            hi_q = z3.If(V.zreal(HI(q)) <= V.zreal(xv.at(q)) + move, V.zreal(HI(q)), V.zreal(xv.at(q)) + move)
            return z3.And(base, z3.ForAll([q], z3.Implies(z3.And(q >= 0, q < ntot), z3.And(V.zreal(xn.at(q)) >= lo_q, V.zreal(xn.at(q)) <= hi_q))))
        def on_exit(c, env):
            c.prove('bisection.exit_bracket_within_tolerance', V.zreal(env.vars['l2']) - V.zreal(env.vars['l1']) <= tol, kind='loop')
        it.loop_specs[(f'{R}:minimize_oc', 0)] = LoopSpec('bisection', havoc, inv, executes_at_least_once=True, on_exit=on_exit)
        ctx.safety_on = False
        wx = it.watches.setdefault(f'{R}:minimize_oc', {})
        wx['xval'] = V.GhostList('xval', 'minimize_oc')
        it.call(it.get_function(f'{R}:minimize_oc'), [net, list(sigs), obj], dict(maxit=1, tolx=0, tolf=0, xmin=xmin, xmax=xmax, move=move, l1init=l1i, l2init=l2i,
                                                                               l1l2tol=tol, maxvol=maxvol, verbosity=0))
        ran = [e for e in log if e[0] == 'sensitivity']
        if not ran:
            ctx.prove('stopped_before_update', True)
            return
        ctx.prove('protocol', [e[0] for e in log][:3] == ['response', 'reset', 'sensitivity'])
        ctx.prove('objective_seeded_with_one', V.cmp('==', ran[0][1], 1))
        # the design written back
        for k in range(len(kinds)):
            new = it.getattr(sigs[k], 'state')
            t = ctx.fresh('t')
            ctx.assume(z3.And(t >= 0, t < lens[k]))
            j = V.add(offs[k], t)
            if new is FX[k] or (isinstance(new, LArr) and new.meta.get('is_initial')):
                continue
            xo = FX[k](t)
            xn = V.zreal(new.at(t))
            ctx.prove(f'writeback.length[{k}]', V.cmp('==', new.shape[0], lens[k]))
            if 'XN_exit' in state and wx['xval'].count() >= 2:       # `xval = xnew` was executed: not the path that stops on the step-size criterion
                # exactly its own slice of the design the bisection ended with - also when several signals started from one shared array
                ctx.prove(f'writeback.own_slice[{k}]', V.cmp('==', xn, state['XN_exit'](V.zint(j))))
            ctx.prove(f'within_bounds[{k}]', z3.And(xn >= V.zreal(LO(j)), xn <= V.zreal(HI(j))))
            ctx.prove(f'within_move_limit[{k}]', z3.And(xn >= xo - move, xn <= xo + move))
