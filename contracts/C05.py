"""C05 - linear solvers (pymoto/solvers/dense.py, sparse.py, iterative.py, auto_determine.py).

Algebra level: matrices and right-hand sides are atoms of an involutive ring; the scipy factorisation contracts (A = P L U, A = Q R with
Q unitary, A = U^H U, A = L D L^H / L D L^T with a row permutation, solve_triangular = op(T)^-1 b) are the hypotheses; the obligation
op(A) x = b for op in {id, ^T, ^H} is decided by the normaliser (pvc/matalg.py).  SolverDiagonal is proved at index level.
CG: partial correctness only through the bounded stand-in (convergence is outside this family).
"""
import z3
from pvc import values as V
from pvc import matalg as MA
from pvc.values import CArr, LArr, Obj, PyExc
from pvc.runner import harness
from .C18 import arr

P = 'C05'
D = 'pymoto.solvers.dense'
MC = 'pymoto.solvers.matrix_checks'


def setup(ctx, it, kind):
    MA.reset()
    A = MA.wrap(MA.Mat.atom('A', {'real'} if kind == 'real' else ()), kind)
    b = MA.wrap(MA.Mat.atom('b'), 'complex')          # right-hand side: complex in general (a real one is a special case)
    return A, b


def check_solution(ctx, name, A, x, b, trans):
    Am = A.fields['m']
    op = {'N': Am, 'T': Am.T(), 'H': Am.H()}[trans]
    res = (op @ MA.unwrap(x)) - b.fields['m']
    z = res.is_zero()
    ctx.note(f'{name}: residue {res.residue()}') if z is not True else None
    ctx.prove(name, z if z is not False else False)


for _cls in ('SolverDenseLU', 'SolverDenseQR'):
    for _kind in ('real', 'complex'):
        @harness(P, f'{_cls}.solve[{_kind}]', targets=[f'{D}:{_cls}.update', f'{D}:{_cls}.solve'])
        def h_dense(ctx, it, cls=_cls, kind=_kind):
            """for every non-singular matrix: solve(b, trans) returns x with A x = b / A^T x = b / A^H x = b (normaliser identity from the
            factorisation contract); an unknown trans raises TypeError"""
            for trans in ('N', 'T', 'H'):
                A, b = setup(ctx, it, kind)
                sol = it.new_object(it.get_function(f'{D}:{cls}'))
                r = it.call(it.getattr(sol, 'update'), [A])
                ctx.prove(f'update_returns_self[{trans}]', r is sol)
                x = it.call(it.getattr(sol, 'solve'), [b], {'trans': trans})
                check_solution(ctx, f'solves[{trans}]', A, x, b, trans)
            try:
                it.call(it.getattr(sol, 'solve'), [b], {'trans': 'X'})
                ctx.prove('bad_trans_raises', False)
            except PyExc as e:
                ctx.prove('bad_trans_raises', e.cls == 'TypeError')


for _kind in ('real', 'complex'):
    for _ok in (True, False):
        @harness(P, f'SolverDenseCholesky.solve[{_kind},{"success" if _ok else "fallback"}]',
                 targets=[f'{D}:SolverDenseCholesky.update', f'{D}:SolverDenseCholesky.solve', f'{D}:SolverDenseCholesky.__init__', f'{D}:SolverDenseLDL.update', f'{D}:SolverDenseLDL.solve'])
        def h_chol(ctx, it, kind=_kind, ok=_ok):
            """Hermitian matrix: with a successful Cholesky factorisation A = U^H U, and after a failed one through the LDL fall-back, all three modes
            solve the requested system; a failed update after a successful one must switch to the fall-back (no stale factor)"""
            for trans in ('N', 'T', 'H'):
                MA.reset()
                A = MA.wrap(MA.Mat.atom('A', {'hermitian'} | ({'real'} if kind == 'real' else set())), kind)
                b = MA.wrap(MA.Mat.atom('b'), 'complex')
                it.summaries[f'{MC}:matrix_is_hermitian'] = lambda itp, a, k: True
                it.summaries[f'{MC}:matrix_is_diagonal'] = lambda itp, a, k: itp.truth(ctx.fresh('D_is_diagonal', 'bool'))
                sol = it.call(it.get_function(f'{D}:SolverDenseCholesky'), [])
                if not ok:
                    # history: a successful update with another matrix first, then an update that fails
                    A0 = MA.wrap(MA.Mat.atom('A0', {'hermitian'}), kind)
                    ctx.cholesky_fails = False
                    it.call(it.getattr(sol, 'update'), [A0])
                ctx.cholesky_fails = not ok
                it.call(it.getattr(sol, 'update'), [A])
                ctx.prove(f'success_flag[{trans}]', it.getattr(sol, 'success') is ok)
                x = it.call(it.getattr(sol, 'solve'), [b], {'trans': trans})
                check_solution(ctx, f'solves[{trans}]', A, x, b, trans)


for _kind, _herm in (('real', True), ('complex', True), ('complex', False), ('real', None), ('complex', None)):
    @harness(P, f'SolverDenseLDL.solve[{_kind},hermitian={_herm}]', targets=[f'{D}:SolverDenseLDL.update', f'{D}:SolverDenseLDL.solve', f'{D}:SolverDenseLDL.__init__'])
    def h_ldl(ctx, it, kind=_kind, herm=_herm):
        """Hermitian (A = L D L^H) and complex-symmetric (A = L D L^T) matrices, with the row permutation of scipy's ldl, diagonal or block-diagonal D:
        all three modes solve the requested system; hermitian=None detects the class"""
        for detected in ((True, False) if herm is None else (herm,)):
            if kind == 'real' and not detected:
                continue
            for trans in ('N', 'T', 'H'):
                MA.reset()
                props = ({'hermitian'} if detected else {'symmetric'}) | ({'real'} if kind == 'real' else set())
                A = MA.wrap(MA.Mat.atom('A', props), kind)
                b = MA.wrap(MA.Mat.atom('b'), 'complex')
                it.summaries[f'{MC}:matrix_is_hermitian'] = lambda itp, a, k, d=detected: d
                it.summaries[f'{MC}:matrix_is_diagonal'] = lambda itp, a, k: itp.truth(ctx.fresh('D_is_diagonal', 'bool'))
                sol = it.call(it.get_function(f'{D}:SolverDenseLDL'), [], {'hermitian': herm})
                it.call(it.getattr(sol, 'update'), [A])
                x = it.call(it.getattr(sol, 'solve'), [b], {'trans': trans})
                check_solution(ctx, f'solves[{trans},detected={detected}]', A, x, b, trans)


for _shape in ('vector', 'block'):
    @harness(P, f'SolverDiagonal.solve[{_shape}]', targets=[f'{D}:SolverDiagonal.update', f'{D}:SolverDiagonal.solve'])
    def h_diag(ctx, it, shape=_shape):
        """index level: x[i(,j)] * op(d_i) = b[i(,j)] for N/T (d) and H (conj d), vector and block right-hand sides, complex data"""
        n, k = ctx.sym('n'), ctx.sym('k')
        ctx.assume(z3.And(n >= 1, k >= 1))
        Are, Aim = z3.Function('Are', z3.IntSort(), z3.IntSort(), z3.RealSort()), z3.Function('Aim', z3.IntSort(), z3.IntSort(), z3.RealSort())
        A = LArr((n, n), lambda i: V.Cx(Are(V.zint(i[0]), V.zint(i[1])), Aim(V.zint(i[0]), V.zint(i[1]))), 'complex')
        bsh = (n,) if shape == 'vector' else (n, k)
        Bre, Bim = z3.Function('Bre', *([z3.IntSort()] * len(bsh)), z3.RealSort()), z3.Function('Bim', *([z3.IntSort()] * len(bsh)), z3.RealSort())
        b = LArr(bsh, lambda i: V.Cx(Bre(*[V.zint(x) for x in i]), Bim(*[V.zint(x) for x in i])), 'complex')
        sol = it.new_object(it.get_function(f'{D}:SolverDiagonal'))
        it.call(it.getattr(sol, 'update'), [A])
        idx = tuple(ctx.sym(f'i{a}') for a in range(len(bsh)))
        ctx.assume(z3.And(*[z3.And(a >= 0, a < s) for a, s in zip(idx, (n, k))]))
        d = V.Cx(Are(idx[0], idx[0]), Aim(idx[0], idx[0]))
        ctx.assume(z3.Or(d.re != 0, d.im != 0))
        for trans in ('N', 'T', 'H'):
            x = it.call(it.getattr(sol, 'solve'), [b], {'trans': trans})
            ctx.prove(f'shape[{trans}]', len(x.shape) == len(bsh) and all(V.cmp('==', p, q) is True for p, q in zip(x.shape, bsh)))
            dd = V.conj(d) if trans == 'H' else d
            ctx.prove(f'solves[{trans}]', V.cmp('==', V.mul(x.at(*idx), dd), b.at(*idx)))


# ------------------------------------------------------------------------------------------------ solver selection
import itertools as _it   # noqa: E402
import numpy as _np   # noqa: E402
from pvc.values import Cx as _Cx   # noqa: E402

AD = 'pymoto.solvers.auto_determine:auto_determine_solver'
MCK = 'pymoto.solvers.matrix_checks'

for _cplx, _herm, _sym, _diag in _it.product((False, True), (False, True), (False, True), (False, True)):
    if (not _cplx and _herm != _sym):
        continue
    @harness(P, f'auto_determine_solver.dense[complex={_cplx},hermitian={_herm},symmetric={_sym},diagonal={_diag}]', targets=[AD], timeout=20000)
    def h_auto(ctx, it, cplx=_cplx, herm=_herm, sym=_sym, diag=_diag):
        """decision table (dense, square): the solver that is returned is one whose contract (proved above) covers the class of the matrix, with the
        class flag it is constructed with equal to the class of the matrix: diagonal -> SolverDiagonal; Hermitian with a one-signed diagonal ->
        Cholesky (which falls back to LDL by itself); Hermitian otherwise -> LDL(hermitian=True); complex symmetric, not Hermitian ->
        LDL(hermitian=False); anything else -> LU.  The class tests of the matrix are used through their contracts (summaries); the sign of the
        diagonal is a complete case split on symbolic entries"""
        n = 2
        d = _np.empty((n, n), dtype=object)
        for i in range(n):
            for j in range(n):
                re_ = ctx.sym(f'a{i}{j}', 'real')
                d[i, j] = _Cx(re_, ctx.sym(f'a{i}{j}i', 'real')) if cplx else re_
        if herm and cplx:
            for i in range(n):
                d[i, i] = d[i, i].re           # a Hermitian matrix has a real diagonal (comparison with 0 is what the code does)
        A = CArr(d, 'complex' if cplx else 'real')
        it.summaries[f'{MCK}:matrix_is_sparse'] = lambda itp, a, k: False
        it.summaries[f'{MCK}:matrix_is_diagonal'] = lambda itp, a, k: diag
        it.summaries[f'{MCK}:matrix_is_hermitian'] = lambda itp, a, k: herm
        it.summaries[f'{MCK}:matrix_is_symmetric'] = lambda itp, a, k: sym
        ctx.safety_on = False
        # triangularity is only reported (no special solver): pass the detected value explicitly, as LinSolve's callers may
        s = it.call(it.get_function(AD), [A], dict(islowertriangular=False, isuppertriangular=False))
        cls = s.cls.name
        if diag:
            ctx.prove('diagonal_solver', cls == 'SolverDiagonal')
            return
        dg = [d[i, i].re if isinstance(d[i, i], _Cx) else d[i, i] for i in range(n)]
        pos = z3.And(*[V.zreal(x) > 0 for x in dg])
        neg = z3.And(*[V.zreal(x) < 0 for x in dg])
        one_signed = ctx.implied(z3.Or(pos, neg))
        mixed = ctx.implied(z3.Not(z3.Or(pos, neg)))
        if herm:
            ctx.prove('hermitian.path_decides_diagonal_sign', one_signed or mixed)
            if one_signed:
                ctx.prove('hermitian.one_signed_diagonal.cholesky', cls == 'SolverDenseCholesky')
            else:
                ctx.prove('hermitian.mixed_diagonal.ldl_hermitian', cls == 'SolverDenseLDL' and it.getattr(s, 'hermitian') is True)
        elif sym:
            ctx.prove('complex_symmetric.ldl_not_hermitian', cls == 'SolverDenseLDL' and it.getattr(s, 'hermitian') is False)
        else:
            ctx.prove('general.lu', cls == 'SolverDenseLU')


@harness(P, 'auto_determine_solver.non_square', targets=[AD])
def h_auto_rect(ctx, it):
    """a non-square matrix gets the QR solver (least squares), whatever its other properties"""
    it.summaries[f'{MCK}:matrix_is_sparse'] = lambda itp, a, k: False
    A = CArr(_np.array([[ctx.sym(f'a{i}{j}', 'real') for j in range(2)] for i in range(3)], dtype=object), 'real')
    s = it.call(it.get_function(AD), [A])
    ctx.prove('qr', s.cls.name == 'SolverDenseQR')


# ------------------------------------------------------------------------------------------------ conjugate gradients: partial correctness
IT = 'pymoto.solvers.iterative'


def _poly_zero(e):
    from .C01 import poly_zero_full
    return poly_zero_full(e)

for _maxit, _x0 in ((1, False), (2, False), (2, True), (3, True)):
    @harness(P, f'CG.solve.partial_correctness[maxit={_maxit},x0={_x0}]', targets=[f'{IT}:CG.solve', f'{IT}:CG.update', f'{IT}:CG.__init__'], timeout=20000)
    def h_cg(ctx, it, maxit=_maxit, with_x0=_x0):
        """whatever search directions and step lengths are used (orth and the preconditioner enter only as 'return some array of the right shape';
        convergence is NOT claimed), on every path through at most `maxit` iterations (explicit residual in iteration 0, recurrence afterwards):
        the residual vector the code carries IS b - A x for the x it returns, the number it compares with the tolerance IS ||r|| / ||b|| of that
        vector, and a return without the 'maximum iterations' warning happens only when that number is <= tol - so a silently returned x satisfies
        ||b - A x|| <= tol ||b||, also when an initial guess is given"""
        n = 2
        ctx.safety_on = False
        ctx.feasible_timeout_ms = 300
        Ad = _np.array([[ctx.sym(f'a{i}{j}', 'real') for j in range(n)] for i in range(n)], dtype=object)
        A = CArr(Ad, 'real')
        bv = [ctx.sym(f'b{i}', 'real') for i in range(n)]
        b = CArr(_np.array(bv, dtype=object), 'real')
        x0 = CArr(_np.array([ctx.sym(f'g{i}', 'real') for i in range(n)], dtype=object), 'real') if with_x0 else None
        tol = ctx.sym('tol', 'real')
        ctx.assume(tol > 0)
        ctx.assume(V.z(V.cmp('!=', V.add(V.mul(bv[0], bv[0]), V.mul(bv[1], bv[1])), 0)))          # b != 0 (finding C05-cg-zero-rhs)
        k_dir = [0]

        def some_directions(itp, args, kw):
            k_dir[0] += 1
            return CArr(_np.array([[ctx.fresh(f'p{k_dir[0]}_{i}', 'real')] for i in range(n)], dtype=object), 'real')
        it.summaries[f'{IT}:orth'] = some_directions
        watch = it.watches.setdefault(f'{IT}:CG.solve', {})
        for nm in ('r', 'x', 'tval', 'b'):
            watch[nm] = V.GhostList(nm, 'CG.solve')
        cg = it.call(it.get_function(f'{IT}:CG'), [], dict(tol=tol, maxit=maxit, restart=50, verbosity=0))
        it.call(it.getattr(cg, 'update'), [A])
        n_tr = len(it.trace)
        # the step length alpha = (p^H A p)^-1 p^H r enters only as 'some number': the inverse is replaced by an arbitrary value (the claim holds for
        # every step length, in particular the one the code computes); this keeps every term polynomial
        from pvc import nplib as _nl
        key = ('np.linalg', 'inv')
        saved = _nl.NP[key]
        _nl.NP[key] = lambda itp, M, **k: CArr(_np.array([[ctx.fresh('pqinv', 'real')]], dtype=object), 'real')
        try:
            ret = it.call(it.getattr(cg, 'solve'), [b], dict(x0=x0) if with_x0 else {})
        finally:
            _nl.NP[key] = saved
        warned = any(t[0] == 'warn' for t in it.trace[n_tr:])
        ctx.prove('result_shape', isinstance(ret, CArr) and tuple(ret.shape) == (n,))
        xf, rf, tv = watch['x'][-1], watch['r'][-1], watch['tval'][-1]
        xe, re_ = [xf.data[i, 0] for i in range(n)], [rf.data[i, 0] for i in range(n)]
        ctx.prove('returned_vector_is_the_iterate', z3.And(*[V.z(V.cmp('==', ret.data[i], xe[i])) for i in range(n)]))
        for i in range(n):
            ax = 0
            for j in range(n):
                ax = V.add(ax, V.mul(Ad[i, j], xe[j]))
            dlt = V.sub(re_[i], V.sub(bv[i], ax))
            ident = (not V.is_sym(dlt) and dlt == 0) or (V.is_sym(dlt) and _poly_zero(V.zreal(dlt)))      # polynomial identity: normal form first
            ctx.prove(f'carried_residual_is_b_minus_A_x.row{i}', True if ident else V.cmp('==', re_[i], V.sub(bv[i], ax)))
        # the tested number: quotient of the Euclidean norms of the carried residual and of b (same library function as the code uses)
        want_t = V.div(_nl.la_norm(it, CArr(_np.array(re_, dtype=object), 'real')), _nl.la_norm(it, CArr(_np.array(bv, dtype=object), 'real')))
        ctx.prove('tested_number_is_relative_residual', V.cmp('==', tv.data[0], want_t))
        if not warned:
            ctx.prove('silent_return_only_within_tolerance', V.cmp('<=', tv.data[0], tol))
        if with_x0:
            ctx.prove('initial_guess_untouched', z3.And(*[V.z(V.cmp('==', x0.data[i], ctx.sym(f'g{i}', 'real'))) for i in range(n)]))
        ctx.prove('arguments_untouched', z3.And(*[V.z(V.cmp('==', b.data[i], bv[i])) for i in range(n)]))


for _kind, _norm in (('real', False), ('complex', False)):
    @harness(P, f'orth.orthogonal_basis[{_kind},normalize={_norm}]', targets=[f'{IT}:orth'], timeout=30000)
    def h_orth(ctx, it, kind=_kind, norm=_norm):
        """block CG orthogonalises its search directions with orth(): for two input columns (n = 2, symbolic real / complex entries) the second returned
        vector is orthogonal to the first in the Hermitian inner product  sum_k v1_k conj(v2_k) = 0, the first is the first input (normalised on
        request), and the span is kept: v2 = u2 - c v1.  (Rank-deficient inputs drop a column: that path is left to the bounded stand-in)"""
        n = 2
        ctx.safety_on = False
        ctx.feasible_timeout_ms = 300

        def sym(nm):
            return _Cx(ctx.sym(nm + 'r', 'real'), ctx.sym(nm + 'i', 'real')) if kind == 'complex' else ctx.sym(nm, 'real')
        U = _np.array([[sym(f'u{i}{j}') for j in range(2)] for i in range(n)], dtype=object)
        u = CArr(U.copy(), kind)
        V.COMPLEX_ORDER = 'numpy'          # every complex value inside orth is a numpy value (results of array operations)
        n1 = 0
        for a_ in [U[i, 0] for i in range(n)]:
            n1 = V.add(n1, V.real_part(V.mul(a_, V.conj(a_))))
        n2 = 0
        for a_ in [U[i, 1] for i in range(n)]:
            n2 = V.add(n2, V.real_part(V.mul(a_, V.conj(a_))))
        ctx.assume(z3.And(V.z(V.cmp('!=', n1, 0)), V.z(V.cmp('!=', n2, 0))))          # non-zero input columns
        v = it.call(it.get_function(f'{IT}:orth'), [u], dict(normalize=norm))
        if not (isinstance(v, CArr) and tuple(v.shape) == (n, 2)):
            ctx.prove('rank_deficient_path_drops_a_column', isinstance(v, CArr) and v.shape[0] == n and v.shape[1] < 2)
            return
        v1, v2 = [v.data[i, 0] for i in range(n)], [v.data[i, 1] for i in range(n)]
        ip = 0
        for a_, b_ in zip(v1, v2):
            ip = V.add(ip, V.mul(a_, V.conj(b_)))
        from .C11 import eqc as _eqc
        if not norm:
            ctx.prove('first_vector_is_first_input', z3.And(*[_eqc(v1[i], U[i, 0]) for i in range(n)]))
            # v1^H v2 = 0  <=>  (v1 . conj v2) * |v1|^2 = 0: multiply the quotient out (|v1|^2 != 0)
            lhs = V.mul(ip, n1)
            from .C01 import poly_zero_full
            parts = (lhs.re, lhs.im) if isinstance(lhs, _Cx) else (lhs,)
            ok = all((not V.is_sym(p_) and p_ == 0) or (V.is_sym(p_) and poly_zero_full(V.zreal(p_))) for p_ in parts)
            ctx.prove('second_vector_orthogonal_to_first', True if ok else _eqc(ip, 0))
        else:
            ctx.prove('second_vector_orthogonal_to_first', _eqc(ip, 0))
        ctx.prove('argument_untouched', z3.And(*[_eqc(u.data[i, j], U[i, j]) for i in range(n) for j in range(2)]))
