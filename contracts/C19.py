"""C19 - finite_difference is a faithful, non-destructive derivative check (pymoto/routines.py: finite_difference, _has_signal_overlap).

The routine is executed from the real source against ABSTRACT modules (Module.response / sensitivity / reset are the real methods; the
module's _response / _sensitivity are used through their contract: every call returns fresh symbolic values and the argument values at the
time of the call are recorded) and against REAL Signal objects with symbolic contents.  The contract is stated over the ghost trace of
test_fn calls:

  * exactly one call per (perturbed entry, output) - plus one for the imaginary pass on complex inputs - in entry order;
  * analytical value  an = Re (resp. Im) of entry idx of the sensitivity that the module's _sensitivity returned for the seed used;
  * numerical value   fd = Re (resp. Im) of  sum( (Y_k - Y_0) / (dx sf) * seed )  where Y_k is the response the module returned for the
    k-th perturbed evaluation, and that evaluation saw exactly x + dx sf e_idx (resp. x + i dx sf e_idx): all other entries original;
  * zero entries are skipped iff keep_zero_structure;
  * afterwards every input state holds its original values exactly (same storage, entry by entry) and no signal carries a sensitivity.

Input shapes are enumerated (python float, 0-d/1-d/2-d real arrays, 1-d complex array; one or two inputs and outputs): contents, dx, tol and
seeds are symbolic.  The O(dx) remainder is analysis, not code (not applicable).  nditer enumerates in C order (fresh C-contiguous arrays).
"""
import itertools
import z3
from pvc import values as V
from pvc.values import CArr, LArr, Obj, Cx, PyExc, is_sym
from pvc.arrays import to_carr
from pvc.runner import harness
from .C18 import mk_signal

P = 'C19'
FD = 'pymoto.routines:finite_difference'
CO = 'pymoto.core_objects'
T = lambda m: f'{CO}:{m}'
TARGETS = [FD, 'pymoto.routines:_has_signal_overlap', T('Module.response'), T('Module.sensitivity'), T('Module.reset')]


def snap(v):
    """values of a state at the time of a call (arrays are mutable storages)"""
    if isinstance(v, CArr):
        return ('arr', v.shape, [v.data[i] for i in itertools.product(*[range(n) for n in v.shape])])
    return ('val', (), [v])


def sym_state(ctx, name, kind):
    """kind: 'float' | 'a0' | 'a1' (len 2) | 'a2' (2x1... shape (1,2)) | 'c1' (complex, len 1)"""
    if kind == 'float':
        return ctx.sym(name, 'real')
    if kind == 'a0':
        return to_carr(ctx.sym(name, 'real'))
    if kind == 'a1':
        return to_carr([ctx.sym(f'{name}{k}', 'real') for k in range(2)])
    if kind == 'a2':
        return to_carr([[ctx.sym(f'{name}{k}', 'real')] for k in range(2)])
    if kind == 'c1':
        return to_carr([Cx(ctx.sym(f'{name}r', 'real'), ctx.sym(f'{name}i', 'real'))])
    raise KeyError(kind)


class AbstractModule:
    """contract of a module with nin inputs and nout outputs: _response returns fresh symbolic scalars (real or complex) per call,
    _sensitivity returns fresh symbolic arrays of the input shapes per call; all arguments are recorded"""
    def __init__(self, ctx, it, sin, sout, out_kinds, in_states, tag='m'):
        self.ctx, self.it, self.tag = ctx, it, tag
        self.resp_calls, self.sens_calls, self.reset_calls = [], [], 0
        self.out_kinds, self.in_states = out_kinds, in_states
        self.mod = it.new_object(it.get_function(T('Module')), sig_in=list(sin), sig_out=list(sout))
        self.order = []

    def fresh_out(self, k, j, kind):
        c = self.ctx
        if kind == 'real':
            return c.sym(f'{self.tag}y{k}_{j}', 'real')
        if kind == 'cplx':
            return Cx(c.sym(f'{self.tag}y{k}_{j}r', 'real'), c.sym(f'{self.tag}y{k}_{j}i', 'real'))
        if kind == 'vec':
            return to_carr([c.sym(f'{self.tag}y{k}_{j}_{e}', 'real') for e in range(2)])
        raise KeyError(kind)

    def fresh_sens(self, k, j, st):
        c = self.ctx
        cplx = isinstance(st, CArr) and st.kind == 'complex'

        def one(nm):
            return Cx(c.sym(nm + 'r', 'real'), c.sym(nm + 'i', 'real')) if cplx else c.sym(nm, 'real')
        if isinstance(st, CArr):
            import numpy as np
            data = np.empty(st.shape, dtype=object)
            for e, idx in enumerate(itertools.product(*[range(n) for n in st.shape])):
                data[idx] = one(f'{self.tag}g{k}_{j}_{e}')
            return CArr(data, 'complex' if cplx else 'real')
        return one(f'{self.tag}g{k}_{j}')


def install(mods):
    """one summary dispatching on the module object (several abstract modules may coexist in a network)"""
    it = mods[0].it
    by_obj = {id(m.mod): m for m in mods}

    def resp(itp, args, kw):
        m = by_obj[id(args[0])]
        k = len(m.resp_calls)
        res = [m.fresh_out(k, j, kd) for j, kd in enumerate(m.out_kinds)]
        m.resp_calls.append(dict(args=[snap(a) for a in args[1:]], objs=list(args[1:]), results=res))
        m.order.append('response')
        return None if not res else (res[0] if len(res) == 1 else tuple(res))

    def sens(itp, args, kw):
        m = by_obj[id(args[0])]
        k = len(m.sens_calls)
        g = [m.fresh_sens(k, j, st) for j, st in enumerate(m.in_states)]
        m.sens_calls.append(dict(seeds=[snap(a) if a is not None else None for a in args[1:]], results=g))
        m.order.append('sensitivity')
        return None if not g else (g[0] if len(g) == 1 else tuple(g))

    def rst(itp, args, kw):
        m = by_obj[id(args[0])]
        m.reset_calls += 1
        m.order.append('reset')
    it.summaries[T('Module._response')] = resp
    it.summaries[T('Module._sensitivity')] = sens
    it.summaries[T('Module._reset')] = rst


def recorder(it, trace):
    from pvc.interp import Builtin
    return Builtin('test_fn', lambda x0, dx, an, fd: trace.append((x0, dx, an, fd)))


def re_(v):
    return v.re if isinstance(v, Cx) else v


def im_(v):
    return v.im if isinstance(v, Cx) else 0


def pair_sum(df_list, w_list):
    """sum(df * w) with complex arithmetic"""
    tot = 0
    for d, w in zip(df_list, w_list):
        tot = V.add(tot, V.mul(d, w))
    return tot


def entries(v):
    return snap(v)[2]


def eqv(a, b):
    if isinstance(a, Cx) or isinstance(b, Cx):
        return V.and_(V.cmp('==', re_(a), re_(b)), V.cmp('==', im_(a), im_(b)))
    return V.cmp('==', a, b)


def run_fd(ctx, it, blk, trace, **kw):
    f = it.get_function(FD)
    dx, tol = ctx.sym('dx', 'real'), ctx.sym('tol', 'real')
    ctx.assume(z3.And(dx > 0, tol > 0))
    kw.setdefault('verbose', False)
    it.call(f, [blk], dict(dx=dx, tol=tol, test_fn=recorder(it, trace), **kw))
    return dx


SINGLE = [('float', 'real'), ('a0', 'real'), ('a1', 'real'), ('a2', 'real'), ('a1', 'cplx'), ('a1', 'vec'), ('c1', 'real'), ('c1', 'cplx')]
for _ik, _ok in SINGLE:
    for _opts in ('default', 'all_entries', 'relative', 'relative_all_entries', 'ones', 'use_df'):
        if _opts != 'default' and (_ik, _ok) not in (('a1', 'real'), ('c1', 'cplx'), ('float', 'real')) or (_opts.startswith('relative') and _ik == 'c1'):
            continue

        @harness(P, f'finite_difference.single[{_ik}->{_ok},{_opts}]', targets=TARGETS, timeout=20000)
        def h_single(ctx, it, ik=_ik, ok=_ok, opts=_opts):
            """one module, one input, one output: trace of test_fn = (an from the module's sensitivity, fd from the module's perturbed
            responses at exactly x + h e_idx), zero entries skipped iff keep_zero_structure, exact restoration, nothing left set"""
            x = sym_state(ctx, 'x', ik)
            if ik == 'float' and opts not in ('all_entries', 'relative_all_entries'):
                ctx.assume(x != 0)      # a zero python float is perturbed although keep_zero_structure: finding C19-scalar-zero-perturbed (own harness)
            x_entries0 = list(entries(x))
            sin, sout = mk_signal(it, x), mk_signal(it, None)
            am = AbstractModule(ctx, it, [sin], [sout], [ok], [x])
            install([am])
            trace = []
            kw = {}
            keep_zero = True
            relative = False
            if opts in ('all_entries', 'relative_all_entries'):
                kw['keep_zero_structure'] = keep_zero = False
            if opts in ('relative', 'relative_all_entries'):
                kw['relative_dx'] = relative = True
            if opts == 'ones':
                kw['random'] = False
            given = None
            if opts == 'use_df':
                given = am.fresh_out('W', 0, ok)
                kw['use_df'] = [given]
            dx = run_fd(ctx, it, am.mod, trace, **kw)
            # ---- analytical pass: one response, then seed -> sensitivity -> reset
            ctx.prove('protocol.reset_first', am.order[:2] == ['reset', 'response'])
            ctx.prove('protocol.one_sensitivity_per_output', len(am.sens_calls) == 1 and am.order[2:4] == ['sensitivity', 'reset'])
            seed = am.sens_calls[0]['seeds'][0]
            w = seed[2]
            y0 = entries(am.resp_calls[0]['results'][0])
            if given is not None:
                ctx.prove('seed.is_use_df', z3.And(*[V.zbool(eqv(a, b)) for a, b in zip(w, entries(given))]))
            if opts == 'ones':
                one = Cx(1, 1) if ok == 'cplx' else 1
                ctx.prove('seed.is_ones', z3.And(*[V.zbool(eqv(a, one)) for a in w]))
            ctx.prove('seed.shape', len(w) == len(y0))
            g = entries(am.sens_calls[0]['results'][0])
            # ---- expected trace
            is_arr_in = isinstance(x, CArr)
            cplx_in = ik == 'c1'
            exp = []          # (entry index, 're'|'im')
            k_resp = 1
            ok_all = True
            for e, x0 in enumerate(x_entries0):
                zero = eqv(x0, 0)
                skipped = is_arr_in and keep_zero
                if skipped:
                    z = V.simp(V.zbool(zero)) if is_sym(zero) else zero
                    if z is True or (is_sym(z) and ctx.implied(z)):
                        continue
                    if is_sym(z) and not ctx.implied(z3.Not(z)):
                        raise AssertionError('path condition must decide x0 == 0')
                exp.append((e, 're'))
                if cplx_in:
                    exp.append((e, 'im'))
            ctx.prove('trace.length', len(trace) == len(exp))
            ctx.prove('responses.count', len(am.resp_calls) == 1 + len(exp))
            if len(trace) != len(exp) or len(am.resp_calls) != 1 + len(exp):
                return
            for t, (e, part) in enumerate(exp):
                x0 = x_entries0[e]
                tx0, tdx, an, fd = trace[t]
                # scale factor
                if relative:
                    if isinstance(x0, Cx):
                        sf = None
                    else:
                        sf = V.ite(V.cmp('!=', x0, 0), V.absv(x0), 1)
                else:
                    sf = 1
                call = am.resp_calls[1 + t]
                seen = call['args'][0][2]
                h = V.mul(dx, sf)
                for e2, (xs, xo) in enumerate(zip(seen, x_entries0)):
                    if e2 == e:
                        want = V.add(xo, h) if part == 're' else V.add(xo, V.mul(Cx(0, 1), h))
                    else:
                        want = xo
                    ctx.prove(f'perturbed_input[{t}].entry{e2}', eqv(xs, want))
                yk = entries(call['results'][0])
                hh = h if part == 're' else V.mul(Cx(0, 1), h)
                df = [V.div(V.sub(a, b), hh) for a, b in zip(yk, y0)]
                tot = pair_sum(df, w)
                want_fd = re_(tot) if part == 're' else im_(tot)
                ctx.prove(f'trace[{t}].fd', V.cmp('==', fd, want_fd))
                want_an = re_(g[e]) if part == 're' else im_(g[e])
                ctx.prove(f'trace[{t}].an', V.cmp('==', an, want_an))
                ctx.prove(f'trace[{t}].x0_dx', V.and_(eqv(tx0, x0), V.cmp('==', tdx, dx)))
            # ---- non-destructive
            st = it.getattr(sin, 'state')
            if is_arr_in:
                ctx.prove('restored.same_storage', st is x)
            ctx.prove('restored.values', z3.And(*[V.zbool(eqv(a, b)) for a, b in zip(entries(st), x_entries0)]) if x_entries0 else True)
            ctx.prove('no_sensitivity_left', it.getattr(sin, 'sensitivity') is None and it.getattr(sout, 'sensitivity') is None)


@harness(P, 'finite_difference.float_zero_skipped', targets=TARGETS, finding='C19-scalar-zero-perturbed')
def h_float_zero(ctx, it):
    """property: with keep_zero_structure (default) an input equal to zero is not perturbed - also when it is a python float.
    Recorded finding C19-scalar-zero-perturbed: the float path has no such test (this harness must keep failing in exactly that way)."""
    x = ctx.sym('x', 'real')
    ctx.assume(x == 0)
    sin, sout = mk_signal(it, x), mk_signal(it, None)
    am = AbstractModule(ctx, it, [sin], [sout], ['real'], [x])
    install([am])
    trace = []
    run_fd(ctx, it, am.mod, trace)
    ctx.prove('zero_float_not_perturbed', len(trace) == 0)


def expected_entries(ctx, x, keep_zero=True):
    """entries that must be perturbed on the current path (the path condition decides every x0 == 0 test)"""
    out = []
    for e, x0 in enumerate(entries(x)):
        if isinstance(x, CArr) and keep_zero:
            z = eqv(x0, 0)
            z = V.simp(V.zbool(z)) if is_sym(z) else z
            if z is True or (is_sym(z) and ctx.implied(z)):
                continue
            if is_sym(z) and not ctx.implied(z3.Not(z)):
                raise AssertionError('path condition must decide x0 == 0')
        out.append(e)
    return out


for _case in ('2in2out', 'none_output', 'none_sensitivity'):
    @harness(P, f'finite_difference.multi[{_case}]', targets=TARGETS, timeout=20000)
    def h_multi(ctx, it, case=_case):
        """two inputs (array of 2, python float) and two outputs: one analytical pass per output (seed set on that output only, sensitivity,
        copy of every input sensitivity, reset), trace ordered input-major / entry / output with an = dx_an[output][input][entry];
        an output that is None is skipped; an input whose sensitivity is None counts as zero"""
        xa = sym_state(ctx, 'xa', 'a1')
        xb = ctx.sym('xb', 'real')
        ctx.assume(xb != 0)
        xs = [xa, xb]
        orig = [list(entries(v)) for v in xs]
        sin = [mk_signal(it, xa), mk_signal(it, xb)]
        sout = [mk_signal(it, None), mk_signal(it, None)]
        kinds = ['real', 'vec']
        am = AbstractModule(ctx, it, sin, sout, kinds, xs)
        if case == 'none_output':
            am.fresh_out = (lambda old: (lambda k, j, kind: None if j == 0 else old(k, j, kind)))(am.fresh_out)
        if case == 'none_sensitivity':
            am.fresh_sens = (lambda old: (lambda k, j, st: None if j == 1 else old(k, j, st)))(am.fresh_sens)
        install([am])
        trace = []
        dx = run_fd(ctx, it, am.mod, trace)
        live_out = [j for j in range(2) if not (case == 'none_output' and j == 0)]
        ctx.prove('analytical.one_pass_per_live_output', len(am.sens_calls) == len(live_out))
        if len(am.sens_calls) != len(live_out):
            return
        for p, j in enumerate(live_out):
            seeds = am.sens_calls[p]['seeds']
            ctx.prove(f'analytical[{j}].only_this_output_seeded', all((s is not None) == (jj == j) for jj, s in enumerate(seeds)))
        # protocol: reset, response, then (sensitivity, reset) per live output, then only responses
        ctx.prove('protocol', am.order[:2] == ['reset', 'response'] and am.order[2:2 + 2 * len(live_out)] == ['sensitivity', 'reset'] * len(live_out)
                  and all(o == 'response' for o in am.order[2 + 2 * len(live_out):]))
        exp = []
        for i_in, x in enumerate(xs):
            for e in expected_entries(ctx, x):
                exp.append((i_in, e))
        ctx.prove('responses.count', len(am.resp_calls) == 1 + len(exp))
        ctx.prove('trace.length', len(trace) == len(exp) * len(live_out))
        if len(am.resp_calls) != 1 + len(exp) or len(trace) != len(exp) * len(live_out):
            return
        t = 0
        for r, (i_in, e) in enumerate(exp):
            call = am.resp_calls[1 + r]
            for i2 in range(2):
                for e2, (seen, xo) in enumerate(zip(call['args'][i2][2], orig[i2])):
                    want = V.add(xo, dx) if (i2 == i_in and e2 == e) else xo
                    ctx.prove(f'perturbed[{r}].input{i2}.entry{e2}', eqv(seen, want))
            for p, j in enumerate(live_out):
                tx0, tdx, an, fd = trace[t]
                t += 1
                w = am.sens_calls[p]['seeds'][j][2]
                y0 = entries(am.resp_calls[0]['results'][j])
                yk = entries(call['results'][j])
                tot = pair_sum([V.div(V.sub(a, b), dx) for a, b in zip(yk, y0)], w)
                ctx.prove(f'trace[{r},{j}].fd', V.cmp('==', fd, re_(tot)))
                g = am.sens_calls[p]['results'][i_in]
                want_an = 0 if g is None else re_(entries(g)[e])
                ctx.prove(f'trace[{r},{j}].an', V.cmp('==', an, want_an))
        for i2 in range(2):
            st = it.getattr(sin[i2], 'state')
            ctx.prove(f'restored.input{i2}', (st is xs[i2] or not isinstance(xs[i2], CArr)) and
                      V.zbool(z3.And(*[V.zbool(eqv(a, b)) for a, b in zip(entries(st), orig[i2])])))
        ctx.prove('no_sensitivity_left', all(it.getattr(s, 'sensitivity') is None for s in sin + sout))


def chain(ctx, it, n, kinds=None, sliced=None):
    """network m0: s0->s1, m1: s1->s2, ... of abstract modules on real Signal objects (all scalar real states)"""
    sigs = [mk_signal(it, ctx.sym(f's{k}', 'real') if k == 0 else None) for k in range(n + 1)]
    mods = []
    for k in range(n):
        am = AbstractModule(ctx, it, [sigs[k]], [sigs[k + 1]], ['real'], [ctx.sym(f's{k}', 'real')], tag=f'm{k}')
        mods.append(am)
    install(mods)
    net = it.call(it.get_function(T('Network')), [[m.mod for m in mods]])
    return sigs, mods, net


for _a, _b in [(0, 4), (1, 3), (2, 3), (0, 2), (3, 4), (1, 2)]:
    @harness(P, f'finite_difference.subnetwork[from=s{_a},to=s{_b}]', targets=TARGETS + [T('Network.__init__'), T('Network.append'), T('Network.response'),
                                                                                             T('Network.sensitivity'), T('Network.reset')], timeout=20000)
    def h_subnet(ctx, it, a=_a, b=_b):
        """chain of four modules s0 -> s1 -> s2 -> s3 -> s4, fromsig = s_a, tosig = s_b (a < b): the modules before the first consumer of s_a
        are evaluated exactly once (never again, never differentiated), exactly the modules a .. b-1 are re-evaluated for the perturbation
        and differentiated, modules after the last producer of s_b are never run; values of the trace as in the single-module contract with
        the composition s_a -> s_b as the function; s_a restored, no sensitivity left on any signal of the selected sub-network"""
        sigs, mods, net = chain(ctx, it, 4)
        for k in range(1, 5):
            # states upstream of fromsig exist only through the preliminary response
            pass
        x0 = None
        trace = []
        f = it.get_function(FD)
        dx, tol = ctx.sym('dx', 'real'), ctx.sym('tol', 'real')
        ctx.assume(z3.And(dx > 0, tol > 0))
        it.call(f, [net], dict(fromsig=sigs[a], tosig=sigs[b], dx=dx, tol=tol, test_fn=recorder(it, trace), verbose=False))
        for k, m in enumerate(mods):
            nresp, nsens = len(m.resp_calls), len(m.sens_calls)
            if k < a:
                ctx.prove(f'm{k}.pre_once', nresp == 1 and nsens == 0)
            elif k < b:
                ctx.prove(f'm{k}.selected', nresp == 2 and nsens == 1)
            else:
                ctx.prove(f'm{k}.not_run', nresp == 0 and nsens == 0)
        if any(len(m.resp_calls) != (1 if k < a else 2 if k < b else 0) for k, m in enumerate(mods)):
            return
        ctx.prove('trace.length', len(trace) == 1)
        if len(trace) != 1:
            return
        # the unperturbed value of s_a: s0 itself or what m_{a-1} produced
        xa = ctx.sym('s0', 'real') if a == 0 else mods[a - 1].resp_calls[0]['results'][0]
        first = mods[a]
        ctx.prove('first.sees_original_then_perturbed', V.and_(eqv(first.resp_calls[0]['args'][0][2][0], xa), eqv(first.resp_calls[1]['args'][0][2][0], V.add(xa, dx))))
        for k in range(a + 1, b):
            for r in range(2):
                ctx.prove(f'm{k}.chained[{r}]', eqv(mods[k].resp_calls[r]['args'][0][2][0], mods[k - 1].resp_calls[r]['results'][0]))
        last = mods[b - 1]
        w = last.sens_calls[0]['seeds'][0][2][0]
        for k in range(a, b - 1):
            ctx.prove(f'm{k}.seed_is_downstream_sensitivity', eqv(mods[k].sens_calls[0]['seeds'][0][2][0], mods[k + 1].sens_calls[0]['results'][0]))
        tx0, tdx, an, fd = trace[0]
        y0, y1 = last.resp_calls[0]['results'][0], last.resp_calls[1]['results'][0]
        ctx.prove('trace.fd', V.cmp('==', fd, V.mul(V.div(V.sub(y1, y0), dx), w)))
        ctx.prove('trace.an', V.cmp('==', an, first.sens_calls[0]['results'][0]))
        ctx.prove('restored', eqv(it.getattr(sigs[a], 'state'), xa))
        ctx.prove('no_sensitivity_left', all(it.getattr(s, 'sensitivity') is None for s in sigs[a:b + 1]))


@harness(P, 'finite_difference.subnetwork.no_consumer_raises', targets=TARGETS)
def h_subnet_err(ctx, it):
    """fromsig that no module consumes / tosig that no module produces: RuntimeError, nothing evaluated"""
    sigs, mods, net = chain(ctx, it, 2)
    other = mk_signal(it, ctx.sym('o', 'real'))
    f = it.get_function(FD)
    for tag, kw in (('from', dict(fromsig=other)), ('to', dict(tosig=other))):
        try:
            it.call(f, [net], dict(kw, verbose=False))
            ctx.prove(f'{tag}.raises', False)
        except PyExc as e:
            ctx.prove(f'{tag}.raises', e.cls == 'RuntimeError')
    ctx.prove('nothing_evaluated', all(len(m.resp_calls) == 0 and len(m.sens_calls) == 0 for m in mods))


@harness(P, 'finite_difference.subnetwork.upstream_output', targets=TARGETS, finding='C19-upstream-output-sens-left')
def h_subnet_upstream(ctx, it):
    """recorded finding C19-upstream-output-sens-left: tosig upstream of fromsig (fromsig = s2, tosig = s1) - the seed stays on s1"""
    sigs, mods, net = chain(ctx, it, 3)
    f = it.get_function(FD)
    trace = []
    it.call(f, [net], dict(fromsig=sigs[2], tosig=sigs[1], test_fn=recorder(it, trace), verbose=False))
    ctx.prove('no_sensitivity_left', all(it.getattr(s, 'sensitivity') is None for s in sigs))


def is_zero_or_none(v):
    if v is None:
        return True
    return z3.And(*[V.zbool(eqv(a, 0)) for a in entries(v)])


for _case in ('keep_alloc', 'basic_slice', 'intarray_slice', 'row_slice'):
    @harness(P, f'finite_difference.persistent_storage[{_case}]', targets=TARGETS + [T('SignalSlice.state'), T('SignalSlice.sensitivity'), T('SignalSlice.reset'), T('Signal.reset')],
             timeout=20000)
    def h_storage(ctx, it, case=_case):
        """inputs whose sensitivity storage survives reset() (pre-allocated buffer: reset zeroes in place; slices: the base keeps a zeroed
        array) and inputs whose state is a COPY of the base entries (integer-array slices: a perturbed copy must be written back and the
        restored copy too).  Same trace contract; the BASE state is restored exactly on every entry; what reset leaves is None or zeros"""
        import numpy as np
        if case == 'keep_alloc':
            x = sym_state(ctx, 'x', 'a1')
            from fractions import Fraction
            base = mk_signal(it, x, CArr(np.array([Fraction(0), Fraction(0)], dtype=object), 'real'))
            ctx.prove('setup.keep_alloc', it.getattr(base, 'keep_alloc') is True)
            sin = base
            sel = [0, 1]
            base_entries = list(entries(x))
        else:
            nb = 3 if case != 'row_slice' else 2
            if case == 'row_slice':
                x = to_carr([[ctx.sym(f'x{r}{c}', 'real') for c in range(2)] for r in range(2)])
            else:
                x = to_carr([ctx.sym(f'x{k}', 'real') for k in range(3)])
            base = mk_signal(it, x)
            base_entries = list(entries(x))
            if case == 'basic_slice':
                sin, sel = it.getitem(base, slice(1, 3)), [1, 2]
            elif case == 'intarray_slice':
                sin, sel = it.getitem(base, CArr(np.array([2, 0], dtype=object), 'int')), [2, 0]
            else:
                sin, sel = it.getitem(base, 1), [2, 3]            # second row of a 2x2 array
        sout = mk_signal(it, None)
        xin = it.getattr(sin, 'state')
        am = AbstractModule(ctx, it, [sin], [sout], ['real'], [xin])
        install([am])
        trace = []
        dx = run_fd(ctx, it, am.mod, trace, keep_zero_structure=False)
        ctx.prove('analytical.one_pass', len(am.sens_calls) == 1)
        ctx.prove('responses.count', len(am.resp_calls) == 1 + len(sel))
        ctx.prove('trace.length', len(trace) == len(sel))
        if len(am.sens_calls) != 1 or len(am.resp_calls) != 1 + len(sel) or len(trace) != len(sel):
            return
        g = entries(am.sens_calls[0]['results'][0])
        w = am.sens_calls[0]['seeds'][0][2]
        y0 = am.resp_calls[0]['results'][0]
        for t in range(len(sel)):
            tx0, tdx, an, fd = trace[t]
            call = am.resp_calls[1 + t]
            for e2 in range(len(sel)):
                xo = base_entries[sel[e2]]
                ctx.prove(f'perturbed[{t}].entry{e2}', eqv(call['args'][0][2][e2], V.add(xo, dx) if e2 == t else xo))
            ctx.prove(f'trace[{t}].an', V.cmp('==', an, g[t]))
            ctx.prove(f'trace[{t}].fd', V.cmp('==', fd, V.mul(V.div(V.sub(call['results'][0], y0), dx), w[0])))
        st = it.getattr(base, 'state')
        ctx.prove('base_restored.same_storage', st is x)
        ctx.prove('base_restored.values', z3.And(*[V.zbool(eqv(a, b)) for a, b in zip(entries(st), base_entries)]))
        ctx.prove('no_sensitivity_left', V.and_(V.zbool(is_zero_or_none(it.getattr(base, 'sensitivity'))), it.getattr(sout, 'sensitivity') is None))


for _order in ('near_far', 'far_near'):
    @harness(P, f'finite_difference.subnetwork.two_outputs[{_order}]', targets=TARGETS, timeout=20000)
    def h_two_tosig(ctx, it, order=_order):
        """chain s0 -> s1 -> s2 -> s3 with tosig = [s1, s3] (either order): the LAST producer of any requested output bounds the
        sub-network, so all three modules are re-evaluated and differentiated for each output, and both outputs are reported"""
        sigs, mods, net = chain(ctx, it, 3)
        tos = [sigs[1], sigs[3]] if order == 'near_far' else [sigs[3], sigs[1]]
        which = [0, 2] if order == 'near_far' else [2, 0]          # producing module of each requested output
        trace = []
        f = it.get_function(FD)
        dx, tol = ctx.sym('dx', 'real'), ctx.sym('tol', 'real')
        ctx.assume(z3.And(dx > 0, tol > 0))
        ctx.assume(ctx.sym('s0', 'real') != 0)
        it.call(f, [net], dict(fromsig=sigs[0], tosig=tos, dx=dx, tol=tol, test_fn=recorder(it, trace), verbose=False))
        ctx.prove('all_modules_reevaluated', all(len(m.resp_calls) == 2 for m in mods))
        ctx.prove('trace.length', len(trace) == 2)
        if len(trace) != 2 or not all(len(m.resp_calls) == 2 for m in mods):
            return
        for j in range(2):
            pm = mods[which[j]]
            # analytical pass j seeds output j only; the module producing it is differentiated in that pass
            seeded_pass = [p for p, c in enumerate(pm.sens_calls) if c['seeds'][0] is not None]
            ctx.prove(f'output{j}.producer_differentiated', len(seeded_pass) >= 1)
            tx0, tdx, an, fd = trace[j]
            y0, y1 = pm.resp_calls[0]['results'][0], pm.resp_calls[1]['results'][0]
            # the seed of pass j as seen by the producer of output j
            passes = [c for c in pm.sens_calls]
            ok_fd = False
            for c in passes:
                if c['seeds'][0] is not None:
                    ok_fd = V.or_(ok_fd, V.cmp('==', fd, V.mul(V.div(V.sub(y1, y0), dx), c['seeds'][0][2][0])))
            ctx.prove(f'output{j}.fd_uses_producer_outputs', ok_fd)
        # an of output j = what m0 returned in pass j (m0 is differentiated once per pass in which a seed reaches it)
        ctx.prove('m0.differentiated_per_output', len(mods[0].sens_calls) == 2)
        if len(mods[0].sens_calls) == 2:
            for j in range(2):
                ctx.prove(f'output{j}.an', V.cmp('==', trace[j][2], mods[0].sens_calls[j]['results'][0]))
        ctx.prove('no_sensitivity_left', all(it.getattr(s, 'sensitivity') is None for s in sigs))
