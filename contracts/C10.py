"""C10 - MMA (pymoto/common/mma.py: MMA.response, MMA.mmasub; subsolv through its contract).

mmasub is proved at index level for a symbolic number of variables and constraints: bounds, move limit, strict enclosure by the asymptotes,
non-negative coefficients, value and gradient reproduction of the convex approximations (both versions), asymptote adaptation rule, and the
data handed to the subproblem solver.  MMA.response is proved for enumerated layouts of the variable signals (scalars and arrays of symbolic
length; scalar / per-signal / per-variable bounds and move limits): expansion of the bounds, write-back of the design to the right signals,
one reset + seed + sensitivity per response.  The interior-point solver subsolv and convergence are the bounded stand-in (native/C10.py).
"""
import itertools
import z3
from pvc import values as V
from pvc import nplib
from pvc.values import CArr, LArr, Obj, PyExc
from pvc.arrays import to_carr, to_larr, snapshot
from pvc.runner import harness
from .C18 import arr, mk_signal

P = 'C10'
M = 'pymoto.common.mma'


def mk_mma(ctx, it, n, m, version, move_kind='scalar', with_history=False):
    mma = it.new_object(it.get_function(f'{M}:MMA'))
    f = lambda name, kind='real': ctx.sym(name, kind)
    xmin, XMIN = arr(ctx, 'xmin', (n,))
    xmax, XMAX = arr(ctx, 'xmax', (n,))
    fields = dict(n=n, m=m, xmin=xmin, xmax=xmax, dx=None, offset=None, xold1=None, xold2=None, low=None, upp=None,
                  albefa=f('albefa'), asyinit=f('asyinit'), asyincr=f('asyincr'), asydecr=f('asydecr'), asybound=f('asybound'),
                  mmaversion=version, epsimin=f('epsimin'), a0=f('a0'), verbosity=0, iter=0, responses=[], variables=[],
                  a=arr(ctx, 'avec', (m,))[0], c=arr(ctx, 'cvec', (m,))[0], d=arr(ctx, 'dvec', (m,))[0],
                  gold1=arr(ctx, 'gold1', (m + 1,))[0], gold2=arr(ctx, 'gold2', (m + 1,))[0])
    if move_kind == 'scalar':
        fields['move'] = f('move')
        MOVE = lambda j: fields['move']
    else:
        mv, MV = arr(ctx, 'movev', (n,))
        fields['move'] = mv
        MOVE = lambda j: MV(j)
    for k_, v_ in fields.items():
        it.setattr(mma, k_, v_)
    g = ctx.assume
    g(z3.And(fields['albefa'] > 0, fields['albefa'] < 1, fields['asyinit'] > 0, fields['asyincr'] >= 1, fields['asydecr'] > 0, fields['asydecr'] <= 1, fields['asybound'] >= 1,
             fields['epsimin'] > 0))
    return mma, XMIN, XMAX, MOVE, fields


def run_mmasub(ctx, it, version, move_kind, history):
    n, m = ctx.sym('n'), ctx.sym('m')
    ctx.assume(z3.And(n >= 1, m >= 1))
    mma, XMIN, XMAX, MOVE, fields = mk_mma(ctx, it, n, m, version, move_kind)
    xval, X = arr(ctx, 'xval', (n,))
    gv, G = arr(ctx, 'g', (m + 1,))
    dg, DG = arr(ctx, 'dg', (m + 1, n))
    OFF = X1 = X2 = None
    if history:
        dxv, DX = arr(ctx, 'dxprev', (n,))
        off, OFF = arr(ctx, 'offset', (n,))
        xo1, X1 = arr(ctx, 'xold1', (n,))
        xo2, X2 = arr(ctx, 'xold2', (n,))
        it.setattr(mma, 'offset', off); it.setattr(mma, 'xold1', xo1); it.setattr(mma, 'xold2', xo2)
    q = z3.Int('q!adm')
    # admissibility: xmin <= xval <= xmax, xmin < xmax, move > 0 (the start point is inside the bounds; outer-loop invariant of the iteration)
    ctx.hyps.append(z3.ForAll([q], z3.Implies(z3.And(q >= 0, q < n), z3.And(XMIN(q) <= X(q), X(q) <= XMAX(q), XMIN(q) < XMAX(q), V.zreal(MOVE(q)) > 0))))
    if history:
        ctx.hyps.append(z3.ForAll([q], z3.Implies(z3.And(q >= 0, q < n), OFF(q) > 0)))
    rec = []

    def subsolv(itp, args, kw):
        rec.append((args, kw))
        xs, XS = arr(ctx, 'xmma', (n,))
        return (xs, arr(ctx, 'ymma', (m,))[0], ctx.fresh('z', 'real'), arr(ctx, 'lam', (m,))[0], arr(ctx, 'xsi', (n,))[0], arr(ctx, 'eta', (n,))[0],
                arr(ctx, 'mu', (m,))[0], ctx.fresh('zet', 'real'), arr(ctx, 's', (m,))[0])
    it.summaries[f'{M}:subsolv'] = subsolv
    ctx.safety_on = False
    ctx.name_fields = {'offset'}      # the updated offset vector gets a name (definitional extension), see Context.name_array
    ret = it.call(it.getattr(mma, 'mmasub'), [xval, gv, dg])
    return dict(n=n, m=m, mma=mma, XMIN=XMIN, XMAX=XMAX, MOVE=MOVE, X=X, G=G, DG=DG, OFF=OFF, X1=X1, X2=X2, rec=rec, ret=ret, fields=fields, xval=xval, gv=gv, dg=dg)


for _ver in ('Svanberg2007', 'Svanberg1987'):
    for _mk in ('scalar', 'vector'):
        for _hist in (False, True):
            @harness(P, f'mmasub.subproblem[{_ver},move={_mk},{"adapted" if _hist else "first"}]', targets=[f'{M}:MMA.mmasub'], timeout=60000)
            def h_mmasub(ctx, it, ver=_ver, mk=_mk, hist=_hist):
                """the admissible interval [alfa, beta] lies inside [xmin, xmax] and inside the move limit, contains the current design and is
                strictly enclosed by the asymptotes; P, Q >= 0; the approximations reproduce value and gradient of every response at the current
                design; the asymptote offsets follow the incr/decr/clip rule; the subproblem solver receives exactly these data"""
                r = run_mmasub(ctx, it, ver, mk, hist)
                n, m, rec, f = r['n'], r['m'], r['rec'], r['fields']
                ctx.prove('one_subproblem', len(rec) == 1)
                args, kw = rec[0]
                epsimin_s, low, upp, alfa, beta, Pm, Qm, a0, a, b, c, d = args[:12]
                x0 = kw.get('x0', args[12] if len(args) > 12 else None)
                j = ctx.sym('j')
                i = ctx.sym('i')
                ctx.assume(z3.And(j >= 0, j < n, i >= 0, i <= m))
                X, XMIN, XMAX = r['X'](j), r['XMIN'](j), r['XMAX'](j)
                mv = V.zreal(r['MOVE'](j))
                dxj = XMAX - XMIN
                if hist:
                    zzz = (X - r['X1'](j)) * (r['X1'](j) - r['X2'](j))
                    raw = z3.If(zzz > 0, r['OFF'](j) * f['asyincr'], z3.If(zzz < 0, r['OFF'](j) * f['asydecr'], r['OFF'](j)))
                    lo_c = 1 / (f['asybound'] * f['asybound'])
                    offs = z3.If(raw < lo_c, lo_c, z3.If(raw > f['asybound'], f['asybound'], raw))
                else:
                    offs = f['asyinit']
                offset_now = it.getattr(r['mma'], 'offset')
                ctx.prove('offset_rule', V.zreal(offset_now.at(j)) == offs)
                ctx.prove('offset_positive', V.zreal(offset_now.at(j)) > 0)
                # everything below holds for ANY positive value o of the (already checked) offset: abstract the nested offset term of the code by a
                # fresh variable and prove from the local admissibility facts only (small nonlinear queries, quick counter-models)
                o = V.zreal(offset_now.at(j))          # the named offset F(j): an atom in all terms below
                ab = lambda e: e
                local = [o > 0, XMIN <= X, X <= XMAX, XMIN < XMAX, mv > 0, f['albefa'] > 0, f['albefa'] < 1]
                shift = o * dxj
                L_, U_ = ab(V.zreal(low.at(j))), ab(V.zreal(upp.at(j)))
                ctx.prove_isolated('asymptotes', z3.And(L_ == X - shift, U_ == X + shift), local)
                ctx.prove('asymptotes_stored', it.getattr(r['mma'], 'low') is low and it.getattr(r['mma'], 'upp') is upp)
                A_, B_ = ab(V.zreal(alfa.at(j))), ab(V.zreal(beta.at(j)))
                ctx.prove_isolated('alfa_ge_xmin', A_ >= XMIN, local)
                ctx.prove_isolated('beta_le_xmax', B_ <= XMAX, local)
                ctx.prove_isolated('move_limit', z3.And(A_ >= X - mv * dxj, B_ <= X + mv * dxj), local)
                ctx.prove_isolated('enclosure', z3.And(L_ < A_, A_ <= X, X <= B_, B_ < U_), local)
                ctx.prove_isolated('alfa_formula', A_ == _max3(X - shift + f['albefa'] * shift, X - mv * dxj, XMIN), local)
                ctx.prove_isolated('beta_formula', B_ == _min3(X + shift - f['albefa'] * shift, X + mv * dxj, XMAX), local)
                # coefficients
                Pij, Qij, dgij = ab(V.zreal(Pm.at(i, j))), ab(V.zreal(Qm.at(i, j))), r['DG'](i, j)
                ctx.prove_isolated('PQ_nonnegative', z3.And(Pij >= 0, Qij >= 0), local)
                if '2007' in ver:
                    ctx.prove_isolated('PQ_positive_2007', z3.And(Pij > 0, Qij > 0), local)
                # gradient of  sum_j P_ij/(upp_j - x_j) + Q_ij/(x_j - low_j)  at x = xval:  P/shift^2 - Q/shift^2
                ctx.prove_isolated('gradient_reproduced', Pij / (shift * shift) - Qij / (shift * shift) == dgij, local)
                # value: b = (P 1/shift + Q 1/shift - g)[1:], so that approx_i(xval) - b_i = g_i ; compare with the library Sigma-terms on the SAME P, Q
                inv_shift = LArr((n,), lambda idx: V.div(1, V.mul(offset_now.at(idx[0]), V.sub(r['fields']['xmax'].at(idx[0]), r['fields']['xmin'].at(idx[0])))), 'real')
                dP, dQ = nplib.np_dot(it, Pm, inv_shift), nplib.np_dot(it, Qm, inv_shift)
                k = ctx.sym('k')
                ctx.assume(z3.And(k >= 0, k < m))
                ctx.prove('b_length', V.cmp('==', b.shape[0], m))
                ctx.prove('value_reproduced', V.zreal(b.at(k)) == V.zreal(dP.at(k + 1)) + V.zreal(dQ.at(k + 1)) - r['G'](k + 1))
                ctx.prove('solver_parameters', z3.And(V.zbool(V.cmp('==', epsimin_s, V.mul(f['epsimin'], V.sqrt(V.add(m, n))))), a0 is f['a0'], a is f['a'], c is f['c'], d is f['d']))
                ctx.prove('warm_start_is_current_design', x0 is r['xval'] or (x0 is not None and V.cmp('==', x0.at(j), r['X'](j))))
                # bookkeeping for the next asymptote update: xold2 <- xold1 <- copy of xval
                xo1 = it.getattr(r['mma'], 'xold1')
                ctx.prove('history_shift', xo1 is not r['xval'] and V.cmp('==', xo1.at(j), r['X'](j)) and (not hist or V.cmp('==', it.getattr(r['mma'], 'xold2').at(j), r['X1'](j))))
                ctx.prove('returns_subproblem_solution', r['ret'][0] is not None and len(r['ret']) == 2)
                ctx.prove('inputs_untouched', z3.And(V.zbool(V.cmp('==', r['xval'].at(j), r['X'](j))), V.zbool(V.cmp('==', r['dg'].at(i, j), r['DG'](i, j))), V.zbool(V.cmp('==', r['gv'].at(i), r['G'](i)))))


def _max3(a, b, c):
    m = z3.If(a >= b, a, b)
    return z3.If(m >= c, m, c)


def _min3(a, b, c):
    m = z3.If(a <= b, a, b)
    return z3.If(m <= c, m, c)


@harness(P, 'mmasub.invalid_version', targets=[f'{M}:MMA.mmasub'])
def h_badver(ctx, it):
    try:
        run_mmasub(ctx, it, 'Svanberg1999', 'scalar', False)
        ctx.prove('raises', False)
    except PyExc as e:
        ctx.prove('raises', e.cls == 'ValueError')


def abstract_network(ctx, it, log):
    net = it.new_object(it.get_function('pymoto.core_objects:Network'), mods=[], sig_in=[], sig_out=[], print_timing=False)
    for name in ('response', 'sensitivity', 'reset'):
        it.summaries[f'pymoto.core_objects:Network.{name}'] = (lambda nm: (lambda itp, a, k: log.append((nm, None))))(name)
    return net


LAYOUTS = {'one_array': ['a'], 'scalar_only': ['s'], 'array_scalar_array': ['a', 's', 'a'], 'scalars_first': ['s', 's', 'a'], 'array_array_scalar': ['a', 'a', 's']}

for _lay, _bk in itertools.product(LAYOUTS, ('scalar', 'per_signal', 'per_variable')):
    @harness(P, f'MMA.response.layout[{_lay},bounds={_bk}]', targets=[f'{M}:MMA.response', f'{M}:MMA.__init__', 'pymoto.utils:_concatenate_to_array'], timeout=30000)
    def h_response(ctx, it, lay=_lay, bk=_bk):
        """design variables spread over several signals (arrays of symbolic length and scalars): bounds and move limits given as scalar / one per
        signal / one per variable are expanded to one value per design variable; in every iteration each signal receives exactly its own slice of
        the design vector (a scalar signal receives its own entry), each response is seeded alone with 1 after a reset, and the network is reset
        between the sensitivity runs"""
        kinds = LAYOUTS[lay]
        lens, states, sigs, FX = [], [], [], []
        for k, kind in enumerate(kinds):
            if kind == 'a':
                nk = ctx.sym(f'n{k}')
                ctx.assume(nk >= 2)
                st, F = arr(ctx, f'x{k}', (nk,))
                lens.append(nk); FX.append(F)
            else:
                st = ctx.sym(f'x{k}', 'real')
                lens.append(1); FX.append(None)
            states.append(st)
            sigs.append(mk_signal(it, st))
        offs = [0]
        for l in lens:
            offs.append(V.add(offs[-1], l))
        ntot = offs[-1]
        f0, f1 = mk_signal(it, ctx.sym('f0', 'real')), mk_signal(it, ctx.sym('f1', 'real'))
        ctx.assume(ctx.sym('f0', 'real') != 0)
        log = []
        net = abstract_network(ctx, it, log)
        if bk == 'scalar':
            xmin, xmax, move = ctx.sym('lo', 'real'), ctx.sym('hi', 'real'), ctx.sym('mv', 'real')
            want = lambda which, k, t: {'xmin': xmin, 'xmax': xmax, 'move': move}[which]
        elif bk == 'per_signal':
            los = [ctx.sym(f'lo{k}', 'real') for k in range(len(kinds))]
            his = [ctx.sym(f'hi{k}', 'real') for k in range(len(kinds))]
            mvs = [ctx.sym(f'mv{k}', 'real') for k in range(len(kinds))]
            xmin, xmax, move = to_carr(los), to_carr(his), to_carr(mvs)
            want = lambda which, k, t: {'xmin': los, 'xmax': his, 'move': mvs}[which][k]
        else:
            (xmin, LO), (xmax, HI), (move, MV) = arr(ctx, 'lo', (ntot,)), arr(ctx, 'hi', (ntot,)), arr(ctx, 'mv', (ntot,))
            want = lambda which, k, t: {'xmin': LO, 'xmax': HI, 'move': MV}[which](V.zint(V.add(offs[k], t)))
        if bk == 'per_signal' and len(kinds) == 1 and kinds[0] == 's':
            pass
        calls = []
        xnews = []

        def mmasub(itp, args, kw):
            calls.append(args)
            xn, XN = arr(ctx, f'xnew{len(calls)}', (ntot,))
            xnews.append((xn, XN))
            return (xn, ctx.fresh('change', 'real'))
        it.summaries[f'{M}:MMA.mmasub'] = mmasub
        seen = []

        def callback(*a):
            seen.append([it.getattr(s, 'state') for s in sigs])
        from pvc.interp import Builtin
        ctx.safety_on = False
        mma = it.call(it.get_function(f'{M}:MMA'), [net, list(sigs), [f0, f1]], dict(xmin=xmin, xmax=xmax, move=move, maxit=2, tolx=0, tolf=0, verbosity=0,
                                                                                      fn_callback=Builtin('cb', callback)))
        it.getattr(mma, 'dx')
        it.setattr(mma, 'dx', arr(ctx, 'dxv', (ntot,))[0])
        ctx.assume(z3.BoolVal(True))
        it.call(it.getattr(mma, 'response'), [])
        # 1. expansion of bounds and move limits
        for which in ('xmin', 'xmax', 'move'):
            v = it.getattr(mma, which)
            for k, kind in enumerate(kinds):
                t = ctx.fresh('t')
                ctx.assume(z3.And(t >= 0, t < V.zint(lens[k])))
                got = (to_larr(v) if isinstance(v, CArr) else v).at(V.add(offs[k], t)) if not V.is_scalar(v) else v
                ctx.prove(f'expanded.{which}[{k}]', V.cmp('==', got, want(which, k, t)))
        # 2. the design handed to the approximation step and written back to the signals
        if len(calls) < 2:
            # a path on which the (symbolic) convergence test stopped the loop early: nothing more to check than what ran
            ctx.prove('stopped_early_consistent', len(seen) >= len(calls))
            return
        ctx.prove('two_iterations', len(calls) == 2 and len(seen) == 2)
        for itn in range(len(seen)):
            for k, kind in enumerate(kinds):
                st = seen[itn][k]
                t = ctx.fresh('t')
                ctx.assume(z3.And(t >= 0, t < V.zint(lens[k])))
                if itn == 0:
                    src = (lambda tt, k=k: FX[k](tt)) if kind == 'a' else (lambda tt, k=k: states[k])
                else:
                    XN = xnews[itn - 1][1]
                    src = (lambda tt, k=k, XN=XN: XN(V.zint(V.add(offs[k], tt))))
                if kind == 's':
                    ctx.prove(f'writeback[{itn}].scalar_signal_gets_own_entry[{k}]', V.is_scalar(st) and V.cmp('==', st, src(0)))
                else:
                    ctx.prove(f'writeback[{itn}].array_signal_gets_own_slice[{k}]', (not V.is_scalar(st)) and z3.And(V.zbool(V.cmp('==', st.shape[0], lens[k])), V.zbool(V.cmp('==', (to_larr(st) if isinstance(st, CArr) else st).at(t), src(t)))))
            xv = calls[itn][1]
            t = ctx.fresh('t')
            kk = 0
        # 3. sensitivity protocol: per iteration  reset, response, then for each of the 2 responses: sensitivity + reset
        per_it = [e[0] for e in log]
        ctx.prove('protocol', per_it[:12] == ['reset', 'response', 'sensitivity', 'reset', 'sensitivity', 'reset'] * 2)


# ------------------------------------------------------------------------------------------------ subsolv: the starting point of the interior-point iteration
class _StopHere(Exception):
    pass


class _ContractAtLoopHead:
    """prefix contract: obligations about the state in which the first loop of the function is entered; execution stops there (the loop itself - a
    primal-dual Newton iteration with line search - is covered by the bounded stand-in)"""
    def __init__(self, cb):
        self.cb = cb

    def run_while(self, it, st, env, k):
        self.cb(it.ctx, env)
        raise _StopHere()


for _start in ('default', 'warm'):
    @harness(P, f'subsolv.interior_start[{_start}]', targets=[f'{M}:subsolv'])
    def h_subsolv_start(ctx, it, start=_start):
        """the interior-point solver must START strictly inside the box: alfa_j < x_j < beta_j for every variable (the barrier terms 1/(x-alfa),
        1/(beta-x) and the initial multipliers xsi, eta are defined only there), for the default start (mid-point) and for a warm start x0 given
        by the caller - which may lie on or outside the bounds and is pulled strictly inside; all slack and multiplier start values are positive.
        Precondition: beta_j - alfa_j > 2e-10 (the box is wider than the clipping margin)"""
        from fractions import Fraction
        n, m = ctx.sym('n'), 2
        ctx.assume(n >= 1)
        (alfa, AL), (beta, BE), (low, LO), (upp, UP) = (arr(ctx, nm, (n,)) for nm in ('alfa', 'beta', 'low', 'upp'))
        x0, X0 = arr(ctx, 'x0', (n,))
        P_, _ = arr(ctx, 'P', (m + 1, n))
        Q_, _ = arr(ctx, 'Q', (m + 1, n))
        j = ctx.sym('j')
        ctx.assume(z3.And(j >= 0, j < n))
        q = z3.Int('q!box')
        ctx.hyps.append(z3.ForAll([q], z3.Implies(z3.And(q >= 0, q < n), BE(q) - AL(q) > z3.RealVal('2/10000000000'))))
        a_ = CArr(to_carr([0, 0]).data, 'real')
        c_ = CArr(to_carr([ctx.sym('c0', 'real'), ctx.sym('c1', 'real')]).data, 'real')
        seen = {}

        def at_loop_head(c, env):
            for nm in ('x', 'y', 'z', 'lam', 'xsi', 'eta', 'mu', 'zet', 's'):
                seen[nm] = env.lookup(nm)
        it.loop_specs[(f'{M}:subsolv', 0)] = _ContractAtLoopHead(at_loop_head)
        ctx.safety_on = False
        try:
            it.call(it.get_function(f'{M}:subsolv'), [Fraction(1, 10 ** 7), low, upp, alfa, beta, P_, Q_, 1, a_, CArr(to_carr([0, 0]).data, 'real'), c_,
                                                    CArr(to_carr([1, 1]).data, 'real')], dict(x0=x0) if start == 'warm' else {})
            ctx.prove('loop_reached', False)
            return
        except _StopHere:
            pass
        xj = seen['x'].at(j)
        ctx.prove('start_strictly_above_lower_bound', V.cmp('>', xj, AL(j)))
        ctx.prove('start_strictly_below_upper_bound', V.cmp('<', xj, BE(j)))
        ctx.prove('bound_multipliers_positive', V.and_(V.cmp('>', seen['xsi'].at(j), 0), V.cmp('>', seen['eta'].at(j), 0)))
        for nm in ('y', 'lam', 's', 'mu'):
            v = seen[nm]
            ctx.prove(f'{nm}_positive', z3.And(*[V.z(V.cmp('>', (v.data[k] if isinstance(v, CArr) else v.at(k)), 0)) for k in range(m)]))
        ctx.prove('z_zet_positive', V.and_(V.cmp('>', seen['z'], 0), V.cmp('>', seen['zet'], 0)))


@harness(P, 'MMA.__init__.parameters_as_given', targets=[f'{M}:MMA.__init__'])
def h_mma_params(ctx, it):
    """every tuning parameter the caller passes is the one in effect (asyinit, asyincr, asydecr, asybound, albefa, pijconst, a0, epsimin, cCoef, move, maxit,
    tolx, tolf, mmaversion), and each keeps its documented default when omitted - the asymptote rule proved for mmasub reads them from the object"""
    from fractions import Fraction
    net = abstract_network(ctx, it, [])
    x = mk_signal(it, arr(ctx, 'x0', (ctx.sym('n'),))[0])
    f0 = mk_signal(it, ctx.sym('f0', 'real'))
    names = ['asyinit', 'asyincr', 'asydecr', 'asybound', 'albefa', 'pijconst', 'a0', 'epsimin', 'cCoef']
    vals = {nm: ctx.sym('p_' + nm, 'real') for nm in names}
    ctx.safety_on = False
    mma = it.call(it.get_function(f'{M}:MMA'), [net, [x], [f0]], dict(vals, mmaversion='Svanberg1987', move=ctx.sym('mv', 'real'), maxit=7, tolx=ctx.sym('tx', 'real'),
                                                                       tolf=ctx.sym('tf', 'real')))
    for nm in names:
        ctx.prove(f'given.{nm}', it.getattr(mma, nm) is vals[nm])
    ctx.prove('given.mmaversion', it.getattr(mma, 'mmaversion') == 'Svanberg1987')
    ctx.prove('given.move_maxit_tol', it.getattr(mma, 'move') is ctx.sym('mv', 'real') and it.getattr(mma, 'maxIt') == 7 and it.getattr(mma, 'tolX') is ctx.sym('tx', 'real')
              and it.getattr(mma, 'tolf') is ctx.sym('tf', 'real'))
    dflt = it.call(it.get_function(f'{M}:MMA'), [net, [x], [f0]], {})
    want = dict(asyinit=Fraction(1, 2), asyincr=Fraction(6, 5), asydecr=Fraction(7, 10), asybound=10, albefa=Fraction(1, 10), a0=1)
    for nm, v in want.items():
        ctx.prove(f'default.{nm}', V.cmp('==', it.getattr(dflt, nm), v))
    ctx.prove('default.mmaversion', it.getattr(dflt, 'mmaversion') == 'Svanberg2007')
