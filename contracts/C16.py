"""C16 - aggregations and active sets (pymoto/modules/aggregation.py)."""
import z3
from pvc import values as V
from pvc.values import CArr, LArr, Obj
from pvc.arrays import to_carr
from pvc.runner import harness
from pvc import npspec  # noqa (import order)
from pvc import nplib

P = 'C16'
M = 'pymoto.modules.aggregation'
T = lambda m: f'{M}:{m}'


def sym_vec(ctx, name='x', n=None, positive=False):
    n = ctx.sym('n') if n is None else n
    ctx.assume(V.cmp('>=', n, 1))
    X = z3.Function(name, z3.IntSort(), z3.RealSort())
    if positive:
        q = z3.Int('q!pos')
        ctx.hyps.append(z3.ForAll([q], X(q) > 0))
    return LArr((n,), lambda i: X(V.zint(i[0])), 'real'), X, n


def true_minmax(ctx, X, n, tag=''):
    """ghost: the true minimum and maximum of X over [0,n) with their witnesses"""
    mn, mx = ctx.sym('true_min' + tag, 'real'), ctx.sym('true_max' + tag, 'real')
    a, b = ctx.sym('argmin' + tag), ctx.sym('argmax' + tag)
    q = z3.Int('q!mm' + tag)
    ctx.hyps.append(z3.ForAll([q], z3.Implies(z3.And(q >= 0, q < V.zint(n)), z3.And(mn <= X(q), X(q) <= mx))))
    ctx.assume(z3.And(a >= 0, a < V.zint(n), b >= 0, b < V.zint(n), X(a) == mn, X(b) == mx))
    return mn, mx


def _mk_active(case):
    @harness(P, f'AggActiveSet.__call__.mask[{case}]', targets=[T('AggActiveSet.__call__'), T('AggActiveSet.__init__')])
    def h(ctx, it, case=case):
        h_active_set(ctx, it, case)
    h.__doc__ = h_active_set.__doc__
    return h


def h_active_set(ctx, it, case):
    """sel[i] <=> normalised value in [lower_rel, upper_rel] and rank(i) >= floor(n*lower_amt) and rank(i) < n - floor(n*(1-upper_amt));
    Ellipsis exactly when all values are equal.  rank = ghost inverse of the argsort permutation used by the code."""
    x, X, n = sym_vec(ctx)
    lr, ur, la, ua = (ctx.sym(k, 'real') for k in ('lower_rel', 'upper_rel', 'lower_amt', 'upper_amt'))
    cls = it.get_function(T('AggActiveSet'))
    # complete case split over which of the four filters is switched on (16 cases, one harness each)
    for bit, cond in zip(case, (lr > 0, ur < 1, la > 0, ua < 1)):
        ctx.assume(cond if bit == '1' else z3.Not(cond))
    aset = it.call(cls, [lr, ur, la, ua])          # real constructor: its asserts are the admissibility precondition
    mn, mx = true_minmax(ctx, X, n)
    res = it.call(aset, [x])
    i = ctx.sym('i')
    ctx.assume(z3.And(i >= 0, i < V.zint(n)))
    if res is Ellipsis:
        ctx.prove('ellipsis_iff_flat', X(i) == X(0))
        ctx.prove('ellipsis_iff_flat.minmax', mn == mx)
        return
    ctx.prove('not_ellipsis_iff_not_flat', mn < mx)
    ctx.prove('result_shape', z3.And(res.ndim == 1, V.zbool(V.cmp('==', res.shape[0], n))))
    ranks = [g for g in ctx.ghost_log if g[0] == 'argsort']
    ctx.prove('single_sort', len(ranks) == 1)
    rank = ranks[0][2]
    xrel = (X(i) - mn) / (mx - mn)
    nr = V.zreal(n)
    n_lo = z3.ToInt(nr * la)
    n_up = z3.ToInt(nr * (1 - ua))
    spec = z3.And(z3.Implies(lr > 0, xrel >= lr), z3.Implies(ur < 1, xrel <= ur),
                  z3.Implies(la > 0, rank(i) >= n_lo), z3.Implies(ua < 1, rank(i) < V.zint(n) - n_up))
    ctx.prove('mask', V.zbool(res.at(i)) == spec)
    # a fraction that rounds to zero entries removes nothing
    ctx.prove('zero_count_removes_nothing', z3.Implies(z3.And(lr <= 0, ur >= 1, z3.Or(la <= 0, n_lo == 0), z3.Or(ua >= 1, n_up == 0)), V.zbool(res.at(i))))
    # the argument is not modified
    ctx.prove('input_unchanged', V.cmp('==', x.at(i), X(i)))


for _case in [f'{k:04b}' for k in range(16)]:
    _mk_active(_case)


for _which in ('min', 'max', 'MAX'):
    @harness(P, f'AggScaling.recurrence[{_which}]', targets=[T('AggScaling.__call__'), T('AggScaling.__init__')])
    def h_scaling(ctx, it, which=_which):
        """first call: sf = true/approx; later calls: sf_k = d*sf_(k-1) + (1-d)*true/approx; true = exact min/max of the data"""
        d = ctx.sym('damping', 'real')
        sc = it.call(it.get_function(T('AggScaling')), [which, d])
        ctx.prove('init_sf_none', it.getattr(sc, 'sf') is None)
        x1, X1, n1 = sym_vec(ctx, 'x1', ctx.sym('n1'))
        x2, X2, n2 = sym_vec(ctx, 'x2', ctx.sym('n2'))
        mn1, mx1 = true_minmax(ctx, X1, n1, '1')
        mn2, mx2 = true_minmax(ctx, X2, n2, '2')
        a1, a2 = ctx.sym('approx1', 'real'), ctx.sym('approx2', 'real')
        ctx.assume(z3.And(a1 != 0, a2 != 0))
        t1 = mn1 if which.lower() == 'min' else mx1
        t2 = mn2 if which.lower() == 'min' else mx2
        s1 = it.call(sc, [x1, a1])
        ctx.prove('first', z3.And(V.zreal(s1) == t1 / a1, V.zbool(V.cmp('==', it.getattr(sc, 'sf'), s1))))
        s2 = it.call(sc, [x2, a2])
        ctx.prove('recurrence', V.zreal(s2) == d * V.zreal(s1) + (1 - d) * (t2 / a2))
        ctx.prove('stored', V.cmp('==', it.getattr(sc, 'sf'), s2))
        ctx.prove('undamped_exact', z3.Implies(d == 0, V.zreal(s2) * a2 == t2))


@harness(P, 'AggScaling.invalid_which', targets=[T('AggScaling.__init__')])
def h_scaling_bad(ctx, it):
    from pvc.values import PyExc
    try:
        it.call(it.get_function(T('AggScaling')), ['mean'])
        ctx.prove('raises_value_error', False)
    except PyExc as e:
        ctx.prove('raises_value_error', e.cls == 'ValueError')


def spec_pnorm(ctx, X, n, p):
    s = nplib.sym_sum(ctx, lambda t: V.pw(V.absv(X(V.zint(t))), p), 0, n)
    return V.pw(s, V.div(1, p))


def spec_ks(ctx, X, n, rho):
    s = nplib.sym_sum(ctx, lambda t: V.exp(V.mul(rho, X(V.zint(t)))), 0, n)
    return V.mul(V.div(1, rho), V.log(s))


def spec_softmax(ctx, X, n, alpha):
    den = nplib.sym_sum(ctx, lambda t: V.exp(V.mul(alpha, X(V.zint(t)))), 0, n)
    return nplib.sym_sum(ctx, lambda t: V.mul(X(V.zint(t)), V.div(V.exp(V.mul(alpha, X(V.zint(t)))), den)), 0, n)


def _same_mask(a, b, ctx):
    q = ctx.fresh('q')
    return V.cmp('==', a.at(q), b.at(q))


AGGS = {'PNorm': ('p', spec_pnorm), 'KSFunction': ('rho', spec_ks), 'SoftMinMax': ('alpha', spec_softmax)}


def mk_agg(ctx, it, cname, scaling=None, active_set=None):
    cls = it.get_function(T(cname))
    par = ctx.sym(AGGS[cname][0], 'real')
    ctx.assume(par != 0)
    mod = it.new_object(cls, sig_in=[], sig_out=[])
    it.call(it.getattr(mod, '_prepare'), [par, scaling, active_set])
    return mod, par


for _c in AGGS:
    @harness(P, f'{_c}.aggregation_function.spec', targets=[T(f'{_c}.aggregation_function'), T(f'{_c}._prepare'), T('Aggregation._prepare')])
    def h_aggfn(ctx, it, cname=_c):
        """the code's aggregation function IS the spec function the Lean bounds (lemmas/AggBounds*.lean) are stated about"""
        x, X, n = sym_vec(ctx, positive=True)
        mod, par = mk_agg(ctx, it, cname)
        y = it.call(it.getattr(mod, 'aggregation_function'), [x])
        ctx.prove('equals_spec', V.cmp('==', y, AGGS[cname][1](ctx, X, n, par)))

    for _cfg in ('plain', 'scaled', 'active', 'scaled_active'):
        @harness(P, f'{_c}._response[{_cfg}]', targets=[T('Aggregation._response'), T(f'{_c}.aggregation_function'), T('AggScaling.__call__')])
        def h_response(ctx, it, cname=_c, cfg=_cfg):
            """_response = sf * aggregation(x[select]); sf from the scaling strategy (1 without); with undamped scaling the result is the exact
            extreme of the selected entries; select is recomputed in every call"""
            x, X, n = sym_vec(ctx, positive=True)
            d = ctx.sym('damping', 'real')
            scaling = it.call(it.get_function(T('AggScaling')), ['max', d]) if 'scaled' in cfg else None
            aset = None
            if 'active' in cfg:
                lr, ur, la, ua = (ctx.sym(k, 'real') for k in ('lower_rel', 'upper_rel', 'lower_amt', 'upper_amt'))
                aset = it.call(it.get_function(T('AggActiveSet')), [lr, ur, la, ua])
            mod, par = mk_agg(ctx, it, cname, scaling, aset)
            ctx.prove('prepare.sf_one', V.cmp('==', it.getattr(mod, 'sf'), 1))
            if aset is not None:
                # modular: inside _response the active-set call is used through its contract (proved in AggActiveSet.__call__.mask):
                # it returns Ellipsis or a boolean mask of the shape of its argument, and does not modify the argument
                def aset_contract(itp, args, kwargs):
                    xa = args[1]
                    if itp.truth(ctx.fresh('flat', 'bool')):
                        return Ellipsis
                    Mk = ctx.fresh_fun('mask', z3.IntSort(), z3.BoolSort())
                    return LArr(tuple(xa.shape), lambda i: Mk(V.zint(i[0])), 'bool')
                it.summaries[T('AggActiveSet.__call__')] = aset_contract
            ctx.safety_on = False      # np.min/np.max of an empty selection raise: admissibility (non-empty active set) is a precondition
            seen = {'agg': [], 'scal': []}

            def recorder(key, q):
                def wrap(itp, args, kwargs):
                    seen[key].append(args)
                    me = itp.summaries.pop(q)
                    try:
                        return itp.call(itp.get_function(q), args, kwargs)
                    finally:
                        itp.summaries[q] = me
                return wrap
            if 'active' in cfg:
                # modular: the aggregation function is used through its contract (an abstract value of its argument; proved equal to the
                # spec function in <class>.aggregation_function.spec)
                def agg_contract(itp, args, kwargs):
                    seen['agg'].append(args)
                    return ctx.fresh('agg', 'real')
                it.summaries[T(f'{cname}.aggregation_function')] = agg_contract
            else:
                it.summaries[T(f'{cname}.aggregation_function')] = recorder('agg', T(f'{cname}.aggregation_function'))
            it.summaries[T('AggScaling.__call__')] = recorder('scal', T('AggScaling.__call__'))
            y = it.call(it.getattr(mod, '_response'), [x])
            del it.summaries[T(f'{cname}.aggregation_function')]
            sel = it.getattr(mod, 'select')
            ctx.prove('one_aggregation_call', len(seen['agg']) == 1)
            xs = seen['agg'][0][1]
            if sel is Ellipsis:
                i = ctx.fresh('i')
                ctx.assume(z3.And(i >= 0, i < V.zint(n)))
                ctx.prove('aggregates_all_entries', z3.And(V.zbool(V.cmp('==', xs.shape[0], n)), V.zbool(V.cmp('==', xs.at(i), X(i)))))
            else:
                ctx.prove('select_is_mask', sel.kind == 'bool')
                ms = xs.meta.get('mask_select')
                ctx.prove('aggregates_selected_entries', ms is not None and ms[0].elem is not None and _same_mask(ms[0], sel, ctx))
            sf = it.getattr(mod, 'sf')
            if 'active' in cfg:
                agg = None
            else:
                agg = it.call(it.getattr(mod, 'aggregation_function'), [xs])
            if agg is not None:
                ctx.prove('scaled', V.cmp('==', y, V.mul(sf, agg)))
            if 'scaled' in cfg:
                ctx.prove('one_scaling_call', len(seen['scal']) == 1)
                xsc = seen['scal'][0][1]
                if sel is not Ellipsis:
                    ms2 = xsc.meta.get('mask_select')
                    ctx.prove('scales_selected_entries', ms2 is not None and _same_mask(ms2[0], sel, ctx))
                tv = nplib.np_max(it, xsc)
                ctx.assume(V.cmp('!=', seen['scal'][0][2], 0))
                ctx.prove('first_call_exact', V.cmp('==', y, tv))
            else:
                ctx.prove('unscaled_sf_one', V.cmp('==', sf, 1))


for _c in AGGS:
    @harness(P, f'{_c}._response.history[scaled]', targets=[T('Aggregation._response'), T('AggScaling.__call__')])
    def h_response_twice(ctx, it, cname=_c):
        """two consecutive response() calls on one module with arbitrary (possibly equal) inputs: the second output is
        sf_2 * agg(x2) with sf_2 = d*sf_1 + (1-d)*true(x2)/agg(x2): the scale factor advances on EVERY call (C16 history clause, C03)"""
        x1, X1, n1 = sym_vec(ctx, 'x1', ctx.sym('n1'), positive=True)
        x2, X2, n2 = sym_vec(ctx, 'x2', ctx.sym('n2'), positive=True)
        d = ctx.sym('damping', 'real')
        scaling = it.call(it.get_function(T('AggScaling')), ['max', d])
        mod, par = mk_agg(ctx, it, cname, scaling, None)
        vals = []

        def agg_contract(itp, args, kwargs):
            # abstract aggregation function: an uninterpreted value per call (equal inputs may or may not give equal values: both allowed)
            v = ctx.fresh('agg', 'real')
            vals.append(v)
            return v
        it.summaries[T(f'{cname}.aggregation_function')] = agg_contract
        ctx.safety_on = False
        y1 = it.call(it.getattr(mod, '_response'), [x1])
        y2 = it.call(it.getattr(mod, '_response'), [x2])
        ctx.prove('one_aggregation_per_call', len(vals) == 2)
        a1, a2 = vals[0], vals[1]
        ctx.assume(z3.And(a1 != 0, a2 != 0))
        t1, t2 = nplib.np_max(it, x1), nplib.np_max(it, x2)
        ctx.prove('first', V.zreal(y1) == (t1 / a1) * a1)
        ctx.prove('second_follows_recurrence', V.zreal(y2) == (d * (t1 / a1) + (1 - d) * (t2 / a2)) * a2)
