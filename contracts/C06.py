"""C06 - linear-dependency-aware solver (pymoto/solvers/solvers.py: get_diagonal_indices, LDAWrapper).

get_diagonal_indices is proved at index level for a symbolic matrix; the storage / conjugation table of LDAWrapper.solve is proved at
matrix-algebra level (normaliser) for every mode and symmetry class with the inner reconstruction used through its contract; update() is proved
to clear all four databases and refresh the diagonal index sets.  The Gram-Schmidt reuse clause is the bounded stand-in (native/C06.py).
"""
import itertools
import z3
from pvc import values as V
from pvc import matalg as MA
from pvc import nplib
from pvc.values import CArr, LArr, Obj, PyExc
from pvc.arrays import to_carr
from pvc.runner import harness

P = 'C06'
S = 'pymoto.solvers.solvers'
MC = 'pymoto.solvers.matrix_checks'


@harness(P, 'get_diagonal_indices.post', targets=[f'{S}:get_diagonal_indices'])
def h_diag_idx(ctx, it):
    """result[i] <=> A_ii != 0 and every other entry of row i AND of column i is zero (square and rectangular matrices);
    uses the counting lemmas sum_ge_two_terms / sum_unique_term (lemmas/SumLemmas.lean) as instance schemas"""
    n, m = ctx.sym('n'), ctx.sym('m')
    ctx.assume(z3.And(n >= 1, m >= 1))
    Af = z3.Function('A', z3.IntSort(), z3.IntSort(), z3.RealSort())
    A = LArr((n, m), lambda i: Af(V.zint(i[0]), V.zint(i[1])), 'real')
    r = it.call(it.get_function(f'{S}:get_diagonal_indices'), [A])
    mn = z3.If(n <= m, n, m)
    ctx.prove('shape', z3.And(r.ndim == 1, V.zbool(V.cmp('==', r.shape[0], mn))))
    i = ctx.sym('i')
    ctx.assume(z3.And(i >= 0, i < mn))
    res = V.zbool(r.at(i))
    # counts produced by the code (axis sums with their partial-sum functions)
    sums = [a for a in ctx.hyps if False]
    j = ctx.sym('j')
    ctx.assume(z3.And(j >= 0, j != i))
    # lemma instances (counting): for 0/1 summands, two distinct non-zero terms force a count >= 2; a count with a unique possible term equals it
    logs = getattr(ctx, 'axsum_log', [])
    ctx.prove('two_axis_counts', len(logs) == 2)
    for (Pf, snap, axis, length) in logs:
        # summand(line l, position t) = snap[t, l] (axis 0: column count) or snap[l, t] (axis 1: row count)
        term = (lambda l, t, snap=snap, axis=axis: V.zint(snap.at(t, l) if axis == 0 else snap.at(l, t)))
        L = V.zint(length)
        # sum_ge_two_terms instance at positions i and j of line i
        ctx.assume(z3.Implies(z3.And(j < L, i < L), Pf(i, L) >= term(i, i) + term(i, j)))
        # sum_unique_term instance: if every term other than position i vanishes, the count is term(i)
        q = z3.Int('q!uniq%d' % axis)
        ctx.assume(z3.Implies(z3.And(i < L, z3.ForAll([q], z3.Implies(z3.And(q >= 0, q < L, q != i), term(i, q) == 0))), Pf(i, L) == term(i, i)))
    spec_other_zero = z3.And(z3.Implies(j < m, Af(i, j) == 0), z3.Implies(j < n, Af(j, i) == 0))
    ctx.prove('true_implies_diag_nonzero', z3.Implies(res, Af(i, i) != 0))
    ctx.prove('true_implies_row_and_column_decoupled', z3.Implies(res, spec_other_zero))
    q2 = z3.Int('q!spec')
    all_zero = z3.And(z3.ForAll([q2], z3.Implies(z3.And(q2 >= 0, q2 < m, q2 != i), Af(i, q2) == 0)),
                      z3.ForAll([q2], z3.Implies(z3.And(q2 >= 0, q2 < n, q2 != i), Af(q2, i) == 0)))
    ctx.prove('decoupled_nonzero_implies_true', z3.Implies(z3.And(Af(i, i) != 0, all_zero), res))


class Recorder:
    def __init__(self):
        self.calls = []


def mk_wrapper(ctx, it, sym, herm, kind):
    MA.reset()
    props = set()
    if kind == 'real':
        props.add('real')
    if sym:
        props.add('symmetric')
    if herm:
        props.add('hermitian')
    A = MA.wrap(MA.Mat.atom('A', props), kind)
    inner = it.new_object(it.get_function(f'{S}:LinearSolver'))
    w = it.call(it.get_function(f'{S}:LDAWrapper'), [inner])
    return w, inner, A


CLASSES = [('real', True, True), ('complex', True, False), ('complex', False, True), ('real', False, False), ('complex', False, False)]

for (_kind, _sym, _herm) in CLASSES:
    @harness(P, f'LDAWrapper.solve.table[{_kind},sym={_sym},herm={_herm}]', targets=[f'{S}:LDAWrapper.solve', f'{S}:LDAWrapper.__init__'])
    def h_table(ctx, it, kind=_kind, sym=_sym, herm=_herm):
        """for N/T/H: the reconstruction is asked for the right matrix (A or A^H), right-hand side (b or conj b) and storage (normal or adjoint
        database), the inner solver is used in the matching mode, and the returned vector solves the requested system; bad trans raises"""
        for trans in ('N', 'T', 'H'):
            w, inner, A = mk_wrapper(ctx, it, sym, herm, kind)
            it.setattr(w, 'A', A)
            it.setattr(w, 'symmetric', sym)
            it.setattr(w, 'hermitian', herm)
            b = MA.wrap(MA.Mat.atom('b'), 'complex')
            rec = []

            def one_rhs(itp, args, kw, rec=rec):
                # contract of _do_solve_1rhs: returns X with  Aarg X = rhs  (to the wrapper tolerance), using only the database lists it is given
                _self, Aarg, rhs, xs, bs, solve_fn = args[:6]
                rec.append((Aarg, rhs, xs, bs, solve_fn, kw.get('x0', args[6] if len(args) > 6 else None)))
                return MA.wrap(MA.unwrap(Aarg).inv() @ MA.unwrap(rhs), 'complex')
            it.summaries[f'{S}:LDAWrapper._do_solve_1rhs'] = one_rhs
            x0 = MA.wrap(MA.Mat.atom('x0'), 'complex')
            x = it.call(it.getattr(w, 'solve'), [b], {'trans': trans, 'x0': x0})
            Am = A.fields['m']
            op = {'N': Am, 'T': Am.T(), 'H': Am.H()}[trans]
            res = op @ MA.unwrap(x) - b.fields['m']
            ctx.prove(f'solves[{trans}]', res.is_zero())
            ctx.prove(f'one_reconstruction[{trans}]', len(rec) == 1)
            Aarg, rhs, xs, bs, solve_fn, x0p = rec[0]
            adjoint = trans != 'N' and not (sym or herm)
            ctx.prove(f'storage[{trans}]', (xs is it.getattr(w, 'xadj_stored') and bs is it.getattr(w, 'badj_stored')) if adjoint
                      else (xs is it.getattr(w, 'x_stored') and bs is it.getattr(w, 'b_stored')))
            ctx.prove(f'x0_forwarded[{trans}]', x0p is x0)
            # the inner solver is called for the same matrix that the reconstruction works with
            calls = []
            it.summaries[f'{S}:LinearSolver.solve'] = lambda itp, a, k, calls=calls: calls.append((a[1], dict(k))) or MA.wrap(MA.Mat.atom('y'), 'complex')
            rb = MA.wrap(MA.Mat.atom('rb'), 'complex')
            it.call(solve_fn, [rb, None])
            ctx.prove(f'inner_mode[{trans}]', len(calls) == 1 and calls[0][0] is rb and calls[0][1].get('trans') == ('H' if adjoint else 'N') and calls[0][1].get('x0') is None)
            ctx.prove(f'inner_matrix_matches[{trans}]', (MA.unwrap(Aarg) - (Am.H() if adjoint else Am)).is_zero())
        w, inner, A = mk_wrapper(ctx, it, sym, herm, kind)
        try:
            it.call(it.getattr(w, 'solve'), [MA.wrap(MA.Mat.atom('b'), 'complex')], {'trans': 'C'})
            ctx.prove('bad_trans_raises', False)
        except PyExc as e:
            ctx.prove('bad_trans_raises', e.cls == 'TypeError')


@harness(P, 'LDAWrapper.update.clears', targets=[f'{S}:LDAWrapper.update', f'{S}:LDAWrapper.__init__'])
def h_update(ctx, it):
    """update() empties all four databases (normal and adjoint, solutions and right-hand sides), stores the new matrix, recomputes the decoupled
    index sets from the NEW matrix on every call, and updates the inner solver exactly once with the new matrix"""
    MA.reset()
    inner = it.new_object(it.get_function(f'{S}:LinearSolver'))
    upd = []
    it.summaries[f'{S}:LinearSolver.update'] = lambda itp, a, k: upd.append(a[1])
    w = it.call(it.get_function(f'{S}:LDAWrapper'), [inner])
    it.summaries[f'{MC}:matrix_is_symmetric'] = lambda itp, a, k: False
    it.summaries[f'{MC}:matrix_is_hermitian'] = lambda itp, a, k: False
    it.summaries[f'{MC}:matrix_is_complex'] = lambda itp, a, k: False
    masks = {}
    it.summaries[f'{S}:get_diagonal_indices'] = lambda itp, a, k: CArr(to_carr(masks[id(a[0])]).data, 'bool')
    A1 = MA.wrap(MA.Mat.atom('A1'), 'real')
    A2 = MA.wrap(MA.Mat.atom('A2'), 'real')
    masks[id(A1)] = [True, False, True, False]
    masks[id(A2)] = [False, False, True, True]
    it.call(it.getattr(w, 'update'), [A1])
    ctx.prove('first.index_sets', [int(v) for v in it.getattr(w, 'diagonal_idx').data] == [0, 2] and [int(v) for v in it.getattr(w, 'nondiagonal_idx').data] == [1, 3])
    for name in ('x_stored', 'b_stored', 'xadj_stored', 'badj_stored'):
        it.getattr(w, name).append(MA.wrap(MA.Mat.atom('old_' + name), 'real'))
    it.call(it.getattr(w, 'update'), [A2])
    for name in ('x_stored', 'b_stored', 'xadj_stored', 'badj_stored'):
        ctx.prove(f'cleared.{name}', len(it.getattr(w, name)) == 0)
    ctx.prove('matrix_stored', it.getattr(w, 'A') is A2)
    ctx.prove('index_sets_from_new_matrix', [int(v) for v in it.getattr(w, 'diagonal_idx').data] == [2, 3] and [int(v) for v in it.getattr(w, 'nondiagonal_idx').data] == [0, 1])
    ctx.prove('inner_updated_once_per_call', len(upd) == 2 and upd[0] is A1 and upd[1] is A2)
