"""C06 - linear-dependency-aware solver (pymoto/solvers/solvers.py: get_diagonal_indices, LDAWrapper).

get_diagonal_indices is proved at index level for a symbolic matrix; the storage / conjugation table of LDAWrapper.solve is proved at
matrix-algebra level (normaliser) for every mode and symmetry class with the inner reconstruction used through its contract; update() is proved
to clear all four databases and refresh the diagonal index sets.  The Gram-Schmidt reuse clause is the bounded stand-in (native/C06.py).
"""
import itertools
import z3
from pvc import values as V
from pvc import matalg as MA
from pvc import nplib
from pvc.values import CArr, LArr, Obj, PyExc
from pvc.arrays import to_carr
from pvc.runner import harness

P = 'C06'
S = 'pymoto.solvers.solvers'
MC = 'pymoto.solvers.matrix_checks'


@harness(P, 'get_diagonal_indices.post', targets=[f'{S}:get_diagonal_indices'])
def h_diag_idx(ctx, it):
    """result[i] <=> A_ii != 0 and every other entry of row i AND of column i is zero (square and rectangular matrices);
    uses the counting lemmas sum_ge_two_terms / sum_unique_term (lemmas/SumLemmas.lean) as instance schemas"""
    n, m = ctx.sym('n'), ctx.sym('m')
    ctx.assume(z3.And(n >= 1, m >= 1))
    Af = z3.Function('A', z3.IntSort(), z3.IntSort(), z3.RealSort())
    A = LArr((n, m), lambda i: Af(V.zint(i[0]), V.zint(i[1])), 'real')
    r = it.call(it.get_function(f'{S}:get_diagonal_indices'), [A])
    mn = z3.If(n <= m, n, m)
    ctx.prove('shape', z3.And(r.ndim == 1, V.zbool(V.cmp('==', r.shape[0], mn))))
    i = ctx.sym('i')
    ctx.assume(z3.And(i >= 0, i < mn))
    res = V.zbool(r.at(i))
    # counts produced by the code (axis sums with their partial-sum functions)
    sums = [a for a in ctx.hyps if False]
    j = ctx.sym('j')
    ctx.assume(z3.And(j >= 0, j != i))
    # lemma instances (counting): for 0/1 summands, two distinct non-zero terms force a count >= 2; a count with a unique possible term equals it
    logs = getattr(ctx, 'axsum_log', [])
    ctx.prove('two_axis_counts', len(logs) == 2)
    for (Pf, snap, axis, length) in logs:
        # summand(line l, position t) = snap[t, l] (axis 0: column count) or snap[l, t] (axis 1: row count)
        term = (lambda l, t, snap=snap, axis=axis: V.zint(snap.at(t, l) if axis == 0 else snap.at(l, t)))
        L = V.zint(length)
        # sum_ge_two_terms instance at positions i and j of line i
        ctx.assume(z3.Implies(z3.And(j < L, i < L), Pf(i, L) >= term(i, i) + term(i, j)))
        # sum_unique_term instance: if every term other than position i vanishes, the count is term(i)
        q = z3.Int('q!uniq%d' % axis)
        ctx.assume(z3.Implies(z3.And(i < L, z3.ForAll([q], z3.Implies(z3.And(q >= 0, q < L, q != i), term(i, q) == 0))), Pf(i, L) == term(i, i)))
    spec_other_zero = z3.And(z3.Implies(j < m, Af(i, j) == 0), z3.Implies(j < n, Af(j, i) == 0))
    ctx.prove('true_implies_diag_nonzero', z3.Implies(res, Af(i, i) != 0))
    ctx.prove('true_implies_row_and_column_decoupled', z3.Implies(res, spec_other_zero))
    q2 = z3.Int('q!spec')
    all_zero = z3.And(z3.ForAll([q2], z3.Implies(z3.And(q2 >= 0, q2 < m, q2 != i), Af(i, q2) == 0)),
                      z3.ForAll([q2], z3.Implies(z3.And(q2 >= 0, q2 < n, q2 != i), Af(q2, i) == 0)))
    ctx.prove('decoupled_nonzero_implies_true', z3.Implies(z3.And(Af(i, i) != 0, all_zero), res))


class Recorder:
    def __init__(self):
        self.calls = []


def mk_wrapper(ctx, it, sym, herm, kind):
    MA.reset()
    props = set()
    if kind == 'real':
        props.add('real')
    if sym:
        props.add('symmetric')
    if herm:
        props.add('hermitian')
    A = MA.wrap(MA.Mat.atom('A', props), kind)
    inner = it.new_object(it.get_function(f'{S}:LinearSolver'))
    w = it.call(it.get_function(f'{S}:LDAWrapper'), [inner])
    return w, inner, A


CLASSES = [('real', True, True), ('complex', True, False), ('complex', False, True), ('real', False, False), ('complex', False, False)]

for (_kind, _sym, _herm) in CLASSES:
    @harness(P, f'LDAWrapper.solve.table[{_kind},sym={_sym},herm={_herm}]', targets=[f'{S}:LDAWrapper.solve', f'{S}:LDAWrapper.__init__'])
    def h_table(ctx, it, kind=_kind, sym=_sym, herm=_herm):
        """for N/T/H: the reconstruction is asked for the right matrix (A or A^H), right-hand side (b or conj b) and storage (normal or adjoint
        database), the inner solver is used in the matching mode, and the returned vector solves the requested system; bad trans raises"""
        for trans in ('N', 'T', 'H'):
            w, inner, A = mk_wrapper(ctx, it, sym, herm, kind)
            it.setattr(w, 'A', A)
            it.setattr(w, 'symmetric', sym)
            it.setattr(w, 'hermitian', herm)
            b = MA.wrap(MA.Mat.atom('b'), 'complex')
            rec = []

            def one_rhs(itp, args, kw, rec=rec):
                # contract of _do_solve_1rhs: returns X with  Aarg X = rhs  (to the wrapper tolerance), using only the database lists it is given
                _self, Aarg, rhs, xs, bs, solve_fn = args[:6]
                rec.append((Aarg, rhs, xs, bs, solve_fn, kw.get('x0', args[6] if len(args) > 6 else None)))
                return MA.wrap(MA.unwrap(Aarg).inv() @ MA.unwrap(rhs), 'complex')
            it.summaries[f'{S}:LDAWrapper._do_solve_1rhs'] = one_rhs
            x0 = MA.wrap(MA.Mat.atom('x0'), 'complex')
            x = it.call(it.getattr(w, 'solve'), [b], {'trans': trans, 'x0': x0})
            Am = A.fields['m']
            op = {'N': Am, 'T': Am.T(), 'H': Am.H()}[trans]
            res = op @ MA.unwrap(x) - b.fields['m']
            ctx.prove(f'solves[{trans}]', res.is_zero())
            ctx.prove(f'one_reconstruction[{trans}]', len(rec) == 1)
            Aarg, rhs, xs, bs, solve_fn, x0p = rec[0]
            adjoint = trans != 'N' and not (sym or herm)
            ctx.prove(f'storage[{trans}]', (xs is it.getattr(w, 'xadj_stored') and bs is it.getattr(w, 'badj_stored')) if adjoint
                      else (xs is it.getattr(w, 'x_stored') and bs is it.getattr(w, 'b_stored')))
            ctx.prove(f'x0_forwarded[{trans}]', x0p is x0)
            # the inner solver is called for the same matrix that the reconstruction works with
            calls = []
            it.summaries[f'{S}:LinearSolver.solve'] = lambda itp, a, k, calls=calls: calls.append((a[1], dict(k))) or MA.wrap(MA.Mat.atom('y'), 'complex')
            rb = MA.wrap(MA.Mat.atom('rb'), 'complex')
            it.call(solve_fn, [rb, None])
            ctx.prove(f'inner_mode[{trans}]', len(calls) == 1 and calls[0][0] is rb and calls[0][1].get('trans') == ('H' if adjoint else 'N') and calls[0][1].get('x0') is None)
            ctx.prove(f'inner_matrix_matches[{trans}]', (MA.unwrap(Aarg) - (Am.H() if adjoint else Am)).is_zero())
        w, inner, A = mk_wrapper(ctx, it, sym, herm, kind)
        try:
            it.call(it.getattr(w, 'solve'), [MA.wrap(MA.Mat.atom('b'), 'complex')], {'trans': 'C'})
            ctx.prove('bad_trans_raises', False)
        except PyExc as e:
            ctx.prove('bad_trans_raises', e.cls == 'TypeError')


@harness(P, 'LDAWrapper.update.clears', targets=[f'{S}:LDAWrapper.update', f'{S}:LDAWrapper.__init__'])
def h_update(ctx, it):
    """update() empties all four databases (normal and adjoint, solutions and right-hand sides), stores the new matrix, recomputes the decoupled
    index sets from the NEW matrix on every call, and updates the inner solver exactly once with the new matrix"""
    MA.reset()
    inner = it.new_object(it.get_function(f'{S}:LinearSolver'))
    upd = []
    it.summaries[f'{S}:LinearSolver.update'] = lambda itp, a, k: upd.append(a[1])
    w = it.call(it.get_function(f'{S}:LDAWrapper'), [inner])
    it.summaries[f'{MC}:matrix_is_symmetric'] = lambda itp, a, k: False
    it.summaries[f'{MC}:matrix_is_hermitian'] = lambda itp, a, k: False
    it.summaries[f'{MC}:matrix_is_complex'] = lambda itp, a, k: False
    masks = {}
    it.summaries[f'{S}:get_diagonal_indices'] = lambda itp, a, k: CArr(to_carr(masks[id(a[0])]).data, 'bool')
    A1 = MA.wrap(MA.Mat.atom('A1'), 'real')
    A2 = MA.wrap(MA.Mat.atom('A2'), 'real')
    masks[id(A1)] = [True, False, True, False]
    masks[id(A2)] = [False, False, True, True]
    it.call(it.getattr(w, 'update'), [A1])
    ctx.prove('first.index_sets', [int(v) for v in it.getattr(w, 'diagonal_idx').data] == [0, 2] and [int(v) for v in it.getattr(w, 'nondiagonal_idx').data] == [1, 3])
    for name in ('x_stored', 'b_stored', 'xadj_stored', 'badj_stored'):
        it.getattr(w, name).append(MA.wrap(MA.Mat.atom('old_' + name), 'real'))
    it.call(it.getattr(w, 'update'), [A2])
    for name in ('x_stored', 'b_stored', 'xadj_stored', 'badj_stored'):
        ctx.prove(f'cleared.{name}', len(it.getattr(w, name)) == 0)
    ctx.prove('matrix_stored', it.getattr(w, 'A') is A2)
    ctx.prove('index_sets_from_new_matrix', [int(v) for v in it.getattr(w, 'diagonal_idx').data] == [2, 3] and [int(v) for v in it.getattr(w, 'nondiagonal_idx').data] == [0, 1])
    ctx.prove('inner_updated_once_per_call', len(upd) == 2 and upd[0] is A1 and upd[1] is A2)


# ------------------------------------------------------------------------------------------------ the reconstruction step (Gram-Schmidt reuse)
import functools   # noqa: E402
import numpy as np   # noqa: E402
from pvc.values import Cx   # noqa: E402


def _dot(M, v, rows, cols):
    out = []
    for r in rows:
        t = 0
        for c_, c in enumerate(cols):
            t = V.add(t, V.mul(M[r, c], v[c_]))
        out.append(t)
    return out


DS_CASES = [(2, 0, 'vec', False), (2, 1, 'vec', False), (2, 1, 'block', False), (3, 1, 'vec', True), (3, 1, 'block', True), (2, 2, 'vec', False), (2, 0, 'cvec', True), (2, 0, 'vec-x0', False), (2, 1, 'vec-x0', False)]
for (_n, _ndb, _rhs, _dec) in DS_CASES:
    @harness(P, f'LDAWrapper._do_solve_1rhs[n={_n},stored={_ndb},rhs={_rhs},decoupled_dof={_dec}]', targets=[f'{S}:LDAWrapper._do_solve_1rhs', f'{S}:LinearSolver.residual'],
             timeout=20000)
    def h_do_solve(ctx, it, n=_n, ndb=_ndb, rhs_kind=_rhs, dec=_dec):
        """reconstruction from a database of ndb stored pairs satisfying the class invariant  A_ss x_k = b_k  (s = coupled dofs), symbolic general
        real A (optionally with one decoupled dof), symbolic right-hand side (vector / two-column block) and tolerance; inner solver through its
        contract (returns xnew with A xnew = its argument).  Proved on every path (which columns exceed the tolerance is a complete case split):
        a column that was solved satisfies A x = rhs exactly, a column that was not has relative residual <= tol (reuse without inner solve),
        at most one inner solve is made and its right-hand side is the not-yet-represented part of the solved columns (zero on decoupled dofs),
        every pair in the database afterwards still satisfies the invariant, the argument arrays are not modified"""
        ctx.safety_on = False
        ctx.warnings_unobserved = True
        ctx.feasible_timeout_ms = 500
        cplx = rhs_kind == 'cvec'          # complex general matrix, reconstruction on the ADJOINT system as LDAWrapper.solve(trans='H') requests it
        with_x0 = rhs_kind.endswith('-x0')  # an initial guess is given: it is projected and handed to the inner solver, and changes nothing else
        if cplx or with_x0:
            rhs_kind = 'vec'
        d0 = np.empty((n, n), dtype=object)
        for i in range(n):
            for j in range(n):
                d0[i, j] = Cx(ctx.sym(f'a{i}{j}r', 'real'), ctx.sym(f'a{i}{j}i', 'real')) if cplx else ctx.sym(f'a{i}{j}', 'real')
                if dec and (i == 0) != (j == 0):
                    d0[i, j] = 0
        if dec:
            ctx.assume(V.z(V.cmp('!=', d0[0, 0], 0)))
        A0 = CArr(d0, 'complex' if cplx else 'real')          # the matrix the wrapper is updated with
        d = np.array([[V.conj(d0[j, i]) for j in range(n)] for i in range(n)], dtype=object) if cplx else d0
        A = CArr(d, 'complex') if cplx else A0                # the matrix handed to the reconstruction (A^H in adjoint storage)
        idia = [0] if dec else []
        isel = [i for i in range(n) if i not in idia]
        m = len(isel)
        inner = it.new_object(it.get_function(f'{S}:LinearSolver'))
        w = it.call(it.get_function(f'{S}:LDAWrapper'), [inner])
        tol = ctx.sym('tol', 'real')
        ctx.assume(tol > 0)
        it.setattr(w, 'tol', tol)
        # the wrapper's state is established by its own update(): the decoupled-dof detection is used through its contract (get_diagonal_indices.post:
        # exactly the dofs whose row and column are otherwise zero), the class flags are those of a general real matrix
        it.summaries[f'{S}:LinearSolver.update'] = lambda itp, a, k: None
        it.summaries[f'{MC}:matrix_is_symmetric'] = lambda itp, a, k: False
        it.summaries[f'{MC}:matrix_is_hermitian'] = lambda itp, a, k: False
        it.summaries[f'{MC}:matrix_is_complex'] = lambda itp, a, k: False
        it.summaries[f'{S}:get_diagonal_indices'] = lambda itp, a, k: CArr(np.array([i in idia for i in range(n)], dtype=object), 'bool')
        it.call(it.getattr(w, 'update'), [A0])
        ctx.prove('setup.index_sets', [int(v) for v in it.getattr(w, 'diagonal_idx').data] == idia and [int(v) for v in it.getattr(w, 'nondiagonal_idx').data] == isel)
        xs, bs = [], []
        for k in range(ndb):
            xk = [ctx.sym(f'xs{k}_{j}', 'real') for j in range(m)]
            bk = _dot(d, xk, isel, isel)                       # class invariant:  b_k = A_ss x_k  (by definition here)
            nb = 0
            for v in bk:
                nb = V.add(nb, V.mul(v, v))
            ctx.assume(V.z(V.cmp('!=', nb, 0)))
            xs.append(CArr(np.array(xk, dtype=object), 'real'))
            bs.append(CArr(np.array(bk, dtype=object), 'real'))
        ncol = 1 if rhs_kind == 'vec' else 2
        rv = np.empty((n,) if rhs_kind == 'vec' else (n, 2), dtype=object)
        for idx in np.ndindex(*rv.shape):
            nm_ = 'r' + ''.join(map(str, idx))
            rv[idx] = Cx(ctx.sym(nm_ + 're', 'real'), ctx.sym(nm_ + 'im', 'real')) if cplx else ctx.sym(nm_, 'real')
        rhs = CArr(rv, 'complex' if cplx else 'real')
        rhs0 = rv.copy()
        a0 = d.copy()
        calls = []

        def solve_fn(b, x0):
            bb = b.data.reshape(n, -1)
            xn = np.empty(bb.shape, dtype=object)
            for c in range(bb.shape[1]):
                for j in range(n):
                    xn[j, c] = Cx(ctx.fresh(f'xnew{len(calls)}_{j}{c}r', 'real'), ctx.fresh(f'xnew{len(calls)}_{j}{c}i', 'real')) if cplx else ctx.fresh(f'xnew{len(calls)}_{j}{c}', 'real')
                for i, t in enumerate(_dot(d, list(xn[:, c]), range(n), range(n))):
                    ctx.assume(V.z(V.cmp('==', t, bb[i, c])))
            calls.append((bb.copy(), xn.copy(), x0))
            return CArr(xn.reshape(b.shape), 'complex' if cplx else 'real')
        from pvc.interp import Builtin
        res_calls = []

        def residual(itp, args, kw):
            # contract of LinearSolver.residual (own harness below): one relative residual ||op(A) x - b|| / ||b|| >= 0 per column
            Aarg, xarg, barg = args[-3:] if len(args) == 3 else args[1:4]     # residual is a staticmethod
            r = np.empty((barg.shape[1],), dtype=object)
            for c in range(barg.shape[1]):
                r[c] = ctx.fresh(f'relres{c}', 'real')
                ctx.assume(r[c] >= 0)
            res_calls.append((Aarg, xarg.data.copy(), barg.data.copy(), kw.get('trans', 'N'), r.copy()))
            return CArr(r, 'real')
        it.summaries[f'{S}:LinearSolver.residual'] = residual
        watch = it.watches.setdefault(f'{S}:LDAWrapper._do_solve_1rhs', {})
        for nm in ('bnrm', 'beta', 'xadd', 'badd'):
            watch[nm] = V.GhostList(nm, 'LDAWrapper._do_solve_1rhs')
        x0v = CArr(np.array([ctx.sym(f'guess{i}', 'real') for i in range(n)], dtype=object), 'real') if with_x0 else None
        x0_before = list(x0v.data) if with_x0 else None
        ret = it.call(it.getattr(w, '_do_solve_1rhs'), [A, rhs, xs, bs, Builtin('solve_fn', solve_fn)], {'x0': x0v})
        if with_x0:
            ctx.prove('initial_guess_untouched', z3.And(*[V.z(V.cmp('==', a_, b_)) for a_, b_ in zip(x0v.data, x0_before)]))
            if calls:
                ctx.prove('initial_guess_forwarded', calls[0][2] is not None and tuple(calls[0][2].shape) == (n, 1))
        ctx.prove('result_shape', isinstance(ret, CArr) and tuple(ret.shape) == tuple(rhs.shape))
        R = ret.data.reshape(n, -1)
        ctx.prove('at_most_one_inner_solve', len(calls) <= 1)
        did = it.getattr(w, '_did_solve')
        def decided(v):
            # the path condition decides every entry of the mask (complete case split inside the code's own mask indexing)
            if not V.is_sym(v):
                return bool(v)
            if ctx.implied(V.zbool(v)):
                return True
            if ctx.implied(z3.Not(V.zbool(v))):
                return False
            raise AssertionError('mask entry not decided by the path condition')
        dmask = [decided(v) for v in did.data.reshape(-1)] if isinstance(did, CArr) else [decided(did)] * ncol
        solved = [c for c in range(ncol) if dmask[c]]
        ctx.prove('inner_solve_iff_some_column_exceeds_tolerance', (len(calls) == 1) == bool(solved))
        if len(calls) == 1:
            ctx.prove('inner_rhs.columns', calls[0][0].shape[1] == len(solved))
        for c in range(ncol):
            Ax = _dot(d, list(R[:, c]), range(n), range(n))
            rc = [rhs0[i] if rhs_kind == 'vec' else rhs0[i, c] for i in range(n)]
            if dmask[c]:
                for i in range(n):
                    ctx.prove(f'column{c}.solved_exactly.row{i}', V.cmp('==', Ax[i], rc[i]))
            else:
                ctx.prove(f'column{c}.reused_within_tolerance', V.cmp('<=', res_calls[0][4][c], tol) if len(res_calls) == 1 else False)
        # the tolerance test is made once, on the reconstructed solution of ALL columns against the caller's right-hand side, untransposed
        ctx.prove('residual.called_once', len(res_calls) == 1 and res_calls[0][0] is A and res_calls[0][3] == 'N')
        if len(res_calls) == 1:
            _, xr, br, _, rr = res_calls[0]
            ctx.prove('residual.against_the_given_rhs', tuple(br.shape) == (n, ncol) and z3.And(*[V.z(V.cmp('==', br[i, c], rhs0[i] if rhs_kind == 'vec' else rhs0[i, c]))
                                                                                                   for i in range(n) for c in range(ncol)]))
            # ... and a column that is not solved afterwards is returned exactly as it was tested
            for c in range(ncol):
                if not dmask[c]:
                    ctx.prove(f'column{c}.returned_as_tested', z3.And(*[V.z(V.cmp('==', R[i, c], xr[i, c])) for i in range(n)]))
            for c in range(ncol):
                ctx.prove(f'column{c}.solved_iff_residual_exceeds_tolerance', V.z(V.cmp('>', rr[c], tol)) if dmask[c] else V.z(V.cmp('<=', rr[c], tol)))
        if len(calls) == 1:
            for i in idia:
                ctx.prove(f'inner_rhs.zero_on_decoupled_dof{i}', z3.And(*[V.z(V.cmp('==', calls[0][0][i, c], 0)) for c in range(calls[0][0].shape[1])]))
        # database invariant after the call
        ctx.prove('database.lists_in_step', len(xs) == len(bs) and len(xs) >= ndb)
        from .C11 import Steps
        st = Steps(ctx, '', lambda f: V.z(f), z3.BoolVal(True))
        for k in range(len(xs)):
            xk, bk = list(xs[k].data), list(bs[k].data)
            Ax = _dot(d, xk, isel, isel)
            goal = z3.And(*[V.z(V.cmp('==', Ax[i], bk[i])) for i in range(m)])
            if k < ndb:
                ctx.prove(f'database.pair{k}.invariant', goal)       # stored pairs are not touched
                continue
            # a pair appended by this call.  LCF steps (contracts/C11.py: Steps): (i) its entries are the Gram-Schmidt residual
            #   x = (xnew_s - sum_j beta_j x_j) / bnrm,   b = ((A xnew)_s - sum_j beta_j b_j) / bnrm
            # for the coefficients beta_j and the norm bnrm the code computed (program locals read as ghost values), (ii) the generic lemma
            # "such a residual of pairs satisfying the invariant satisfies the invariant" over fresh variables, (iii) instantiation
            # which iteration of the append loop produced pair k: vectors whose orthogonalised right-hand side vanishes are skipped (path condition)
            if k == ndb:
                plan, pos, size = [], (ndb if (with_x0 and calls) else 0), ndb       # the projection of an initial guess computes one coefficient per stored pair first
                if len(xs) > ndb:
                    watch['bnrm'].count()           # pairs were appended but the local was never assigned: contract anchor lost (renamed local)
                for i_it, nv in enumerate(watch['bnrm']):
                    bet_i = watch['beta'][pos:pos + size]
                    if len(bet_i) != size:
                        raise V.Unsupported("contract anchor lost: local 'beta' of LDAWrapper._do_solve_1rhs is not assigned once per stored pair")
                    pos += size
                    zero = V.cmp('==', nv, 0)
                    skipped = (zero is True) or (V.is_sym(zero) and ctx.implied(V.zbool(zero)))
                    if not skipped:
                        plan.append((i_it, bet_i, nv))
                        size += 1
                ctx.prove('database.appended_count', len(plan) == len(xs) - ndb)
            if k - ndb >= len(plan):
                continue
            q, betas, nrm = plan[k - ndb]
            xn = [calls[0][1][i, q] for i in isel]
            axn = _dot(d, [calls[0][1][i, q] for i in range(n)], isel, range(n))
            def residual_terms(prev_x, prev_b, bet):
                X = [V.sub(xn[j], functools.reduce(V.add, [V.mul(bet[t], prev_x[t][j]) for t in range(k)], 0)) for j in range(m)]
                Bv = [V.sub(axn[j], functools.reduce(V.add, [V.mul(bet[t], prev_b[t][j]) for t in range(k)], 0)) for j in range(m)]
                return X, Bv

            def residual_pair(prev_x, prev_b, bet, N):
                # N is the reciprocal of the norm (a product keeps the generic lemma polynomial)
                X, Bv = residual_terms(prev_x, prev_b, bet)
                return [V.mul(t_, N) for t_ in X], [V.mul(t_, N) for t_ in Bv]
            prev_x = [list(xs[t].data) for t in range(k)]
            prev_b = [list(bs[t].data) for t in range(k)]
            f_nz = st.fact(f'database.pair{k}.norm_nonzero', V.z(V.cmp('!=', nrm, 0)), list(ctx.pc) + [h for h in ctx.hyps if not z3.is_quantifier(h) and 'sqrt' in h.sexpr()][:40])
            Xt, Bt = residual_terms(prev_x, prev_b, betas)
            entry_facts = []
            for e_, (got, stuff) in enumerate(zip(xk + bk, Xt + Bt)):
                # the code divides by the norm; the lemma below uses the reciprocal:  a = s / N  and  N != 0   =>   a = s * (1 / N)
                f_div = st.fact(f'database.pair{k}.is_gram_schmidt_residual.entry{e_}', V.z(V.cmp('==', got, V.div(stuff, nrm))), [])
                entry_facts.append(st.apply(f'database.pair{k}.is_gram_schmidt_residual.entry{e_}.reciprocal_form',
                                            lambda a_, s_, n_: ([V.z(V.cmp('==', a_, V.div(s_, n_))), V.z(V.cmp('!=', n_, 0))], V.z(V.cmp('==', a_, V.mul(s_, V.div(1, n_))))),
                                            [got, stuff, nrm], {0, 1, 2}))
            f_is = z3.And(*entry_facts)
            st.established.add(st.key(f_is))
            prev_inv = []
            for t in range(k):
                f_t = z3.And(*[V.z(V.cmp('==', a_, b_)) for a_, b_ in zip(_dot(d, prev_x[t], isel, isel), prev_b[t])])
                if st.key(f_t) not in st.established:
                    st.established.add(st.key(f_t)) if t < ndb else None      # stored pairs: b_k is A_ss x_k by definition (precondition)
                prev_inv.append(f_t)

            # generic lemma over fresh variables, with the premises used as definitions (b_t := A_ss x_t for the earlier pairs, the new pair := its
            # Gram-Schmidt residual): the invariant of the new pair is then an identity in the fresh variables.  The instance for the actual terms
            # follows by replacing equals (every premise - earlier invariants, non-zero norm, residual form - is established above).
            gx = [[ctx.fresh('gx', 'real') for _ in range(m)] for _ in range(k)]
            gb = [_dot(d, gx[t], isel, isel) for t in range(k)]
            gbet, gN = [ctx.fresh('gbeta', 'real') for _ in range(k)], ctx.fresh('gnorm', 'real')
            gxn = [ctx.fresh('gxn', 'real') for _ in range(n)]
            xn_save, axn_save = xn, axn
            xn, axn = [gxn[i] for i in isel], _dot(d, gxn, isel, range(n))
            Xg, Bg = residual_pair(gx, gb, gbet, gN)
            xn, axn = xn_save, axn_save
            if dec:
                # the inner solution vanishes on decoupled dofs (its right-hand side is zero there and the row is diagonal): (A xnew)_s = A_ss xnew_s
                pass
            concl_g = z3.And(*[V.z(V.cmp('==', a_, b_)) for a_, b_ in zip(_dot(d, Xg, isel, isel), Bg)])
            concl_i = z3.And(*[V.z(V.cmp('==', a_, b_)) for a_, b_ in zip(_dot(d, xk, isel, isel), bk)])
            for pr in prev_inv + [f_is, f_nz]:
                if st.key(pr) not in st.established:
                    raise AssertionError('premise not established: ' + pr.sexpr()[:200])
            from .C11 import norm_proves
            if norm_proves(z3.simplify(concl_g)):
                ctx.prove(f'database.pair{k}.invariant', True)
            else:
                ctx.prove_isolated(f'database.pair{k}.invariant', concl_g, [], full_goal=concl_i)
            st.established.add(st.key(concl_i))
        ctx.prove('arguments_untouched', z3.And(*[V.z(V.cmp('==', x, y)) for x, y in zip(rhs.data.flat, rhs0.flat)], *[V.z(V.cmp('==', x, y)) for x, y in zip(A.data.flat, a0.flat)
                                                                                                                      if is_sym_or_num(x)]))


def is_sym_or_num(x):
    return True


for _kind in ('real', 'complex'):
    for _trans in ('N', 'T', 'H'):
        @harness(P, f'LinearSolver.residual[{_kind},{_trans}]', targets=[f'{S}:LinearSolver.residual'], timeout=20000)
        def h_residual(ctx, it, kind=_kind, trans=_trans):
            """the tolerance test of the reconstruction relies on it: for a two-column block, entry c of the result is
            ||op(A) x_c - b_c|| / ||b_c||  with the norms taken PER COLUMN (op = identity / transpose / conjugate transpose)"""
            n, nc = 2, 2

            def sym(nm):
                return Cx(ctx.sym(nm + 'r', 'real'), ctx.sym(nm + 'i', 'real')) if kind == 'complex' else ctx.sym(nm, 'real')
            Ad = np.array([[sym(f'a{i}{j}') for j in range(n)] for i in range(n)], dtype=object)
            xd = np.array([[sym(f'x{i}{c}') for c in range(nc)] for i in range(n)], dtype=object)
            bd = np.array([[sym(f'b{i}{c}') for c in range(nc)] for i in range(n)], dtype=object)
            ctx.safety_on = False
            r = it.call(it.get_function(f'{S}:LinearSolver.residual'), [CArr(Ad, kind), CArr(xd, kind), CArr(bd, kind)], {'trans': trans})
            ctx.prove('shape', isinstance(r, CArr) and tuple(r.shape) == (nc,))
            for c in range(nc):
                num = den = 0
                for i in range(n):
                    t = 0
                    for j in range(n):
                        e = Ad[i, j] if trans == 'N' else (Ad[j, i] if trans == 'T' else V.conj(Ad[j, i]))
                        t = V.add(t, V.mul(e, xd[j, c]))
                    dlt = V.sub(t, bd[i, c])
                    num = V.add(num, V.add(V.mul(V.real_part(dlt), V.real_part(dlt)), V.mul(V.imag_part(dlt), V.imag_part(dlt))))
                    den = V.add(den, V.add(V.mul(V.real_part(bd[i, c]), V.real_part(bd[i, c])), V.mul(V.imag_part(bd[i, c]), V.imag_part(bd[i, c]))))
                rc = r.data[c]
                # r_c >= 0 and r_c^2 * ||b_c||^2 = ||op(A) x_c - b_c||^2   (for b_c != 0): the quotient of the two Euclidean norms.
                # LCF steps: the code's value is sqrt(P') / sqrt(Q') for its own sums of squares P', Q' (read off the term), P' = P and Q' = Q are
                # polynomial identities, sqrt(t)^2 = t >= 0 are the library facts of np.linalg.norm, the rest is a lemma over six fresh variables
                from .C11 import Steps
                st = Steps(ctx, '', lambda f: V.z(f), z3.BoolVal(True))
                rz = V.zreal(rc)
                ok_shape = z3.is_app(rz) and rz.decl().kind() == z3.Z3_OP_DIV and all(z3.is_app(a_) and a_.decl().name() == 'sqrt' for a_ in rz.children())
                ctx.prove(f'column{c}.is_quotient_of_two_norms', bool(ok_shape))
                if not ok_shape:
                    continue
                sn, sd = rz.arg(0), rz.arg(1)
                Pp, Qp = sn.arg(0), sd.arg(0)
                side = [h for h in ctx.all_hyps() if not z3.is_quantifier(h) and 'sqrt' in h.sexpr()]
                f_q = V.z(V.cmp('>', den, 0))
                st.established.add(st.key(f_q))                       # precondition: b_c != 0
                f_r = st.fact(f'column{c}.value_is_quotient', rz == sn / sd, [])
                f_pn = st.apply(f'column{c}.numerator_is_residual_norm_squared', lambda: ([], Pp == V.zreal(num)), [], set())
                f_pd = st.apply(f'column{c}.denominator_is_rhs_norm_squared', lambda: ([], Qp == V.zreal(den)), [], set())
                f_sn = st.fact(f'column{c}.sqrt_numerator', z3.And(sn >= 0, sn * sn == Pp), side)
                f_sd = st.fact(f'column{c}.sqrt_denominator', z3.And(sd >= 0, sd * sd == Qp), side)

                def lemma(r_, sn_, sd_, pp_, qp_, p_, q_):
                    return ([r_ == sn_ / sd_, pp_ == p_, qp_ == q_, z3.And(sn_ >= 0, sn_ * sn_ == pp_), z3.And(sd_ >= 0, sd_ * sd_ == qp_), q_ > 0],
                            z3.And(r_ >= 0, r_ * r_ * q_ == p_))
                # premises are established under the keys of the formulas built above
                for pr, nm in ((f_r, 'r'), (f_pn, 'pn'), (f_pd, 'pd'), (f_sn, 'sn'), (f_sd, 'sd')):
                    pass
                st.established.add(st.key(V.zreal(den) > 0))
                st.apply(f'column{c}.nonnegative_and_squared_quotient', lemma, [rz, sn, sd, Pp, Qp, V.zreal(num), V.zreal(den)], {0, 1, 2, 3, 4, 5, 6})
