"""C02 - network back-propagation (pymoto/core_objects.py: Module.response/sensitivity/reset, Network.*; pymoto/utils.py: _parse_to_list).

Modules are abstract (contract of _response/_sensitivity = uninterpreted results); signals are real Signal/SignalSlice objects with
symbolic contents.  Module arities are enumerated (0..3 inputs x 0..3 outputs, repeated inputs, sliced inputs): the proofs are unbounded in
the contents but *case-split over arity* (stated in the evidence).  The composition argument for arbitrary graphs is the Lean theorem
lemmas/ReverseSweep.lean (reverse_sweep), whose `bwd` step is exactly the accumulator proved here.
"""
import itertools
import z3
from pvc import values as V
from pvc.values import CArr, LArr, Obj, PyExc
from pvc.runner import harness
from .C18 import arr, idx_in, mk_signal, same_storage

P = 'C02'
CO = 'pymoto.core_objects'
T = lambda m: f'{CO}:{m}'


def abstract_module(ctx, it, sig_in, sig_out, results=None, sens=None, log=None):
    """an abstract Module: _response/_sensitivity are used through their contract (fresh results, recorded arguments)"""
    log = log if log is not None else []
    mod = it.new_object(it.get_function(T('Module')), sig_in=list(sig_in), sig_out=list(sig_out))

    def resp(itp, args, kw):
        log.append(('_response', args[0], list(args[1:])))
        return results(args[0]) if results else None

    def sensf(itp, args, kw):
        log.append(('_sensitivity', args[0], list(args[1:])))
        return sens(args[0]) if sens else None

    def rst(itp, args, kw):
        log.append(('_reset', args[0], []))
    it.summaries[T('Module._response')] = resp
    it.summaries[T('Module._sensitivity')] = sensf
    it.summaries[T('Module._reset')] = rst
    return mod, log


def pack(vals):
    return None if len(vals) == 0 else (vals[0] if len(vals) == 1 else tuple(vals))


@harness(P, '_parse_to_list.cases', targets=['pymoto.utils:_parse_to_list'])
def h_parse(ctx, it):
    f = it.get_function('pymoto.utils:_parse_to_list')
    a, b = ctx.sym('a', 'real'), ctx.sym('b', 'real')
    ctx.prove('no_args', it.call(f, []) == [])
    ctx.prove('none', it.call(f, [None]) == [])
    lst = [a, b]
    ctx.prove('list_identity', it.call(f, [lst]) is lst)
    ctx.prove('tuple', it.call(f, [(a, b)]) == [a, b])
    r = it.call(f, [a])
    ctx.prove('single', len(r) == 1 and r[0] is a)
    r = it.call(f, [a, b])
    ctx.prove('varargs', len(r) == 2 and r[0] is a and r[1] is b)
    arr_, _ = arr(ctx, 'x', (ctx.sym('n'),))
    r = it.call(f, [arr_])
    ctx.prove('array_is_one_item', len(r) == 1 and r[0] is arr_)


for _nin, _nout in itertools.product(range(0, 4), range(0, 4)):
    @harness(P, f'Module.response[{_nin}x{_nout}]', targets=[T('Module.response'), 'pymoto.utils:_parse_to_list'])
    def h_response(ctx, it, nin=_nin, nout=_nout):
        """_response is called once with the input states in order; output i receives result i; a wrong number of results raises TypeError;
        input states and all sensitivities are untouched"""
        n = ctx.sym('n')
        ctx.assume(n >= 1)
        states = [arr(ctx, f'x{k}', (n,))[0] if k % 2 == 0 else ctx.sym(f'x{k}', 'real') for k in range(nin)]
        sin = [mk_signal(it, s) for s in states]
        sout = [mk_signal(it, None) for _ in range(nout)]
        pre_sens, _ = arr(ctx, 'presens', (n,))
        if sout:
            it.setattr(sout[0], 'sensitivity', pre_sens)
        res = [ctx.sym(f'r{k}', 'real') for k in range(nout)]
        mod, log = abstract_module(ctx, it, sin, sout, results=lambda self: pack(res))
        r = it.call(it.getattr(mod, 'response'), [])
        ctx.prove('returns_self', r is mod)
        calls = [c for c in log if c[0] == '_response']
        ctx.prove('single_call', len(calls) == 1 and calls[0][1] is mod)
        ctx.prove('states_in_order', len(calls) == 1 and len(calls[0][2]) == nin and all(a is b for a, b in zip(calls[0][2], states)))
        ctx.prove('outputs_receive_results', all(it.getattr(s, 'state') is v for s, v in zip(sout, res)))
        ctx.prove('input_states_untouched', all(it.getattr(s, 'state') is v for s, v in zip(sin, states)))
        ctx.prove('sensitivities_untouched', all(it.getattr(s, 'sensitivity') is None for s in sin + sout[1:]) and (not sout or it.getattr(sout[0], 'sensitivity') is pre_sens))
        # wrong number of results
        for wrong in {nout + 1, max(nout - 1, 0)} - {nout}:
            bad = [ctx.sym(f'w{k}', 'real') for k in range(wrong)]
            mod2, _ = abstract_module(ctx, it, sin, sout, results=lambda self: (list(bad) if wrong != 1 else bad[0]) if wrong else None)
            try:
                it.call(it.getattr(mod2, 'response'), [])
                ctx.prove(f'count_mismatch_raises[{wrong}]', False)
            except PyExc as e:
                ctx.prove(f'count_mismatch_raises[{wrong}]', e.cls == 'TypeError')


def _seed_patterns(nout):
    return list(itertools.product([False, True], repeat=nout))


for _nin, _nout in itertools.product(range(0, 4), range(0, 4)):
    @harness(P, f'Module.sensitivity[{_nin}x{_nout}]', targets=[T('Module.sensitivity'), T('Signal.add_sensitivity'), 'pymoto.utils:_parse_to_list'])
    def h_sens(ctx, it, nin=_nin, nout=_nout):
        """for every seeding pattern: no effect iff there are outputs and none is seeded; otherwise _sensitivity is called once with the output
        sensitivities in order (None for unseeded) and input i accumulates contribution i exactly once (repeated inputs receive both);
        states and output sensitivities are untouched"""
        n = ctx.sym('n')
        ctx.assume(n >= 1)
        i = idx_in(ctx, 'i', (n,))
        for pat in _seed_patterns(nout):
            for wiring in (['distinct'] + (['repeat'] if nin >= 2 else [])):
                tag = ''.join('1' if p else '0' for p in pat) + ('r' if wiring == 'repeat' else '')
                base = [mk_signal(it, arr(ctx, f'x{k}{tag}', (n,))[0]) for k in range(nin)]
                sin = list(base)
                if wiring == 'repeat':
                    sin[-1] = sin[0]                    # the same signal on two input ports
                sout = [mk_signal(it, None) for _ in range(nout)]
                seeds = []
                for k, p in enumerate(pat):
                    w = arr(ctx, f'w{k}{tag}', (n,))[0] if p else None
                    it.setattr(sout[k], 'sensitivity', w)
                    seeds.append(w)
                old, OLD = arr(ctx, f'old{tag}', (n,))
                if nin:
                    it.setattr(sin[0], 'sensitivity', old)      # input 0 already carries a sensitivity (from another consumer)
                G = [arr(ctx, f'g{k}{tag}', (n,)) for k in range(nin)]
                gs = [g[0] if k != 1 else g[0] for k, g in enumerate(G)]
                if nin == 3:
                    gs[1] = None                         # a module may return None for an input
                states = [it.getattr(s, 'state') for s in sin]
                mod, log = abstract_module(ctx, it, sin, sout, sens=lambda self: pack(gs) if nin != 1 else gs[0])
                r = it.call(it.getattr(mod, 'sensitivity'), [])
                calls = [c for c in log if c[0] == '_sensitivity']
                skip = nout > 0 and not any(pat)
                if skip:
                    ctx.prove(f'[{tag}]unseeded_is_noop', r is None and len(calls) == 0 and all(it.getattr(s, 'sensitivity') is (old if (nin and s is sin[0]) else None) for s in sin))
                    continue
                ctx.prove(f'[{tag}]single_call', len(calls) == 1 and calls[0][1] is mod)
                ctx.prove(f'[{tag}]seeds_in_order', len(calls) == 1 and len(calls[0][2]) == nout and all(a is b for a, b in zip(calls[0][2], seeds)))
                for k, s in enumerate(sin):
                    if any(s is t for t in sin[:k]):
                        continue
                    contrib = [G[j][1](*i) for j in range(nin) if sin[j] is s and gs[j] is not None]
                    want = (OLD(*i) if k == 0 else 0) + sum(contrib)
                    sens_now = it.getattr(s, 'sensitivity')
                    if not contrib and k != 0:
                        ctx.prove(f'[{tag}]input{k}.none_contribution_leaves_none', sens_now is None)
                    else:
                        ctx.prove(f'[{tag}]input{k}.accumulated_once', sens_now is not None and V.cmp('==', sens_now.at(*i), want))
                        ctx.prove(f'[{tag}]input{k}.not_aliased_to_contribution', all(not same_storage(sens_now, gs[j]) for j in range(nin) if gs[j] is not None))
                ctx.prove(f'[{tag}]contributions_unchanged', z3.And(*[V.zbool(V.cmp('==', gs[j].at(*i), G[j][1](*i))) for j in range(nin) if gs[j] is not None]) if nin else True)
                ctx.prove(f'[{tag}]output_sens_untouched', all(it.getattr(s, 'sensitivity') is w for s, w in zip(sout, seeds)))
                ctx.prove(f'[{tag}]states_untouched', all(it.getattr(s, 'state') is v for s, v in zip(sin, states)))
        if nin:
            # wrong number of sensitivities raises
            sin = [mk_signal(it, None) for _ in range(nin)]
            sout = [mk_signal(it, None) for _ in range(nout)]
            for s in sout:
                it.setattr(s, 'sensitivity', ctx.sym('seed', 'real'))
            mod, _ = abstract_module(ctx, it, sin, sout, sens=lambda self: [None] * (nin + 1))
            try:
                it.call(it.getattr(mod, 'sensitivity'), [])
                ctx.prove('count_mismatch_raises', False)
            except PyExc as e:
                ctx.prove('count_mismatch_raises', e.cls == 'TypeError')


@harness(P, 'Module.sensitivity.sliced_inputs', targets=[T('Module.sensitivity'), T('SignalSlice.add_sensitivity')])
def h_sens_slices(ctx, it):
    """two overlapping slices of one base signal and the base itself as inputs: the base accumulates every contribution on exactly the
    selected entries (entry-level accumulator of DESIGN Appendix G)"""
    n = ctx.sym('n')
    a, b, c, d = (ctx.sym(x) for x in 'abcd')
    ctx.assume(z3.And(n >= 1, a >= 0, a <= b, b <= n, c >= 0, c <= d, d <= n))
    st, S0 = arr(ctx, 'st', (n,))
    base = mk_signal(it, st)
    s1, s2 = it.getitem(base, slice(a, b)), it.getitem(base, slice(c, d))
    out = mk_signal(it, None)
    it.setattr(out, 'sensitivity', ctx.sym('w', 'real'))
    g1, G1 = arr(ctx, 'g1', (b - a,))
    g2, G2 = arr(ctx, 'g2', (d - c,))
    g3, G3 = arr(ctx, 'g3', (n,))
    mod, log = abstract_module(ctx, it, [s1, s2, base], [out], sens=lambda self: (g1, g2, g3))
    it.call(it.getattr(mod, 'sensitivity'), [])
    i = idx_in(ctx, 'i', (n,))[0]
    bs = it.getattr(base, 'sensitivity')
    want = z3.If(z3.And(i >= a, i < b), G1(i - a), 0) + z3.If(z3.And(i >= c, i < d), G2(i - c), 0) + G3(i)
    ctx.prove('entrywise_accumulation', bs is not None and V.cmp('==', bs.at(i), want))
    ctx.prove('state_untouched', V.cmp('==', it.getattr(base, 'state').at(i), S0(i)))


for _nin, _nout in itertools.product(range(0, 3), range(0, 3)):
    @harness(P, f'Module.reset[{_nin}x{_nout}]', targets=[T('Module.reset'), T('Signal.reset')])
    def h_reset(ctx, it, nin=_nin, nout=_nout):
        """reset() resets every input and output signal (no sensitivity is left), calls _reset once and leaves states untouched"""
        sin = [mk_signal(it, ctx.sym(f'x{k}', 'real')) for k in range(nin)]
        sout = [mk_signal(it, ctx.sym(f'y{k}', 'real')) for k in range(nout)]
        for k, s in enumerate(sin + sout):
            if k % 2 == 0:
                it.setattr(s, 'sensitivity', ctx.sym(f'w{k}', 'real'))
        states = [it.getattr(s, 'state') for s in sin + sout]
        mod, log = abstract_module(ctx, it, sin, sout)
        r = it.call(it.getattr(mod, 'reset'), [])
        ctx.prove('returns_self', r is mod)
        ctx.prove('no_sensitivity_left', all(it.getattr(s, 'sensitivity') is None for s in sin + sout))
        ctx.prove('_reset_called_once', len([c for c in log if c[0] == '_reset']) == 1)
        ctx.prove('states_untouched', all(it.getattr(s, 'state') is v for s, v in zip(sin + sout, states)))


for _nm in range(0, 4):
    @harness(P, f'Network.order[{_nm}]', targets=[T('Network.response'), T('Network.sensitivity'), T('Network.reset'), T('Network.append')])
    def h_network(ctx, it, nm=_nm):
        """response runs the modules in list order, sensitivity and reset run every module exactly once in reverse order; append keeps the
        order and collects the signals; print_timing does not change the calls"""
        log = []
        ModCls = it.get_function(T('Module'))
        sigs = [mk_signal(it, None) for _ in range(nm + 1)]
        mods = [it.new_object(ModCls, sig_in=[sigs[k]], sig_out=[sigs[k + 1]]) for k in range(nm)]
        for name in ('response', 'sensitivity', 'reset'):
            it.summaries[T(f'Module.{name}')] = (lambda nm_: (lambda itp, args, kw: log.append((nm_, args[0]))))(name)
        for timing in (False, True):
            net = it.new_object(it.get_function(T('Network')), mods=[], print_timing=timing, sig_in=[], sig_out=[])
            if nm:
                it.call(it.getattr(net, 'append'), list(mods[:1]))
                it.call(it.getattr(net, 'append'), [list(mods[1:])]) if nm > 1 else None
            got = it.getattr(net, 'mods')
            ctx.prove(f'append_keeps_order[{timing}]', len(got) == nm and all(a is b for a, b in zip(got, mods)))
            if nm:
                ctx.prove(f'network_signals[{timing}]', set(id(s) for s in it.getattr(net, 'sig_in')) == {id(sigs[0])} and set(id(s) for s in it.getattr(net, 'sig_out')) == set(id(s) for s in sigs[1:]))
            for name, order in (('response', list(range(nm))), ('sensitivity', list(reversed(range(nm)))), ('reset', list(reversed(range(nm))))):
                del log[:]
                it.call(it.getattr(net, name), [])
                ctx.prove(f'{name}.order[{timing}]', [c[0] for c in log] == [name] * nm and all(c[1] is mods[k] for c, k in zip(log, order)))


@harness(P, 'Signal.add_sensitivity.object_with_mutable_parts', targets=[T('Signal.add_sensitivity'), 'pymoto.common.dyadcarrier:DyadCarrier.__iadd__',
                                                                         'pymoto.common.dyadcarrier:DyadCarrier.add_dyad'])
def h_add_dyad(ctx, it):
    """matrix sensitivities are DyadCarrier objects (lists of vectors, `+=` appends): the first contribution must be stored as a DEEP copy, so that
    accumulating into one signal changes neither the object that was added nor another signal that received the same object"""
    DC = it.get_function('pymoto.common.dyadcarrier:DyadCarrier')
    from pvc.arrays import to_carr
    u1 = to_carr([ctx.sym(f'u{k}', 'real') for k in range(2)])
    v1 = to_carr([ctx.sym(f'v{k}', 'real') for k in range(2)])
    u2 = to_carr([ctx.sym(f'p{k}', 'real') for k in range(2)])
    v2 = to_carr([ctx.sym(f'q{k}', 'real') for k in range(2)])
    ctx.assume(z3.And(ctx.sym('u0', 'real') != 0, ctx.sym('v0', 'real') != 0, ctx.sym('p0', 'real') != 0, ctx.sym('q0', 'real') != 0))
    ctx.safety_on = False
    d1 = it.call(DC, [u1, v1])
    d2 = it.call(DC, [u2, v2])
    n1 = len(it.getattr(d1, 'u'))
    sa, sb = mk_signal(it), mk_signal(it)
    it.call(it.getattr(sa, 'add_sensitivity'), [d1])
    it.call(it.getattr(sb, 'add_sensitivity'), [d1])
    it.call(it.getattr(sa, 'add_sensitivity'), [d2])
    ctx.prove('argument_not_grown', len(it.getattr(d1, 'u')) == n1 and len(it.getattr(d1, 'v')) == n1)
    ctx.prove('other_signal_isolated', len(it.getattr(it.getattr(sb, 'sensitivity'), 'u')) == n1)
    ctx.prove('accumulated', len(it.getattr(it.getattr(sa, 'sensitivity'), 'u')) == n1 + len(it.getattr(d2, 'u')))
    ctx.prove('distinct_objects', it.getattr(sa, 'sensitivity') is not d1 and it.getattr(sb, 'sensitivity') is not d1
              and it.getattr(it.getattr(sa, 'sensitivity'), 'u') is not it.getattr(d1, 'u'))
