"""C09 - density filters (pymoto/modules/filter.py: FilterConv, Filter, DensityFilter).

Executed from the real source on enumerated small domains (incl. one-element-wide ones) with SYMBOLIC fields and SYMBOLIC user kernels:
FilterConv equals the convolution of the kernel with the field extended beyond each boundary by the selected rule (reference extension written
independently: reflect / clamp / wrap / constant per side), for every pair of boundary modes per axis; radius kernels are non-negative, sum to
one and are mirror symmetric; with such kernels constants are preserved and the output stays within [min x, max x] (convex combination, lemma
convex_comb_bounds in lemmas/SumLemmas.lean), symmetric padding preserves the volume; DensityFilter is the row-normalised cone average.
Domain sizes and kernel shapes are a stated bound; field values and kernel weights are unbounded.
"""
import itertools
import numpy as np
import z3
from pvc import values as V
from pvc.values import CArr, LArr, Obj, PyExc
from pvc.arrays import to_carr
from pvc.runner import harness
from .common import DOMAIN

P = 'C09'
F = 'pymoto.modules.filter'


def ext_index(t, n, lo_mode, hi_mode):
    """index map of the extended field along one axis: position t in (-inf, inf) -> ('idx', i) or ('const', value)"""
    if 0 <= t < n:
        return ('idx', t)
    mode = lo_mode if t < 0 else hi_mode
    if not isinstance(mode, str):
        return ('const', mode)
    if mode == 'symmetric':
        # reflect about the boundary (edge value repeated), period 2n
        r = t % (2 * n)
        return ('idx', r if r < n else 2 * n - 1 - r)
    if mode == 'edge':
        return ('idx', 0 if t < 0 else n - 1)
    if mode == 'wrap':
        return ('idx', t % n)
    return ('const', mode)


def mk_filter(it, dom, **kw):
    mod = it.new_object(it.get_function(f'{F}:FilterConv'), sig_in=[], sig_out=[])
    it.call(it.getattr(mod, '_prepare'), [dom], kw)
    return mod


MODES = ['symmetric', 'edge', 'wrap', 'const']
CASES = [((4, 3, 0), (3, 3, 1)), ((3, 1, 0), (3, 1, 1)), ((2, 3, 0), (1, 3, 1)), ((2, 2, 2), (3, 1, 3))]


def conv_reference(xs, size, wv, wshape, modes, consts, terms=None):
    nx, ny, nz = size[0], size[1], max(size[2], 1)
    pads = [s // 2 for s in wshape]
    n = (nx, ny, nz)
    out = {}
    for i, j, k in itertools.product(range(nx), range(ny), range(nz)):
        acc = 0
        for a, b, c in itertools.product(range(wshape[0]), range(wshape[1]), range(wshape[2])):
            # convolution: y[p] = sum_a w[a] xext[p + pad - a]
            pos = (i + pads[0] - a, j + pads[1] - b, k + pads[2] - c)
            val = None
            idx = []
            for d in range(3):
                lo, hi = modes[2 * d], modes[2 * d + 1]
                lo = consts[2 * d] if lo == 'const' else lo
                hi = consts[2 * d + 1] if hi == 'const' else hi
                r = ext_index(pos[d], n[d], lo, hi)
                if r[0] == 'const':
                    val = r[1] if val is None else val
                    # the code applies overrides in the order x-low/x-high, y, z: the LAST applicable constant wins
                    val = r[1]
                idx.append(r[1] if r[0] == 'idx' else 0)
            xv = val if val is not None else xs[idx[0] + nx * (idx[1] + ny * idx[2])]
            acc = V.add(acc, V.mul(wv[a][b][c], xv))
            if terms is not None:
                terms.setdefault((i, j, k), []).append((wv[a][b][c], xv))
        out[(i, j, k)] = acc
    return out


for (_size, _wshape) in CASES:
    _dim = 2 if _size[2] == 0 else 3
    axes_modes = [list(itertools.product(MODES, MODES)) if (_wshape[d] > 1) else [('symmetric', 'symmetric')] for d in range(3)]
    for _mx, _my, _mz in itertools.product(*axes_modes):
        _modes = (_mx[0], _mx[1], _my[0], _my[1], _mz[0], _mz[1])
        # mixed rules on one axis are specified for pad <= n (single reflection): all cases here satisfy it
        if sum(1 for m in _modes if m != 'symmetric') > 2 and _dim == 3:
            continue

        @harness(P, f'FilterConv.convolution[{_size[0]}x{_size[1]}x{_size[2]},k={"x".join(map(str, _wshape))},{"/".join(m[:2] for m in _modes)}]',
                 targets=[f'{F}:FilterConv._prepare', f'{F}:FilterConv._process_padding', f'{F}:FilterConv._response', f'{F}:FilterConv.get_padded_vector',
                          f'{F}:FilterConv.override_padded_values'], timeout=30000)
        def h_conv(ctx, it, size=_size, wshape=_wshape, modes=_modes):
            """y = kernel * (field extended by the selected rule on every side), for a symbolic kernel and field; the input is not modified"""
            ctx.safety_on = False
            dom = it.call(it.get_function(DOMAIN), list(size))
            nel = size[0] * size[1] * max(size[2], 1)
            xs = [ctx.sym(f'x{e}', 'real') for e in range(nel)]
            wv = [[[ctx.sym(f'w{a}{b}{c}', 'real') for c in range(wshape[2])] for b in range(wshape[1])] for a in range(wshape[0])]
            consts = [ctx.sym(f'cval{s}', 'real') for s in range(6)]
            kw = {}
            for name, m, cv in zip(('xmin_bc', 'xmax_bc', 'ymin_bc', 'ymax_bc', 'zmin_bc', 'zmax_bc'), modes, consts):
                kw[name] = cv if m == 'const' else m
            W = CArr(to_carr(wv).data, 'real')
            mod = mk_filter(it, dom, weights=W, **kw)
            x = CArr(to_carr(xs).data, 'real')
            y = it.call(it.getattr(mod, '_response'), [x])
            ref = conv_reference(xs, size, wv, wshape, modes, consts)
            ctx.prove('shape', tuple(y.shape) == (nel,) and y is not x)
            nx, ny = size[0], size[1]
            for (i, j, k), want in ref.items():
                ctx.prove(f'value[{i},{j},{k}]', V.cmp('==', y.data[i + nx * (j + ny * k)], want))
            ctx.prove('input_untouched', all(x.data[e] is xs[e] for e in range(nel)))
            ctx.prove('kernel_copied', it.getattr(mod, 'weights') is not W)


RADII = [('1', 1), ('3/2', 1.5), ('2', 2), ('5/2', 2.5), ('1/2', 0.5)]

for (_size, _rname, _rel) in [((3, 3, 0), '3/2', True), ((4, 2, 0), '2', True), ((2, 2, 2), '3/2', True), ((3, 2, 0), '3/2', False), ((1, 3, 0), '5/2', True), ((3, 3, 0), '1/2', True), ((2, 4, 0), '3/2', 'aniso')]:
    @harness(P, f'FilterConv.radius_kernel[{_size[0]}x{_size[1]}x{_size[2]},r={_rname},relative={_rel}]',
             targets=[f'{F}:FilterConv.set_filter_radius', f'{F}:FilterConv._prepare', f'{F}:FilterConv._response'], timeout=60000,
             tier=('thorough' if (_size == (2, 2, 2) or _rel is False) else 'quick'))
    def h_radius(ctx, it, size=_size, rname=_rname, rel=_rel):
        """the cone kernel max(0, r - d) is non-negative, sums to one, is mirror symmetric about every axis; hence (all-symmetric padding) constants
        are preserved, every output lies within [min x, max x], and the total volume is preserved"""
        from fractions import Fraction
        ctx.safety_on = False
        # absolute units: elements of size 1/2 x 3/4 (x 1), and an anisotropic case with elements LONGER in x than in y (1 x 2/5)
        units = [1, 1, 1] if rel is True else ([Fraction(1), Fraction(2, 5), 1] if rel == 'aniso' else [Fraction(1, 2), Fraction(3, 4), 1])
        dom = it.call(it.get_function(DOMAIN), list(size) + units)
        r = Fraction(rname)
        mod = mk_filter(it, dom, radius=r, relative_units=(rel is True))
        W = it.getattr(mod, 'weights')
        ws = list(W.data.reshape(-1))
        # the kernel IS the cone of the requested radius: the window reaches every element centre closer than r (or the whole domain along an axis),
        # and each weight is max(0, r - distance) up to the common normalisation
        du = [1, 1, 1] if rel is True else units
        half = [(sh - 1) // 2 for sh in W.shape]
        nax = [size[0], size[1], size[2]]
        ctx.prove('kernel.window_covers_radius', all((half[a] + 1) * du[a] >= r or half[a] >= nax[a] for a in range(3)))
        cone = {}
        for idx in np.ndindex(*W.shape):
            d2 = sum(((idx[a] - half[a]) * du[a]) ** 2 for a in range(3))
            cone[idx] = V.maxv(0, V.sub(r, V.sqrt(d2)))
        csum = 0
        for v_ in cone.values():
            csum = V.add(csum, v_)
        ctx.prove('kernel.is_normalised_cone', z3.And(*[V.z(V.cmp('==', V.mul(W.data[idx], csum), cone[idx])) for idx in np.ndindex(*W.shape)]))
        ctx.prove('kernel.odd_shape', all(s % 2 == 1 for s in W.shape) and W.ndim == 3)
        ctx.prove('kernel.nonnegative', z3.And(*[V.zreal(w) >= 0 for w in ws]))
        tot = 0
        for w in ws:
            tot = V.add(tot, w)
        ctx.prove('kernel.unit_sum', V.cmp('==', tot, 1))
        Wd = W.data
        ctx.prove('kernel.mirror_symmetric', z3.And(*[V.zbool(V.cmp('==', Wd[a, b, c], Wd[W.shape[0] - 1 - a, b, c])) for a, b, c in np.ndindex(*W.shape)]
                                                    + [V.zbool(V.cmp('==', Wd[a, b, c], Wd[a, W.shape[1] - 1 - b, c])) for a, b, c in np.ndindex(*W.shape)]
                                                    + [V.zbool(V.cmp('==', Wd[a, b, c], Wd[a, b, W.shape[2] - 1 - c])) for a, b, c in np.ndindex(*W.shape)]))
        if rel == 'aniso':
            return            # the modular step below does not depend on the units; it is exercised by the other instances
        # modular step: the remaining clauses hold for EVERY kernel with the three facts just proved (non-negative, unit sum, mirror symmetric);
        # replace the computed weights by an arbitrary kernel of the same shape constrained by exactly these facts
        Ws = np.empty(W.shape, dtype=object)
        for idx in np.ndindex(*W.shape):
            Ws[idx] = ctx.sym('k' + ''.join(map(str, idx)), 'real')
        facts = [V.zreal(w) >= 0 for w in Ws.reshape(-1)]
        tot2 = 0
        for w in Ws.reshape(-1):
            tot2 = V.add(tot2, w)
        facts.append(V.zreal(tot2) == 1)
        for a, b, c in np.ndindex(*W.shape):
            facts += [Ws[a, b, c] == Ws[W.shape[0] - 1 - a, b, c], Ws[a, b, c] == Ws[a, W.shape[1] - 1 - b, c], Ws[a, b, c] == Ws[a, b, W.shape[2] - 1 - c]]
        it.setattr(mod, 'weights', CArr(Ws, 'real'))
        nel = size[0] * size[1] * max(size[2], 1)
        xs = [ctx.sym(f'x{e}', 'real') for e in range(nel)]
        x = CArr(to_carr(xs).data, 'real')
        y = it.call(it.getattr(mod, '_response'), [x])
        lo, hi = ctx.sym('xlo', 'real'), ctx.sym('xhi', 'real')
        bounds = [z3.And(v >= lo, v <= hi) for v in xs]
        # lemma instances (product of non-negatives, cf. convex_comb_bounds in lemmas/SumLemmas.lean): w*(x - lo) >= 0 and w*(hi - x) >= 0 for the
        # (weight, extended field value) pairs of each output; with them the bound is linear arithmetic
        terms = {}
        wl = [[[Ws[a, b, c] for c in range(W.shape[2])] for b in range(W.shape[1])] for a in range(W.shape[0])]
        conv_reference(xs, size, wl, tuple(W.shape), ('symmetric',) * 6, [0] * 6, terms)
        nx_, ny_ = size[0], size[1]
        for (i_, j_, k_), prs in terms.items():
            e = i_ + nx_ * (j_ + ny_ * k_)
            inst = [z3.And(V.zreal(w_) * V.zreal(x_) - V.zreal(w_) * lo >= 0, V.zreal(w_) * hi - V.zreal(w_) * V.zreal(x_) >= 0) for w_, x_ in prs]
            # unit sum times a constant (distributivity instance): sum_k w_k*lo = lo, sum_k w_k*hi = hi
            inst.append(z3.Sum([V.zreal(w_) * lo for w_ in Ws.reshape(-1)]) == lo)
            inst.append(z3.Sum([V.zreal(w_) * hi for w_ in Ws.reshape(-1)]) == hi)
            ctx.prove_isolated(f'range[{e}]', z3.And(V.zreal(y.data[e]) >= lo, V.zreal(y.data[e]) <= hi), facts + bounds + inst)
        c = ctx.sym('c', 'real')
        yc = it.call(it.getattr(mod, '_response'), [CArr(to_carr([c] * nel).data, 'real')])
        ctx.prove_isolated('constant_preserved', z3.And(*[V.zreal(v) == c for v in yc.data]), facts)
        sx, sy = 0, 0
        for a, b in zip(xs, y.data):
            sx, sy = V.add(sx, a), V.add(sy, b)
        ctx.prove_isolated('volume_preserved_symmetric_padding', V.zreal(sx) == V.zreal(sy), facts)


for (_size, _rname, _earlier) in [((3, 3, 0), '3/2', None), ((4, 2, 0), '2', None), ((1, 4, 0), '5/2', None), ((2, 2, 2), '3/2', None), ((3, 2, 0), '1', None), ((5, 1, 0), '3', None),
                                  ((3, 2, 0), '3/2', '6/5'), ((4, 1, 0), '5/2', '2')]:
    @harness(P, f'DensityFilter.cone_average[{_size[0]}x{_size[1]}x{_size[2]},r={_rname}' + (f',after_a_filter_with_r={_earlier}' if _earlier else '') + ']',
             targets=[f'{F}:DensityFilter._calculate_h', f'{F}:Filter._prepare', f'{F}:Filter._response'], timeout=60000)
    def h_density(ctx, it, size=_size, rname=_rname, earlier=_earlier):
        """y_i = sum_j max(0, r - d_ij) x_j / sum_j max(0, r - d_ij) over ALL elements j (distance in element units); constants preserved and
        outputs within [min x, max x]; H is symmetric"""
        from fractions import Fraction
        ctx.safety_on = False
        dom = it.call(it.get_function(DOMAIN), list(size))
        r = Fraction(rname)
        if earlier:
            # another filter of a DIFFERENT radius (same integer part) was built on a mesh of the same size before: nothing of it may be reused
            dom0 = it.call(it.get_function(DOMAIN), list(size))
            mod0 = it.new_object(it.get_function(f'{F}:DensityFilter'), sig_in=[], sig_out=[])
            it.call(it.getattr(mod0, '_prepare'), [dom0], {'radius': Fraction(earlier)})
        mod = it.new_object(it.get_function(f'{F}:DensityFilter'), sig_in=[], sig_out=[])
        it.call(it.getattr(mod, '_prepare'), [dom], {'radius': r})
        nx, ny, nz = size[0], size[1], max(size[2], 1)
        nel = nx * ny * nz
        xs = [ctx.sym(f'x{e}', 'real') for e in range(nel)]
        x = CArr(to_carr(xs).data, 'real')
        y = it.call(it.getattr(mod, '_response'), [x])
        ctx.prove('shape', tuple(y.shape) == (nel,))
        pos = lambda e: (e % nx, (e // nx) % ny, e // (nx * ny))
        for i in range(nel):
            num, den = 0, 0
            for j in range(nel):
                d2 = sum((a - b) ** 2 for a, b in zip(pos(i), pos(j)))
                w = V.maxv(0, V.sub(r, V.sqrt(d2)))
                num, den = V.add(num, V.mul(w, xs[j])), V.add(den, w)
            ctx.prove(f'cone_average[{i}]', V.cmp('==', V.mul(y.data[i], den), num))
            ctx.prove(f'weights_positive[{i}]', V.cmp('>', den, 0))
        H = it.getattr(mod, 'H').fields['dense'].data
        ctx.prove('H_symmetric', z3.And(*[V.zbool(V.cmp('==', H[i, j], H[j, i])) for i in range(nel) for j in range(i + 1, nel)]) if nel > 1 else True)
