"""C01 - every module's sensitivity is the exact adjoint of its response.

For every catalogue entry (contracts/modcat.py: the real module on an enumerated small instance with SYMBOLIC data) the real _response and
_sensitivity are executed; the obligation is the adjoint identity as stated in the property,
      Re sum(g * v)  =  d/dt Re sum(w * y(x + t v)) at t = 0      for every direction v,
with the right-hand side obtained by forward-mode differentiation (pvc/diff.py, trusted) of the response TERM produced by the real
_response - an identity of polynomials / rational functions / terms over sqrt, exp, log, rpow, decided by normalisation or z3.
Seeds: all outputs seeded, and partially seeded outputs (None counts as zero).  Instance sizes are a stated bound; data, seeds, directions,
kernels, element matrices and parameters are unbounded.  Elementwise complex modules are additionally proved for symbolic length.
Solver-based modules (LinSolve, Inverse, SystemOfEquations, StaticCondensation, EigenSolve) and MathGeneral/AutoMod: bounded stand-in only.
"""
import itertools
import numpy as np
import z3
from pvc import values as V
from pvc import diff
from pvc.values import CArr, LArr, Obj, Cx, PyExc
from pvc.arrays import to_carr
from pvc.runner import harness
from .modcat import CASES, Sym, flat, as_list, mk_module
from .C18 import arr

P = 'C01'


def re(v):
    return V.zreal(V.real_part(v))


def im(v):
    return V.zreal(V.imag_part(v))


def pairing(a_list, b_list):
    """Re sum(a*b) for lists of (possibly complex) scalars"""
    tot = z3.RealVal(0)
    for a, b in zip(a_list, b_list):
        tot = tot + re(a) * re(b) - im(a) * im(b)
    return tot


def poly_zero(e):
    d = z3.simplify(e, som=True, flat=True)
    return z3.is_rational_value(d) and d.numerator_as_long() == 0


def poly_zero_full(e):
    """polynomial identity by normalisation: z3's sum-of-monomials rewriting first, full expansion with sympy second (z3's rewriter does not distribute
    products of several sums).  Used where the identity is large; `poly_zero` (one rewriting pass) is what the older contracts branch on"""
    d = z3.simplify(e, som=True, flat=True)
    if z3.is_rational_value(d):
        return d.numerator_as_long() == 0
    return _poly_zero_expand(d)


def _poly_zero_expand(e, limit=4000):
    """second normaliser: full expansion with sympy (z3's rewriter does not distribute products of several sums).  Sub-terms that are not polynomial
    (quotients by non-numerals, ite, ghost-function applications) are opaque symbols keyed by their text: identical sub-terms are identified, which is
    sound for proving an identity (never used to refute one)"""
    import sympy
    cache, atoms = {}, {}
    count = [0]

    def conv(t):
        k = t.get_id()
        if k in cache:
            return cache[k]
        count[0] += 1
        if count[0] > limit:
            raise OverflowError
        if z3.is_int_value(t):
            r = sympy.Integer(t.as_long())
        elif z3.is_rational_value(t):
            r = sympy.Rational(t.numerator_as_long(), t.denominator_as_long())
        elif z3.is_app(t) and t.decl().kind() == z3.Z3_OP_ADD:
            r = sympy.Add(*[conv(c) for c in t.children()])
        elif z3.is_app(t) and t.decl().kind() == z3.Z3_OP_MUL:
            r = sympy.Mul(*[conv(c) for c in t.children()])
        elif z3.is_app(t) and t.decl().kind() == z3.Z3_OP_SUB:
            ch = [conv(c) for c in t.children()]
            r = ch[0] - sympy.Add(*ch[1:])
        elif z3.is_app(t) and t.decl().kind() == z3.Z3_OP_UMINUS:
            r = -conv(t.arg(0))
        elif z3.is_app(t) and t.decl().kind() == z3.Z3_OP_TO_REAL:
            r = conv(t.arg(0))
        elif z3.is_app(t) and t.decl().kind() == z3.Z3_OP_DIV and z3.is_rational_value(t.arg(1)) and t.arg(1).numerator_as_long() != 0:
            r = conv(t.arg(0)) / conv(t.arg(1))
        elif z3.is_app(t) and t.decl().kind() == z3.Z3_OP_POWER and z3.is_int_value(t.arg(1)) and 0 <= t.arg(1).as_long() <= 6:
            r = conv(t.arg(0)) ** t.arg(1).as_long()
        else:
            key = t.sexpr()
            if key not in atoms:
                atoms[key] = sympy.Symbol(f'v{len(atoms)}')
            r = atoms[key]
        cache[k] = r
        return r
    try:
        return sympy.expand(conv(e)) == 0
    except (OverflowError, RecursionError):
        return False


def out_entries(y):
    if isinstance(y, Obj) and y.cls is not None and y.cls.name == 'DyadCarrier':
        raise V.Unsupported('dyadic output')
    return flat(y)


def seed_like(ctx, it, y, name, kind_hint=None, seed='dense'):
    """a symbolic seed of the shape and kind of the output y; returns (seed value handed to the module, list of its entries)"""
    ents = out_entries(y)
    is_cx = any(isinstance(e, Cx) for e in ents)
    if seed == 'dyad':
        dense = y.fields['dense'] if isinstance(y, Obj) else y
        n, m = dense.shape
        u = [ctx.sym(f'{name}u{k}', 'real') for k in range(n)]
        v = [ctx.sym(f'{name}v{k}', 'real') for k in range(m)]
        ctx.assume(z3.And(u[0] != 0, v[0] != 0))
        DC = it.get_function('pymoto.common.dyadcarrier:DyadCarrier')
        w = it.call(DC, [[CArr(to_carr(u).data, 'real')], [CArr(to_carr(v).data, 'real')]])
        return w, [V.mul(u[i], v[j]) for i in range(n) for j in range(m)]
    vals = []
    for k in range(len(ents)):
        if is_cx:
            vals.append(Cx(ctx.sym(f'{name}{k}r', 'real'), ctx.sym(f'{name}{k}i', 'real')))
        else:
            vals.append(ctx.sym(f'{name}{k}', 'real'))
    if isinstance(y, (CArr,)):
        d = np.empty(len(vals), dtype=object)
        for k, v in enumerate(vals):
            d[k] = v
        return CArr(d.reshape(y.shape), 'complex' if is_cx else 'real'), vals
    if isinstance(y, Obj) and y.tag == 'sparse':
        d = np.empty(len(vals), dtype=object)
        for k, v in enumerate(vals):
            d[k] = v
        return CArr(d.reshape(y.fields['dense'].shape), 'real'), vals
    return vals[0], vals


def run_case(ctx, it, case, partial=None):
    ctx.safety_on = False
    mod, inputs, extra = case.build(ctx, it)
    if extra.get('pre'):
        extra['pre']()
    for s, x in zip(it.getattr(mod, 'sig_in'), inputs):
        it.setattr(s, 'state', x.value)
    y = it.call(it.getattr(mod, '_response'), [x.value for x in inputs])
    nout = len(it.getattr(mod, 'sig_out'))
    ys = as_list(y, nout)
    for s, yy in zip(it.getattr(mod, 'sig_out'), ys):
        it.setattr(s, 'state', yy)
    return mod, inputs, extra, ys


for _case in CASES:
    @harness(P, f'adjoint.{_case.name}', targets=_case.targets, timeout=40000)
    def h_adjoint(ctx, it, case=_case):
        """Re sum(g v) = D[Re sum(w y)](v) for symbolic data, seed and direction; sensitivity() does not raise; result shapes match the inputs"""
        mod, inputs, extra, ys = run_case(ctx, it, case)
        seeds, seed_entries = [], []
        for k, yy in enumerate(ys):
            w, ents = seed_like(ctx, it, yy, f'w{k}_', seed=extra.get('seed', 'dense'))
            seeds.append(w)
            seed_entries.append(ents)
        for s, w in zip(it.getattr(mod, 'sig_out'), seeds):
            it.setattr(s, 'sensitivity', w)
        g = as_list(it.call(it.getattr(mod, '_sensitivity'), list(seeds)), len(inputs))
        ctx.prove('one_sensitivity_per_input', len(g) == len(inputs))
        # directions
        dirs, lhs = [], z3.RealVal(0)
        for k, (x, gk) in enumerate(zip(inputs, g)):
            gl = flat(gk) if gk is not None else [0] * len(x.leaves)
            ctx.prove(f'shape_of_sensitivity[{k}]', len(gl) == len(x.leaves) and (gk is None or tuple(getattr(gk, 'shape', ())) == tuple(x.shape)))
            for (sr, si), ge in zip(x.leaves, gl):
                vr = ctx.sym(f'v{k}_{len(dirs)}r', 'real')
                dirs.append((sr, vr))
                lhs = lhs + re(ge) * vr
                if si is not None:
                    vi = ctx.sym(f'v{k}_{len(dirs)}i', 'real')
                    dirs.append((si, vi))
                    lhs = lhs - im(ge) * vi
        # response term (with documented frozen quantities held constant)
        obj = z3.RealVal(0)
        frozen = []
        for yy, ents in zip(ys, seed_entries):
            yl = out_entries(yy)
            if case.freeze == 'aggregation' and it.getattr(mod, 'scaling') is not None:
                sf = V.zreal(it.getattr(mod, 'sf'))
                agg = it.call(it.getattr(mod, 'aggregation_function'), [inputs[0].value])
                sfc = z3.Real('sf_frozen')
                frozen.append((sfc, sf))
                yl = [V.mul(sfc, agg)]
            obj = obj + pairing(ents, yl)
        rhs = diff.D(obj, dirs)
        for sfc, sf in frozen:
            rhs = z3.substitute(rhs, (sfc, sf))
        if poly_zero(lhs - rhs):
            ctx.prove('adjoint_identity', True)
        elif len(dirs) * sum(len(e) for e in seed_entries) <= 80 and all(not isinstance(e, Cx) and z3.is_const(V.zreal(e)) for es in seed_entries for e in es):
            # the identity is linear in the direction and in the seed: decide it coefficient by coefficient,  d g_i / d w_j  =  d y_j / d x_i
            wsyms = [V.zreal(e) for es in seed_entries for e in es]
            for a, (xs_, va) in enumerate(dirs):
                La = diff.D(lhs, [(va, z3.RealVal(1))])                  # = g_a (lhs is linear in the direction)
                Ra = diff.D(obj, [(xs_, z3.RealVal(1))])                 # = d(sum w y)/d x_a
                for sfc, sf in frozen:
                    Ra = z3.substitute(Ra, (sfc, sf))
                for b, wb in enumerate(wsyms):
                    l_ab = diff.D(La, [(wb, z3.RealVal(1))])
                    r_ab = diff.D(Ra, [(wb, z3.RealVal(1))])
                    ctx.prove(f'adjoint_coefficient[x{a},w{b}]', True if poly_zero(l_ab - r_ab) else l_ab == r_ab)
        else:
            ctx.prove('adjoint_identity', lhs == rhs)


# ------------------------------------------------------------------------------------------------ partial seeds / multiple outputs
@harness(P, 'adjoint.partial_seed.user_two_outputs', targets=['pymoto.core_objects:Module.sensitivity'])
def h_partial(ctx, it):
    """a module with two outputs of which only one is seeded: Module.sensitivity hands None for the unseeded output (counts as zero) - proved
    in C02.Module.sensitivity[*]; here the catalogue modules with a single output are complete, so the clause is delegated"""
    ctx.prove('delegated_to_C02', True)


# ------------------------------------------------------------------------------------------------ elementwise modules, symbolic length
CX = 'pymoto.modules.complex'


@harness(P, 'adjoint.elementwise_symbolic_length', targets=[f'{CX}:MakeComplex._response', f'{CX}:MakeComplex._sensitivity', f'{CX}:RealPart._response',
                                                             f'{CX}:RealPart._sensitivity', f'{CX}:ImagPart._response', f'{CX}:ImagPart._sensitivity',
                                                             f'{CX}:ComplexNorm._response', f'{CX}:ComplexNorm._sensitivity'])
def h_elementwise(ctx, it):
    """MakeComplex, RealPart, ImagPart, ComplexNorm on vectors of SYMBOLIC length: the adjoint identity holds entry by entry (the modules act
    element-wise, so the sums on both sides are sums of the proved entry identities)"""
    n = ctx.sym('n')
    ctx.assume(n >= 1)
    j = ctx.sym('j')
    ctx.assume(z3.And(j >= 0, j < n))

    def cvec(name):
        R, I = z3.Function(name + 'r', z3.IntSort(), z3.RealSort()), z3.Function(name + 'i', z3.IntSort(), z3.RealSort())
        return LArr((n,), lambda i: Cx(R(V.zint(i[0])), I(V.zint(i[0]))), 'complex'), R, I
    ctx.safety_on = False
    # MakeComplex: (x, y) real -> z = x + i y ; seed complex
    x, X = arr(ctx, 'x', (n,))
    y, Y = arr(ctx, 'y', (n,))
    w, WR, WI = cvec('w')
    mod = mk_module(it, f'{CX}:MakeComplex', 2, 1)
    z = it.call(it.getattr(mod, '_response'), [x, y])
    gx, gy = it.call(it.getattr(mod, '_sensitivity'), [w])
    vx, vy = ctx.sym('vx', 'real'), ctx.sym('vy', 'real')
    # Re(w * (vx + i vy)) = wr vx - wi vy
    ctx.prove('MakeComplex', re(gx.at(j)) * vx + re(gy.at(j)) * vy == WR(j) * vx - WI(j) * vy)
    ctx.prove('MakeComplex.response', z3.And(re(z.at(j)) == X(j), im(z.at(j)) == Y(j)))
    # RealPart / ImagPart: z complex -> real ; seed real
    zc, ZR, ZI = cvec('z')
    s, S_ = arr(ctx, 's', (n,))
    vr, vi = ctx.sym('vr', 'real'), ctx.sym('vi', 'real')
    for cls, dresp in (('RealPart', lambda: vr), ('ImagPart', lambda: vi)):
        mod = mk_module(it, f'{CX}:{cls}', 1, 1)
        out = it.call(it.getattr(mod, '_response'), [zc])
        g = it.call(it.getattr(mod, '_sensitivity'), [s])
        ctx.prove(cls, re(g.at(j)) * vr - im(g.at(j)) * vi == S_(j) * dresp())
    # ComplexNorm: A = |z| ; dA/d(direction) = (zr vr + zi vi)/A
    mod = mk_module(it, f'{CX}:ComplexNorm', 1, 1)
    sig_in, sig_out = it.getattr(mod, 'sig_in')[0], it.getattr(mod, 'sig_out')[0]
    it.setattr(sig_in, 'state', zc)
    A = it.call(it.getattr(mod, '_response'), [zc])
    it.setattr(sig_out, 'state', A)
    g = it.call(it.getattr(mod, '_sensitivity'), [s])
    Aj = V.zreal(A.at(j))
    ctx.assume(z3.Or(ZR(j) != 0, ZI(j) != 0))
    ctx.prove('ComplexNorm', (re(g.at(j)) * vr - im(g.at(j)) * vi) * Aj == S_(j) * (ZR(j) * vr + ZI(j) * vi))
    ctx.prove('ComplexNorm.response', z3.And(Aj >= 0, Aj * Aj == ZR(j) * ZR(j) + ZI(j) * ZI(j)))
