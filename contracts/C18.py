"""C18 - signals and slices (pymoto/core_objects.py: Signal, SignalSlice).

Heap model: an ndarray is a storage object (LArr / CArr instance); basic slices are views that read and write through to
their base storage, advanced (integer-array) indexing copies; python floats / complex are immutable values.
"""
import z3
from pvc import values as V
from pvc.values import CArr, LArr, Obj, Cx, PyExc
from pvc.arrays import to_carr, root_of, snapshot
from pvc.runner import harness

P = 'C18'
CO = 'pymoto.core_objects'
T = lambda m: f'{CO}:{m}'


def arr(ctx, name, shape, kind='real'):
    sort = {'real': z3.RealSort(), 'int': z3.IntSort()}[kind]
    F = z3.Function(name, *([z3.IntSort()] * len(shape)), sort)
    return LArr(tuple(shape), lambda i, F=F: F(*[V.zint(x) for x in i]), kind), F


def idx_in(ctx, name, shape):
    i = tuple(ctx.sym(f'{name}{k}') for k in range(len(shape)))
    for a, n in zip(i, shape):
        ctx.assume(z3.And(a >= 0, a < V.zint(n)))
    return i


def mk_signal(it, state=None, sensitivity=None):
    return it.call(it.get_function(T('Signal')), ['s', state, sensitivity])


def same_storage(a, b):
    if isinstance(a, CArr) and isinstance(b, CArr):
        import numpy as np
        return a is b or a.data is b.data or np.shares_memory(a.data, b.data)
    if isinstance(a, CArr) or isinstance(b, CArr):
        return False
    return root_of(a)[0] is root_of(b)[0]


# ------------------------------------------------------------------------------------------------ Signal
for _kind in ('array', 'array2d', 'array0d', 'float', 'complex'):
    @harness(P, f'Signal.add_sensitivity[{_kind}]', targets=[T('Signal.add_sensitivity'), T('Signal.__init__')])
    def h_add(ctx, it, kind=_kind):
        """None is a no-op; the first contribution is stored as a fresh copy (never an alias of the argument); later contributions are
        accumulated in place; the argument is never written"""
        n, m = ctx.sym('n'), ctx.sym('m')
        ctx.assume(z3.And(n >= 1, m >= 1))
        shape = {'array': (n,), 'array2d': (n, m)}.get(kind)
        is_array = kind.startswith('array')
        if shape:
            ds1, D1 = arr(ctx, 'ds1', shape)
            ds2, D2 = arr(ctx, 'ds2', shape)
            i = idx_in(ctx, 'i', shape)
            val = lambda a: a.at(*i)
            v1, v2 = D1(*i), D2(*i)
        elif kind == 'array0d':
            shape = ()
            v1, v2 = ctx.sym('ds1', 'real'), ctx.sym('ds2', 'real')
            ds1, ds2 = to_carr(v1), to_carr(v2)          # rank-0 ndarrays are mutable storages like any other array
            val = lambda a: a.data[()] if isinstance(a, CArr) else a
            i = ()
        elif kind == 'float':
            ds1, ds2 = ctx.sym('ds1', 'real'), ctx.sym('ds2', 'real')
            val = lambda a: a
            v1, v2 = ds1, ds2
        else:
            ds1, ds2 = Cx(ctx.sym('ds1r', 'real'), ctx.sym('ds1i', 'real')), Cx(ctx.sym('ds2r', 'real'), ctx.sym('ds2i', 'real'))
            val = lambda a: a
            v1, v2 = ds1, ds2
        s = mk_signal(it)
        ctx.prove('init.no_sensitivity', it.getattr(s, 'sensitivity') is None and it.getattr(s, 'keep_alloc') is False)
        it.call(it.getattr(s, 'add_sensitivity'), [None])
        ctx.prove('none_noop', it.getattr(s, 'sensitivity') is None)
        it.call(it.getattr(s, 'add_sensitivity'), [ds1])
        sens1 = it.getattr(s, 'sensitivity')
        ctx.prove('first_add.value', V.cmp('==', val(sens1), v1))
        if is_array:
            ctx.prove('first_add.is_array', isinstance(sens1, (CArr, LArr)))
            ctx.prove('first_add.fresh_storage', isinstance(sens1, (CArr, LArr)) and not same_storage(sens1, ds1))
            ctx.prove('first_add.shape', all(V.cmp('==', a, b) is True for a, b in zip(sens1.shape, shape)))
        it.call(it.getattr(s, 'add_sensitivity'), [None])
        ctx.prove('none_noop_after_first', it.getattr(s, 'sensitivity') is sens1)
        it.call(it.getattr(s, 'add_sensitivity'), [ds2])
        sens2 = it.getattr(s, 'sensitivity')
        ctx.prove('later_add.value', V.cmp('==', val(sens2), V.add(v1, v2)))
        if is_array:
            ctx.prove('later_add.in_place', sens2 is sens1)
            ctx.prove('later_add.not_aliased_to_arg', not same_storage(sens2, ds2))
            ctx.prove('args_unchanged', V.and_(V.cmp('==', val(ds1), v1), V.cmp('==', val(ds2), v2)))
            # adding the same object to two signals and continuing on one of them does not change the other
            s2 = mk_signal(it)
            it.call(it.getattr(s2, 'add_sensitivity'), [ds1])
            it.call(it.getattr(s2, 'add_sensitivity'), [ds2])
            it.call(it.getattr(s2, 'add_sensitivity'), [ds1])
            ctx.prove('two_signals_isolated', V.and_(V.cmp('==', val(it.getattr(s, 'sensitivity')), V.add(v1, v2)), V.cmp('==', val(ds1), v1)))
        ctx.prove('state_untouched', it.getattr(s, 'state') is None)


for _kind in ('array', 'float'):
    for _ka in ('default_false', 'default_true', 'arg_true', 'arg_false_on_true'):
        @harness(P, f'Signal.reset[{_kind},{_ka}]', targets=[T('Signal.reset'), T('Signal.__init__')])
        def h_reset(ctx, it, kind=_kind, ka=_ka):
            """reset() clears the sensitivity to None, or zeroes it in place (same storage) when the allocation is kept; an explicit
            keep_alloc argument overrides the signal's default; the state is untouched"""
            n = ctx.sym('n')
            ctx.assume(n >= 1)
            if kind == 'array':
                d0, D0 = arr(ctx, 'd0', (n,))
                st, S0 = arr(ctx, 'st', (n,))
                i = idx_in(ctx, 'i', (n,))
            else:
                d0, st = ctx.sym('d0', 'real'), ctx.sym('st', 'real')
            init_sens = d0 if ka in ('default_true', 'arg_false_on_true') else None
            s = mk_signal(it, st, init_sens)
            ctx.prove('keep_alloc_default', it.getattr(s, 'keep_alloc') is (init_sens is not None))
            if init_sens is None:
                it.call(it.getattr(s, 'add_sensitivity'), [d0])
            before = it.getattr(s, 'sensitivity')
            args = {'default_false': [], 'default_true': [], 'arg_true': [True], 'arg_false_on_true': [False]}[ka]
            r = it.call(it.getattr(s, 'reset'), args)
            ctx.prove('returns_self', r is s)
            after = it.getattr(s, 'sensitivity')
            keep = ka in ('default_true', 'arg_true')
            if not keep:
                ctx.prove('cleared_to_none', after is None)
            elif kind == 'array':
                ctx.prove('zeroed_in_place', (after is before) and V.cmp('==', after.at(*i), 0))
            else:
                ctx.prove('zeroed_value', after is not None and V.cmp('==', after, 0))
            ctx.prove('state_untouched', it.getattr(s, 'state') is st)
            if kind == 'array':
                ctx.prove('state_values_untouched', V.cmp('==', st.at(*i), S0(*i)))
            r2 = it.call(it.getattr(s, 'reset'), [])
            ctx.prove('reset_twice_ok', r2 is s)


# ------------------------------------------------------------------------------------------------ SignalSlice
def slice_cases(ctx, n, m):
    """(name, base shape, python index object, predicate 'base index is selected', map base index -> slice index)"""
    a, b = ctx.sym('a'), ctx.sym('b')
    ctx.assume(z3.And(a >= 0, a <= b, b <= V.zint(n)))
    yield 'basic', (n,), slice(a, b), (lambda i: z3.And(i[0] >= a, i[0] < b)), (lambda i: (i[0] - a,)), (b - a,)
    c, d = ctx.sym('c'), ctx.sym('d')
    ctx.assume(z3.And(c >= 0, c <= d, d <= V.zint(m)))
    yield 'tuple', (n, m), (slice(a, b), slice(c, d)), (lambda i: z3.And(i[0] >= a, i[0] < b, i[1] >= c, i[1] < d)), (lambda i: (i[0] - a, i[1] - c)), (b - a, d - c)
    yield 'row', (n, m), a, (lambda i: z3.And(i[0] == a, a < V.zint(n))), (lambda i: (i[1],)), (m,)


for _sl in ('basic', 'tuple', 'row', 'fancy', 'tuple_fancy', 'nested'):
    @harness(P, f'SignalSlice.read_write[{_sl}]', targets=[T('SignalSlice.state'), T('SignalSlice.sensitivity'), T('SignalSlice.add_sensitivity'),
                                                           T('SignalSlice.reset'), T('SignalSlice.__init__'), T('Signal.__getitem__')])
    def h_slice(ctx, it, sl=_sl):
        """a sliced signal reads and writes exactly the selected entries of its base state / sensitivity; add_sensitivity creates a zero
        sensitivity of the base's shape when none exists and accumulates into exactly the selected entries; the argument is not written
        or retained; resetting the slice zeroes only its own entries"""
        n, m = ctx.sym('n'), ctx.sym('m')
        ctx.assume(z3.And(n >= 1, m >= 1))
        if sl in ('basic', 'tuple', 'row'):
            name, shape, index, selected, to_slice, sshape = [c for c in slice_cases(ctx, n, m) if c[0] == sl][0]
            if sl == 'row':
                ctx.assume(V.zint(index) < V.zint(n))
        elif sl == 'fancy':
            # integer index array without repeats: ghost inverse = injectivity witness
            k = ctx.sym('k')
            ctx.assume(z3.And(k >= 0))
            IDX = z3.Function('idx', z3.IntSort(), z3.IntSort())
            INV = z3.Function('idx_inv', z3.IntSort(), z3.IntSort())
            q = z3.Int('q!idx')
            ctx.hyps.append(z3.ForAll([q], z3.Implies(z3.And(q >= 0, q < k), z3.And(IDX(q) >= 0, IDX(q) < V.zint(n), INV(IDX(q)) == q))))
            index = LArr((k,), lambda i: IDX(V.zint(i[0])), 'int', inv=lambda v: INV(V.zint(v)))
            shape = (n,)
            selected = lambda i: z3.And(INV(i[0]) >= 0, INV(i[0]) < k, IDX(INV(i[0])) == i[0])
            to_slice = lambda i: (INV(i[0]),)
            sshape = (k,)
        elif sl == 'tuple_fancy':
            # basic slice on the first axis combined with an integer array (no repeats) on the second: numpy returns a copy
            k = ctx.sym('k')
            a, b = ctx.sym('a'), ctx.sym('b')
            ctx.assume(z3.And(k >= 0, a >= 0, a <= b, b <= V.zint(n)))
            IDX = z3.Function('idx', z3.IntSort(), z3.IntSort())
            INV = z3.Function('idx_inv', z3.IntSort(), z3.IntSort())
            q = z3.Int('q!idx')
            ctx.hyps.append(z3.ForAll([q], z3.Implies(z3.And(q >= 0, q < k), z3.And(IDX(q) >= 0, IDX(q) < V.zint(m), INV(IDX(q)) == q))))
            index = (slice(a, b), LArr((k,), lambda i: IDX(V.zint(i[0])), 'int', inv=lambda v: INV(V.zint(v))))
            shape = (n, m)
            selected = lambda i: z3.And(i[0] >= a, i[0] < b, INV(i[1]) >= 0, INV(i[1]) < k, IDX(INV(i[1])) == i[1])
            to_slice = lambda i: (i[0] - a, INV(i[1]))
            sshape = (b - a, k)
        else:
            a, b, c, d = (ctx.sym(x) for x in 'abcd')
            ctx.assume(z3.And(a >= 0, a <= b, b <= V.zint(n), c >= 0, c <= d, d <= b - a))
            shape = (n,)
            index = None
            selected = lambda i: z3.And(i[0] >= a + c, i[0] < a + d)
            to_slice = lambda i: (i[0] - a - c,)
            sshape = (d - c,)
        st, S0 = arr(ctx, 'st', shape)
        base = mk_signal(it, st)
        if sl == 'nested':
            ss = it.getitem(it.getitem(base, slice(a, b)), slice(c, d))
        else:
            ss = it.getitem(base, index)
        ctx.prove('is_slice_of_base', ss.cls.name == 'SignalSlice' and it.getattr(ss, 'keep_alloc') is False)
        i = idx_in(ctx, 'i', shape)
        sel = selected(i)
        # --- state: read
        v = it.getattr(ss, 'state')
        ctx.prove('state.read_shape', z3.And(*[V.zbool(V.cmp('==', x, y)) for x, y in zip(v.shape, sshape)]) if len(v.shape) == len(sshape) else False)
        ctx.prove('state.read_entries', z3.Implies(sel, V.zbool(V.cmp('==', v.at(*to_slice(i)), S0(*i)))))
        # --- state: write
        new, N0 = arr(ctx, 'new', sshape)
        it.setattr(ss, 'state', new)
        now = it.getattr(base, 'state')
        ctx.prove('state.write_same_storage', now is st)
        ctx.prove('state.write_selected', z3.Implies(sel, V.zbool(V.cmp('==', now.at(*i), N0(*to_slice(i))))))
        ctx.prove('state.write_frame', z3.Implies(z3.Not(sel), V.zbool(V.cmp('==', now.at(*i), S0(*i)))))
        ctx.prove('state.write_arg_unchanged', V.cmp('==', new.at(*to_slice(i)), N0(*to_slice(i))))
        # --- sensitivity through the slice
        ctx.prove('sens.none_initially', it.getattr(ss, 'sensitivity') is None)
        it.call(it.getattr(ss, 'add_sensitivity'), [None])
        ctx.prove('sens.none_noop', it.getattr(base, 'sensitivity') is None)
        ds, D0 = arr(ctx, 'ds', sshape)
        it.call(it.getattr(ss, 'add_sensitivity'), [ds])
        bs = it.getattr(base, 'sensitivity')
        ctx.prove('sens.base_created', bs is not None and len(bs.shape) == len(shape))
        ctx.prove('sens.base_shape', z3.And(*[V.zbool(V.cmp('==', x, y)) for x, y in zip(bs.shape, shape)]))
        ctx.prove('sens.first_add_selected', z3.Implies(sel, V.zbool(V.cmp('==', bs.at(*i), D0(*to_slice(i))))))
        ctx.prove('sens.first_add_frame_zero', z3.Implies(z3.Not(sel), V.zbool(V.cmp('==', bs.at(*i), 0))))
        ctx.prove('sens.not_aliased', not same_storage(bs, ds) and not same_storage(bs, now))
        it.call(it.getattr(ss, 'add_sensitivity'), [ds])
        bs2 = it.getattr(base, 'sensitivity')
        ctx.prove('sens.second_add_in_base', bs2 is bs)
        ctx.prove('sens.second_add_selected', z3.Implies(sel, V.zbool(V.cmp('==', bs2.at(*i), 2 * D0(*to_slice(i))))))
        ctx.prove('sens.second_add_frame', z3.Implies(z3.Not(sel), V.zbool(V.cmp('==', bs2.at(*i), 0))))
        ctx.prove('sens.arg_unchanged', V.cmp('==', ds.at(*to_slice(i)), D0(*to_slice(i))))
        rd = it.getattr(ss, 'sensitivity')
        ctx.prove('sens.read_entries', z3.Implies(sel, V.zbool(V.cmp('==', rd.at(*to_slice(i)), 2 * D0(*to_slice(i))))))
        ctx.prove('state.unaffected_by_sens', V.zbool(V.cmp('==', it.getattr(base, 'state').at(*i), z3.If(sel, N0(*to_slice(i)), S0(*i)))))
        # --- a contribution added directly to the base, then reset of the slice only
        full, F0 = arr(ctx, 'full', shape)
        it.call(it.getattr(base, 'add_sensitivity'), [full])
        it.call(it.getattr(ss, 'reset'), [])
        bs3 = it.getattr(base, 'sensitivity')
        ctx.prove('reset.slice_only_own_entries', V.zbool(V.cmp('==', bs3.at(*i), z3.If(sel, 0, F0(*i)))))
        ctx.prove('reset.keeps_base_storage', bs3 is bs)
        it.call(it.getattr(base, 'reset'), [])
        ctx.prove('reset.base_clears', it.getattr(base, 'sensitivity') is None)
        it.call(it.getattr(ss, 'reset'), [])
        ctx.prove('reset.slice_on_empty_noop', it.getattr(base, 'sensitivity') is None)


@harness(P, 'SignalSlice.errors', targets=[T('SignalSlice.add_sensitivity'), T('SignalSlice.state'), T('SignalSlice.sensitivity')])
def h_slice_errors(ctx, it):
    """adding through a slice of a signal without state raises TypeError; None state reads as None"""
    base = mk_signal(it)
    ss = it.getitem(base, slice(0, 2))
    ctx.prove('state_none', it.getattr(ss, 'state') is None)
    ds, _ = arr(ctx, 'ds', (2,))
    try:
        it.call(it.getattr(ss, 'add_sensitivity'), [ds])
        ctx.prove('raises_type_error', False)
    except PyExc as e:
        ctx.prove('raises_type_error', e.cls == 'TypeError')
    ctx.prove('nothing_created', it.getattr(base, 'sensitivity') is None)


for _skind in ('complex_state', 'real_state'):
    @harness(P, f'Signal.add_sensitivity[complex_array,{_skind}]', targets=[T('Signal.add_sensitivity')])
    def h_add_complex(ctx, it, skind=_skind):
        """complex array contributions (a signal whose state is complex / real): the first contribution is stored as a fresh copy - also when its dtype
        already matches what the signal wants to keep -, the caller's array is never aliased, two signals that received the same array are isolated"""
        import numpy as np

        def carr(nm, kind='complex'):
            return CArr(np.array([Cx(ctx.sym(f'{nm}{k}r', 'real'), ctx.sym(f'{nm}{k}i', 'real')) if kind == 'complex' else ctx.sym(f'{nm}{k}', 'real') for k in range(2)],
                                 dtype=object), kind)
        st = carr('st', 'complex' if skind == 'complex_state' else 'real')
        ds1, ds2 = carr('d'), carr('e')
        v1, v2 = list(ds1.data), list(ds2.data)
        s, s2 = mk_signal(it, st), mk_signal(it, carr('st2', 'complex' if skind == 'complex_state' else 'real'))
        it.call(it.getattr(s, 'add_sensitivity'), [ds1])
        it.call(it.getattr(s2, 'add_sensitivity'), [ds1])
        a1, a2 = it.getattr(s, 'sensitivity'), it.getattr(s2, 'sensitivity')
        ctx.prove('first_add.fresh_storage', isinstance(a1, CArr) and not same_storage(a1, ds1) and not same_storage(a2, ds1) and not same_storage(a1, a2))
        it.call(it.getattr(s, 'add_sensitivity'), [ds2])
        eq = lambda x, y: z3.And(V.zreal(V.real_part(x)) == V.zreal(V.real_part(y)), V.zreal(V.imag_part(x)) == V.zreal(V.imag_part(y)))
        ctx.prove('accumulated', z3.And(*[eq(it.getattr(s, 'sensitivity').data[k], V.add(v1[k], v2[k])) for k in range(2)]))
        ctx.prove('argument_unchanged', z3.And(*[eq(ds1.data[k], v1[k]) for k in range(2)]))
        ctx.prove('other_signal_isolated', z3.And(*[eq(it.getattr(s2, 'sensitivity').data[k], v1[k]) for k in range(2)]))
