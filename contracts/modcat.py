"""Catalogue of library modules on enumerated small instances with SYMBOLIC data, shared by the C01 (adjoint) and C04 (linearity / frames)
contracts.  Every entry builds the real module object (its real _prepare is executed), symbolic input states and describes its outputs."""
import itertools
from fractions import Fraction
import numpy as np
import z3
from pvc import values as V
from pvc.values import CArr, LArr, Obj, Cx, PyExc
from pvc.arrays import to_carr
from .C18 import mk_signal
from .common import DOMAIN


class Sym:
    """symbolic array/scalar with its leaf symbols: value (CArr or scalar), leaves [(re_sym, im_sym or None)] in C order"""
    def __init__(self, ctx, name, shape, kind='real', positive=False, nonzero=False):
        self.kind = kind
        leaves = []
        n = int(np.prod(shape)) if shape != () else 1
        vals = []
        for k in range(n):
            re = ctx.sym(f'{name}{k}' + ('r' if kind == 'complex' else ''), 'real')
            im = ctx.sym(f'{name}{k}i', 'real') if kind == 'complex' else None
            leaves.append((re, im))
            vals.append(Cx(re, im) if kind == 'complex' else re)
            if positive:
                ctx.assume(re > 0)
            if nonzero:
                ctx.assume(re != 0)
        self.leaves = leaves
        self.shape = shape
        if shape == ():
            self.value = vals[0]
        else:
            d = np.empty(n, dtype=object)
            for k, v in enumerate(vals):
                d[k] = v
            self.value = CArr(d.reshape(shape), kind)


def flat(v):
    """list of scalar entries of a value (array, scalar, sparse, DyadCarrier-dense), C order"""
    if isinstance(v, CArr):
        return list(v.data.reshape(-1))
    if isinstance(v, Obj) and v.tag == 'sparse':
        return list(v.fields['dense'].data.reshape(-1))
    if V.is_scalar(v):
        return [v]
    raise V.Unsupported(f'flatten of {type(v).__name__}')


def mk_module(it, spec, nin, nout, *args, **kw):
    sin = [mk_signal(it, None) for _ in range(nin)]
    sout = [mk_signal(it, None) for _ in range(nout)]
    mod = it.new_object(it.get_function(spec), sig_in=sin, sig_out=sout)
    it.call(it.getattr(mod, '_prepare'), list(args), kw)
    return mod


def as_list(r, n):
    if isinstance(r, (list, tuple)):
        return list(r)
    if r is None:
        return [None] * n
    return [r]


class Case:
    def __init__(self, name, spec, build, targets=(), freeze=None):
        self.name, self.spec, self.build, self.targets, self.freeze = name, spec, build, list(targets), freeze


CASES = []


def case(name, spec, targets=(), **kw):
    def deco(fn):
        CASES.append(Case(name, spec, fn, [spec + '._response', spec + '._sensitivity'] + list(targets), **kw))
        return fn
    return deco


CX = 'pymoto.modules.complex'
GEN = 'pymoto.modules.generic'
AGG = 'pymoto.modules.aggregation'
ASM = 'pymoto.modules.assembly'
FIL = 'pymoto.modules.filter'
SCL = 'pymoto.modules.scaling'

# every builder returns (module, [Sym inputs], extra) ; extra: dict(pre=callable run before the tested response, e.g. to freeze a memory)

for _n in (1, 3):
    for _opt in ({}, {'minval': Fraction(3, 10)}, {'maxval': Fraction(2)}):
        @case(f'Scaling[n={_n},{"plain" if not _opt else list(_opt)[0]}]', f'{SCL}:Scaling', targets=[f'{SCL}:Scaling._prepare'])
        def b_scaling(ctx, it, n=_n, opt=_opt):
            mod = mk_module(it, f'{SCL}:Scaling', 1, 1, **dict(scaling=ctx.sym('sc', 'real'), **opt))
            x = Sym(ctx, 'x', (n,), nonzero=True)
            pre = None
            if not opt:
                # objective mode: the scale factor is fixed by the FIRST response (documented memory); the tested response is a later one
                x0 = Sym(ctx, 'xfirst', (n,), nonzero=True)
                pre = lambda: it.call(it.getattr(mod, '_response'), [x0.value])
            return mod, [x], dict(pre=pre)

@case('MakeComplex[real]', f'{CX}:MakeComplex')
def b_mkc(ctx, it):
    # documented for two REAL inputs
    return mk_module(it, f'{CX}:MakeComplex', 2, 1), [Sym(ctx, 'x', (2,), 'real'), Sym(ctx, 'y', (2,), 'real')], {}


for _k in ('real', 'complex'):
    @case(f'RealPart[{_k}]', f'{CX}:RealPart')
    def b_re(ctx, it, k=_k):
        return mk_module(it, f'{CX}:RealPart', 1, 1), [Sym(ctx, 'z', (2,), k)], {}

    @case(f'ImagPart[{_k}]', f'{CX}:ImagPart')
    def b_im(ctx, it, k=_k):
        return mk_module(it, f'{CX}:ImagPart', 1, 1), [Sym(ctx, 'z', (2,), k)], {}


@case('ComplexNorm', f'{CX}:ComplexNorm')
def b_cnorm(ctx, it):
    return mk_module(it, f'{CX}:ComplexNorm', 1, 1), [Sym(ctx, 'z', (2,), 'complex', nonzero=True)], {}


for _cls, _par in (('PNorm', 'p'), ('KSFunction', 'rho'), ('SoftMinMax', 'alpha')):
    for _sc in (False, True):
        @case(f'{_cls}[scaling={_sc}]', f'{AGG}:{_cls}', targets=[f'{AGG}:Aggregation._response', f'{AGG}:Aggregation._sensitivity', f'{AGG}:{_cls}.aggregation_function',
                                                                   f'{AGG}:{_cls}.aggregation_derivative'], freeze='aggregation')
        def b_agg(ctx, it, cls=_cls, sc=_sc):
            par = ctx.sym('par', 'real')
            ctx.assume(par != 0)
            scaling = it.call(it.get_function(f'{AGG}:AggScaling'), ['max', ctx.sym('damp', 'real')]) if sc else None
            mod = mk_module(it, f'{AGG}:{cls}', 1, 1, par, scaling, None)
            return mod, [Sym(ctx, 'x', (3,), positive=True)], {}


EINSUMS = [('i,i->', [(2,), (2,)]), ('ij,j->i', [(2, 2), (2,)]), ('ij,jk->ik', [(2, 2), (2, 1)]), ('i,j->ij', [(2,), (3,)]), ('ii->', [(2, 2)]), ('ij->ji', [(2, 3)]),
           ('i->', [(3,)]), ('ij->', [(2, 2)]), ('i,ij,j->', [(2,), (2, 2), (2,)])]
for _e, _shapes in EINSUMS:
    for _kinds in (('real',) * 3, ('complex', 'real', 'real'), ('complex',) * 3):
        @case(f'EinSum[{_e},{"".join(k[0] for k in _kinds[:len(_shapes)])}]', f'{GEN}:EinSum', targets=[f'{GEN}:EinSum._prepare'])
        def b_einsum(ctx, it, e=_e, shapes=_shapes, kinds=_kinds):
            mod = mk_module(it, f'{GEN}:EinSum', len(shapes), 1, e)
            return mod, [Sym(ctx, f'a{k}_', sh, kinds[k]) for k, sh in enumerate(shapes)], {}


@case('ConcatSignal[vec,vec,np-scalar]', f'{GEN}:ConcatSignal', targets=['pymoto.utils:_concatenate_to_array', 'pymoto.utils:_split_from_array'])
def b_concat(ctx, it):
    return mk_module(it, f'{GEN}:ConcatSignal', 3, 1), [Sym(ctx, 'a', (2,)), Sym(ctx, 'b', (3,)), Sym(ctx, 'c', (1,))], {}


def sym_kernel(ctx, shape):
    return Sym(ctx, 'w', shape).value


for _size, _ks, _bcs in (((3, 2, 0), (3, 3), {}), ((3, 2, 0), (3, 1), dict(xmin_bc='edge', xmax_bc='wrap')), ((2, 3, 0), (1, 3), dict(ymin_bc=0, ymax_bc='symmetric')),
                         ((2, 2, 2), (1, 1, 3), dict(zmin_bc='wrap', zmax_bc='edge'))):
    @case(f'FilterConv[{_size},{_ks},{sorted(_bcs)}]', f'{FIL}:FilterConv', targets=[f'{FIL}:FilterConv._prepare', f'{FIL}:FilterConv._process_padding'])
    def b_fconv(ctx, it, size=_size, ks=_ks, bcs=_bcs):
        dom = it.call(it.get_function(DOMAIN), list(size))
        kw = {k: (ctx.sym('cpad', 'real') if v == 0 else v) for k, v in bcs.items()}
        mod = mk_module(it, f'{FIL}:FilterConv', 1, 1, dom, weights=sym_kernel(ctx, ks), **kw)
        return mod, [Sym(ctx, 'x', (size[0] * size[1] * max(size[2], 1),))], {}


@case('DensityFilter[3x2,r=3/2]', f'{FIL}:DensityFilter', targets=[f'{FIL}:Filter._response', f'{FIL}:Filter._sensitivity', f'{FIL}:DensityFilter._calculate_h'])
def b_dens(ctx, it):
    dom = it.call(it.get_function(DOMAIN), [3, 2, 0])
    mod = mk_module(it, f'{FIL}:DensityFilter', 1, 1, dom, radius=Fraction(3, 2))
    return mod, [Sym(ctx, 'x', (6,))], {}


@case('DensityFilter[3x2,r=3/2,nonpadding]', f'{FIL}:DensityFilter', targets=[f'{FIL}:Filter._prepare', f'{FIL}:Filter._response', f'{FIL}:Filter._sensitivity'])
def b_dens_np(ctx, it):
    # the `nonpadding` option rescales the row sums of all elements outside the given set AFTER they were computed: response and sensitivity must
    # both use the rescaled sums
    dom = it.call(it.get_function(DOMAIN), [3, 2, 0])
    mod = mk_module(it, f'{FIL}:DensityFilter', 1, 1, dom, radius=Fraction(3, 2), nonpadding=to_carr([0, 1, 4]))
    return mod, [Sym(ctx, 'x', (6,))], {}


# multi-layer instances lead to deeply nested rpow identities that z3 does not decide (see DESIGN 9.2): the layer sweep's adjoint is covered by
# the bounded stand-in (complex-step reference); the single-layer instance (identity map, the repaired defect) is proved
for _size, _dir, _ns in (((3, 1, 0), (0, 1), 3), ((1, 2, 1), (1, 0, 0), 5)):
    @case(f'OverhangFilter[{_size},{_dir},{_ns}]', f'{FIL}:OverhangFilter', targets=[f'{FIL}:OverhangFilter._prepare', f'{FIL}:OverhangFilter.set_parameters'])
    def b_over(ctx, it, size=_size, dirn=_dir, ns=_ns):
        dom = it.call(it.get_function(DOMAIN), list(size))
        xi0, p, eps = ctx.sym('xi_0', 'real'), ctx.sym('p', 'real'), ctx.sym('eps', 'real')
        ctx.assume(z3.And(xi0 > 0, xi0 < 1, p > 1, eps > 0))
        mod = mk_module(it, f'{FIL}:OverhangFilter', 1, 1, dom, dirn, xi0, p, eps, ns)
        return mod, [Sym(ctx, 'x', (size[0] * size[1] * max(size[2], 1),), positive=True)], {}


for _size, _ndof, _bc in (((2, 1, 0), 1, None), ((2, 1, 0), 1, [0, 3]), ((1, 1, 0), 2, [1])):
    for _seed in ('dense', 'dyad'):
        @case(f'AssembleGeneral[{_size},ndof={_ndof},bc={_bc},{_seed}]', f'{ASM}:AssembleGeneral', targets=[f'{ASM}:AssembleGeneral._prepare'])
        def b_asm(ctx, it, size=_size, ndof=_ndof, bc=_bc, seed=_seed):
            dom = it.call(it.get_function(DOMAIN), list(size))
            k = ndof * 4
            K = Sym(ctx, 'K', (k, k)).value
            mod = mk_module(it, f'{ASM}:AssembleGeneral', 1, 1, dom, K, **({'bc': to_carr(bc)} if bc else {}))
            return mod, [Sym(ctx, 'x', (size[0] * size[1],))], dict(seed=seed)


@case('AssembleStiffness[2x1]', f'{ASM}:AssembleStiffness', targets=[f'{ASM}:AssembleStiffness._prepare', f'{ASM}:AssembleGeneral._response', f'{ASM}:AssembleGeneral._sensitivity'])
def b_stiff(ctx, it):
    dom = it.call(it.get_function(DOMAIN), [2, 1, 0])
    mod = mk_module(it, f'{ASM}:AssembleStiffness', 1, 1, dom, bc=to_carr([0, 1]))
    return mod, [Sym(ctx, 'x', (2,))], dict(seed='dense')


for _cls, _args in (('Strain', {}), ('Stress', {}), ('ElementAverage', {})):
    @case(f'{_cls}[2x1]', f'{ASM}:{_cls}', targets=[f'{ASM}:{_cls}._prepare', f'{ASM}:ElementOperation._response', f'{ASM}:ElementOperation._sensitivity'])
    def b_elop(ctx, it, cls=_cls):
        dom = it.call(it.get_function(DOMAIN), [2, 1, 0, Fraction(1, 2), Fraction(3, 2), 2])
        mod = mk_module(it, f'{ASM}:{cls}', 1, 1, dom)
        ndof = 1 if cls == 'ElementAverage' else 2
        return mod, [Sym(ctx, 'u', (ndof * 6,))], {}


for _shape in ((8,), (2, 8), (4,)):
    @case(f'ElementOperation[2x1,B{_shape}]', f'{ASM}:ElementOperation', targets=[f'{ASM}:ElementOperation._prepare'])
    def b_elop_gen(ctx, it, shape=_shape):
        dom = it.call(it.get_function(DOMAIN), [2, 1, 0])
        mod = mk_module(it, f'{ASM}:ElementOperation', 1, 1, dom, Sym(ctx, 'B', shape).value)
        return mod, [Sym(ctx, 'u', (12,))], {}

    @case(f'NodalOperation[2x1,A{_shape}]', f'{ASM}:NodalOperation', targets=[f'{ASM}:NodalOperation._prepare'])
    def b_nodal(ctx, it, shape=_shape):
        dom = it.call(it.get_function(DOMAIN), [2, 1, 0])
        mod = mk_module(it, f'{ASM}:NodalOperation', 1, 1, dom, Sym(ctx, 'A', shape).value)
        xs = (2,) if len(shape) == 1 else (shape[0], 2)
        return mod, [Sym(ctx, 'x', xs)], {}


@case('ThermoMechanical[2x1]', f'{ASM}:ThermoMechanical', targets=[f'{ASM}:ThermoMechanical._prepare', f'{ASM}:NodalOperation._response', f'{ASM}:NodalOperation._sensitivity'])
def b_thermo(ctx, it):
    dom = it.call(it.get_function(DOMAIN), [2, 1, 0])
    mod = mk_module(it, f'{ASM}:ThermoMechanical', 1, 1, dom)
    return mod, [Sym(ctx, 'x', (2,))], {}
