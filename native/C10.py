"""C10 bounded stand-ins: minimize_mma / MMA / subsolv observed at the subproblem interface (patched from outside) and at the variable
signals (callback + logging response module) over generated convex problems whose optimum is known by construction (KKT system solved for the
objective's free coefficients, so no solver is needed as reference).  All clause checks live in native/C10_lib.audit (its source is embedded in
the replay programs)."""
import inspect
import itertools
import numpy as np
from native.util import bound, REPLAY_HEAD
from native import C10_lib as L


def layouts(n):
    """ways to spread n design variables over signals: (kind, size) lists with unequal sizes, scalars and 1-long arrays"""
    out = [[('array', n)]]
    if n == 1:
        return [[('scalar', 1)], [('array', 1)]]
    out.append([('scalar', 1)] * n if n <= 3 else [('scalar', 1), ('array', n - 2), ('array', 1)])
    if n >= 3:
        out.append([('array', n - n // 3 - 1), ('scalar', 1), ('array', n // 3)])
    return out


def gen(rng, layout, m, obj='quad', cons=('lin',), bmode='scalar', mmode='scalar', container='array', box=(0.0, 1.0), opts=None, nactive=None,
        partial=False, one_module=False, at_bound=0.3, movescale=1.0, p_neg=0.3):
    sizes = [k for _, k in layout]
    n, nv = int(np.sum(sizes)), len(sizes)
    lo0, hi0 = box
    w = hi0 - lo0
    if bmode == 'default':
        assert box == (0.0, 1.0)
        xmin_s, xmax_s = ('default', 0.0, None), ('default', 1.0, None)
    elif bmode == 'scalar':
        xmin_s, xmax_s = ('scalar', lo0, None), ('scalar', hi0, None)
    elif bmode == 'signal':
        a = lo0 + 0.2 * w * rng.random(nv)
        xmin_s, xmax_s = ('signal', a.tolist(), container), ('signal', (a + w * (0.5 + rng.random(nv))).tolist(), container)
    elif bmode == 'variable':
        a = lo0 + 0.2 * w * rng.random(n)
        xmin_s, xmax_s = ('variable', a.tolist(), container), ('variable', (a + w * (0.5 + rng.random(n))).tolist(), container)
    elif bmode == 'mixed':   # scalar lower bound, per-variable upper bound
        xmin_s, xmax_s = ('scalar', lo0, None), ('variable', (lo0 + w * (0.5 + rng.random(n))).tolist(), container)
    xmin, xmax = L.expand(xmin_s[0], xmin_s[1], sizes), L.expand(xmax_s[0], xmax_s[1], sizes)
    dx = xmax - xmin
    if mmode == 'default':
        move_s = ('default', 0.1, None)
    elif mmode == 'scalar':
        move_s = ('scalar', movescale * float(rng.choice([0.1, 0.25, 0.5])), None)
    elif mmode == 'signal':
        move_s = ('signal', (movescale * (0.1 + 0.4 * rng.random(nv))).tolist(), container)
    else:
        move_s = ('variable', (movescale * (0.1 + 0.4 * rng.random(n))).tolist(), container)
    # optimum: interior / on the lower / on the upper bound
    u = rng.random(n)
    status = np.where(u < at_bound / 2, -1, np.where(u > 1 - at_bound / 2, 1, 0))
    xstar = np.where(status == 0, xmin + (0.15 + 0.7 * rng.random(n)) * dx, np.where(status < 0, xmin, xmax))
    bmult = np.where(status == 0, 0.0, 0.2 + rng.random(n)) / dx     # multipliers of active bounds
    nact = (1 + int(rng.integers(0, m))) if nactive is None else nactive
    nact = min(nact, n if n > 1 else 1, m)
    resp, lam = [None], np.zeros(m)
    rgrad = np.zeros(n)
    for i in range(m):
        kind = cons[i % len(cons)]
        which = None
        if partial and nv > 1 and i % 2 == 1:
            which = sorted(rng.choice(nv, size=max(1, nv - 1), replace=False).tolist())
        fs = dict(kind=kind, vars=which)
        off = np.concatenate([[0], np.cumsum(sizes)])
        idx = np.arange(n) if which is None else np.concatenate([np.arange(off[j], off[j + 1]) for j in which])
        k = len(idx)
        if kind == 'lin':
            fs['a'] = ((0.3 + rng.random(k)) * rng.choice([-1.0, 1.0], size=k, p=[p_neg, 1 - p_neg]) / dx[idx]).tolist()
        elif kind == 'quad':
            fs['d'] = ((0.5 + rng.random(k)) / dx[idx] ** 2).tolist()
            fs['t'] = (xstar[idx] + dx[idx] * (0.4 + 0.4 * rng.random(k)) * rng.choice([-1.0, 1.0], size=k)).tolist()
        elif kind == 'recip':
            fs['c'] = ((0.2 + rng.random(k)) * xstar[idx] ** 2 / dx[idx]).tolist()
        fs['r'] = 0.0
        gi = L.fn_value(fs, xstar[idx])
        active = i < nact
        fs['r'] = float(gi + (0.0 if active else 0.1 + 0.5 * rng.random()) * (1.0 if kind != 'recip' else 1.0))
        if active:
            lam[i] = 0.3 + 1.5 * rng.random()
            rgrad[idx] += lam[i] * L.fn_grad(fs, xstar[idx])
        resp.append(fs)
    # objective gradient required at the optimum by the KKT conditions: grad f0 = -(sum lam_i grad g_i + eta - xsi)
    r = -(rgrad + np.where(status > 0, bmult, 0.0) - np.where(status < 0, bmult, 0.0))
    if obj == 'quad':
        d = (0.5 + 1.5 * rng.random(n)) / dx ** 2 * (1 + np.abs(r * dx))
        f0 = dict(kind='quad', d=d.tolist(), t=(xstar - r / d).tolist(), r=float(rng.normal()))
    elif obj == 'quadfull':
        V = rng.normal(size=(n, 2)) * 0.4 * min(1.0, np.sqrt(8.0 / n))   # keeps the non-separable part comparable to the diagonal for every n
        A = (np.diag(1.0 + rng.random(n)) + V @ V.T) * (1 + np.abs(r * dx)).max()
        A = A / np.outer(dx, dx)
        f0 = dict(kind='quadfull', A=A.tolist(), t=(xstar - np.linalg.solve(A, r)).tolist(), r=float(rng.normal()))
    elif obj == 'recip':
        # needs r < 0 everywhere: guaranteed when all active constraints have positive gradients and no variable sits on its lower bound
        assert np.all(r < 0), 'recip objective needs a negative required gradient'
        f0 = dict(kind='recip', c=(-r * xstar ** 2).tolist(), r=0.0)
    resp[0] = f0
    x0 = xmin + rng.random(n) * dx
    pick = rng.random(n)
    x0 = np.where(pick < 0.1, xmin, np.where(pick > 0.9, xmax, x0))   # some variables start exactly on a bound
    vars_, o_ = [], 0
    for kind, k in layout:
        vars_.append(dict(kind=kind, x0=x0[o_:o_ + k].tolist()))
        o_ += k
    return dict(vars=vars_, xmin=xmin_s, xmax=xmax_s, move=move_s, resp=resp, opts=dict(opts or {}), xstar=xstar.tolist(), one_module=one_module)


_LIB_SRC = inspect.getsource(L)


def replay(spec, conv=None, second_maxit=None, prior=0):
    return (REPLAY_HEAD + _LIB_SRC + f"\n\nspec = {spec!r}\ntr = run(spec, second_maxit={second_maxit!r}, prior={prior})\nbad = audit(spec, tr, conv={conv!r})\n"
            "for b in bad[:5]:\n    print(b)\nassert not bad, bad[0][0]\n")


class StopCheck(Exception):
    pass


def stoppable(fn):
    """a check stops after 3 failing cases (broken solvers make every further run very slow; the first failures carry the replay)"""
    import functools

    @functools.wraps(fn)
    def wrapped(r, tier, seed):
        r.failed_cases = 0
        try:
            fn(r, tier, seed)
        except StopCheck:
            pass
    return wrapped


STOPPED = []   # once one check was stopped, the following ones stop at their first failing case


def tally(r, ok):
    if not ok:
        r.failed_cases = getattr(r, 'failed_cases', 0) + 1
        if r.failed_cases >= (1 if STOPPED else 3):
            STOPPED.append(1)
            raise StopCheck()


def report(r, key, spec, conv=None, second_maxit=None, prior=0, tr=None, finding=None):
    tr = L.run(spec, second_maxit=second_maxit, prior=prior) if tr is None else tr
    bad = L.audit(spec, tr, conv=conv)
    r.case(key)
    seen = set()
    for clause, wit in bad:
        if clause in seen:
            continue
        seen.add(clause)
        r.check(False, clause, dict(case=key, witness=wit), replay_code=replay(spec, conv, second_maxit, prior), finding=finding)
    tally(r, not bad or bool(finding))
    return tr, bad


VERSIONS = ('Svanberg2007', 'Svanberg1987')
BMODES = ('scalar', 'signal', 'variable', 'mixed')
MMODES = ('scalar', 'signal', 'variable')
BOXES = ((0.0, 1.0), (-50.0, 100.0), (-0.3, 0.2))
PROBLEMS = (('quad', ('lin', 'quad')), ('quadfull', ('quad', 'lin')), ('quad', ('recip', 'lin')), ('quad', ('lin',)))


def _container(bmode, mmode, layout, k):
    """python lists are admissible for every specification; both bounds as per-variable lists is the separate check list_bounds"""
    n, nv = sum(s for _, s in layout), len(layout)
    if k % 2 == 0 or (bmode == 'variable' and n != nv):
        return 'array'
    return 'list'


@bound('7-iteration runs: n in {1,2,3,5,9} [quick] + {16,30} [thorough] x all layouts (one array / scalars only / array+scalar+1-long array) x m in 1..3 x versions 1987/2007; '
       'bound modes omitted(defaults)/scalar/per-signal/per-variable/mixed, variables passed as list/tuple/single Signal, move modes omitted/ scalar/per-signal/per-variable, arrays and python lists, boxes [0,1], [-50,100], [-0.3,0.2] (ranges below 0.1: see small_range), '
       'start points with variables exactly on a bound; objective separable/non-separable quadratic, constraints linear/quadratic/reciprocal, some connected to a subset of the signals; '
       'every clause of the statement at every iteration (native/C10_lib.audit)')
@stoppable
def iterations(r, tier, seed):
    rng = np.random.default_rng(seed + 10)
    ns = (1, 2, 3, 5, 9) if tier == 'quick' else (1, 2, 3, 4, 5, 7, 9, 16, 30)
    reps = 1 if tier == 'quick' else 4
    k = 0
    for rep in range(reps):
        for n in ns:
            for li, layout in enumerate(layouts(n)):
                for m in (1, 2, 3):
                    for ver in VERSIONS:
                        k += 1
                        bmode, mmode = BMODES[k % 4], MMODES[(k // 4 + k) % 3]
                        obj, cons = PROBLEMS[(k // 2) % 4]
                        box = BOXES[(k // 3) % 3] if 'recip' not in cons else (0.1, 1.5)
                        if k % 6 == 1 and 'recip' not in cons:   # bounds and move omitted: documented defaults 0, 1, 0.1
                            bmode, mmode, box = 'default', ('default' if k % 12 == 1 else mmode), (0.0, 1.0)
                        spec = gen(rng, layout, m, obj=obj, cons=cons, bmode=bmode, mmode=mmode, container=_container(bmode, mmode, layout, k), box=box,
                                   opts=dict(maxit=7, tolx=0.0, mmaversion=ver), partial=(k % 3 == 0), one_module=(k % 5 == 0), movescale=(2.0 if k % 7 == 0 else 1.0))
                        spec['varform'] = ('single' if k % 2 else 'list') if len(layout) == 1 else ('tuple' if k % 3 == 0 else 'list')
                        report(r, ('it', rep, n, li, m, ver), spec)


@bound('14-iteration runs with move = 1 (so the asymptote interval limits the step): asyinit {0.3,0.5,1} x asyincr {1.2,1.5} x asydecr {0.7,0.5} x asybound {10,2} x albefa {0.1,0.4}, '
       'each with one of epsimin {1e-10,1e-7,1e-5}, cCoef {1e3,50}, c per constraint, a = 0 / 0.5, a0 {1,2}; n in {2,6} [quick] / {2,6,15} [thorough], m in {1,2}, both versions alternating')
@stoppable
def asymptote_parameters(r, tier, seed):
    rng = np.random.default_rng(seed + 11)
    k = 0
    for n in ((2, 6) if tier == 'quick' else (2, 6, 15)):
        for asyinit, asyincr, asydecr, asybound, albefa in itertools.product((0.3, 0.5, 1.0), (1.2, 1.5), (0.7, 0.5), (10.0, 2.0), (0.1, 0.4)):
            k += 1
            if tier == 'quick' and (k + n) % 2:
                continue
            m = 1 + k % 2
            o = dict(maxit=14, tolx=0.0, mmaversion=VERSIONS[(k // 2) % 2], asyinit=asyinit, asyincr=asyincr, asydecr=asydecr, asybound=asybound, albefa=albefa,
                     epsimin=(1e-10, 1e-7, 1e-5)[k % 3])
            if k % 4 == 1:
                o['cCoef'] = 50.0
            if k % 4 == 2:
                o['c'] = [200.0 + 100 * i for i in range(m)]
            if k % 5 == 0:
                o['a'] = [0.5] * m
                o['a0'] = 2.0 if k % 10 == 0 else 1.0
            spec = gen(rng, layouts(n)[-1], m, obj=('quad', 'quadfull')[k % 2], cons=('lin', 'quad'), bmode=BMODES[k % 4], mmode='scalar', opts=o)
            spec['move'] = ('scalar', 1.0, None)
            report(r, ('asy', n, asyinit, asyincr, asydecr, asybound, albefa), spec)


@bound('45-iteration runs (80 for n = 20; tolx = 0) on strictly convex problems with optimum known by construction (interior and bound-active variables, 1..m active constraints): '
       'n in {1,2,4,7,12} [quick] / + {3,20} [thorough], m in 1..3, 4 problem families (non-separable part of the quadratic objective kept comparable to its diagonal), both versions; final max |x - x*|/(xmax-xmin) <= 1e-4, constraints <= 1e-7, '
       '|f - f*| <= 1e-5 max(1,|f*|) (observed on the unchanged code: <= 5e-7, 3e-12, 2e-8 after 40 iterations; floor 5e-8 from the barrier parameter)')
@stoppable
def convergence(r, tier, seed):
    rng = np.random.default_rng(seed + 12)
    conv = dict(xtol=1e-4, gtol=1e-7, ftol=1e-5)
    k = 0
    for rep in range(1 if tier == 'quick' else 3):
        for n in ((1, 2, 4, 7, 12) if tier == 'quick' else (1, 2, 3, 4, 7, 12, 20)):
            for m in (1, 2, 3):
                for fam in range(2 if tier == 'quick' else 4):
                    k += 1
                    obj, cons = PROBLEMS[(k + fam) % 4]
                    kw = dict(box=(0.1, 1.5)) if 'recip' in cons else dict(box=BOXES[k % 3])
                    if k % 6 == 0:   # compliance-like: reciprocal objective, positive linear constraints
                        obj, cons, kw = 'recip', ('lin',), dict(box=(0.05, 1.0), at_bound=0.0, p_neg=0.0)
                    spec = gen(rng, layouts(n)[k % len(layouts(n))], m, obj=obj, cons=cons, bmode=BMODES[k % 4], mmode=MMODES[k % 3], opts=dict(maxit=(45 if n <= 12 else 80), tolx=0.0, mmaversion=VERSIONS[k % 2]),
                               partial=(k % 4 == 0), **kw)
                    report(r, ('conv', rep, n, m, fam), spec, conv=conv)


def _designs(tr):
    return [L._cat(c['states']) for c in tr['cb']]


@bound('n in {3,6}, m in {1,2}, both versions: (a) MMA.response() called twice on one object (maxit 5, then raised to 11): all clauses over the joint history, iteration memory kept; '
       '(b) a fresh minimize_mma after 1 or 2 earlier complete runs on the same network/signals starts from the current states with fresh asymptotes; (c) the same problem run twice gives '
       'bitwise identical designs; (d) verbosity 1..4 gives bitwise the designs of verbosity 0; (e) stops on tolx / tolf leave the last evaluated design in the signals; (f) maxit = 1 and 2')
@stoppable
def histories(r, tier, seed):
    rng = np.random.default_rng(seed + 13)
    for n, m, ver in itertools.product((3, 6) if tier == 'quick' else (2, 3, 6, 11), (1, 2), VERSIONS):
        layout = layouts(n)[-1]
        spec = gen(rng, layout, m, cons=('lin', 'quad'), bmode=BMODES[(n + m) % 4], mmode=MMODES[m % 3], opts=dict(maxit=5, tolx=0.0, mmaversion=ver), partial=True)
        tr2, _ = report(r, ('twice', n, m, ver), spec, second_maxit=11)
        if tr2['error'] is None:
            r.check(tr2['first'] == (5, 5) and tr2['iter'] == 11 and len(tr2['cb']) == 11, 'second response() continues up to the raised maxit', dict(first=tr2['first'], iter=tr2['iter'], callbacks=len(tr2['cb'])),
                    replay_code=replay(spec, None, 11) + f"assert tr['first'] == (5, 5) and tr['iter'] == 11 and len(tr['cb']) == 11, (tr['first'], tr['iter'], len(tr['cb']))\n")
        for prior in (1, 2):
            report(r, ('restart', n, m, ver, prior), spec, prior=prior)
        base, _ = report(r, ('base', n, m, ver), spec)
        again = L.run(spec)
        same = len(again['cb']) == len(base['cb']) and all(np.array_equal(a, b) for a, b in zip(_designs(again), _designs(base)))
        r.check(same, 'two runs of the same problem give identical designs (no state shared between optimiser objects)', dict(case=(n, m, ver)),
                replay_code=replay(spec) + "t2 = run(spec)\nassert all(np.array_equal(_cat(a['states']), _cat(b['states'])) for a, b in zip(tr['cb'], t2['cb']))\n")
        for vb in (1, 2, 3, 4):
            sv = dict(spec, verbosity=vb)
            trv, _ = report(r, ('verbosity', n, m, ver, vb), sv)
            same = len(trv['cb']) == len(base['cb']) and all(np.array_equal(a, b) for a, b in zip(_designs(trv), _designs(base)))
            r.check(same, 'printing does not change the designs', dict(case=(n, m, ver), verbosity=vb),
                    replay_code=replay(sv) + "t0 = run(dict(spec, verbosity=0))\nassert all(np.array_equal(_cat(a['states']), _cat(b['states'])) for a, b in zip(tr['cb'], t0['cb']))\n")
        for o in (dict(maxit=60, tolx=1e-3), dict(maxit=60, tolx=0.0, tolf=1e-4), dict(maxit=1, tolx=0.0), dict(maxit=2, tolx=0.0)):
            ss = dict(spec, opts=dict(spec['opts'], **o))
            trs, _ = report(r, ('stop', n, m, ver, tuple(o.items())), ss)
            if o['maxit'] == 60:
                r.check(trs['error'] is None and 2 <= len(trs['cb']) < 60, 'the stopping criterion ends the run before maxit on a convex problem', dict(case=(n, m, ver), opts=o, iterations=len(trs['cb'])),
                        replay_code=replay(ss) + "assert 2 <= len(tr['cb']) < 60, len(tr['cb'])\n")
            else:
                r.check(len(trs['cb']) == o['maxit'], 'exactly maxit iterations', dict(case=(n, m, ver), opts=o, iterations=len(trs['cb'])), replay_code=replay(ss) + f"assert len(tr['cb']) == {o['maxit']}\n")


@bound('xmin and xmax both given as python lists with one value per design variable, layouts [array(2), array(3)] and [scalar, array(3), array(1)], m = 1, 4 iterations; '
       'wrong-length bound / move vectors and an unknown version string must be rejected')
@stoppable
def list_bounds(r, tier, seed):
    rng = np.random.default_rng(seed + 14)
    for layout in ([('array', 2), ('array', 3)], [('scalar', 1), ('array', 3), ('array', 1)]):
        spec = gen(rng, layout, 1, bmode='variable', mmode='variable', container='list', opts=dict(maxit=4, tolx=0.0))
        report(r, ('lists', tuple(layout)), spec, finding='C10-list-bounds')
        for name, mode in (('xmin', 'variable'), ('xmax', 'variable'), ('move', 'variable')):
            bad = dict(spec, **{name: (mode, [0.3] * 4, 'array')})
            if name != 'xmin':
                bad['xmin'] = ('scalar', 0.0, None)
            if name != 'xmax':
                bad['xmax'] = ('scalar', 1.0, None)
            tr = L.run(dict(bad, xmin=bad['xmin'], xmax=bad['xmax']))
            r.case(('wrong-length', name, tuple(layout)))
            r.check(tr['error'] is not None and tr['error'].startswith('RuntimeError') and len(tr['calls']) == 0, f'a {name} vector whose length matches neither the signals nor the variables is rejected',
                    dict(layout=layout, name=name, error=tr['error']),
                    replay_code=REPLAY_HEAD + _LIB_SRC + f"\n\nspec = {bad!r}\ntr = run(spec)\nassert tr['error'] is not None and tr['error'].startswith('RuntimeError'), tr['error']\n")
        bad = dict(spec, xmin=('scalar', 0.0, None), xmax=('scalar', 1.0, None), opts=dict(maxit=3, mmaversion='Svanberg1999'))
        tr = L.run(bad)
        r.case(('version', tuple(layout)))
        r.check(tr['error'] is not None and tr['error'].startswith('ValueError'), 'an unknown MMA version is rejected', dict(error=tr['error']),
                replay_code=REPLAY_HEAD + _LIB_SRC + f"\n\nspec = {bad!r}\ntr = run(spec)\nassert tr['error'] is not None and tr['error'].startswith('ValueError'), tr['error']\n")


@bound('subproblems recorded from 4-iteration runs (n in {1,3,8}, m in {1,3}, both versions), solved again by calling subsolv directly with x0 = None, x0 = alfa, x0 = beta, '
       'x0 = the recorded start: optimality conditions (own formulas), agreement of the four solutions within 1e-6 of the interval width, arguments unchanged')
@stoppable
def subsolv_direct(r, tier, seed):
    import pymoto.common.mma as M
    rng = np.random.default_rng(seed + 15)
    names = ('low', 'upp', 'alfa', 'beta', 'P', 'Q', 'a0', 'a', 'b', 'c', 'd')
    for n, m, ver in itertools.product((1, 3, 8) if tier == 'quick' else (1, 2, 3, 8, 20), (1, 3), VERSIONS):
        spec = gen(rng, layouts(n)[0], m, obj='quad', cons=('lin', 'quad'), bmode=BMODES[(n + m) % 4], opts=dict(maxit=4, tolx=0.0, mmaversion=ver))
        tr = L.run(spec)
        for ci in (0, len(tr['calls']) - 1):
            a = tr['calls'][ci]['args']
            el = L.eps_last(a['epsimin'])
            sols = {}
            for label, x0 in (('none', None), ('alfa', a['alfa'].copy()), ('beta', a['beta'].copy()), ('recorded', a['x0'].copy())):
                r.case((n, m, ver, ci, label))
                args = {k: (a[k].copy() if isinstance(a[k], np.ndarray) else a[k]) for k in names}
                x0c = None if x0 is None else x0.copy()
                import contextlib, io
                try:
                    with contextlib.redirect_stdout(io.StringIO()):
                        ret = L.timed(M.subsolv, a['epsimin'], *[args[k] for k in names], x0=x0)
                except L._Abort:
                    r.check(False, f'the subproblem solver returns a solution (none after {L.SOLVE_LIMIT} s)', dict(case=(n, m, ver, ci, label)))
                    tally(r, False)
                    continue
                plain = {k: (v.tolist() if isinstance(v, np.ndarray) else v) for k, v in dict(args, epsimin=a['epsimin']).items()}
                code = (REPLAY_HEAD + _LIB_SRC + f"\n\na = {{k: (np.array(v) if isinstance(v, list) else v) for k, v in {plain!r}.items()}}\nx0 = {None if x0c is None else x0c.tolist()!r}\n"
                        "x0 = None if x0 is None else np.array(x0)\n"
                        "ret = _mma_mod.subsolv(a['epsimin'], *[a[k] for k in ('low', 'upp', 'alfa', 'beta', 'P', 'Q', 'a0', 'a', 'b', 'c', 'd')], x0=x0)\n"
                        "el = eps_last(a['epsimin'])\nres = kkt_residual(a, ret, el)\nprint(ret[0], abs(res).max(), el)\n"
                        "assert np.all(ret[0] > a['alfa']) and np.all(ret[0] < a['beta']) and abs(res).max() <= el\n")
                unchanged = all(np.array_equal(args[k], a[k]) for k in names) and (x0 is None or np.array_equal(x0, x0c))
                r.check(unchanged, 'subsolv does not modify its arguments', dict(case=(n, m, ver, ci, label)), replay_code=code)
                ok = all(np.all(np.isfinite(v)) for v in ret) and np.all(ret[0] > a['alfa']) and np.all(ret[0] < a['beta'])
                r.check(ok, 'solution strictly inside the admissible interval', dict(case=(n, m, ver, ci, label), x=ret[0]), replay_code=code)
                if ok:
                    res = L.kkt_residual(a, ret, el)
                    r.check(np.max(np.abs(res)) <= el and all(np.all(np.asarray(v) > 0) for v in ret[1:]), 'optimality conditions to the requested accuracy, positive multipliers',
                            dict(case=(n, m, ver, ci, label), max_residual=float(np.max(np.abs(res))), allowed=el), replay_code=code)
                    sols[label] = ret[0].copy()
                    tally(r, np.max(np.abs(res)) <= el)
                tally(r, ok and unchanged)
            w = a['beta'] - a['alfa']
            for label, x in sols.items():
                start = {'none': 'None', 'alfa': "a['alfa'].copy()", 'beta': "a['beta'].copy()", 'recorded': "a['x0'].copy()"}[label]
                code = (REPLAY_HEAD + _LIB_SRC + f"\n\na = {{k: (np.array(v) if isinstance(v, list) else v) for k, v in {dict(plain, x0=a['x0'].tolist())!r}.items()}}\n"
                        "nm = ('low', 'upp', 'alfa', 'beta', 'P', 'Q', 'a0', 'a', 'b', 'c', 'd')\n"
                        f"x1 = _mma_mod.subsolv(a['epsimin'], *[a[k] for k in nm], x0={start})[0]\nx2 = _mma_mod.subsolv(a['epsimin'], *[a[k] for k in nm], x0=a['x0'].copy())[0]\n"
                        "print(x1, x2)\nassert np.all(np.abs(x1 - x2) <= 1e-6 * (a['beta'] - a['alfa']))\n")
                r.check(np.all(np.abs(x - sols.get('recorded', x)) <= 1e-6 * w), 'the solution does not depend on the starting point (unique optimum of the convex subproblem)',
                        dict(case=(n, m, ver, ci, label), x=x, x_recorded=sols.get('recorded')), replay_code=code)


# subproblem recorded at iteration 25 of minimize_mma on a 3-variable convex QP with xmin = 0, xmax = 0.01 (responses O(1)); design already at its optimum, two variables on xmin
CAP_WITNESS = {'epsimin': 2.23606797749979e-10, 'low': [0.007047079927207146, -0.00020996890380281847, -0.0006170515293646572],
               'upp': [0.007338703434337091, 0.00020996894646430132, 0.0006170515408081026], 'alfa': [0.007061661102563643, 0.0, 0.0],
               'beta': [0.007324122258980594, 0.00018897205395094533, 0.0005553463872994646],
               'P': [[4.585476506050415e-06, 2.5406627820462048e-06, 9.303630748807818e-05], [2.3936848384177454e-09, 1.3360604661759852e-06, 4.444922100041225e-08],
                     [9.320469775060882e-10, 1.6296347640138054e-09, 2.350051120744429e-05]],
               'Q': [[4.6021354380900176e-09, 2.582167564003944e-09, 9.332373634868196e-08], [2.3748174557784707e-06, 1.378768647050677e-09, 4.41129176244602e-05],
                     [9.117179570059019e-07, 1.5871774492560761e-06, 2.3857406397998753e-08]],
               'a0': 1.0, 'a': [0.0, 0.0], 'b': [0.09423486870795676, 0.0519497973457721], 'c': [1000.0, 1000.0], 'd': [1.0, 1.0],
               'x0': [0.007192891680772118, 2.133074143838078e-11, 5.721722703584416e-12]}


@bound('design-variable ranges below 0.1: (a) one recorded subproblem (range 0.01, n = 3, m = 2) solved by subsolv directly; (b) [thorough] the complete 28-iteration run on the problem it was '
       'recorded from (fixed generator seed, independent of VERIF_SEED) with every clause audited', finding='C10-subsolv-cap')
@stoppable
def small_range(r, tier, seed):
    import contextlib, io
    import pymoto.common.mma as M
    a = {k: (np.array(v) if isinstance(v, list) else v) for k, v in CAP_WITNESS.items()}
    buf = io.StringIO()
    with contextlib.redirect_stdout(buf):
        ret = M.subsolv(a['epsimin'], a['low'], a['upp'], a['alfa'], a['beta'], a['P'], a['Q'], a['a0'], a['a'], a['b'], a['c'], a['d'], x0=a['x0'].copy())
    el = L.eps_last(a['epsimin'])
    res = L.kkt_residual(a, ret, el)
    r.case('recorded-subproblem')
    code = (REPLAY_HEAD + _LIB_SRC + f"\n\na = {{k: (np.array(v) if isinstance(v, list) else v) for k, v in {CAP_WITNESS!r}.items()}}\n"
            "ret = _mma_mod.subsolv(a['epsimin'], a['low'], a['upp'], a['alfa'], a['beta'], a['P'], a['Q'], a['a0'], a['a'], a['b'], a['c'], a['d'], x0=a['x0'].copy())\n"
            "el = eps_last(a['epsimin'])\nres = kkt_residual(a, ret, el)\nprint('x =', ret[0], 'max residual', abs(res).max(), 'allowed', el)\nassert abs(res).max() <= el\n")
    r.check(np.max(np.abs(res)) <= el, 'subproblem solution satisfies the (barrier-relaxed) optimality conditions to the requested accuracy',
            dict(subproblem='CAP_WITNESS', x=ret[0], solver_messages=buf.getvalue().count('\n')), float(np.max(np.abs(res))), el, replay_code=code, finding='C10-subsolv-cap')
    if tier == 'thorough':
        spec = gen(np.random.default_rng(0), [('array', 3)], 2, obj='quad', cons=('lin', 'quad'), box=(0.0, 0.01), opts=dict(maxit=28, tolx=0.0, mmaversion='Svanberg2007'))
        spec['cap_abort'] = 10 ** 9
        report(r, 'range-0.01-run', spec, conv=dict(xtol=1e-4, gtol=1e-7, ftol=1e-5), finding='C10-subsolv-cap')


CHECKS = [('iterations', iterations), ('asymptote_parameters', asymptote_parameters), ('convergence', convergence), ('histories', histories), ('subsolv_direct', subsolv_direct),
          ('list_bounds', list_bounds), ('small_range', small_range)]
