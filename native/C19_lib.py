# Independent reference for C19 (finite_difference).  Embedded verbatim in every replay program (after REPLAY_HEAD).
# Fixture modules are described by pure functions: f(*xs) -> outputs and their exact Jacobians with respect to the real part (jr) and
# the imaginary part (ji, default 1j*jr = holomorphic) of every input.  All data are dyadic rationals with few bits and dx is a power of
# two, so that every forward difference is exact in binary floating point; the reference trace is computed from the pure functions
# only (own forward differences, own hand-written reverse accumulation) and never from finite_difference or Network.sensitivity.
import contextlib, copy, io, re
import numpy as np
import scipy.sparse as sp
import pymoto as pym

TOL = 1e-12   # agreement of reported numbers with the exact reference (round-off of sums with random seeds only)


class SpySignal(pym.Signal):
    """Signal that logs every non-None sensitivity that is assigned to it (to learn the random seed finite_difference used)."""
    def __init__(self, tag='', state=None):
        self.log = []
        self._sens = None
        super().__init__(tag, state)

    @property
    def sensitivity(self):
        return self._sens

    @sensitivity.setter
    def sensitivity(self, v):
        if v is not None:
            self.log.append(copy.deepcopy(v))
        self._sens = v


class Spec:
    def __init__(self, ins, outs, f, jr, ji=None, sparse_out=(), wrong=None, scalar_sens='python'):
        self.ins, self.outs, self.f, self.jr, self.ji = list(ins), list(outs), f, jr, ji
        self.sparse_out, self.wrong, self.scalar_sens = set(sparse_out), wrong, scalar_sens


def _dense(v):
    return v.toarray() if sp.issparse(v) else v


def _cp(v):
    """copy that keeps the memory layout of arrays"""
    return np.array(v, copy=True, order='K') if isinstance(v, np.ndarray) else copy.deepcopy(v)


def corrupt(g, kind):
    """the deliberately wrong sensitivities"""
    a = np.array(g, copy=True)
    if kind == 'scale':      # one entry off by a factor 1.25
        a.reshape(-1)[a.size // 2] *= 1.25
    elif kind == 'neg':
        a = -a
    elif kind == 'conj':
        a = np.conj(a)
    elif kind == 'roll':     # right values at the wrong index
        a = np.roll(a.reshape(-1), 1).reshape(a.shape)
    elif kind == 'none':     # no sensitivity returned at all
        return None
    else:
        raise ValueError(kind)
    return a


def adjoint(spec, xs, ws, honest=False):
    """Sensitivities of the inputs for output seeds ws (None = not seeded) in pymoto's convention:
    real input: Re sum_j Jr^T w_j;  complex input: Re sum_j Jr^T w_j - 1j * Re sum_j Ji^T w_j  (= J^T w for holomorphic maps)."""
    xd = [_dense(x) for x in xs]
    Jr = spec.jr(*xd)
    Ji = spec.ji(*xd) if spec.ji is not None else None
    gs = []
    for i, x in enumerate(xd):
        xa = np.asarray(x)
        cplx = np.iscomplexobj(xa)
        acc = None
        for j, w in enumerate(ws):
            if w is None:
                continue
            wv = np.asarray(_dense(w)).reshape(-1)
            a = np.asarray(Jr[j][i]).T @ wv
            if cplx:
                b = (1j * np.asarray(Jr[j][i])).T @ wv if Ji is None else np.asarray(Ji[j][i]).T @ wv
                g = a.real - 1j * b.real
            else:
                g = a.real
            acc = g if acc is None else acc + g
        if acc is not None:
            acc = acc.reshape(xa.shape)
            if not honest and spec.wrong is not None and spec.wrong[1] == i:
                acc = corrupt(acc, spec.wrong[0])
        if acc is not None and not isinstance(x, np.ndarray):
            acc = (complex(acc) if cplx else float(acc)) if spec.scalar_sens == 'python' else acc[()]
        gs.append(acc)
    return gs


class Fx(pym.Module):
    """Module with the response spec.f and the (possibly deliberately wrong) sensitivity adjoint(spec, ...)"""
    def _prepare(self, spec=None, reuse_out=False):
        self.spec = spec
        self.ncalls = 0
        self.reuse_out = reuse_out
        self.buf = {}

    def _response(self, *xs):
        self.xs = [x.copy() if hasattr(x, 'copy') else x for x in xs]
        self.ncalls += 1
        ys = list(self.spec.f(*[_dense(x) for x in xs]))
        if self.reuse_out:   # a module that keeps its output arrays and overwrites them in place at every response
            for k, y in enumerate(ys):
                b = self.buf.get(k)
                if isinstance(y, np.ndarray) and y.ndim > 0 and b is not None and b.shape == y.shape and b.dtype == y.dtype:
                    b[...] = y
                    ys[k] = b
                elif isinstance(y, np.ndarray) and y.ndim > 0:
                    self.buf[k] = y
        return [sp.csr_matrix(y) if k in self.spec.sparse_out else y for k, y in enumerate(ys)]

    def _sensitivity(self, *ws):
        return adjoint(self.spec, self.xs, ws)


# ------------------------------------------------------------------------------------------------------------ fixtures
A34 = np.array([[1, -0.5, 2, 0.25], [0.5, 1.5, -1, 0], [-2, 0.75, 0.5, 1]])
B44 = np.array([[0.5, -1, 0, 2], [1.5, 0.25, -0.5, 0], [0, 1, 1, -2], [-0.75, 0, 0.5, 1]])
D23 = np.array([[1.5, -1, 0.5], [0.25, 2, -0.5]])
P23 = np.array([[1, -2, 0.5], [0.5, 0.25, -1]])
BM32 = np.array([[1, -0.5], [0.25, 2], [-1.5, 0.5]])
AC33 = np.array([[1 + 0.5j, -0.5j, 2], [0.25, 1 - 1j, -1.5 + 0.5j], [-2j, 0.5, 0.75 + 0.25j]])
CC3 = np.array([1 + 0.5j, -0.5j, 2 + 0j])
APAT = np.array([[1, 0, 2], [0, -1.5, 0], [0.5, 0, 0]])


def _lin(A, i, o):
    return Spec([i], [o], lambda x: [A @ x], lambda x: [[A]])


def _cyc(n):
    """y_j = x_j*x_(j+1) + 0.5*x_j^2 (cyclic): has mixed second derivatives, so an entry that is not restored shows in the next ones"""
    def f(x):
        return [x * np.roll(x, -1) + 0.5 * x * x]

    def jr(x):
        J = np.diag(np.roll(x, -1) + x).astype(x.dtype)
        for j in range(n):
            J[j, (j + 1) % n] += x[j]
        return [[J]]
    return f, jr


def _quad4(i, o):
    f0, j0 = _cyc(4)
    return Spec([i], [o], lambda x: [B44 @ x + f0(x)[0]], lambda x: [[B44 + j0(x)[0][0]]])


def case_def(case_id):
    """-> dict(specs, sources, fromsig, tosig, network).  fromsig/tosig: None (default of finite_difference) or [(name, index or None)]"""
    c = dict(network=False, fromsig=None, tosig=None)
    base, _, var = case_id.partition(':')
    if base == 'lin_vec':
        c.update(specs=[_lin(A34, 'x', 'y')], sources={'x': np.array([1.5, -0.75, 0.0, 2.0])})
    elif base == 'quad_vec':
        c.update(specs=[_quad4('x', 'y')], sources={'x': np.array([1.5, 0.0, -0.75, 2.0])})
    elif base == 'two_io':
        def f(x1, x2):
            return [x2 * x1 + np.array([1.0, 0, 0]) * x1[1] ** 2, float(np.sum(x1 * x1) + 3 * x2)]

        def jr(x1, x2):
            J11 = x2 * np.eye(3)
            J11[0, 1] += 2 * x1[1]
            return [[J11, np.asarray(x1, dtype=float).reshape(3, 1)], [2 * x1.reshape(1, 3), np.array([[3.0]])]]
        c.update(specs=[Spec(['x1', 'x2'], ['y1', 'y2'], f, jr)], sources={'x1': np.array([0.5, -1.5, 2.0]), 'x2': 1.25})
        sel = {'': (None, None), 'x2_y2': ([('x2', None)], [('y2', None)]), 'x1_y1': ([('x1', None)], [('y1', None)]), 'x2x1_y2y1': ([('x2', None), ('x1', None)], [('y2', None), ('y1', None)]),
               'x1_all': ([('x1', None)], None)}[var]
        c.update(fromsig=sel[0], tosig=sel[1])
    elif base == 'matrix':
        X = np.array([[1.5, 0.0, -0.75], [2.0, 0.5, -1.25]])
        if var == 'F':
            X = np.asfortranarray(X)
        c.update(specs=[Spec(['X'], ['Y'], lambda X: [X @ BM32 + X[:, :2] * X[:, 1:]], lambda X: [[np.kron(np.eye(2), BM32.T) + _mat_extra(X)]])], sources={'X': X})
    elif base == 'cplx_holo':
        x = np.array([0.75 - 1j, 1.5 + 2j, 0j, -2j])
        C4 = np.array([1 + 0.5j, -0.5j, 2, 0.25 - 0.25j])
        A4 = np.array([[1 + 0.5j, -0.5j, 2, 0], [0.25, 1 - 1j, -1.5 + 0.5j, 1j], [-2j, 0.5, 0.75 + 0.25j, 1], [0, 1, -1j, 0.5]])
        c.update(specs=[Spec(['x'], ['y'], lambda x: [C4 * x * x + A4 @ x + x * np.roll(x, -1)], lambda x: [[np.diag(2 * C4 * x) + A4 + _cyc(4)[1](x)[0][0] - np.diag(x)]])], sources={'x': x})
    elif base == 'slice_cplx':
        c = case_def('cplx_holo')
        sel = {'in': ([('x', slice(1, 4))], None), 'fancy': ([('x', [3, 0])], None), 'out': (None, [('y', slice(0, 2))])}[var]
        c.update(fromsig=sel[0], tosig=sel[1])
    elif base == 'cplx_nonholo':
        x = np.array([0.75 - 1j, 1.5 + 2j, 3 + 0j])

        def f(x):
            return [x.real ** 2 + x.imag ** 2, CC3 * np.conj(x)]
        c.update(specs=[Spec(['x'], ['y1', 'y2'], f, lambda x: [[np.diag(2 * x.real)], [np.diag(CC3)]], lambda x: [[np.diag(2 * x.imag)], [np.diag(-1j * CC3)]])], sources={'x': x})
    elif base == 'real_to_cplx':
        c.update(specs=[Spec(['u'], ['y'], lambda u: [CC3 * u + 1j * u * u], lambda u: [[np.diag(CC3 + 2j * u)]])], sources={'u': np.array([0.5, -1.5, 2.0])})
    elif base == 'sparse_out':
        def f(x):
            Y = APAT * x[None, :]
            Y[0, 0] += x[0] * x[0]
            return [Y]

        def jr(x):
            J = np.zeros((9, 3))
            for i in range(3):
                for j in range(3):
                    J[3 * i + j, j] = APAT[i, j]
            J[0, 0] += 2 * x[0]
            return [[J]]
        c.update(specs=[Spec(['x'], ['Y'], f, jr, sparse_out=[0])], sources={'x': np.array([1.5, -0.5, 2.0])})
    elif base == 'scal':
        x = {'float': 1.5, 'int': 2, 'np': np.float64(1.5), '0d': np.array(1.5), 'zero': 0.0, '0d_zero': np.array(0.0), 'neg': -0.75}[var]
        c.update(specs=[Spec(['x'], ['y'], lambda x: [0.5 * x * x + 2 * x], lambda x: [[np.array([[x + 2.0]])]])], sources={'x': x})
    elif base == 'scal_cplx':
        x = {'py': 1.5 + 2j, 'np': np.complex128(1.5 + 2j), '0d': np.array(1.5 + 2j), 'py_npsens': 1.5 + 2j}[var]
        cc = 0.5 - 1j
        c.update(specs=[Spec(['x'], ['y'], lambda x: [cc * x * x + x], lambda x: [[np.array([[2 * cc * x + 1]])]], scalar_sens='python' if var == 'py' else 'numpy')], sources={'x': x})
    elif base == 'chain':
        f1, j1 = _cyc(3)
        specs = [_lin(A34, 'a', 'b'), Spec(['b'], ['c'], f1, j1), _lin(D23, 'c', 'd')]
        sel = {'a_d': ([('a', None)], [('d', None)]), 'b_c': ([('b', None)], [('c', None)]), 'b_d': ([('b', None)], [('d', None)]), 'a_c': ([('a', None)], [('c', None)]),
               'a_cd': ([('a', None)], [('c', None), ('d', None)]), 'c_d': ([('c', None)], [('d', None)]), 'default': (None, None), 'c_b': ([('c', None)], [('b', None)]),
               'asl_dsl': ([('a', slice(0, 2))], [('d', slice(1, 2))]), 'a_db': ([('a', None)], [('d', None), ('b', None)]), 'c_bd': ([('c', None)], [('b', None), ('d', None)])}[var]
        c.update(specs=specs, sources={'a': np.array([1.5, -0.75, 0.0, 2.0])}, network=True, fromsig=sel[0], tosig=sel[1])
    elif base == 'diamond':
        def f2(a, b):
            return [np.array([a[0] * b[0] + a[1], b[1] + b[2] * a[1]])]

        def j2(a, b):
            return [[np.array([[b[0], 1.0], [0.0, b[2]]]), np.array([[a[0], 0, 0], [0, 1.0, a[1]]])]]
        specs = [_lin(P23, 'x', 'a'), Spec(['x'], ['b'], lambda x: [x * x], lambda x: [[np.diag(2 * x)]]), Spec(['a', 'b'], ['c'], f2, j2)]
        sel = {'x_c': ([('x', None)], [('c', None)]), 'a_c': ([('a', None)], [('c', None)]), 'b_c': ([('b', None)], [('c', None)]), 'ab_c': ([('a', None), ('b', None)], [('c', None)])}[var]
        c.update(specs=specs, sources={'x': np.array([1.5, -0.5, 2.0])}, network=True, fromsig=sel[0], tosig=sel[1])
    elif base == 'pre_module':
        specs = [Spec(['p'], ['q'], lambda p: [2 * p * p], lambda p: [[np.diag(4 * p)]]),
                 Spec(['x', 'q'], ['y'], lambda x, q: [x * q + x], lambda x, q: [[np.diag(q + 1.0), np.diag(x)]])]
        sel = {'x_y': ([('x', None)], [('y', None)]), 'xp_y': ([('x', None), ('p', None)], [('y', None)]), 'p_y': ([('p', None)], [('y', None)])}[var]
        c.update(specs=specs, sources={'p': np.array([0.5, -1.5]), 'x': np.array([2.0, 0.75])}, network=True, fromsig=sel[0], tosig=sel[1])
    elif base == 'chain_cplx':
        specs = [_lin(AC33, 'x', 'b'), Spec(['b'], ['c'], lambda b: [b * b + np.roll(b, 1)], lambda b: [[np.diag(2 * b) + np.roll(np.eye(3), 1, axis=0)]])]
        sel = {'x_c': ([('x', None)], [('c', None)]), 'b_c': ([('b', None)], [('c', None)])}[var]
        c.update(specs=specs, sources={'x': np.array([0.75 - 1j, 1.5 + 2j, -2j])}, network=True, fromsig=sel[0], tosig=sel[1])
    elif base == 'slice':
        sel = {'in': ([('x', slice(1, 3))], None), 'out': (None, [('y', slice(0, 2))]), 'both': ([('x', slice(2, 4))], [('y', slice(1, 4, 2))]), 'fancy': ([('x', [3, 0])], [('y', [2, 0, 1])]),
               'two': ([('x', slice(0, 1)), ('x', slice(3, 4))], None)}[var]
        c.update(specs=[_quad4('x', 'y')], sources={'x': np.array([1.5, 0.0, -0.75, 2.0])}, fromsig=sel[0], tosig=sel[1])
    else:
        raise KeyError(case_id)
    return c


def _mat_extra(X):
    """Jacobian of Y += X[:, :2] * X[:, 1:] for X (2x3), Y (2x2), both flattened in C order"""
    J = np.zeros((4, 6))
    for a in range(2):
        for b in range(2):
            J[2 * a + b, 3 * a + b] += X[a, b + 1]
            J[2 * a + b, 3 * a + b + 1] += X[a, b]
    return J


def mk_w(shape, cplx, k):
    """dyadic, non-zero, non-constant seed"""
    n = int(np.prod(shape)) if len(shape) else 1
    w = (((np.arange(n) * 5 + 3 + 2 * k) % 7) - 3.0) / 4 + 0.125
    if cplx:
        w = w + 1j * ((((np.arange(n) * 3 + 1 + k) % 5) - 2.0) / 2 + 0.25)
    return w.reshape(shape)


# ------------------------------------------------------------------------------------------------------------ reference
def _apply(spec, vals):
    ys = spec.f(*[_dense(vals[n]) for n in spec.ins])
    for n, y in zip(spec.outs, ys):
        vals[n] = y


def _positions(v, sl):
    """flat C positions (shaped like the selected view) of the entries of v selected by sl"""
    a = np.asarray(v)
    pos = np.arange(a.size).reshape(a.shape)
    return pos if sl is None else pos[sl]


def _reverse(specs, vals, i0, i1, seed, honest):
    sens = dict(seed)
    for i in range(i1, i0 - 1, -1):
        s = specs[i]
        ws = [sens.get(n) for n in s.outs]
        if all(w is None for w in ws):
            continue
        gs = adjoint(s, [vals[n] for n in s.ins], ws, honest)
        for n, g in zip(s.ins, gs):
            if g is not None:
                sens[n] = g if sens.get(n) is None else sens[n] + g
    return sens


def reference_trace(c, in_sel, out_sel, seeds, dx, relative, keep_zero):
    """[(input position, x0, an reported by the module, true derivative, exact forward difference, round-off scale sum|F w|/h)] in the order one call per
    (input, entry in C order, real pass then imaginary pass, output)."""
    specs = c['specs']
    names_in = [n for n, _ in in_sel]
    names_out = [n for n, _ in out_sel]
    if c['network']:
        i0 = min([i for i, s in enumerate(specs) if any(n in s.ins for n in names_in)])
        i1 = max([i for i, s in enumerate(specs) if any(n in s.outs for n in names_out)])
    else:
        i0 = i1 = 0
    vals = {k: copy.deepcopy(v) for k, v in c['sources'].items()}
    for i in range(0, i0):
        _apply(specs[i], vals)
    pre = vals
    base = {k: copy.deepcopy(v) for k, v in pre.items()}
    for i in range(i0, i1 + 1):
        _apply(specs[i], base)
    sens_mod, sens_true = [], []
    for k, (on, osl) in enumerate(out_sel):
        w = seeds[k]
        if base.get(on) is None or w is None:
            sens_mod.append({})
            sens_true.append({})
            continue
        ob = np.asarray(_dense(base[on]))
        if osl is None:
            W = np.asarray(w).reshape(ob.shape) if isinstance(ob, np.ndarray) and ob.shape else w
        else:
            W = np.zeros(ob.shape, dtype=np.result_type(np.asarray(w).dtype, float))
            W[osl] = w
        sens_mod.append(_reverse(specs, base, i0, i1, {on: W}, False))
        sens_true.append(_reverse(specs, base, i0, i1, {on: W}, True))
    out = []
    for p, (name, sl) in enumerate(in_sel):
        v = base[name]
        scalar = not isinstance(v, np.ndarray)
        pos = _positions(v, sl)
        for idx in np.ndindex(pos.shape):
            flat = int(pos[idx])
            x0 = v if scalar else v.reshape(-1)[flat]
            if x0 == 0 and keep_zero:
                continue
            sf = abs(x0) if (relative and abs(x0) != 0) else 1.0
            h = dx * sf
            for dirn in ([1.0, 1j] if np.iscomplexobj(x0) else [1.0]):
                pv = {k: copy.deepcopy(u) for k, u in pre.items()}
                if scalar:
                    pv[name] = x0 + h * dirn
                else:
                    arr = np.array(pv[name], copy=True, order='C')
                    arr.reshape(-1)[flat] += h * dirn
                    pv[name] = arr
                for i in range(i0, i1 + 1):
                    _apply(specs[i], pv)
                for k, (on, osl) in enumerate(out_sel):
                    if base.get(on) is None:
                        continue
                    f0, fp = _dense(base[on]), _dense(pv[on])
                    if osl is not None:
                        f0, fp = f0[osl], fp[osl]
                    s = np.sum((fp - f0) / (h * dirn) * seeds[k])
                    fd = float(np.real(s)) if dirn == 1.0 else float(np.imag(s))
                    mag = float(np.sum((np.abs(fp) + np.abs(f0)) * np.abs(seeds[k]))) / h   # scale of the round-off of the difference quotient
                    vals_an = []
                    for sens in (sens_mod[k], sens_true[k]):
                        g = sens.get(name)
                        if g is None:
                            vals_an.append(0.0)
                        else:
                            e = g if not isinstance(g, np.ndarray) else g.reshape(-1)[flat]
                            vals_an.append(float(np.real(e)) if dirn == 1.0 else float(np.imag(e)))
                    out.append((p, x0, vals_an[0], vals_an[1], fd, mag))
    return out


def _same(a, b, tol=TOL):
    return abs(a - b) <= tol * max(1.0, abs(b))


def _state_image(v):
    v = _dense(v)
    a = np.asarray(v)
    return (type(v).__name__ if isinstance(v, np.ndarray) else 'scalar', a.dtype.kind, a.shape, a.tobytes())


def run_case(case_id, wrong=None, dx_exp=20, relative=False, seedmode='use_df', keep_zero=True, verbose=True, pollute=False, ncalls=1, rngseed=0, tol=1e-3,
             bare=False, preresponse=False, inexact=False, reuse_out=False, keep_alloc=False):
    """Build the fixture, call pym.finite_difference (ncalls times on the same objects), compare everything that was reported through test_fn and
    printed with the reference, and check the state/sensitivity of every signal afterwards.  Returns a list of (code, message)."""
    probs = []
    c = case_def(case_id)
    specs = c['specs']
    if inexact:   # values and step that are not exactly representable: x + h - h != x, so only an exact restore passes
        c['sources'] = {n: (v if np.asarray(v).dtype.kind in 'iu' else v * 1.1) for n, v in c['sources'].items()}
    tol_fd = 1e-5 if inexact else TOL   # round-off of (F(x+h)-F(x))/h with inexact data: ~ eps*|F|/h
    if wrong is not None:   # (kind, module index, input index)
        specs[wrong[1]].wrong = (wrong[0], wrong[2])
    names = []
    for s in specs:
        names += [n for n in s.ins + s.outs if n not in names]
    originals = {n: _cp(v) for n, v in c['sources'].items()}
    handed = {n: _cp(v) for n, v in c['sources'].items()}   # the objects the caller hands to the signals (and keeps)
    sigs = {n: SpySignal(n, handed.get(n)) for n in names}
    mods = [Fx([sigs[n] for n in s.ins], [sigs[n] for n in s.outs], spec=s, reuse_out=reuse_out) for s in specs]
    if keep_alloc:   # input signals whose sensitivity allocation is kept: reset() zeroes it in place instead of dropping it
        for n in c['sources']:
            sigs[n].keep_alloc = True
    blk = pym.Network(mods) if c['network'] else mods[0]

    def pick(sel):
        if sel is None:
            return None
        lst = [sigs[n] if sl is None else sigs[n][sl] for n, sl in sel]
        return lst[0] if (bare and len(lst) == 1) else lst
    in_sel = c['fromsig'] if c['fromsig'] is not None else [(s.tag, None) for s in blk.sig_in]
    out_sel = c['tosig'] if c['tosig'] is not None else [(s.tag, None) for s in blk.sig_out]
    dx = 2.0 ** -dx_exp * (1.1 if inexact else 1.0)
    if c['network']:   # signals of the modules between the first consumer of an input and the last producer of an output
        i0 = min(i for i, s in enumerate(specs) if any(n in s.ins for n, _ in in_sel))
        i1 = max(i for i, s in enumerate(specs) if any(n in s.outs for n, _ in out_sel))
        inside = [n for s in specs[i0:i1 + 1] for n in s.ins + s.outs]
    else:
        inside = list(names)
    if preresponse:   # the caller has used the network before: states of all signals are present and sensitivities were left behind
        blk.response()
    # shapes of the outputs (from the pure functions) for the seeds
    ref0 = {k: copy.deepcopy(v) for k, v in c['sources'].items()}
    for s in specs:
        _apply(s, ref0)
    out_shapes = []
    for on, osl in out_sel:
        o = np.asarray(_dense(ref0[on]))
        o = o if osl is None else o[osl]
        out_shapes.append((o.shape, np.iscomplexobj(o)))
    for call in range(ncalls):
        lab = f'call {call}: ' if ncalls > 1 else ''
        if seedmode == 'use_df':
            use_df = [mk_w(sh, cp, k + call) for k, (sh, cp) in enumerate(out_shapes)]
            use_df_copy = [w.copy() for w in use_df]
        else:
            use_df = None
        if pollute:   # sensitivities left behind by the caller on the signals of the block
            for n in inside:
                st = sigs[n].state
                sigs[n].sensitivity = 7.0 if st is None or not isinstance(_dense(st), np.ndarray) else np.full(np.shape(_dense(st)), 7.0, dtype=np.result_type(_dense(st).dtype, float))
        for n in names:
            sigs[n].log.clear()
        rec = []
        buf = io.StringIO()
        kw = dict(dx=dx, relative_dx=relative, tol=tol, test_fn=lambda *a: rec.append(a), keep_zero_structure=keep_zero, verbose=verbose)
        if seedmode == 'use_df':
            kw['use_df'] = use_df
        elif seedmode == 'ones':
            kw['random'] = False
        elif seedmode == 'random':
            np.random.seed(rngseed + call)
        else:
            raise ValueError(seedmode)
        if not keep_zero:
            pass
        fs, ts = pick(c['fromsig']), pick(c['tosig'])
        try:
            with contextlib.redirect_stdout(buf):
                if fs is None and ts is None:
                    pym.finite_difference(blk, **kw)
                elif ts is None:
                    pym.finite_difference(blk, fs, **kw)
                elif fs is None:
                    pym.finite_difference(blk, tosig=ts, **kw)
                else:
                    pym.finite_difference(blk, fs, ts, **kw)
        except Exception as e:
            probs.append(('raise', f'{lab}{type(e).__name__}: {str(e).splitlines()[0][:150]} (after {len(rec)} reported pairs)'))
            return probs
        # the seeds that were used
        if seedmode == 'use_df':
            seeds = use_df_copy
            for k, (w, w0) in enumerate(zip(use_df, use_df_copy)):
                if np.asarray(w).tobytes() != w0.tobytes():
                    probs.append(('use_df', f'{lab}use_df[{k}] was modified by the call'))
        elif seedmode == 'ones':
            seeds = [np.ones(sh) + (1j * np.ones(sh) if cp else 0) for sh, cp in out_shapes]
        else:
            seeds = []
            for k, ((on, osl), (sh, cp)) in enumerate(zip(out_sel, out_shapes)):
                lg = sigs[on].log
                if osl is not None or len(lg) != 1:
                    probs.append(('seed', f'{lab}output {on}: {len(lg)} sensitivities were assigned to the output signal, expected exactly one seed'))
                    return probs
                w = np.asarray(lg[0])
                okr = w.shape == sh and np.iscomplexobj(w) == cp and np.all((w.real >= 0) & (w.real < 1)) and (not cp or np.all((w.imag >= 0) & (w.imag < 1)))
                if not okr or (w.size > 1 and np.all(w == w.reshape(-1)[0])) or np.all(w.real == 1.0):
                    probs.append(('seed', f'{lab}random seed of output {on} is not a uniform [0,1) sample of the output shape {sh} (complex={cp}): {w}'))
                seeds.append(w)
            if ncalls > 1 and call > 0 and all(np.array_equal(a, b) for a, b in zip(seeds, prev_seeds)):
                probs.append(('seed', f'{lab}a different generator state produced the same random seeds'))
            prev_seeds = seeds
        ref = reference_trace(c, in_sel, out_sel, seeds, dx, relative, keep_zero)
        got = [(x0, d, float(an), float(fd)) for (x0, d, an, fd) in rec]
        if len(got) != len(ref):
            probs.append(('count', f'{lab}{len(got)} (analytical, numerical) pairs were reported, expected {len(ref)} = one per perturbed entry, direction and output'))
        contiguous = all(not isinstance(c['sources'].get(n), np.ndarray) or c['sources'][n].flags.c_contiguous for n, _ in in_sel)
        unmatched = list(range(len(got)))
        for j, (p, x0, an_mod, an_true, fd, mag) in enumerate(ref):
            rnd = 64 * 2.0 ** -52 * mag   # the difference of two O(|F|) numbers divided by h carries a round-off of a few eps*|F|/h unless the arithmetic is exact

            def ok(g):
                return complex(g[0]) == complex(x0) and g[1] == dx and _same(g[2], an_mod) and abs(g[3] - fd) <= tol_fd * max(1.0, abs(fd)) + rnd
            if contiguous:
                hit = j if j < len(got) and ok(got[j]) else None
            else:   # nditer walks a non-C-contiguous array in memory order: every entry once, any order
                hit = next((u for u in unmatched if ok(got[u])), None)
            if hit is None:
                near = got[j] if j < len(got) else None
                what = 'analytical' if near is not None and not _same(near[2], an_mod) else ('numerical' if near is not None and not abs(near[3] - fd) <= tol_fd * max(1.0, abs(fd)) + rnd else 'entry')
                probs.append((what, f'{lab}pair {j} (input {in_sel[p][0]}, x0={x0}): reported {near}, expected (x0={x0}, dx={dx}, an={an_mod!r}, fd={fd!r})'))
                if len(probs) > 6:
                    break
                continue
            if not contiguous:
                unmatched.remove(hit)
            g = got[hit]
            # the reported numerical value is the true directional derivative up to O(dx): constant from the exact remainder of the pure function at dx0 = 2^-6
        if not probs:
            ref6 = reference_trace(c, in_sel, out_sel, seeds, 2.0 ** -6, relative, keep_zero)
            for (p, x0, an_mod, an_true, fd, mag), r6 in zip(ref, ref6):
                sf = abs(x0) if (relative and abs(x0) != 0) else 1.0
                K = 2.0 * abs(r6[4] - an_true) / (2.0 ** -6 * sf)
                rnd = 64 * 2.0 ** -52 * mag
                g = next(gg for gg in got if complex(gg[0]) == complex(x0) and _same(gg[2], an_mod) and abs(gg[3] - fd) <= tol_fd * max(1.0, abs(fd)) + rnd)
                slack = 1e-11 + rnd + (tol_fd * max(1.0, abs(an_true)) if inexact else 0.0)
                if not abs(g[3] - an_true) <= K * dx * sf + slack:
                    probs.append(('order', f'{lab}numerical value {g[3]!r} differs from the true derivative {an_true!r} by more than O(dx) (K={K}, dx={dx})'))
                if wrong is None and not abs(g[2] - g[3]) <= K * dx * sf + slack:
                    probs.append(('match', f'{lab}correct module reported with the non-matching pair an={g[2]!r} fd={g[3]!r}'))
            if wrong is not None:
                expect_bad = [j for j, rr in enumerate(ref) if abs(rr[2] - rr[3]) > 0.01]
                seen_bad = [j for j, g in enumerate(got) if abs(g[2] - g[3]) > 0.01]
                if not expect_bad:
                    probs.append(('fixture', f'{lab}the deliberately wrong sensitivity {wrong} does not differ from the true one at any perturbed entry'))
                if len(seen_bad) != len(expect_bad):
                    probs.append(('match', f'{lab}wrong module: {len(seen_bad)} non-matching pairs reported, expected {len(expect_bad)}'))
        # printed report: one summary per input, failures flagged
        text = buf.getvalue()
        summ = re.findall(r'beyond tolerance \(([^)]*)\) = (\d+) / (\d+)', text)
        per_in = [[rr for rr in ref if rr[0] == p] for p in range(len(in_sel))]

        def err_of(rr):
            a, f = rr[2], rr[4]
            ab = abs(f - a)
            rl = ab / max(abs(f), abs(a)) if max(abs(f), abs(a)) > 0 else 0.0
            return ab, rl
        clear = all((min(err_of(rr)) > 30 * tol or max(err_of(rr)) < tol / 30) for rr in ref)
        if len(summ) != len(in_sel):
            probs.append(('report', f'{lab}{len(summ)} summary lines printed, expected one per input ({len(in_sel)})'))
        elif not probs:
            for p, (t, nf, nt) in enumerate(summ):
                want_f = sum(1 for rr in per_in[p] if min(err_of(rr)) > 30 * tol)
                if int(nt) != len(per_in[p]) or float(t) != tol or (clear and int(nf) != want_f):
                    probs.append(('report', f'{lab}summary of input {in_sel[p][0]}: "{nf} / {nt}" beyond tolerance {t}; expected {want_f} / {len(per_in[p])} beyond {tol}'))
            nflag = text.count('<--*')
            nlines = len(re.findall(r'^δ', text, flags=re.M))
            want_f = sum(1 for rr in ref if min(err_of(rr)) > 30 * tol)
            if clear and (nflag != want_f or nlines != (len(ref) if verbose else want_f)):
                probs.append(('report', f'{lab}{nlines} result lines printed, {nflag} flagged; expected {len(ref) if verbose else want_f} lines, {want_f} flagged (verbose={verbose})'))
        # afterwards: inputs restored exactly, no sensitivity left anywhere
        for n, v0 in originals.items():
            if _state_image(sigs[n].state) != _state_image(v0):
                probs.append(('restore', f'{lab}state of input {n} after the call is {sigs[n].state!r}, it was {v0!r}'))
            if isinstance(v0, np.ndarray) and _state_image(handed[n]) != _state_image(v0):
                probs.append(('restore', f'{lab}the array handed to signal {n} holds {handed[n]!r} after the call, it was {v0!r}'))
        for n, _ in in_sel:
            if n not in originals and _state_image(sigs[n].state) != _state_image(ref0[n]):
                probs.append(('restore', f'{lab}state of the intermediate input {n} after the call is {sigs[n].state!r}, its unperturbed value is {ref0[n]!r}'))
        left = [n for n in names if sigs[n].sensitivity is not None and not (keep_alloc and n in c['sources'] and not np.any(np.asarray(sigs[n].sensitivity) != 0))]
        if left:
            probs.append(('sens-left', f'{lab}sensitivity still set after the call on signals {left}'))
        if probs:
            break
    return probs


def run_sparse_input(dx_exp=20, keep_zero=True):
    """input signal holding a scipy sparse matrix: every stored entry is perturbed; y = S @ v"""
    S0 = sp.csr_matrix(np.array([[1.5, 0.0], [-0.5, 2.0]]))
    v = np.array([1.0, 2.0])
    s = SpySignal('S', S0.copy())
    y = SpySignal('y')
    spec = Spec(['S'], ['y'], lambda S: [S @ v], lambda S: [[np.kron(np.eye(2), v.reshape(1, 2))]])
    m = Fx([s], [y], spec=spec)
    w = np.array([0.5, -1.25])
    rec = []
    try:
        with contextlib.redirect_stdout(io.StringIO()):
            pym.finite_difference(m, dx=2.0 ** -dx_exp, use_df=[w], test_fn=lambda *a: rec.append(a), keep_zero_structure=keep_zero)
    except Exception as e:
        return [('raise', f'{type(e).__name__}: {str(e).splitlines()[0][:150]}')]
    G = np.outer(w, v)   # d(w.y)/dS
    want = sorted((float(S0[i, j]), float(G[i, j])) for i in range(2) for j in range(2) if S0[i, j] != 0 or not keep_zero)
    got = sorted((float(np.asarray(a[0])), float(a[2])) for a in rec)
    probs = []
    if len(got) != len(want) or any(abs(g[0] - q[0]) > 0 or abs(g[1] - q[1]) > TOL for g, q in zip(got, want)):
        probs.append(('analytical', f'reported (x0, an) pairs {got}, expected {want}'))
    if any(abs(a[2] - a[3]) > TOL for a in rec):
        probs.append(('numerical', f'linear map: numerical and analytical values differ: {[(a[2], a[3]) for a in rec]}'))
    if (s.state != S0).nnz != 0 or s.sensitivity is not None or y.sensitivity is not None:
        probs.append(('restore', 'sparse input not restored or sensitivity left'))
    return probs
