"""C08 bounded stand-ins: assembled matrices of AssembleGeneral / Stiffness / Mass / Poisson against a dense scatter sum of element
matrices that are computed independently (exact tensor-product integrals and the isotropic elasticity tensor, native/C08_ref.py),
plus the physical invariants of the statement (symmetry, PSD, rigid-body null space, total mass, constants / linear-field energy),
over option combinations and call histories.  Case functions live in native/C08_cases.py (their source is inlined into replays)."""
import inspect
import itertools
import numpy as np
from native.util import bound, REPLAY_HEAD
from native import C08_ref, C08_cases as cs
import pymoto.core_objects as _co

# Signal/Module constructors call inspect.stack() to remember where they were created (text used in error messages only, ~8 ms per
# object): replaced by a constant inside this harness process so that ~5x more cases fit the time budget. Replay programs run unpatched.
_co.get_init_str = lambda: 'native/C08'

_SRC = None


def replay(fn, params):
    """standalone program: reference source + prelude/helpers of the case module + the one case function + the failing call"""
    global _SRC
    if _SRC is None:
        src = inspect.getsource(cs)
        _SRC = inspect.getsource(C08_ref) + '\n\n' + src[:src.index('\ndef case_')] + '\n\n' + '\n\n'.join(inspect.getsource(getattr(cs, h)) for h in ('_bc_for', '_given', '_mt', '_type_ok')) + '\n\n'
    return REPLAY_HEAD + _SRC + inspect.getsource(fn) + f"\n\nbad = {fn.__name__}(**{params!r})\nfor b in bad:\n    print(b)\nassert not bad, bad[0][0]\n"


def run(r, fn, params):
    r.case((fn.__name__, sorted(params.items(), key=lambda kv: kv[0])))
    try:
        bad = fn(**params)
    except Exception as e:   # an admissible configuration must not raise
        bad = [(f'admissible configuration raised {type(e).__name__}: {str(e)[:160]}', None, None)]
    for what, obs, exp in bad:
        r.check(False, what, params, obs, exp, replay_code=replay(fn, params))
    return not bad


SIZES = [(1.0, 1.0, 1.0), (0.5, 1.5, 2.0), (2.5, 0.4, 0.7), (0.01, 0.02, 0.05)]


def domains(tier):
    d2 = [(1, 1, 0), (1, 3, 0), (3, 1, 0), (2, 2, 0), (3, 2, 0), (2, 4, 0)]
    d3 = [(1, 1, 1), (2, 1, 1), (1, 2, 1), (1, 1, 2), (2, 2, 1), (2, 2, 2), (1, 3, 2)]
    if tier != 'quick':
        d2 += [(1, 6, 0), (5, 4, 0), (4, 1, 0), (2, 5, 0), (7, 3, 0)]
        d3 += [(3, 1, 2), (1, 3, 3), (3, 3, 2), (2, 3, 4), (4, 2, 1)]
    return d2 + d3


BCS = [None, 'empty', 'first', 'last', 'rand', 'all', 'list', 'int32']
BCDIAG = [None, 0.0, -2.5, 1e3]
CONSTS = [None, 'diag', 'sparse', 'dense']
MTYPES = ['default', 'csc', 'csr', 'coo', 'csc_array', 'csr_array', 'custom']
MT4 = ['default', 'csr', 'coo', 'csc_array']
ELK = ['real', 'int', 'complex']
XK = ['pos', 'ones', 'zeros', 'neg', 'int', 'complex']


def _admissible(const, mt):
    return not (mt == 'custom' and const in ('diag', 'sparse'))    # the dense stand-in constructor cannot add a sparse constant in place


@bound('AssembleGeneral, random non-symmetric element matrices. (A) full product bc{none,empty,first,last,random unsorted,all dofs,list,int32 descending} x bcdiagval{default,0,-2.5,1e3} '
       'x add_constant{none,sparse diag,sparse non-symmetric,dense} x matrix_type{default,csc,csr,coo,csc_array,csr_array,recording dense constructor} on 2x2 (2 dofs/node) and 1x2x1 (1 dof/node); '
       '(B) 13 domains [quick] / 23 [thorough] up to 2x4 / 2x2x2 (7x3 / 2x3x4), dofs per node 1..3, element matrix real/int/complex x scaling vector positive/ones/with zeros/mixed sign/int/complex, options rotating; '
       '(C) 600 [quick] / 8000 [thorough] random combinations of everything; each case also: operands unmodified, second response after the caller overwrote the first result')
def general_scatter(r, tier, seed):
    k = 0
    for (dom, ndof) in (((2, 2, 0), 2), ((1, 2, 1), 1)):
        for bc, bd, const, mt in itertools.product(BCS, BCDIAG, CONSTS, MTYPES):
            if not _admissible(const, mt):
                continue
            k += 1
            run(r, cs.case_general, dict(nx=dom[0], ny=dom[1], nz=dom[2], h=SIZES[k % 4], ndof=ndof, elkind='real', xkind='pos', bckind=bc, bcdiag=bd,
                                         constkind=const, mtype=mt, seed=seed + k))
    combos = [c for c in itertools.product(BCS, BCDIAG, CONSTS, MTYPES) if _admissible(c[2], c[3])]
    for dom in domains(tier):
        for ndof in (1, 2, 3):
            for ek, xk in itertools.product(ELK, XK):
                k += 1
                bc, bd, const, mt = combos[(k * 37) % len(combos)]
                run(r, cs.case_general, dict(nx=dom[0], ny=dom[1], nz=dom[2], h=SIZES[k % 4], ndof=ndof, elkind=ek, xkind=xk, bckind=bc, bcdiag=bd,
                                             constkind=const, mtype=mt, seed=seed + k))
    rng = np.random.default_rng(seed + 11)
    doms = domains(tier)
    for _ in range(600 if tier == 'quick' else 8000):
        k += 1
        dom = doms[rng.integers(len(doms))]
        bc, bd, const, mt = combos[rng.integers(len(combos))]
        run(r, cs.case_general, dict(nx=dom[0], ny=dom[1], nz=dom[2], h=SIZES[rng.integers(4)], ndof=int(rng.integers(1, 4)), elkind=ELK[rng.integers(3)],
                                     xkind=XK[rng.integers(6)], bckind=bc, bcdiag=bd, constkind=const, mtype=mt, seed=seed + k))


MATS = [(1.0, 0.3, 'strain'), (210e9, 0.3, 'stress'), (1e-3, 0.0, 'Stress'), (2.0, -0.4, 'strain'), (5.0, 0.49, 'stress'), (7.0, 0.45, 'STRAIN'), (3.0, 0.25, 'stress'), (None, None, None)]


@bound('AssembleStiffness on 13 domains [quick] / 23 [thorough] x 4 element-size triples (unit, anisotropic, thin, 1e-2 scale; 2-D thickness = third size) x materials '
       '(E,nu,plane) in {(1,.3,strain),(210e9,.3,stress),(1e-3,0,Stress),(2,-.4,strain),(5,.49,stress),(7,.45,STRAIN),(3,.25,stress), all three omitted (defaults 1, .3, strain)} x x{positive,ones,with exact zeros,mixed sign} '
       'x bc{none,random,first,all,int32,list,empty} x bcdiagval{default = largest element entry,0,1e3} x {keyword, positional pass-through} (rotating through the product), matrix_type{default,csr,coo,csc_array}; clauses: = scatter of the exact element integral, symmetric, PSD (x>=0), '
       '3/6 rigid motions annihilated, affine-field energy = sum x_e V_e eps:D:eps with D from the inverse compliance')
def stiffness(r, tier, seed):
    k = 0
    xks = ['pos', 'ones', 'zeros', 'neg']
    opts = [(bc, bd, pos) for bc in (None, 'rand', 'first', 'all', 'int32', 'list', 'empty') for bd in (None, 0.0, 1e3) for pos in (False, True)] + [(None, None, False)] * 20
    for dom in domains(tier):
        for h in SIZES:
            for (E, nu, plane) in MATS:
                if dom[2] > 0 and plane in ('Stress', 'STRAIN', 'stress') and (E, nu) not in ((210e9, 0.3), (5.0, 0.49)):
                    continue      # the plane mode is irrelevant in 3-D: keep one spelling per material
                for xk in (xks + xks if tier != 'quick' else [xks[k % 4], xks[(k + 1) % 4]]):
                    k += 1
                    bc, bd, pos = opts[(k * 29) % len(opts)]
                    run(r, cs.case_stiffness, dict(nx=dom[0], ny=dom[1], nz=dom[2], h=h, E=E, nu=nu, plane=plane, xkind=xk, bckind=bc, bcdiag=bd, positional=pos, mtype=MT4[k % 7 % 4 if k % 7 < 4 else 0], seed=seed + k))


@bound('AssembleMass on the same domains x sizes, rho in {1, 2700, 1e-3}, dofs per node 1..3 (also != dim), both omitted (defaults 1.0, one dof), x{positive,with zeros,mixed sign}, bc{none,random,last,int32,all} x '
       'bcdiagval{default 0, 1, -2} x {keyword, positional bc} (rotating through the product); clauses: = scatter of rho * exact integral of N^T N (2-D: times thickness), 1_a^T M 1_b = delta_ab rho V sum(x)')
def mass(r, tier, seed):
    k = 0
    xks = ['pos', 'zeros', 'neg']
    opts = [(bc, bd, pos) for bc in (None, 'rand', 'last', 'int32', 'all') for bd in (None, 1.0, -2.0) for pos in (False, True)] + [(None, None, False)] * 10
    for dom in domains(tier):
        for h in SIZES:
            for rho in (1.0, 2700.0, 1e-3, None):
                for ndof in ((1, 2, 3) if rho is not None else (None,)):
                    for rep in range(1 if tier == 'quick' else 4):
                        k += 1
                        bc, bd, pos = opts[(k * 29) % len(opts)]
                        run(r, cs.case_mass, dict(nx=dom[0], ny=dom[1], nz=dom[2], h=h, rho=rho, ndof=ndof, xkind=xks[k % 3], bckind=bc, bcdiag=bd, positional=pos, mtype=MT4[k % 7 % 4 if k % 7 < 4 else 0], seed=seed + k))


@bound('AssemblePoisson on the same domains x sizes, conductivity in {1, 400, 1e-3, integer 2, omitted (default 1.0)}, x{positive,with zeros,mixed sign}, bc{none,random,first,all,list} x bcdiagval{default largest element entry, 0, 5} x {keyword, positional bc} (rotating through the product); '
       'clauses: = scatter of k * exact integral of grad N.grad N (2-D: times thickness), P 1 = 0, u_lin^T P u_lin = k V |g|^2 sum(x)')
def poisson(r, tier, seed):
    k = 0
    xks = ['pos', 'zeros', 'neg']
    opts = [(bc, bd, pos) for bc in (None, 'rand', 'first', 'all', 'list') for bd in (None, 0.0, 5.0) for pos in (False, True)] + [(None, None, False)] * 10
    for dom in domains(tier):
        for h in SIZES:
            for kappa in (1.0, 400.0, 1e-3, 2, None):
                for rep in range(2 if tier == 'quick' else 8):
                    k += 1
                    bc, bd, pos = opts[(k * 29) % len(opts)]
                    run(r, cs.case_poisson, dict(nx=dom[0], ny=dom[1], nz=dom[2], h=h, kappa=kappa, xkind=xks[k % 3], bckind=bc, bcdiag=bd, positional=pos, mtype=MT4[k % 7 % 4 if k % 7 < 4 else 0], seed=seed + k))


@bound('one module object per (kind in general/stiffness/mass/poisson) x domain in {2x2, 3x1, 1x1x2, 2x2x1} [+ 5x4, 3x3x2 thorough] x bc{none,random} x constant{none,sparse}: 9 response() calls '
       '(set, repeat, change, reset(), caller re-uses and overwrites its buffer twice (second time without re-assigning the state), back to first, all-zero x, change) while the caller overwrites each returned matrix and a second module '
       'with another dof count shares the domain; every call must equal the dense reference of the current x')
def histories(r, tier, seed):
    k = 0
    doms = [(2, 2, 0), (3, 1, 0), (1, 1, 2), (2, 2, 1)] + ([(5, 4, 0), (3, 3, 2)] if tier != 'quick' else [])
    for kind in ('general', 'stiffness', 'mass', 'poisson'):
        for dom in doms:
            for bc in (None, 'rand'):
                for const in (None, 'sparse'):
                    for ndof in ((1, 2, 3) if kind in ('general', 'mass') else (1,)):
                        k += 1
                        run(r, cs.case_history, dict(kind=kind, nx=dom[0], ny=dom[1], nz=dom[2], h=SIZES[k % 4], ndof=ndof, bckind=bc, constkind=const, seed=seed + k))


@bound('get_B: dim 2 and 3 (3-D: voigt and standard order), 4 element sizes, 4 random points per case inside the element, 5 [quick] / 60 [thorough] cases per combination, shape-function gradients from an own formula, random affine fields; '
       'get_D: E in {1, 210e9, 1e-3}, nu in {0.3, 0, -0.4, 0.49, 0.25}, mode strings strain/stress/3d/3D/Strain/plane stress')
def kinematics_constitutive(r, tier, seed):
    k = 0
    for dim in (2, 3):
        for h in SIZES:
            for voigt in ((True, False) if dim == 3 else (True,)):
                for rep in range(5 if tier == 'quick' else 60):
                    k += 1
                    run(r, cs.case_kinematics, dict(dim=dim, h=h, voigt=voigt, seed=seed + k))
    for E in (1.0, 210e9, 1e-3):
        for nu in (0.3, 0.0, -0.4, 0.49, 0.25):
            for mode in ('strain', 'stress', '3d', '3D', 'Strain', 'plane stress'):
                run(r, cs.case_constitutive, dict(E=E, nu=nu, mode=mode))


@bound('AssembleGeneral sensitivity (adjoint of the stated map) on {2x2, 3x1, 1x2x1, 2x2x2 [+3x3x2 thorough]} x dofs/node 1..3 x bc{none,random,int32} x dense / DyadCarrier, real / complex output sensitivities')
def sensitivity(r, tier, seed):
    k = 0
    doms = [(2, 2, 0), (3, 1, 0), (1, 2, 1), (2, 2, 2)] + ([(3, 3, 2)] if tier != 'quick' else [])
    for dom in doms:
        for ndof in (1, 2, 3):
            for bc in (None, 'rand', 'int32'):
                for carrier in (False, True):
                    for cplx in (False, True):
                        k += 1
                        run(r, cs.case_sensitivity, dict(nx=dom[0], ny=dom[1], nz=dom[2], h=SIZES[k % 4], ndof=ndof, bckind=bc, carrier=carrier, cplx=cplx, seed=seed + k))


CHECKS = [('kinematics_constitutive', kinematics_constitutive), ('general_scatter', general_scatter), ('stiffness', stiffness), ('mass', mass), ('poisson', poisson),
          ('histories', histories), ('sensitivity', sensitivity)]
