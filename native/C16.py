"""C16 bounded stand-ins: active set against an exact Fraction reference; scaling recurrence over call sequences; bounds of the three
aggregation functions on generated positive data (these numerical statements are outside the real-arithmetic proof)."""
import itertools
from fractions import Fraction as F
import math
import numpy as np
import pymoto as pym
from native.util import bound, REPLAY_HEAD


def ref_active(x, lr, ur, la, ua):
    n = len(x)
    xs = [F(v) for v in x]
    mn, mx = min(xs), max(xs)
    if mn == mx:
        return None
    order = sorted(range(n), key=lambda i: xs[i])
    rank = {i: k for k, i in enumerate(order)}
    nlo = math.floor(n * F(la)) if la > 0 else 0
    nup = math.floor(n * (1 - F(ua))) if ua < 1 else 0
    out = []
    for i in range(n):
        xr = (xs[i] - mn) / (mx - mn)
        ok = (not lr > 0 or xr >= F(lr)) and (not ur < 1 or xr <= F(ur)) and rank[i] >= nlo and rank[i] < n - nup
        out.append(ok)
    return out


@bound('n = 1..9 [quick] / 1..14 [thorough], distinct dyadic data in 3 orders, fractions on the 1/8 grid (exact in binary); exact Fraction reference')
def active_set(r, tier, seed):
    rng = np.random.default_rng(seed)
    nmax = 9 if tier == 'quick' else 14
    grid = [k / 8 for k in range(0, 9)]
    for n in range(1, nmax + 1):
        base = np.arange(n) * 0.25 + 1.0
        for x in (base, base[::-1].copy(), rng.permutation(base)):
            for la, ua in itertools.product(grid, grid):
                if not ua > la:
                    continue
                for lr, ur in ((0.0, 1.0), (0.25, 1.0), (0.0, 0.625), (0.125, 0.875)):
                    got = pym.AggActiveSet(lr, ur, la, ua)(x)
                    want = ref_active(x.tolist(), lr, ur, la, ua)
                    r.case((n, la, ua, lr, ur))
                    ok = (got is Ellipsis and want is None) or (want is not None and got is not Ellipsis and list(np.asarray(got)) == want)
                    r.check(ok, 'active set mask', dict(x=x, lower_rel=lr, upper_rel=ur, lower_amt=la, upper_amt=ua), None if got is Ellipsis else np.asarray(got), want,
                            replay_code=REPLAY_HEAD + f"x=np.array({x.tolist()})\ngot=pym.AggActiveSet({lr},{ur},{la},{ua})(x)\nwant={want}\nassert (want is None and got is Ellipsis) or list(got)==want, (got, want)\n")
        flat = np.full(n, 2.5)
        r.check(pym.AggActiveSet(0.1, 0.9, 0.1, 0.9)(flat) is Ellipsis, 'flat data gives Ellipsis', n)


def aggs(p):
    return {'PNorm': (pym.PNorm, lambda x: float(np.sum(np.abs(x) ** p) ** (1 / p))),
            'KSFunction': (pym.KSFunction, lambda x: float(np.log(np.sum(np.exp(p * (x - x.max() if p > 0 else x - x.min())))) / p + (x.max() if p > 0 else x.min()))),
            'SoftMinMax': (pym.SoftMinMax, lambda x: float(np.sum(x * np.exp(p * (x - (x.max() if p > 0 else x.min())))) / np.sum(np.exp(p * (x - (x.max() if p > 0 else x.min()))))))}


@bound('n in {1,2,3,7,20}, parameters +-{2,8,30}, positive data on 3 scales; dampings {0,0.3,0.9}; sequences of 6 response() calls with repeated inputs')
def scaling_and_bounds(r, tier, seed):
    rng = np.random.default_rng(seed + 1)
    for n in (1, 2, 3, 7, 20):
        for scale in (1.0, 0.01, 50.0):
            xs = [scale * (0.2 + rng.random(n)) for _ in range(3)]
            seq = [xs[0], xs[1], xs[1], xs[1], xs[2], xs[0]]
            for par in (2.0, 8.0, 30.0, -2.0, -8.0, -30.0):
                for name, (cls, f) in aggs(par).items():
                    if name != 'PNorm' and abs(par) * scale * 1.2 > 600:
                        continue
                    # bounds of the unscaled aggregation
                    x = xs[0]
                    s = pym.Signal('x', x)
                    m = cls(s, pym.Signal('y'), par)
                    m.response()
                    y = float(m.sig_out[0].state)
                    mx, mn, mean = x.max(), x.min(), x.mean()
                    tol = 1e-9 * max(1.0, abs(mx))
                    if name == 'PNorm':
                        ok = (mx - tol <= y <= n ** (1 / par) * mx + tol) if par > 0 else (n ** (1 / par) * mn - tol <= y <= mn + tol)
                    elif name == 'KSFunction':
                        ok = (mx - tol <= y <= mx + math.log(n) / par + tol) if par > 0 else (mn + math.log(n) / par - tol <= y <= mn + tol)
                    else:
                        ok = (mean - tol <= y <= mx + tol) if par > 0 else (mn - tol <= y <= mean + tol)
                    r.case((name, n, scale, par))
                    code = REPLAY_HEAD + f"x=np.array({x.tolist()})\nm=pym.{name}(pym.Signal('x',x),pym.Signal('y'),{par})\nm.response()\nprint(m.sig_out[0].state, x.min(), x.mean(), x.max())\nassert abs(m.sig_out[0].state-({f(x)!r}))<=1e-9*max(1,abs({f(x)!r}))\n"
                    r.check(ok and np.isfinite(y), f'{name} within its bounds of the true extreme', dict(x=x, par=par), y, dict(min=mn, mean=mean, max=mx), replay_code=code)
                    r.check(abs(y - f(x)) <= 1e-9 * max(1.0, abs(f(x))), f'{name} equals its defining formula', dict(x=x, par=par), y, f(x), replay_code=code)
                    # damped scaling recurrence over a call sequence on one module
                    for d in (0.0, 0.3, 0.9):
                        which = 'max' if par > 0 else 'min'
                        s = pym.Signal('x', seq[0])
                        m = cls(s, pym.Signal('y'), par, scaling=pym.AggScaling(which, d))
                        sf = None
                        for k, xk in enumerate(seq):
                            s.state = xk
                            m.response()
                            true = xk.max() if par > 0 else xk.min()
                            sc = true / f(xk)
                            sf = sc if sf is None else d * sf + (1 - d) * sc
                            want = sf * f(xk)
                            got = float(m.sig_out[0].state)
                            good = abs(got - want) <= 1e-9 * max(1.0, abs(want)) and (d != 0.0 or abs(got - true) <= 1e-9 * max(1.0, abs(true)))
                            if not r.check(good, f'{name} scaling recurrence s_k = d*s_(k-1) + (1-d)*true/approx over a call sequence', dict(n=n, par=par, damping=d, call=k), got, want,
                                           replay_code=REPLAY_HEAD + f"seq={[v.tolist() for v in seq]}\ns=pym.Signal('x',np.array(seq[0]))\nm=pym.{name}(s,pym.Signal('y'),{par},scaling=pym.AggScaling('{which}',{d}))\nouts=[]\nfor xk in seq:\n    s.state=np.array(xk); m.response(); outs.append(float(m.sig_out[0].state))\nprint(outs)\nassert abs(outs[{k}]-({want!r}))<=1e-9*max(1,abs({want!r})), (outs[{k}], {want!r})\n"):
                                break


@bound('SoftMinMax with |alpha|*(max-min) far beyond the exp range (alpha = +-2500, data in [0.2,0.6], n in {2,5,40}); PNorm with |p| = 200')
def extreme_parameters(r, tier, seed):
    rng = np.random.default_rng(seed + 2)
    for n in (2, 5, 40):
        x = 0.2 + 0.4 * rng.random(n)
        x[0], x[-1] = 0.2, 0.6
        for alpha in (2500.0, -2500.0, 700.0, -700.0):
            m = pym.SoftMinMax(pym.Signal('x', x), pym.Signal('y'), alpha)
            m.response()
            y = float(m.sig_out[0].state)
            r.case((n, alpha))
            lo, hi = (x.mean(), x.max()) if alpha > 0 else (x.min(), x.mean())
            r.check(np.isfinite(y) and lo - 1e-12 <= y <= hi + 1e-12, 'SoftMinMax stays within [mean, max] / [min, mean] for large |alpha|', dict(x=x, alpha=alpha), y, [lo, hi],
                    replay_code=REPLAY_HEAD + f"x=np.array({x.tolist()})\nm=pym.SoftMinMax(pym.Signal('x',x),pym.Signal('y'),{alpha})\nm.response()\ny=float(m.sig_out[0].state)\nassert np.isfinite(y) and {lo!r}-1e-12<=y<={hi!r}+1e-12, y\n")
        for p in (200.0, -200.0):
            m = pym.PNorm(pym.Signal('x', x), pym.Signal('y'), p)
            m.response()
            y = float(m.sig_out[0].state)
            r.case((n, p))
            ok = (x.max() - 1e-12 <= y <= n ** (1 / p) * x.max() + 1e-12) if p > 0 else (n ** (1 / p) * x.min() - 1e-12 <= y <= x.min() + 1e-12)
            r.check(np.isfinite(y) and ok, 'PNorm bounds for large |p|', dict(x=x, p=p), y)


CHECKS = [('extreme_parameters', extreme_parameters), ('active_set', active_set), ('scaling_and_bounds', scaling_and_bounds)]
