"""C18 reference model: signals and slices as plain arrays addressed through explicit flat-index maps (no pymoto import).
This file is embedded verbatim into replay programs, so it only depends on numpy.

A history is (spec, ops):
  spec = [ {'state': VAL|None, 'sens': VAL|None, 'order': 'C'|'F'|'strided', 'slices': [chain, ...]}, ... ]   one entry per base signal
         chain = tuple of strings, each a Python expression of an index key (np available); len > 1 means nested slicing sig[k0][k1]..
  ops  = [ ('state', i, j, fresh, VAL) | ('sens', i, j, fresh, VAL|None) | ('add', i, j, fresh, VAL|None)
           | ('add2', (i, j, fresh), (i2, j2, fresh2), VAL) | ('reset', i, j, fresh, None|True|False) ]
         i = base signal, j = index into its slices (None: the base itself), fresh: use a newly created SignalSlice instead of the persistent one
  VAL  = ('f', x) python float | ('c', re, im) python complex | ('s', dtype, re[, im]) numpy scalar | ('a', dtype, shape, re-list, im-list|None) array
"""
import numpy as np


def dec(v):
    if v is None:
        return None
    k = v[0]
    if k == 'f':
        return float(v[1])
    if k == 'c':
        return complex(v[1], v[2])
    if k == 's':
        return np.dtype(v[1]).type(v[2] if len(v) == 3 else complex(v[2], v[3]))
    a = np.array(v[3], dtype=float)
    if v[4] is not None:
        a = a + 1j * np.array(v[4], dtype=float)
    return a.astype(v[1]).reshape(v[2])


def layout(a, order):
    """memory layout of the array handed to the real Signal (values identical)"""
    if not isinstance(a, np.ndarray) or a.ndim == 0 or order == 'C':
        return a
    if order == 'F':
        return np.asfortranarray(a)
    big = np.full(tuple(2 * n + 1 for n in a.shape), 9.25, dtype=a.dtype)
    view = big[tuple(slice(1, 2 * n + 1, 2) for n in a.shape)]
    view[...] = a
    return view


def key(s):
    return eval(s, {'np': np})


def imap(shape, chain):
    """flat positions (C order) of the entries selected by the chain of keys, in the shape of the selection"""
    idx = np.arange(int(np.prod(shape, dtype=int))).reshape(shape)
    for s in chain:
        idx = idx[key(s)]
    return np.asarray(idx)


def put(a, chain, val, add=False):
    idx = imap(a.shape, chain)
    flat = a.reshape(-1)
    assert np.shares_memory(flat, a) or a.size == 0
    b = np.broadcast_to(val, idx.shape).reshape(-1)
    p = idx.reshape(-1)
    assert len(set(p.tolist())) == p.size, 'reference model requires index keys without repeats'
    flat[p] = (flat[p] + b) if add else b


class Ref:
    def __init__(self, state, sens):
        self.state, self.sens, self.keep = state, sens, sens is not None

    def sel(self, which, chain):
        a = getattr(self, which)
        if a is None:
            return None
        a = np.asarray(a)
        r = a.reshape(-1)[imap(a.shape, chain)]
        return r

    def set_state(self, chain, val):
        if chain is None:
            self.state = val
        else:
            put(self.state, chain, val)

    def _alloc(self):
        st = np.asarray(self.state)
        self.sens = np.zeros(st.shape, dtype=st.dtype)

    def set_sens(self, chain, val):
        if chain is None:
            self.sens = val
            return
        if self.sens is None:
            if val is None:
                return
            self._alloc()
        put(self.sens, chain, 0 if val is None else val)

    def add(self, chain, ds):
        if ds is None:
            return
        if chain is None:
            if self.sens is None:
                self.sens = ds.copy() if isinstance(ds, np.ndarray) else ds
            elif isinstance(self.sens, np.ndarray):
                new = self.sens + ds
                assert new.shape == self.sens.shape
                self.sens = np.asarray(new).astype(self.sens.dtype)
            else:
                self.sens = self.sens + ds
            return
        if self.sens is None:
            self._alloc()
        put(self.sens, chain, ds, add=True)

    def reset(self, chain, keep):
        if self.sens is None:
            return
        if chain is not None:
            put(self.sens, chain, 0)
            return
        if (self.keep if keep is None else keep):
            if isinstance(self.sens, np.ndarray):
                self.sens = np.zeros(self.sens.shape, dtype=self.sens.dtype)
            else:
                self.sens = self.sens * 0
        else:
            self.sens = None


def same(a, b):
    if a is None or b is None:
        return a is None and b is None
    a_, b_ = np.asarray(a), np.asarray(b)
    return a_.shape == b_.shape and a_.dtype == b_.dtype and bool(np.array_equal(a_, b_))


def cp(v):
    return v.copy() if isinstance(v, np.ndarray) else v


def show(v):
    return None if v is None else (np.asarray(v).tolist() if np.asarray(v).size <= 40 else str(np.asarray(v).shape))


def run_history(pym, spec, ops):
    """apply ops to real pymoto signals and to the reference; return None or the first disagreement (a dict)"""
    sigs, refs, pers = [], [], []
    for n, s in enumerate(spec):
        st, se = dec(s['state']), dec(s.get('sens'))
        if se is None:
            sig = pym.Signal(f's{n}', layout(cp(st), s['order']))
        else:
            sig = pym.Signal(f's{n}', layout(cp(st), s['order']), sensitivity=cp(se))
        sigs.append(sig)
        refs.append(Ref(cp(st), cp(se)))
        pers.append([mk(sig, c) for c in s['slices']])

    def tgt(i, j, fresh):
        if j is None:
            return sigs[i], None
        c = spec[i]['slices'][j]
        if fresh:
            last.append((i, c, mk(sigs[i], c)))
            return last[-1][2], c
        return pers[i][j], c

    ctx = {'alloc': False}   # does the current operation have to create the base sensitivity through a slice?
    last = []   # freshly created slice objects used by the current operation: read through them as well

    def observe(all_fresh=False):
        for i, (sig, ref) in enumerate(zip(sigs, refs)):
            if not same(sig.state, ref.state):
                return dict(what='base state differs from the plain-array reference', signal=i, observed=show(sig.state), expected=show(ref.state))
            if not same(sig.sensitivity, ref.sens):
                return dict(what='base sensitivity differs from the plain-array reference', signal=i, observed=show(sig.sensitivity), expected=show(ref.sens))
            if isinstance(sig.sensitivity, np.ndarray) and isinstance(sig.state, np.ndarray) and np.shares_memory(sig.sensitivity, sig.state):
                return dict(what='sensitivity storage aliases the state storage', signal=i)
            views = [('persistent', c, pers[i][j]) for j, c in enumerate(spec[i]['slices'])] + [('fresh', c, sl) for (ii, c, sl) in last if ii == i]
            if all_fresh:   # (creating a SignalSlice costs milliseconds in pymoto: inspect.stack(); so not after every operation)
                views += [('fresh', c, mk(sig, c)) for c in spec[i]['slices']]
            for lab, c, sl in views:
                if not same(sl.state, ref.sel('state', c)):
                    return dict(what=f'{lab} slice reads other state entries than base[key]', signal=i, slice=c, observed=show(sl.state), expected=show(ref.sel('state', c)))
                if not same(sl.sensitivity, ref.sel('sens', c)):
                    return dict(what=f'{lab} slice reads other sensitivity entries than base[key]', signal=i, slice=c, observed=show(sl.sensitivity), expected=show(ref.sel('sens', c)))
        return None

    def step(op):
        f = None
        name = op[0]
        ctx['alloc'] = False
        if name == 'state':
            _, i, j, fresh, v = op
            t, c = tgt(i, j, fresh)
            val = dec(v)
            t.state = layout(cp(val), spec[i]['order']) if c is None else cp(val)
            refs[i].set_state(c, cp(val))
        elif name == 'sens':
            _, i, j, fresh, v = op
            t, c = tgt(i, j, fresh)
            val = dec(v)
            ctx['alloc'] = c is not None and val is not None and refs[i].sens is None
            t.sensitivity = cp(val)
            refs[i].set_sens(c, cp(val))
        elif name in ('add', 'add2'):
            targets = [op[1:4]] if name == 'add' else [op[1], op[2]]
            ds = dec(op[-1])
            ds0 = cp(ds)
            for (i, j, fresh) in targets:
                t, c = tgt(i, j, fresh)
                ctx['alloc'] = c is not None and ds is not None and refs[i].sens is None
                t.add_sensitivity(ds)
                refs[i].add(c, ds0)
                if ds is not None and not same(ds, ds0):
                    f = dict(what='add_sensitivity wrote into the value it was given', observed=show(ds), expected=show(ds0))
                if isinstance(ds, np.ndarray) and isinstance(sigs[i].sensitivity, np.ndarray) and np.shares_memory(ds, sigs[i].sensitivity):
                    f = dict(what='the signal retains (aliases) the value passed to add_sensitivity', signal=i)
            if isinstance(ds, np.ndarray):
                ds[...] = 99.5  # the caller re-uses its array afterwards
        elif name == 'reset':
            _, i, j, fresh, keep = op
            t, c = tgt(i, j, fresh)
            before = sigs[i].sensitivity
            t.reset() if keep is None else t.reset(keep_alloc=keep)
            eff = refs[i].keep if keep is None else keep
            refs[i].reset(c, keep)
            if before is not None and c is None and not eff and sigs[i].sensitivity is not None:
                f = dict(what='reset without keep_alloc must clear the sensitivity (None)', signal=i, observed=show(sigs[i].sensitivity))
            if isinstance(before, np.ndarray) and (c is not None or eff) and sigs[i].sensitivity is not before:
                f = dict(what='reset must zero in place (keep_alloc / slice reset): the base sensitivity object was replaced', signal=i)
        else:
            raise ValueError(name)
        return f

    f = observe()
    if f:
        return dict(f, op_index=-1, op='initial')
    for k, op in enumerate(ops):
        try:
            del last[:]
            f = step(op)
            f = f or observe(k == len(ops) - 1)
        except Exception as e:
            f = dict(what=f'admissible operation (or the read after it) raised {type(e).__name__}: {str(e)[:160]}', alloc_through_slice=ctx['alloc'])
        if f:
            return dict(f, op_index=k, op=op)
    return None


def mk(sig, chain):
    o = sig
    for s in chain:
        o = o[key(s)]
    return o
