"""C07 bounded stand-ins: the defining equations of LinSolve, Inverse, SystemOfEquations and StaticCondensation evaluated on the real
modules over generated matrices of every class.  References are dense LAPACK solves (np.linalg.solve) on diagonally dominant data
(condition number O(n)), so 1e-9 relative is > 1e4 x the expected rounding error and far below any structural error."""
import itertools
import warnings
import numpy as np
import scipy.sparse as sps
import pymoto as pym
import pymoto.solvers as pys
from native.util import bound, REPLAY_HEAD
from native.C07_gen import (gen_matrix, CONTAINERS, SPARSE, REAL_CLASSES, CPLX_CLASSES, SYMMETRIC, HERMITIAN, POSDEF, dense_of, lit, mat_lit,
                            same_values, partitions_all, REPLAY_IMPORTS)

warnings.filterwarnings('ignore')
NS = {k: getattr(pys, k) for k in pys.__all__}
TOL = 1e-9
HEAD = REPLAY_HEAD + REPLAY_IMPORTS
HELP = ("def mx(a):\n    a=np.asarray(a)\n    return float(np.abs(a).max()) if a.size else 0.0\n"
        "def dense(M):\n    return M.toarray() if sps.issparse(M) else np.asarray(M)\n")


def mx(a):
    a = np.asarray(a)
    return float(np.abs(a).max()) if a.size else 0.0


class Lazy:
    """Recorder proxy: replay programs are given as zero-argument callables and only rendered for a failing check."""
    def __init__(self, r):
        self.r = r

    def case(self, key=None):
        self.r.case(key)

    def check(self, cond, what, inputs, observed=None, expected=None, replay_code=None, finding=None):
        if cond:
            return True
        if callable(replay_code):
            replay_code = replay_code()
        return self.r.check(False, what, inputs, observed, expected, replay_code, finding)


def lazy(fn):
    def wrapped(r, tier, seed):
        return fn(Lazy(r), tier, seed)
    wrapped.__name__ = fn.__name__
    wrapped.__doc__ = fn.__doc__
    return wrapped


_SIG = {}


def shared(name):
    """Input signals are plain state holders; they are re-used between independent cases (constructing one costs a stack inspection)."""
    if name not in _SIG:
        _SIG[name] = pym.Signal(name)
    return _SIG[name]


def sizes(tier, quick, thorough):
    return quick if tier == 'quick' else thorough


def is_cplx(*a):
    return any(np.iscomplexobj(x) for x in a)


# ------------------------------------------------------------------------------------------------------------------ LinSolve
def make_linsolve(M, b, kw_src='', lda=True):
    kw = eval(f"dict({kw_src})", dict(NS))
    sA, sb = shared('A'), shared('b')
    sA.state, sb.state = M, b
    m = pym.LinSolve([sA, sb], **kw)
    if not lda:
        m.use_lda_solver = False
    return m


def linsolve_replay(M, b, kw_src, lda, tol=TOL):
    return (HEAD + HELP + f"A={mat_lit(M)}\nb={lit(b)}\n"
            f"m=pym.LinSolve([pym.Signal('A',A),pym.Signal('b',b)]{', ' + kw_src if kw_src else ''})\n"
            + ("" if lda else "m.use_lda_solver=False\n") +
            "D=dense(A).copy(); b0=b.copy()\nm.response()\nx=m.sig_out[0].state\nxr=np.linalg.solve(D,b0)\n"
            "assert np.array_equal(dense(A),D) and np.array_equal(b,b0), 'operand modified'\n"
            "assert x.shape==b.shape, x.shape\n"
            f"assert mx(x-xr)<={tol}*max(1,mx(xr)), ('x differs from the dense reference', mx(x-xr))\n"
            f"assert mx(D@x-b)<={tol}*(mx(D)*D.shape[0]*mx(x)+mx(b)), ('residual', mx(D@x-b))\n"
            "assert (x.dtype.kind=='c')==(np.iscomplexobj(D) or np.iscomplexobj(b)), x.dtype\n")


def verify_x(r, what, key, D, b, x, replay, tol=TOL, finding=None):
    """Clauses of 'x solves A x = b' for one evaluated case; returns True when all hold."""
    ok = True
    if not isinstance(x, np.ndarray) or x.shape != b.shape:
        return r.check(False, f'{what}: solution has the shape of the right-hand side', key, getattr(x, 'shape', type(x).__name__), b.shape, replay_code=replay, finding=finding)
    xr = np.linalg.solve(D, b)
    err = mx(x - xr)
    ok &= r.check(np.all(np.isfinite(x)) and err <= tol * max(1.0, mx(xr)), f'{what}: x equals the dense reference solution', key, err, tol * max(1.0, mx(xr)), replay_code=replay, finding=finding)
    res = mx(D @ x - b)
    ok &= r.check(res <= tol * (mx(D) * D.shape[0] * mx(x) + mx(b)), f'{what}: A x = b (residual)', key, res, 0.0, replay_code=replay, finding=finding)
    want_c = is_cplx(D, b)
    ok &= r.check((x.dtype.kind == 'c') == want_c and x.dtype.itemsize == (16 if want_c else 8), f'{what}: result dtype is double precision, complex iff matrix or rhs is complex', key, str(x.dtype), 'complex128' if want_c else 'float64', replay_code=replay, finding=finding)
    return ok


def rhs_set(n, rng, cplx_ok):
    v = rng.uniform(-1, 1, n)
    B = rng.uniform(-1, 1, (n, 3))
    out = [('vec', v), ('col1', v.reshape(n, 1).copy()), ('blk3', B),
           ('blk_zero_col', np.stack([B[:, 0], np.zeros(n), B[:, 1]], axis=1)),
           ('blk_dependent', np.stack([B[:, 0], B[:, 1], 2.0 * B[:, 0], B[:, 0] - B[:, 1]], axis=1)),
           ('zero', np.zeros(n)), ('unit_last', np.eye(n)[:, n - 1].copy()),
           ('int', np.arange(1, n + 1)), ('f32', v.astype(np.float32)),
           ('blk_F', np.asfortranarray(B)), ('blk_strided', rng.uniform(-1, 1, (2 * n, 3))[::2])]
    if cplx_ok:
        out += [('cvec', v + 1j * rng.uniform(-1, 1, n)), ('cblk', B + 1j * rng.uniform(-1, 1, (n, 3)))]
    return out


def run_linsolve_case(r, what, key, M, b, kw_src='', lda=True, tol=TOL, finding=None):
    D0 = dense_of(M).copy()
    b0 = b.copy()
    def replay():
        return linsolve_replay(M, b, kw_src, lda, tol)
    r.case(key)
    try:
        m = make_linsolve(M, b, kw_src, lda)
        m.response()
        x = m.sig_out[0].state
    except Exception as e:
        r.check(False, f'{what}: response() raised', key, f'{type(e).__name__}: {str(e)[:160]}', 'a solution', replay_code=replay, finding=finding)
        return None
    verify_x(r, what, key, D0, b0, x, replay, tol, finding)
    r.check(same_values(M, D0) and np.array_equal(b, b0) and b.dtype == b0.dtype, f'{what}: matrix and right-hand side operands are not modified', key, replay_code=replay, finding=finding)
    r.check(not np.shares_memory(x, b), f'{what}: solution does not alias the right-hand side', key, replay_code=lambda: replay() + "assert not np.shares_memory(x,b)\n", finding=finding)
    return m


@bound('LinSolve: 18 matrix classes (real: general, SPD, negative definite, symmetric indefinite, banded, upper/lower triangular, diagonal, row-permuted (pivoting needed), '
       'symmetric with zero diagonal; complex: general, symmetric, Hermitian PD, Hermitian indefinite, diagonal, row-permuted, Hermitian / symmetric with zero diagonal) x containers {ndarray C/F order, csc, csr, coo, csr_array, dia} x '
       'n in {1,2,4,8} [quick] / {1..6,9,14,24} [thorough] x 11 real rhs kinds (vector, (n,1), (n,3), zero column, dependent columns, zero, unit, '
       'int64, float32, F-order, strided) + 2 complex rhs kinds where documented x LDAS on/off; reference np.linalg.solve')
@lazy
def linsolve_classes(r, tier, seed):
    ns = sizes(tier, (1, 2, 4, 8), (1, 2, 3, 4, 5, 6, 9, 14, 24))
    for n in ns:
        for ik, kind in enumerate(REAL_CLASSES + CPLX_CLASSES):
            rng = np.random.default_rng(seed + 1000 * n + ik)
            A = gen_matrix(kind, n, rng)
            for cname, conv in CONTAINERS.items():
                minor = cname in ('coo', 'dia', 'denseF', 'csr_array')
                if tier == 'quick' and minor and (n + ik) % 2:
                    continue
                M = conv(A)
                cplx_ok = not (cname in SPARSE and not np.iscomplexobj(A))   # documented TypeError otherwise (checked in linsolve_typeerror)
                for bname, b in rhs_set(n, rng, cplx_ok):
                    for lda in (True, False):
                        if tier == 'quick' and ((not lda and bname not in ('vec', 'blk3', 'cvec'))
                                                or (minor and bname not in ('vec', 'blk3', 'blk_zero_col', 'int', 'cvec')) or bname in ('unit_last', 'blk_F')):
                            continue
                        run_linsolve_case(r, 'LinSolve', (kind, cname, n, bname, lda), M, b, '', lda)


def decouple(A, idx, val, how):
    A = A.copy()
    for i in idx:
        if how in ('both', 'row'):
            A[i, :] = 0
        if how in ('both', 'col'):
            A[:, i] = 0
        A[i, i] = val
    return A


@bound('LinSolve on matrices with dofs decoupled by boundary conditions: classes {SPD, general, symmetric indefinite, complex symmetric, Hermitian PD} '
       'x n in {2,5} [quick] / {2,3,4,7,12} [thorough] x decoupled sets {first, last, two, all-but-one, all} x diagonal values {1, 2.5, -3} x '
       '{row+column, row only, column only} x {ndarray, csc, csr with explicitly stored zeros} x rhs {generic, only on decoupled dofs, block mixing both '
       'and a zero column} x LDAS on/off; plus FE stiffness matrices (2D 3x2, 3D 2x1x1, random densities, clamped face, bcdiagval default / 7.5) with '
       'loads on free and on clamped dofs')
@lazy
def linsolve_decoupled(r, tier, seed):
    ns = sizes(tier, (2, 5), (2, 3, 4, 7, 12))
    for n in ns:
        sets = {'first': [0], 'last': [n - 1], 'two': sorted({0, n // 2}), 'all_but_one': list(range(1, n)), 'all': list(range(n))}
        for ik, kind in enumerate(('spd', 'gen', 'sym_indef', 'csym', 'herm_pd')):
            rng = np.random.default_rng(seed + 77 * n + ik)
            A0 = gen_matrix(kind, n, rng)
            for (sname, idx), val, how in itertools.product(sets.items(), (1.0, 2.5, -3.0), ('both', 'row', 'col')):
                if tier == 'quick' and (val == -3.0 or sname == 'first' or ((how != 'both') and (val != 2.5 or sname == 'all'))):
                    continue
                A = decouple(A0, idx, val, how)
                rest = [i for i in range(n) if i not in idx]
                g = rng.uniform(-1, 1, n) + 0.1
                only = np.zeros(n)
                only[idx] = g[idx]
                blk = np.stack([only, g, np.zeros(n), g[::-1].copy()], axis=1)
                for cname in ('dense', 'csc', 'csr_explicit_zeros'):
                    if cname == 'csr_explicit_zeros':
                        M = sps.csr_matrix((A.ravel().copy(), np.tile(np.arange(n), n), np.arange(0, n * n + 1, n)), shape=(n, n))   # every entry stored
                    else:
                        M = CONTAINERS[cname](A)
                    for bname, b in (('generic', g), ('only_decoupled', only), ('mixed_block', blk)):
                        for lda in (True, False):
                            if tier == 'quick' and not lda and (cname == 'csr_explicit_zeros' or how != 'both'):
                                continue
                            run_linsolve_case(r, 'LinSolve (decoupled dofs)', (kind, n, sname, val, how, cname, bname, lda), M, b, '', lda)
    # FE-generated matrices with boundary conditions
    for dims, bcv in itertools.product(((3, 2, 0), (2, 1, 1)), (None, 7.5)):
        rng = np.random.default_rng(seed + 5 + sum(dims))
        dom = pym.DomainDefinition(*dims, 0.5, 1.5, 2.0)
        nd = dom.dim
        face = dom.get_nodenumber(*np.meshgrid(0, np.arange(dims[1] + 1), np.arange(dims[2] + 1), indexing='ij')).flatten()
        bc = (face[:, None] * nd + np.arange(nd)[None, :]).flatten()
        sx = pym.Signal('x', 0.3 + 0.7 * rng.random(dom.nel))
        kw = {} if bcv is None else dict(bcdiagval=bcv)
        mK = pym.AssembleStiffness(sx, domain=dom, bc=bc, **kw)
        mK.response()
        K = mK.sig_out[0].state
        nn = K.shape[0]
        g = rng.uniform(-1, 1, nn)
        free_only = g.copy()
        free_only[bc] = 0
        bc_only = g - free_only
        for bname, b in (('load_everywhere', g), ('load_on_free', free_only), ('load_on_clamped', bc_only), ('block', np.stack([free_only, bc_only, g], axis=1))):
            for lda in (True, False):
                run_linsolve_case(r, 'LinSolve (FE stiffness with bc)', ('FE', dims, bcv, bname, lda), K, b, '', lda, tol=1e-8)


OVERRIDES = [
    # (kw source, admissible classes, dense?, sparse?, tolerance)
    ("solver=SolverDenseQR()", None, True, False, TOL),
    ("solver=SolverDenseLU()", None, True, False, TOL),
    ("solver=SolverDenseLDL()", SYMMETRIC | HERMITIAN, True, False, TOL),
    ("solver=SolverDenseCholesky()", POSDEF | {'snd'}, True, False, TOL),
    ("solver=SolverDiagonal()", {'diag', 'cdiag'}, True, True, TOL),
    ("solver=SolverSparseLU()", None, False, True, TOL),
    ("solver=LDAWrapper(SolverDenseLU())", None, True, False, TOL),
    ("solver=LDAWrapper(SolverSparseLU())", None, False, True, TOL),
    ("solver=CG(tol=1e-13)", POSDEF, True, True, 1e-8),
    ("solver=CG(preconditioner=DampedJacobi(w=0.8), tol=1e-13)", POSDEF, True, True, 1e-8),
    ("solver=CG(preconditioner=SOR(w=1.0), tol=1e-13)", {'spd', 'band'}, False, True, 1e-8),
    ("solver=CG(preconditioner=ILU(), tol=1e-13)", {'spd', 'band'}, False, True, 1e-8),
    ("dep_tol=1e-3", None, True, True, TOL),
]


def flag_sources(kind):
    sym, her = kind in SYMMETRIC, kind in HERMITIAN
    return [f"hermitian={her}", f"symmetric={sym}", f"hermitian={her}, symmetric={sym}"]


@bound('LinSolve with every solver override available in this environment (DenseQR, DenseLU, DenseLDL, DenseCholesky incl. its LDL fallback on a negative '
       'definite matrix, Diagonal, SparseLU, pre-wrapped LDAWrapper, CG plain / DampedJacobi / SOR / ILU) on the classes each solver is documented for, '
       'and the hermitian= / symmetric= flags set to the true class; n in {1,4} [quick] / {1,2,3,4,8,15} [thorough]; containers ndarray, csc, csr; rhs '
       'vector, (n,3) block, complex vector where documented; LDAS on/off')
@lazy
def linsolve_overrides(r, tier, seed):
    ns = sizes(tier, (1, 4), (1, 2, 3, 4, 8, 15))
    for n in ns:
        for ik, kind in enumerate(REAL_CLASSES + CPLX_CLASSES):
            rng = np.random.default_rng(seed + 31 * n + ik)
            A = gen_matrix(kind, n, rng)
            specs = [(s, d, sp, t) for (s, cl, d, sp, t) in OVERRIDES if cl is None or kind in cl]
            specs += [(s, True, True, TOL) for s in flag_sources(kind)]
            for kw_src, on_dense, on_sparse, tol in specs:
                for cname in ('dense', 'csc', 'csr'):
                    if (cname == 'dense' and not on_dense) or (cname != 'dense' and not on_sparse):
                        continue
                    M = CONTAINERS[cname](A)
                    rhs = [('vec', rng.uniform(-1, 1, n)), ('blk3', rng.uniform(-1, 1, (n, 3)))]
                    if cname == 'dense' or np.iscomplexobj(A):
                        rhs.append(('cvec', rng.uniform(-1, 1, n) + 1j * rng.uniform(-1, 1, n)))
                    for bname, b in rhs:
                        for lda in (True, False):
                            if tier == 'quick' and not lda and bname == 'blk3':
                                continue
                            run_linsolve_case(r, f'LinSolve({kw_src})', (kind, n, kw_src, cname, bname, lda), M, b, kw_src, lda, tol)


@bound('LinSolve with CG overrides (plain, DampedJacobi, ILU; LDAS on/off) on a banded SPD matrix of n = 30 [quick] / 30, 80 [thorough] (ndarray, csc) whose block rhs mixes an '
       'eigenvector (converges in one iteration), a generic column and a smooth column: every column must reach the tolerance')
@lazy
def linsolve_cg_block(r, tier, seed):
    for n in sizes(tier, (30,), (30, 80)):
        rng = np.random.default_rng(seed + n)
        A = gen_matrix('band', n, rng)
        w, V = np.linalg.eigh(A)
        B = np.stack([V[:, 0], rng.uniform(-1, 1, n), np.linspace(0, 1, n)], axis=1)
        for cname in ('dense', 'csc'):
            for kw_src in ("solver=CG(tol=1e-12)", "solver=CG(preconditioner=DampedJacobi(w=0.8), tol=1e-12)", "solver=CG(preconditioner=ILU(), tol=1e-12)"):
                if 'ILU' in kw_src and cname == 'dense':
                    continue
                for lda in (True, False):
                    for bname, b in (('eigvec+generic block', B), ('generic+eigvec block', B[:, ::-1].copy()), ('vector', B[:, 1].copy())):
                        run_linsolve_case(r, f'LinSolve({kw_src})', (n, cname, kw_src, lda, bname), CONTAINERS[cname](A), b, kw_src, lda, 1e-8)


@bound('LinSolve with solver=CG(...) and a right-hand side that is zero or has a zero column (vector, (n,2) zero block, (n,3) block with one zero column); SPD ndarray / csc, n in {1,5}; '
       'LDAS on (must hold) and off (use_lda_solver=False: CG divides by |b| = 0)', finding='C07-cg-zero-rhs')
@lazy
def linsolve_cg_zero_rhs(r, tier, seed):
    for n in (1, 5):
        rng = np.random.default_rng(seed + n)
        A = gen_matrix('spd', n, rng)
        B = rng.uniform(-1, 1, (n, 3))
        B[:, 1] = 0
        for cname in ('dense', 'csc'):
            for bname, b in (('zero vector', np.zeros(n)), ('zero block', np.zeros((n, 2))), ('block with a zero column', B)):
                for lda in (True, False):
                    run_linsolve_case(r, 'LinSolve(solver=CG(tol=1e-12)), zero rhs column', (n, cname, bname, lda), CONTAINERS[cname](A), b, "solver=CG(tol=1e-12)", lda, 1e-8,
                                      finding=None if lda else 'C07-cg-zero-rhs')


@bound('the documented TypeError: raised for every real sparse container x complex rhs (vector, block), n in {1,3,6}; and NOT raised for real dense x '
       'complex rhs, complex sparse x complex rhs, real sparse x real rhs (those cases are solved and verified)')
@lazy
def linsolve_typeerror(r, tier, seed):
    for n in (1, 3, 6):
        rng = np.random.default_rng(seed + n)
        A = gen_matrix('gen', n, rng)
        C = gen_matrix('cgen', n, rng)
        cb = [rng.uniform(-1, 1, n) + 1j * rng.uniform(-1, 1, n), rng.uniform(-1, 1, (n, 2)) + 1j * rng.uniform(-1, 1, (n, 2))]
        for cname in SPARSE:
            for b in cb:
                for lda in (True, False):
                    M = CONTAINERS[cname](A)
                    r.case(('raises', cname, n, b.ndim, lda))
                    code = HEAD + f"A={mat_lit(M)}\nb={lit(b)}\nm=pym.LinSolve([pym.Signal('A',A),pym.Signal('b',b)])\ntry:\n    m.response()\nexcept TypeError:\n    sys.exit(0)\nassert False, 'no TypeError'\n"
                    try:
                        make_linsolve(M, b, '', lda).response()
                        r.check(False, 'complex rhs with a real sparse matrix raises TypeError', (cname, n, b.shape), 'no exception', 'TypeError', replay_code=code)
                    except TypeError:
                        pass
                    except Exception as e:
                        r.check(False, 'complex rhs with a real sparse matrix raises TypeError', (cname, n, b.shape), type(e).__name__, 'TypeError', replay_code=code)
                    run_linsolve_case(r, 'LinSolve (no TypeError expected)', ('ok-complex-sparse', cname, n, b.ndim, lda), CONTAINERS[cname](C), b, '', lda)
                    run_linsolve_case(r, 'LinSolve (no TypeError expected)', ('ok-real-sparse', cname, n, b.ndim, lda), CONTAINERS[cname](A), b.real.copy(), '', lda)
        for b in cb:
            run_linsolve_case(r, 'LinSolve (no TypeError expected)', ('ok-real-dense', n, b.ndim), A.copy(), b, '', True)


@bound('call sequences on ONE LinSolve object: classes {general, SPD, symmetric indefinite, Hermitian PD, complex general} x containers {ndarray, csc, csr} '
       'x n in {3,6} [quick] / {2,3,6,11} [thorough] x LDAS on/off (+ CG override for SPD): b1; b1 repeated; caller overwrites the returned array, then b2; '
       'new matrix of the same class (new object); matrix values changed in place; vector -> (n,2) block; block of the same width with new values; '
       'class changes that the chosen solver supports (non-symmetric -> SPD, full -> diagonal, real -> complex -> real)')
@lazy
def linsolve_histories(r, tier, seed):
    ns = sizes(tier, (3, 6), (2, 3, 6, 11))
    for n in ns:
        for ik, kind in enumerate(('gen', 'spd', 'sym_indef', 'herm_pd', 'cgen')):
            for cname in ('dense', 'csc', 'csr'):
                variants = [('', True, TOL), ('', False, TOL)]
                if kind == 'spd':
                    variants.append(("solver=CG(tol=1e-13)", True, 1e-8))
                for kw_src, lda, tol in variants:
                    rng = np.random.default_rng(seed + 13 * n + ik)
                    conv = CONTAINERS[cname]
                    A1, A2 = gen_matrix(kind, n, rng), gen_matrix(kind, n, rng)
                    cpl = np.iscomplexobj(A1)
                    def rv(*shape):
                        v = rng.uniform(-1, 1, shape)
                        return v + 1j * rng.uniform(-1, 1, shape) if cpl else v
                    b1, b2, B3, B4 = rv(n), rv(n), rv(n, 2), rv(n, 2)
                    key0 = (kind, cname, n, kw_src, lda)
                    sA, sb = pym.Signal('A', conv(A1)), pym.Signal('b', b1)
                    src = (f"A1={lit(A1)}\nA2={lit(A2)}\nconv={'np.array' if cname == 'dense' else 'sps.' + cname + '_matrix'}\n"
                           f"b1={lit(b1)}\nb2={lit(b2)}\nB3={lit(B3)}\nB4={lit(B4)}\nsA=pym.Signal('A',conv(A1)); sb=pym.Signal('b',b1)\n"
                           f"m=pym.LinSolve([sA,sb]{', ' + kw_src if kw_src else ''})\n" + ("" if lda else "m.use_lda_solver=False\n") +
                           f"def ok(D,b):\n    x=m.sig_out[0].state; xr=np.linalg.solve(D,b)\n    assert x.shape==b.shape and mx(x-xr)<={tol}*max(1,mx(xr)), mx(x-xr)\n")
                    try:
                        m = pym.LinSolve([sA, sb], **eval(f"dict({kw_src})", dict(NS)))
                        if not lda:
                            m.use_lda_solver = False
                        steps = []   # (name, replay lines, D, b)

                        def step(name, lines, D, b):
                            nonlocal src
                            src += lines + f"m.response(); ok({'A1' if D is A1 else 'A2' if D is A2 else 'Dk'},sb.state)\n"
                            m.response()
                            r.case(key0 + (name,))
                            verify_x(r, f'LinSolve history [{name}]', key0 + (name,), D, b, m.sig_out[0].state, HEAD + HELP + src, tol)

                        step('first', "", A1, b1)
                        step('repeat', "", A1, b1)
                        m.sig_out[0].state[...] = 1e3
                        sb.state = b2
                        step('caller overwrote the returned array; new rhs', "m.sig_out[0].state[...]=1e3; sb.state=b2\n", A1, b2)
                        r.check(np.array_equal(sb.state, b2), 'LinSolve history: rhs not modified', key0)
                        sA.state = conv(A2)
                        step('new matrix object', "sA.state=conv(A2)\n", A2, b2)
                        Dk = 2.0 * A2
                        if cname == 'dense':
                            sA.state[...] = Dk
                        else:
                            sA.state.data *= 2.0
                        src += "Dk=2.0*A2\n"
                        step('matrix values changed in place', "sA.state[...]=Dk\n" if cname == 'dense' else "sA.state.data*=2.0\n", Dk, b2)
                        if 'CG' in kw_src:   # vector -> block with an iterative solver: see linsolve_rhs_width_history
                            continue
                        sb.state = B3
                        step('vector -> block rhs', "sb.state=B3\n", Dk, B3)
                        sb.state = B4
                        step('block rhs, new values', "sb.state=B4\n", Dk, B4)
                        step('block rhs repeated', "", Dk, B4)
                    except Exception as e:
                        r.check(False, 'LinSolve history: response() raised', key0, f'{type(e).__name__}: {str(e)[:160]}', replay_code=HEAD + HELP + src)
    # class changes the first-chosen solver still supports
    for n in ns:
        for cname in ('dense', 'csc'):
            conv = CONTAINERS[cname]
            rng = np.random.default_rng(seed + 999 + n)
            chains = {'nonsym->spd->nonsym': ['gen', 'spd', 'gen'], 'full->diag->full': ['gen', 'diag', 'gen'],
                      'real->complex->real': ['gen', 'cgen', 'gen'], 'spd->sym_indef (Cholesky falls back)': ['spd', 'sym_indef', 'spd'],
                      'herm_pd->herm_indef': ['herm_pd', 'herm_indef']}
            for cn, chain in chains.items():
                for lda in (True, False):
                    mats = [gen_matrix(k, n, rng) for k in chain]
                    b = rng.uniform(-1, 1, n)
                    src = (f"mats=[{', '.join(lit(a) for a in mats)}]\nb={lit(b)}\nconv={'np.array' if cname == 'dense' else 'sps.csc_matrix'}\n"
                           f"sA=pym.Signal('A',conv(mats[0])); m=pym.LinSolve([sA,pym.Signal('b',b)])\n" + ("" if lda else "m.use_lda_solver=False\n") +
                           f"for D in mats:\n    sA.state=conv(D); m.response(); x=m.sig_out[0].state; xr=np.linalg.solve(D,b)\n    assert mx(x-xr)<={TOL}*max(1,mx(xr)), mx(x-xr)\n"
                           f"    assert (x.dtype.kind=='c')==np.iscomplexobj(D)\n")
                    try:
                        sA = pym.Signal('A', conv(mats[0]))
                        m = pym.LinSolve([sA, pym.Signal('b', b)])
                        if not lda:
                            m.use_lda_solver = False
                        for i, D in enumerate(mats):
                            sA.state = conv(D)
                            m.response()
                            r.case((cn, cname, n, lda, i))
                            verify_x(r, f'LinSolve history [{cn}, call {i}]', (cn, cname, n, lda, i), D, b, m.sig_out[0].state, HEAD + HELP + src)
                    except Exception as e:
                        r.check(False, f'LinSolve history [{cn}]: response() raised', (cn, cname, n, lda), f'{type(e).__name__}: {str(e)[:160]}', replay_code=HEAD + HELP + src)


@bound('ONE LinSolve object, rhs width changes between calls: (n,3) block -> vector, (n,3) -> (n,2), (n,2) -> (n,3), and vector -> (n,2) with the CG override; ndarray and csc; n in {3,6}; '
       'LDAS on/off. Expected to fail whenever the previous solution (passed on as x0) is used: LDAS on, or an iterative solver.', finding='C07-linsolve-rhs-width-change')
@lazy
def linsolve_rhs_width_history(r, tier, seed):
    for n in (3, 6):
        for cname in ('dense', 'csc'):
            for lda in (True, False):
                rng = np.random.default_rng(seed + n)
                for kw_src, kind, shape_list in (('', 'gen', (((n, 3), (n,)), ((n, 3), (n, 2)), ((n, 2), (n, 3)))),
                                                 ('solver=CG(tol=1e-13)', 'spd', (((n,), (n, 2)), ((n, 2), (n,)), ((n, 2), (n, 3))))):
                    A = gen_matrix(kind, n, rng)
                    tol = 1e-8 if kw_src else TOL
                    for shapes in shape_list:
                        bs = [rng.uniform(-1, 1, s) for s in shapes]
                        src = (f"A={lit(A)}\nbs=[{', '.join(lit(b) for b in bs)}]\nconv={'np.array' if cname == 'dense' else 'sps.csc_matrix'}\n"
                               f"sb=pym.Signal('b',bs[0]); m=pym.LinSolve([pym.Signal('A',conv(A)),sb]{', ' + kw_src if kw_src else ''})\n" + ("" if lda else "m.use_lda_solver=False\n") +
                               f"for b in bs:\n    sb.state=b; m.response(); x=m.sig_out[0].state; xr=np.linalg.solve(A,b)\n    assert x.shape==b.shape and mx(x-xr)<={tol}*max(1,mx(xr))\n")
                        key = (cname, n, lda, shapes, kw_src)
                        r.case(key)
                        # the previous solution is passed on as x0: the linear-dependency-aware wrapper indexes it with the new column mask, CG starts from it
                        fid = 'C07-linsolve-rhs-width-change' if (lda or kw_src) else None
                        try:
                            sb = pym.Signal('b', bs[0])
                            m = pym.LinSolve([pym.Signal('A', CONTAINERS[cname](A)), sb], **eval(f"dict({kw_src})", dict(NS)))
                            if not lda:
                                m.use_lda_solver = False
                            for i, b in enumerate(bs):
                                sb.state = b
                                m.response()
                                verify_x(r, f'LinSolve history [rhs {shapes[0]} -> {shapes[1]}, call {i}] {kw_src}', key, A, b, m.sig_out[0].state, HEAD + HELP + src, tol, finding=fid)
                        except Exception as e:
                            r.check(False, f'LinSolve history [rhs {shapes[0]} -> {shapes[1]}] {kw_src}: second response() raised', key, f'{type(e).__name__}: {str(e)[:160]}', 'a solution',
                                    replay_code=HEAD + HELP + src, finding=fid)


@bound('ONE LinSolve object, the matrix class changes between calls to one the first-chosen solver does not support: ndarray SPD -> general, '
       'diagonal -> general (ndarray, csc), Hermitian PD -> complex symmetric (ndarray); n in {3,6}', finding='C07-linsolve-stale-class')
@lazy
def linsolve_class_change_history(r, tier, seed):
    for n in (3, 6):
        rng = np.random.default_rng(seed + n)
        for cname, chain in (('dense', ('spd', 'gen')), ('dense', ('diag', 'gen')), ('csc', ('diag', 'gen')), ('dense', ('herm_pd', 'csym'))):
            mats = [gen_matrix(k, n, rng) for k in chain]
            b = rng.uniform(-1, 1, n)
            src = (f"mats=[{', '.join(lit(a) for a in mats)}]\nb={lit(b)}\nconv={'np.array' if cname == 'dense' else 'sps.csc_matrix'}\n"
                   f"sA=pym.Signal('A',conv(mats[0])); m=pym.LinSolve([sA,pym.Signal('b',b)])\n"
                   f"for D in mats:\n    sA.state=conv(D); m.response(); x=m.sig_out[0].state; xr=np.linalg.solve(D,b)\n    assert mx(x-xr)<={TOL}*max(1,mx(xr)), mx(x-xr)\n")
            key = (cname, chain, n)
            r.case(key)
            try:
                sA = pym.Signal('A', CONTAINERS[cname](mats[0]))
                m = pym.LinSolve([sA, pym.Signal('b', b)])
                for i, D in enumerate(mats):
                    sA.state = CONTAINERS[cname](D)
                    m.response()
                    verify_x(r, f'LinSolve history [{chain[0]} -> {chain[1]}, call {i}] (solver and symmetry flags are chosen once)', key, D, b, m.sig_out[0].state, HEAD + HELP + src,
                             finding='C07-linsolve-stale-class' if i else None)
            except Exception as e:
                r.check(False, f'LinSolve history [{chain[0]} -> {chain[1]}]: response() raised', key, f'{type(e).__name__}: {str(e)[:160]}', replay_code=HEAD + HELP + src,
                        finding='C07-linsolve-stale-class')


DECSET_HELP = ("def decouple(A, idx, val):\n    A=A.copy()\n    for i in idx:\n        A[i,:]=0; A[:,i]=0; A[i,i]=val\n    return A\n"
               "def full_csr(A):\n    n=A.shape[0]\n    return sps.csr_matrix((A.ravel().copy(), np.tile(np.arange(n),n), np.arange(0,n*n+1,n)), shape=(n,n))\n")


def full_csr(A):
    """csr matrix in which every entry (also the zeros of decoupled rows / columns) is stored: the pattern never changes"""
    n = A.shape[0]
    return sps.csr_matrix((A.ravel().copy(), np.tile(np.arange(n), n), np.arange(0, n * n + 1, n)), shape=(n, n))


def decset_steps(n, posdef, order):
    """(base matrix index, decoupled set, diagonal value, index of the right-hand side) per response; the size never changes.  Consecutive
    steps couple dofs again that were decoupled, decouple others, go to a disjoint set, to all-but-one, to a diagonal matrix and back to a
    fully coupled one; the rhs index repeats where the right-hand side stays the same object"""
    h = n // 2
    neg = 2.5 if posdef else -3.0
    steps = [(0, sorted({0, h}), 1.0, 0), (0, [0], 1.0, 0), (0, [], 1.0, 0), (0, sorted({1 % n, n - 1}), 2.5, 1), (1, sorted({0, h}), 1.0, 1),
             (1, list(range(1, n)), neg, 2), (1, [h], 1.0, 2), (1, list(range(n)), 2.5, 3), (1, [], 1.0, 3), (0, [n - 1], 1.0, 3), (0, [n - 1], 1.0, 4)]
    if order == 'coupled first':      # the mirror history: starts fully coupled, dofs get decoupled later (never starts with a diagonal matrix)
        steps = [(b, s, v, i // 2) for i, (b, s, v, _) in enumerate(reversed(steps))]
    return steps


def decset_replay(kind, cname, lda, bases, steps, bs, tol):
    upd = {'dense': "sA.state=M", 'dense_inplace': "sA.state[...]=M", 'csc': "sA.state=sps.csc_matrix(M)", 'csr_full_inplace': "sA.state.data[...]=full_csr(M).data"}[cname]
    first = {'dense': "M0", 'dense_inplace': "M0.copy()", 'csc': "sps.csc_matrix(M0)", 'csr_full_inplace': "full_csr(M0)"}[cname]
    return (HEAD + HELP + DECSET_HELP + f"bases=[{', '.join(lit(a) for a in bases)}]\nbs=[{', '.join(lit(b) for b in bs)}]\nsteps={steps!r}\n"
            f"M0=decouple(bases[steps[0][0]], steps[0][1], steps[0][2])\nsA=pym.Signal('A',{first}); sb=pym.Signal('b',bs[0])\nm=pym.LinSolve([sA,sb])\n"
            + ("" if lda else "m.use_lda_solver=False\n") +
            f"last=None\nfor i,(k,idx,val,ib) in enumerate(steps):\n    M=decouple(bases[k],idx,val)\n    if i: {upd}\n    if ib!=last: sb.state=bs[ib].copy()\n    last=ib\n"
            f"    m.response(); x=m.sig_out[0].state; xr=np.linalg.solve(M,bs[ib])\n"
            f"    assert x.shape==xr.shape and np.all(np.isfinite(x)) and mx(x-xr)<={tol}*max(1,mx(xr)), ('step',i,'decoupled',idx,'x differs from numpy.linalg.solve of the CURRENT matrix',mx(x-xr))\n"
            f"    assert mx(M@x-bs[ib])<={tol}*(mx(M)*M.shape[0]*mx(x)+mx(bs[ib])), ('step',i,'residual')\n"
            f"    assert np.array_equal(dense(sA.state),M) and np.array_equal(sb.state,bs[ib]), 'operand modified'\n")


@bound('ONE LinSolve object, the SET of dofs decoupled in row and column (identity-like rows, diagonal value 1 / 2.5 / -3) changes between responses while the size stays the same: '
       '{0,n/2} -> {0} -> {} -> {1,n-1} -> {0,n/2} (new values) -> all but dof 0 -> {n/2} -> all (diagonal matrix) -> {} -> {n-1} -> {n-1}, and the mirror order starting fully coupled; '
       'the right-hand side object is replaced (5-6 different ones) or stays the same between responses; classes {SPD, general, symmetric indefinite, complex symmetric, Hermitian PD} x '
       'n in {5,8} [quick] / {4,5,8,13} [thorough] x {ndarray new object, ndarray updated in place, csc (pattern changes), csr with every entry stored updated in place through .data} x '
       'rhs {vector, (n,2) block, (n,3) block with a zero column and a column supported on the decoupled dofs only} x LDAS on/off; every response against numpy.linalg.solve of the CURRENT matrix (1e-9), '
       'residual, dtype, operands unmodified')
@lazy
def linsolve_decoupled_set_history(r, tier, seed):
    ns = sizes(tier, (5, 8), (4, 5, 8, 13))      # n >= 4: the first matrix keeps >= 2 coupled dofs (a diagonal first matrix would select SolverDiagonal: C07-linsolve-stale-class)
    for n in ns:
        for ik, kind in enumerate(('spd', 'gen', 'sym_indef', 'csym', 'herm_pd')):
            rng = np.random.default_rng(seed + 61 * n + ik)
            bases = [gen_matrix(kind, n, rng), gen_matrix(kind, n, rng)]
            cpl = np.iscomplexobj(bases[0])
            for order in ('decoupled first', 'coupled first'):
                steps = decset_steps(n, kind in POSDEF, order)
                for rk in ('vec', 'blk2', 'blk3'):
                    if tier == 'quick' and rk == 'blk3' and order == 'coupled first':
                        continue
                    bs = []
                    for j in range(6):
                        shape = {'vec': (n,), 'blk2': (n, 2), 'blk3': (n, 3)}[rk]
                        b = rng.uniform(-1, 1, shape) + 0.1
                        if cpl:
                            b = b + 1j * rng.uniform(-1, 1, shape)
                        if rk == 'blk3':
                            b[:, 1] = 0                     # a zero column
                            sup = [s[1] for s in steps if s[3] == j and s[1]]
                            keep = sup[0] if sup else [0]   # a column that only loads dofs decoupled at the first step that uses this rhs
                            col = np.zeros(n, dtype=b.dtype)
                            col[keep] = b[keep, 2]
                            b[:, 2] = col
                        bs.append(b)
                    for cname in ('dense', 'dense_inplace', 'csc', 'csr_full_inplace'):
                        for lda in (True, False):
                            if tier == 'quick' and not lda and (rk == 'blk3' or cname == 'dense_inplace'):
                                continue
                            key0 = (kind, n, order, rk, cname, lda)
                            def replay(kind=kind, cname=cname, lda=lda, bases=bases, steps=steps, bs=bs):
                                return decset_replay(kind, cname, lda, bases, steps, bs, TOL)
                            i = -1
                            try:
                                M = decouple(bases[steps[0][0]], steps[0][1], steps[0][2], 'both')
                                sA = pym.Signal('A', {'dense': M, 'dense_inplace': M.copy(), 'csc': sps.csc_matrix(M), 'csr_full_inplace': full_csr(M)}[cname])
                                sb = pym.Signal('b', bs[0])
                                m = pym.LinSolve([sA, sb])
                                if not lda:
                                    m.use_lda_solver = False
                                last = None
                                for i, (k, idx, val, ib) in enumerate(steps):
                                    M = decouple(bases[k], idx, val, 'both')
                                    if i:
                                        if cname == 'dense':
                                            sA.state = M
                                        elif cname == 'dense_inplace':
                                            sA.state[...] = M
                                        elif cname == 'csc':
                                            sA.state = sps.csc_matrix(M)
                                        else:
                                            sA.state.data[...] = full_csr(M).data
                                    if ib != last:
                                        sb.state = bs[ib].copy()
                                    last = ib
                                    m.response()
                                    key = key0 + (i,)
                                    r.case(key)
                                    what = f'LinSolve history [decoupled set -> {idx}, rhs {"replaced" if i and steps[i - 1][3] != ib else "unchanged"}, call {i}]'
                                    verify_x(r, what, key, M, bs[ib], m.sig_out[0].state, replay)
                                    r.check(same_values(sA.state, M) and np.array_equal(sb.state, bs[ib]), f'{what}: matrix and right-hand side operands are not modified', key, replay_code=replay)
                            except Exception as e:
                                r.check(False, f'LinSolve history [changing decoupled set]: response() raised at call {i}', key0 + (i,), f'{type(e).__name__}: {str(e)[:160]}', 'a solution', replay_code=replay)


# ------------------------------------------------------------------------------------------------------------------- Inverse
@bound('Inverse: all 18 classes as ndarray (C order, F order, strided view), n in {1,2,3,5,8} [quick] / {1..6,8,13,21} [thorough]; A B = I, B A = I, reference '
       'np.linalg.solve(A, I), dtype, operand unchanged; histories on one object (new matrix, caller overwrites B, repeat)')
@lazy
def inverse(r, tier, seed):
    ns = sizes(tier, (1, 2, 3, 5, 8), (1, 2, 3, 4, 5, 6, 8, 13, 21))
    for n in ns:
        for ik, kind in enumerate(REAL_CLASSES + CPLX_CLASSES):
            rng = np.random.default_rng(seed + 7 * n + ik)
            A = gen_matrix(kind, n, rng)
            big = np.zeros((2 * n, 2 * n), dtype=A.dtype)
            big[::2, ::2] = A
            for lname, M in (('C', A.copy()), ('F', np.asfortranarray(A)), ('strided', big[::2, ::2])):
                key = (kind, n, lname)
                r.case(key)
                code = HEAD + HELP + f"A={mat_lit(M) if lname != 'strided' else lit(A)}\nm=pym.Inverse(pym.Signal('A',A)); m.response(); B=m.sig_out[0].state\nI=np.eye({n})\nassert B.shape==A.shape and mx(A@B-I)<={TOL} and mx(B@A-I)<={TOL}, (mx(A@B-I), mx(B@A-I))\nassert mx(B-np.linalg.solve(A,I))<={TOL}\nassert B.dtype==np.result_type(A.dtype,float)\n"
                try:
                    sA = pym.Signal('A', M)
                    m = pym.Inverse(sA)
                    m.response()
                    B = m.sig_out[0].state
                except Exception as e:
                    r.check(False, 'Inverse: response() raised', key, f'{type(e).__name__}: {str(e)[:160]}', replay_code=code)
                    continue
                I = np.eye(n)
                ok = isinstance(B, np.ndarray) and B.shape == (n, n)
                r.check(ok and mx(A @ B - I) <= TOL, 'Inverse: A B = I', key, mx(A @ B - I) if ok else None, 0.0, replay_code=code)
                r.check(ok and mx(B @ A - I) <= TOL, 'Inverse: B A = I', key, replay_code=code)
                r.check(ok and mx(B - np.linalg.solve(A, I)) <= TOL * max(1, mx(B)), 'Inverse: equals the reference inverse', key, replay_code=code)
                r.check(ok and B.dtype == np.result_type(A.dtype, float), 'Inverse: dtype', key, str(getattr(B, 'dtype', None)), str(A.dtype), replay_code=code)
                r.check(np.array_equal(M, A) and not np.shares_memory(B, M), 'Inverse: operand unchanged and not aliased', key, replay_code=code)
                if lname == 'C':
                    A2 = gen_matrix(kind, n, rng)
                    B[...] = 5.0
                    sA.state = A2
                    m.response()
                    B2 = m.sig_out[0].state
                    r.check(mx(A2 @ B2 - I) <= TOL, 'Inverse history: new matrix after the caller overwrote B', key,
                            replay_code=HEAD + HELP + f"A={lit(A)}\nA2={lit(A2)}\nsA=pym.Signal('A',A); m=pym.Inverse(sA); m.response(); m.sig_out[0].state[...]=5.0\nsA.state=A2; m.response()\nassert mx(A2@m.sig_out[0].state-np.eye({n}))<={TOL}\n")
                    sA.state = A
                    m.response()
                    r.check(mx(A @ m.sig_out[0].state - I) <= TOL, 'Inverse history: back to the first matrix', key)


# --------------------------------------------------------------------------------------------------------- SystemOfEquations
def soe_replay(M, f, p, give, bf, xp, kw_src, tol=TOL, only_pf=False):
    fs = f"np.array({f.tolist()!r}, dtype=int)"
    ps = f"np.array({p.tolist()!r}, dtype=int)"
    return (HEAD + HELP + f"A={mat_lit(M)}\nf={fs}\np={ps}\nbf={lit(bf)}\nxp={lit(xp)}\n"
            f"m=pym.SystemOfEquations([pym.Signal('A',A),pym.Signal('bf',bf),pym.Signal('xp',xp)], free={'f' if give in ('both', 'free') else None}, "
            f"prescribed={'p' if give in ('both', 'prescribed') else None}{', ' + kw_src if kw_src else ''})\n"
            "m.response(); x,b=[s.state for s in m.sig_out]\nD=dense(A)\n"
            "xf=np.linalg.solve(D[np.ix_(f,f)], bf-D[np.ix_(f,p)]@xp) if f.size else np.zeros((0,)+bf.shape[1:])\n"
            "bp=D[np.ix_(p,f)]@xf+D[np.ix_(p,p)]@xp\n"
            "assert x.shape==(D.shape[0],)+bf.shape[1:] and b.shape==x.shape\n"
            + ("" if only_pf else
               f"assert np.array_equal(x[p],xp) and np.array_equal(b[f],bf)\nassert mx(x[f]-xf)<={tol}*max(1,mx(xf)), mx(x[f]-xf)\n") +
            f"assert mx(b[p]-bp)<={tol}*max(1,mx(bp)), ('reaction b[p] differs from A_pf x_f + A_pp x_p', mx(b[p]-bp))\n"
            f"assert mx(D@x-b)<={tol}*(mx(D)*D.shape[0]*mx(x)+mx(b)), ('A x = b', mx(D@x-b))\n")


def soe_case(r, what, key, M, f, p, give, bf, xp, kw_src='', tol=TOL, nonsym_finding=None, all_finding=None, module=None, sig=None, replay_fn=None):
    """Evaluate all SystemOfEquations clauses. f, p are the index arrays in the order in which bf, xp are given."""
    D = dense_of(M).copy()
    n = D.shape[0]
    r.case(key)
    def replay():
        return replay_fn() if replay_fn else soe_replay(M, f, p, give, bf, xp, kw_src, tol)
    bf0, xp0 = bf.copy(), xp.copy()
    try:
        if module is None:
            kw = eval(f"dict({kw_src})", dict(NS))
            sA, sbf, sxp = shared('A'), shared('bf'), shared('xp')
            sA.state, sbf.state, sxp.state = M, bf, xp
            module = pym.SystemOfEquations([sA, sbf, sxp],
                                           free=f if give in ('both', 'free') else None, prescribed=p if give in ('both', 'prescribed') else None, **kw)
        else:
            sig[0].state, sig[1].state, sig[2].state = M, bf, xp
        module.response()
        x, b = [s.state for s in module.sig_out]
    except Exception as e:
        r.check(False, f'{what}: response() raised', key, f'{type(e).__name__}: {str(e)[:160]}', '(x, b)', replay_code=replay, finding=all_finding)
        return None
    shp = (n,) + bf.shape[1:]
    if not r.check(isinstance(x, np.ndarray) and isinstance(b, np.ndarray) and x.shape == shp and b.shape == shp, f'{what}: x and b have shape (n,) / (n, Nrhs)', key,
                   (getattr(x, 'shape', None), getattr(b, 'shape', None)), shp, replay_code=replay, finding=all_finding):
        return module
    want_c = np.iscomplexobj(D)
    r.check((x.dtype.kind == 'c') == want_c and (b.dtype.kind == 'c') == want_c, f'{what}: outputs complex iff the matrix is complex', key, (str(x.dtype), str(b.dtype)), replay_code=replay, finding=all_finding)
    r.check(np.array_equal(x[p], xp0), f'{what}: x equals the prescribed values on the prescribed dofs (exactly)', key, x[p], xp0, replay_code=replay, finding=all_finding)
    r.check(np.array_equal(b[f], bf0), f'{what}: b equals the applied loads on the free dofs (exactly)', key, b[f], bf0, replay_code=replay, finding=all_finding)
    xf = np.linalg.solve(D[np.ix_(f, f)], bf0 - D[np.ix_(f, p)] @ xp0) if f.size else np.zeros((0,) + bf.shape[1:])
    r.check(np.all(np.isfinite(x)) and mx(x[f] - xf) <= tol * max(1.0, mx(xf)), f'{what}: free part of x equals the reference A_ff^-1 (b_f - A_fp x_p)', key, mx(x[f] - xf), replay_code=replay, finding=all_finding)
    Ax = D @ x
    r.check(mx(Ax[f] - bf0) <= tol * (mx(D) * n * mx(x) + mx(bf0)), f'{what}: (A x)[free] = b_f', key, mx(Ax[f] - bf0), replay_code=replay, finding=all_finding)
    bp = D[np.ix_(p, f)] @ xf + D[np.ix_(p, p)] @ xp0
    fid = nonsym_finding or all_finding
    rp = (lambda: soe_replay(M, f, p, give, bf, xp, kw_src, tol, only_pf=True)) if nonsym_finding and not replay_fn else replay
    r.check(np.all(np.isfinite(b)) and mx(b[p] - bp) <= tol * max(1.0, mx(bp)), f'{what}: reactions b[prescribed] = A_pf x_f + A_pp x_p, i.e. (A x)[prescribed] = b[prescribed]', key, mx(b[p] - bp), tol * max(1.0, mx(bp)),
            replay_code=rp, finding=fid)
    r.check(same_values(M, D) and np.array_equal(bf, bf0) and np.array_equal(xp, xp0), f'{what}: matrix values, b_f and x_p operands are not modified', key, replay_code=replay, finding=all_finding)
    return module


def soe_rhs(rng, nf, npr, kind, cplx):
    def rv(*s):
        v = rng.uniform(-1, 1, s)
        return v + 1j * rng.uniform(-1, 1, s) if cplx else v
    if kind == 'vec':
        return rv(nf), rv(npr)
    if kind == 'blk1':
        return rv(nf, 1), rv(npr, 1)
    if kind == 'blk3':
        return rv(nf, 3), rv(npr, 3)
    if kind == 'int':
        return rng.integers(-3, 4, nf), rng.integers(-3, 4, npr)
    if kind == 'zero_xp':
        return rv(nf), np.zeros(npr)
    if kind == 'zero_bf':
        return np.zeros(nf), rv(npr)
    raise KeyError(kind)


SOE_SYM = ('spd', 'sym_indef', 'band', 'snd', 'diag', 'csym', 'cdiag')
SOE_NONSYM = ('gen', 'triu', 'cgen', 'herm_pd', 'herm_indef')


@bound('SystemOfEquations, matrices with A = A^T (SPD, negative definite, indefinite, banded, diagonal, complex symmetric, complex diagonal) as csc and csr: '
       'EVERY free/prescribed split of n = 1..4 [quick] / 1..5 [thorough] dofs (both sets may be empty), given as free=, prescribed= or both; plus 12 [quick] / '
       '60 [thorough] random splits with unsorted index arrays for n in {6,9,14}; rhs vector, (.,1), (.,3), int64, zero x_p, zero b_f, complex and real rhs '
       'for complex matrices; FE stiffness (2D 3x2 and 3D 2x1x1, no bc in the matrix, clamped face prescribed to non-zero values)')
@lazy
def soe_partitions(r, tier, seed):
    nmax = 4 if tier == 'quick' else 5
    for n in range(1, nmax + 1):
        for ik, kind in enumerate(SOE_SYM):
            rng = np.random.default_rng(seed + 50 * n + ik)
            A = gen_matrix(kind, n, rng)
            for ip, (f, p) in enumerate(partitions_all(n)):
                for cname in ('csc', 'csr'):
                    if tier == 'quick' and (ip + ik) % 2 == (cname == 'csr'):
                        continue
                    give = ('both', 'free', 'prescribed')[(ip + ik + (cname == 'csr')) % 3]
                    kinds = ('vec', 'blk3') if tier == 'quick' else ('vec', 'blk1', 'blk3', 'int', 'zero_xp', 'zero_bf')
                    for rk in kinds:
                        for cplx in ((False, True) if np.iscomplexobj(A) else (False,)):
                            bf, xp = soe_rhs(rng, f.size, p.size, rk, cplx)
                            soe_case(r, 'SystemOfEquations', (kind, n, tuple(f), give, cname, rk, cplx), CONTAINERS[cname](A), f, p, give, bf, xp)
    nrand = 12 if tier == 'quick' else 60
    for n in (6, 9, 14):
        for ik, kind in enumerate(SOE_SYM):
            rng = np.random.default_rng(seed + 50 * n + ik + 1)
            A = gen_matrix(kind, n, rng)
            for t in range(nrand // 3 if tier == 'quick' else nrand):
                perm = rng.permutation(n)
                nf = int(rng.integers(1, n))
                f, p = perm[:nf].copy(), perm[nf:].copy()
                give = ('both', 'free', 'prescribed')[t % 3]
                if give == 'free':
                    p = np.sort(p)       # the module derives the complement in ascending order; x_p is given in that order
                if give == 'prescribed':
                    f = np.sort(f)
                rk = ('vec', 'blk3', 'blk1', 'int', 'zero_xp', 'zero_bf')[t % 6]
                cname = ('csc', 'csr')[t % 2]
                bf, xp = soe_rhs(rng, f.size, p.size, rk, np.iscomplexobj(A) and t % 4 < 2)
                soe_case(r, 'SystemOfEquations (unsorted random split)', (kind, n, t), CONTAINERS[cname](A), f, p, give, bf, xp)
    for dims in ((3, 2, 0), (2, 1, 1)):
        rng = np.random.default_rng(seed + 3 + sum(dims))
        dom = pym.DomainDefinition(*dims, 0.5, 1.5, 2.0)
        nd = dom.dim
        face = dom.get_nodenumber(*np.meshgrid(0, np.arange(dims[1] + 1), np.arange(dims[2] + 1), indexing='ij')).flatten()
        p = np.sort((face[:, None] * nd + np.arange(nd)[None, :]).flatten())
        mK = pym.AssembleStiffness(pym.Signal('x', 0.3 + 0.7 * rng.random(dom.nel)), domain=dom)
        mK.response()
        K = mK.sig_out[0].state
        f = np.setdiff1d(np.arange(K.shape[0]), p)
        for rk, give in itertools.product(('vec', 'blk3', 'zero_xp', 'zero_bf'), ('both', 'free', 'prescribed')):
            bf, xp = soe_rhs(rng, f.size, p.size, rk, False)
            soe_case(r, 'SystemOfEquations (FE stiffness)', ('FE', dims, rk, give), K.copy(), f, p, give, bf, xp, tol=1e-7)


@bound('SystemOfEquations keyword pass-through and call sequences on ONE object (input matrix signal re-set before every call): solver= SparseLU / CG / '
       'CG+ILU, hermitian=True, dep_tol; sequences: same inputs twice, new b_f/x_p, caller overwrites returned x and b, new matrix values, vector -> block; '
       'SPD and complex symmetric, csc/csr, n in {4,7}, free-only / prescribed-only / both')
@lazy
def soe_histories(r, tier, seed):
    for n in (4, 7):
        for kind in ('spd', 'csym', 'sym_indef'):
            for cname in ('csc', 'csr'):
                rng = np.random.default_rng(seed + n)
                conv = CONTAINERS[cname]
                A1, A2 = gen_matrix(kind, n, rng), gen_matrix(kind, n, rng)
                perm = rng.permutation(n)
                f, p = perm[:n - 2].copy(), np.sort(perm[n - 2:])
                cpl = np.iscomplexobj(A1)
                kws = ['', "solver=SolverSparseLU()", "dep_tol=1e-4"]
                if kind == 'spd':
                    kws += ["solver=CG(tol=1e-13)", "solver=CG(preconditioner=ILU(), tol=1e-13)", "hermitian=True", "symmetric=True"]
                for kw_src in kws:
                    tol = 1e-8 if 'CG' in kw_src else TOL
                    for give in ('both', 'free'):
                        key0 = (kind, cname, n, kw_src, give)
                        sig = [pym.Signal('A', conv(A1)), pym.Signal('bf'), pym.Signal('xp')]
                        try:
                            m = pym.SystemOfEquations(sig, free=f, prescribed=p if give == 'both' else None, **eval(f"dict({kw_src})", dict(NS)))
                        except Exception as e:
                            r.check(False, 'SystemOfEquations: construction raised', key0, str(e)[:160])
                            continue
                        vec_only = 'CG' in kw_src   # vector -> block with an iterative solver: see linsolve_rhs_width_history
                        seq = [('first', A1, 'vec'), ('identical inputs again', A1, None), ('same matrix, new loads', A1, 'vec'), ('new matrix', A2, 'vec'),
                               ('vector -> block', A2, 'vec' if vec_only else 'blk3'), ('block again', A1, 'vec' if vec_only else 'blk3')]
                        data = []
                        for name, A, rk in seq:
                            bf, xp = soe_rhs(rng, f.size, p.size, rk, cpl) if rk else data[-1][2:]
                            data.append((name, A, bf, xp))

                        def hist_replay(upto):
                            src = (HEAD + HELP + f"conv=sps.{cname}_matrix\nf=np.array({f.tolist()!r})\np=np.array({p.tolist()!r})\n"
                                   f"steps=[{', '.join('(' + lit(A) + ', ' + lit(bf) + ', ' + lit(xp) + ')' for _, A, bf, xp in data[:upto + 1])}]\n"
                                   f"sA,sb,sx=pym.Signal('A'),pym.Signal('bf'),pym.Signal('xp')\n"
                                   f"m=pym.SystemOfEquations([sA,sb,sx], free=f, prescribed={'p' if give == 'both' else None}{', ' + kw_src if kw_src else ''})\n"
                                   "for D,bf,xp in steps:\n    sA.state,sb.state,sx.state=conv(D),bf,xp\n    m.response(); x,b=[s.state for s in m.sig_out]\n"
                                   "    xf=np.linalg.solve(D[np.ix_(f,f)], bf-D[np.ix_(f,p)]@xp); bp=D[np.ix_(p,f)]@xf+D[np.ix_(p,p)]@xp\n"
                                   f"    assert np.array_equal(x[p],xp) and np.array_equal(b[f],bf)\n    assert mx(x[f]-xf)<={tol}*max(1,mx(xf)) and mx(b[p]-bp)<={tol}*max(1,mx(bp)), (mx(x[f]-xf), mx(b[p]-bp))\n"
                                   "    x[...]=9.0; b[...]=9.0\n")
                            return src

                        for i, (name, A, bf, xp) in enumerate(data):
                            soe_case(r, f'SystemOfEquations history [{name}] ({kw_src})', key0 + (name,), conv(A), f, p, give, bf, xp, kw_src, tol, module=m, sig=sig,
                                     replay_fn=lambda i=i: hist_replay(i))
                            for so in m.sig_out:
                                if isinstance(so.state, np.ndarray):
                                    so.state[...] = 9.0   # the caller re-uses the returned arrays


@bound('SystemOfEquations with A != A^T (real general, upper triangular, complex general, Hermitian PD / indefinite with complex entries) as csc/csr, and any matrix '
       'given as ndarray or csr_array (operator * is element-wise there): every split of n in {2,3,4} + random splits n = 7; vector and block rhs. Only the reaction '
       'clause is expected to fail for sparse non-symmetric input (x[p], b[f], (A x)[f] are still required).', finding='C07-soe-nonsymmetric')
@lazy
def soe_nonsymmetric(r, tier, seed):
    for n in (2, 3, 4, 7):
        for ik, kind in enumerate(SOE_NONSYM):
            rng = np.random.default_rng(seed + 19 * n + ik)
            A = gen_matrix(kind, n, rng)
            parts = list(partitions_all(n)) if n <= 4 else [(lambda q, k: (q[:k].copy(), q[k:].copy()))(rng.permutation(n), int(rng.integers(1, n))) for _ in range(8)]
            for ip, (f, p) in enumerate(parts):
                for cname in ('csc', 'csr'):
                    if tier == 'quick' and (ip + ik) % 2 == (cname == 'csr'):
                        continue
                    for rk in ('vec', 'blk3'):
                        bf, xp = soe_rhs(rng, f.size, p.size, rk, np.iscomplexobj(A))
                        soe_case(r, 'SystemOfEquations (A != A^T)', (kind, n, ip, cname, rk), CONTAINERS[cname](A), f, p, 'both', bf, xp, nonsym_finding='C07-soe-nonsymmetric')
        for ik, kind in enumerate(('spd', 'gen', 'csym')):
            rng = np.random.default_rng(seed + 23 * n + ik)
            A = gen_matrix(kind, n, rng)
            f, p = np.arange(0, n, 2), np.arange(1, n, 2)
            for cname in ('dense', 'csr_array'):
                for rk in ('vec', 'blk3'):
                    bf, xp = soe_rhs(rng, f.size, p.size, rk, np.iscomplexobj(A))
                    soe_case(r, f'SystemOfEquations ({cname} input)', (kind, n, cname, rk), CONTAINERS[cname](A), f, p, 'both', bf, xp, all_finding='C07-soe-nonsymmetric')


@bound('SystemOfEquations called twice on unchanged input signals (no re-set of the matrix signal in between); SPD csc, n in {4,7}', finding='C04-soe-overwrites-input')
@lazy
def soe_second_call(r, tier, seed):
    for n in (4, 7):
        rng = np.random.default_rng(seed + n)
        A = gen_matrix('spd', n, rng)
        f, p = np.arange(0, n - 1), np.array([n - 1])
        bf, xp = soe_rhs(rng, f.size, p.size, 'vec', False)
        code = (HEAD + HELP + f"A={lit(A)}\nbf={lit(bf)}\nxp={lit(xp)}\nsA=pym.Signal('A',sps.csc_matrix(A))\n"
                f"m=pym.SystemOfEquations([sA,pym.Signal('bf',bf),pym.Signal('xp',xp)], prescribed=np.array([{n - 1}]))\nm.response(); x1=m.sig_out[0].state.copy()\n"
                "assert sA.state.shape==A.shape, ('input signal state replaced by the free block', sA.state.shape)\nm.response()\nassert mx(m.sig_out[0].state-x1)==0\n")
        r.case(n)
        sA = pym.Signal('A', sps.csc_matrix(A))
        m = pym.SystemOfEquations([sA, pym.Signal('bf', bf), pym.Signal('xp', xp)], prescribed=p)
        m.response()
        x1 = m.sig_out[0].state.copy()
        try:
            m.response()
            ok = mx(m.sig_out[0].state - x1) == 0
            r.check(ok, 'SystemOfEquations: second response() on unchanged inputs reproduces the first', n, replay_code=code, finding='C04-soe-overwrites-input')
        except Exception as e:
            r.check(False, 'SystemOfEquations: second response() on unchanged inputs raised (the module replaced the state of its matrix input signal by A_ff)', n,
                    f'{type(e).__name__}: {str(e)[:120]}; input state shape now {sA.state.shape}', 'same (x, b) as the first call', replay_code=code, finding='C04-soe-overwrites-input')


# -------------------------------------------------------------------------------------------------------- StaticCondensation
def sc_replay(M, mn, fr, kw_src, tol=TOL):
    return (HEAD + HELP + f"A={mat_lit(M)}\nmn=np.array({mn.tolist()!r}, dtype=int)\nfr=np.array({fr.tolist()!r}, dtype=int)\n"
            f"m=pym.StaticCondensation([pym.Signal('A',A)], main=mn, free=fr{', ' + kw_src if kw_src else ''})\nm.response(); R=np.asarray(m.sig_out[0].state)\nD=dense(A)\n"
            "S=D[np.ix_(mn,mn)]-D[np.ix_(mn,fr)]@np.linalg.solve(D[np.ix_(fr,fr)],D[np.ix_(fr,mn)])\n"
            f"assert R.shape==S.shape and mx(R-S)<={tol}*max(1,mx(S)), ('not the Schur complement', mx(R-S))\n"
            "mf=np.concatenate([mn,fr]); bm=np.cos(np.arange(mn.size)+1.0)\nxm=np.linalg.solve(D[np.ix_(mf,mf)],np.concatenate([bm,np.zeros(fr.size)]))[:mn.size]\n"
            f"assert mx(R@xm-bm)<={tol}*max(1,mx(R)*mx(xm)*mn.size), ('condensed system does not reproduce the main-dof response', mx(R@xm-bm))\n")


def sc_case(r, what, key, M, mn, fr, kw_src='', tol=TOL, finding=None, module=None, sig=None, replay_fn=None):
    D = dense_of(M).copy()
    r.case(key)
    def replay():
        return replay_fn() if replay_fn else sc_replay(M, mn, fr, kw_src, tol)
    try:
        if module is None:
            sA = shared('A')
            sA.state = M
            module = pym.StaticCondensation([sA], main=mn, free=fr, **eval(f"dict({kw_src})", dict(NS)))
        else:
            sig.state = M
        module.response()
        R = np.asarray(module.sig_out[0].state)
    except Exception as e:
        r.check(False, f'{what}: response() raised', key, f'{type(e).__name__}: {str(e)[:160]}', 'the condensed matrix', replay_code=replay, finding=finding)
        return None
    S = D[np.ix_(mn, mn)] - D[np.ix_(mn, fr)] @ np.linalg.solve(D[np.ix_(fr, fr)], D[np.ix_(fr, mn)])
    if not r.check(R.shape == S.shape, f'{what}: result has shape (m, m)', key, R.shape, S.shape, replay_code=replay, finding=finding):
        return module
    r.check(np.all(np.isfinite(R)) and mx(R - S) <= tol * max(1.0, mx(S)), f'{what}: result = A_mm - A_mf A_ff^-1 A_fm (Schur complement of the free block)', key, mx(R - S), 0.0, replay_code=replay, finding=finding)
    r.check((R.dtype.kind == 'c') == np.iscomplexobj(D), f'{what}: complex iff the matrix is complex', key, str(R.dtype), replay_code=replay, finding=finding)
    # the condensed system reproduces the main-dof response of the full system (remaining dofs clamped, no load on the free dofs)
    mf = np.concatenate([mn, fr])
    for bm in (np.cos(np.arange(mn.size) + 1.0), np.eye(mn.size)[:, -1]):
        xfull = np.linalg.solve(D[np.ix_(mf, mf)], np.concatenate([bm, np.zeros(fr.size)]))
        xm = xfull[:mn.size]
        r.check(mx(R @ xm - bm) <= tol * max(1.0, mx(R) * mx(xm) * mn.size), f'{what}: A_red x_m = b_m for the main-dof response x_m of the full system', key, mx(R @ xm - bm), 0.0, replay_code=replay, finding=finding)
        xr = np.linalg.solve(R, bm)
        r.check(mx(xr - xm) <= 1e3 * tol * max(1.0, mx(xm)), f'{what}: solving the condensed system gives the main-dof response of the full system', key, mx(xr - xm), 0.0, replay_code=replay, finding=finding)
    r.check(same_values(M, D), f'{what}: matrix values are not modified', key, replay_code=replay, finding=finding)
    return module


def three_way(n):
    """All assignments of n dofs to main / free / clamped with at least one main and one free dof (ascending index arrays)."""
    for lab in itertools.product(range(3), repeat=n):
        mn = np.array([i for i in range(n) if lab[i] == 0], dtype=int)
        fr = np.array([i for i in range(n) if lab[i] == 1], dtype=int)
        if mn.size and fr.size:
            yield mn, fr


SC_KINDS = ('spd', 'gen', 'sym_indef', 'band', 'csym', 'cgen', 'herm_pd')


@bound('StaticCondensation on csc / csr / csr_array matrices of classes {SPD, general, symmetric indefinite, banded, complex symmetric, complex general, Hermitian PD}: '
       'EVERY main/free/clamped assignment of n = 2..4 dofs [quick] / 2..5 [thorough] with >= 1 main and >= 1 free dof; 10 [quick] / 40 [thorough] random unsorted '
       'assignments for n in {7,12}; FE stiffness 2D 3x2 / 3D 2x1x1 with a clamped face; keyword pass-through solver=SolverSparseLU(), hermitian=, dep_tol=')
@lazy
def static_condensation(r, tier, seed):
    nmax = 4 if tier == 'quick' else 5
    for n in range(2, nmax + 1):
        for ik, kind in enumerate(SC_KINDS):
            rng = np.random.default_rng(seed + 41 * n + ik)
            A = gen_matrix(kind, n, rng)
            for ip, (mn, fr) in enumerate(three_way(n)):
                cname = ('csc', 'csr', 'csr_array')[(ip + ik) % 3]
                sc_case(r, 'StaticCondensation', (kind, n, tuple(mn), tuple(fr), cname), CONTAINERS[cname](A), mn, fr)
    nrand = 10 if tier == 'quick' else 40
    for n in (7, 12):
        for ik, kind in enumerate(SC_KINDS):
            rng = np.random.default_rng(seed + 41 * n + ik + 1)
            A = gen_matrix(kind, n, rng)
            for t in range(nrand):
                perm = rng.permutation(n)
                nm = int(rng.integers(1, n - 1))
                nf = int(rng.integers(1, n - nm + 1))
                mn, fr = perm[:nm].copy(), perm[nm:nm + nf].copy()
                cname = ('csc', 'csr', 'csr_array')[t % 3]
                kw_src = ('', "solver=SolverSparseLU()", "dep_tol=1e-4", f"hermitian={kind in HERMITIAN}")[t % 4]
                sc_case(r, f'StaticCondensation (unsorted random assignment{", " + kw_src if kw_src else ""})', (kind, n, t), CONTAINERS[cname](A), mn, fr, kw_src)
    for dims in ((3, 2, 0), (2, 1, 1)):
        rng = np.random.default_rng(seed + 4 + sum(dims))
        dom = pym.DomainDefinition(*dims, 0.5, 1.5, 2.0)
        nd = dom.dim
        face = dom.get_nodenumber(*np.meshgrid(0, np.arange(dims[1] + 1), np.arange(dims[2] + 1), indexing='ij')).flatten()
        clamp = (face[:, None] * nd + np.arange(nd)[None, :]).flatten()
        opp = dom.get_nodenumber(*np.meshgrid(dims[0], np.arange(dims[1] + 1), np.arange(dims[2] + 1), indexing='ij')).flatten()
        for with_bc in (False, True):
            mK = pym.AssembleStiffness(pym.Signal('x', 0.3 + 0.7 * rng.random(dom.nel)), domain=dom, **(dict(bc=clamp) if with_bc else {}))
            mK.response()
            K = mK.sig_out[0].state
            for mn in (opp * nd, np.concatenate([opp * nd, opp * nd + 1])[::-1].copy()):
                fr = np.setdiff1d(np.arange(K.shape[0]), np.concatenate([mn, clamp]))
                sc_case(r, 'StaticCondensation (FE stiffness)', ('FE', dims, with_bc, mn.size), K.copy(), mn, fr, tol=1e-7)


@bound('call sequences on ONE StaticCondensation object (matrix signal re-set before each call): A1, A1 again, caller overwrites the returned matrix, A2 (new values), '
       'A1; SPD / general / complex symmetric, csc and csr, n in {5,8}')
@lazy
def static_condensation_histories(r, tier, seed):
    for n in (5, 8):
        for kind in ('spd', 'gen', 'csym'):
            for cname in ('csc', 'csr'):
                rng = np.random.default_rng(seed + n)
                conv = CONTAINERS[cname]
                A1, A2 = gen_matrix(kind, n, rng), gen_matrix(kind, n, rng)
                perm = rng.permutation(n)
                mn, fr = perm[:2].copy(), perm[2:n - 1].copy()
                sA = pym.Signal('A', conv(A1))
                m = pym.StaticCondensation([sA], main=mn, free=fr)
                seq = (('first', A1), ('identical again', A1), ('new matrix', A2), ('back to first', A1))

                def hist_replay(upto):
                    return (HEAD + HELP + f"conv=sps.{cname}_matrix\nmn=np.array({mn.tolist()!r})\nfr=np.array({fr.tolist()!r})\nsteps=[{', '.join(lit(A) for _, A in seq[:upto + 1])}]\n"
                            "sA=pym.Signal('A'); m=pym.StaticCondensation([sA], main=mn, free=fr)\nfor D in steps:\n    sA.state=conv(D); m.response(); R=np.asarray(m.sig_out[0].state)\n"
                            f"    S=D[np.ix_(mn,mn)]-D[np.ix_(mn,fr)]@np.linalg.solve(D[np.ix_(fr,fr)],D[np.ix_(fr,mn)])\n    assert mx(R-S)<={TOL}*max(1,mx(S)), mx(R-S)\n    m.sig_out[0].state[...]=3.0\n")

                for i, (name, A) in enumerate(seq):
                    sc_case(r, f'StaticCondensation history [{name}]', (kind, cname, n, name), conv(A), mn, fr, module=m, sig=sA, replay_fn=lambda i=i: hist_replay(i))
                    R = m.sig_out[0].state
                    if isinstance(R, np.ndarray):
                        R[...] = 3.0


@bound('StaticCondensation with an ndarray matrix (documented as "dense or sparse matrix"); SPD / general, n in {4,6}', finding='C07-staticcond-dense')
@lazy
def static_condensation_dense(r, tier, seed):
    for n in (4, 6):
        for kind in ('spd', 'gen'):
            rng = np.random.default_rng(seed + n)
            A = gen_matrix(kind, n, rng)
            sc_case(r, 'StaticCondensation (ndarray input)', (kind, n), A, np.array([0, n - 1]), np.arange(1, n - 2), finding='C07-staticcond-dense')


@bound('StaticCondensation with the iterative solver override solver=CG(...) passed through to its inner LinSolve; SPD csc, n in {4,6}', finding='C07-staticcond-cg-override')
@lazy
def static_condensation_cg(r, tier, seed):
    for n in (4, 6):
        rng = np.random.default_rng(seed + n)
        A = gen_matrix('spd', n, rng)
        for kw_src in ("solver=CG(tol=1e-13)", "solver=CG(preconditioner=ILU(), tol=1e-13)"):
            sc_case(r, f'StaticCondensation ({kw_src})', (n, kw_src), sps.csc_matrix(A), np.array([0, n - 1]), np.arange(1, n - 2), kw_src, tol=1e-8, finding='C07-staticcond-cg-override')


CHECKS = [('linsolve_classes', linsolve_classes), ('linsolve_decoupled', linsolve_decoupled), ('linsolve_overrides', linsolve_overrides),
          ('linsolve_cg_block', linsolve_cg_block), ('linsolve_cg_zero_rhs', linsolve_cg_zero_rhs), ('linsolve_typeerror', linsolve_typeerror), ('linsolve_histories', linsolve_histories),
          ('linsolve_rhs_width_history', linsolve_rhs_width_history), ('linsolve_class_change_history', linsolve_class_change_history),
          ('linsolve_decoupled_set_history', linsolve_decoupled_set_history),
          ('inverse', inverse),
          ('soe_partitions', soe_partitions), ('soe_histories', soe_histories), ('soe_nonsymmetric', soe_nonsymmetric), ('soe_second_call', soe_second_call),
          ('static_condensation', static_condensation), ('static_condensation_histories', static_condensation_histories),
          ('static_condensation_dense', static_condensation_dense), ('static_condensation_cg', static_condensation_cg)]
