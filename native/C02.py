"""C02 bounded stand-ins: Network back-propagation against whole-program complex-step differentiation of an independent graph evaluator.
native/C02_model.py holds the evaluator (plain numpy), the node kinds (user-defined modules + EinSum / ConcatSignal of the module set) and the
builder that wires the same graph from Signals, SignalSlices, Modules and nested Networks. Every case checks, per round (response -> seeds ->
sensitivity -> reset): all states after response(); the sensitivity of every source signal (the property) and of every other signal (the adjoint
it holds) against the total derivative of the seeded combination; None exactly where no seeded branch arrives; the number of _response /
_sensitivity calls per module; the effect of Network.reset()."""
import itertools
import os
import warnings
import numpy as np
from native.util import bound, REPLAY_HEAD
from native import C02_model as M

MODEL_SRC = open(os.path.join(os.path.dirname(os.path.abspath(__file__)), 'C02_model.py')).read()


def h(i, *chain):
    return (i, tuple(chain))


def replay(spec, rounds):
    return REPLAY_HEAD + MODEL_SRC + f"\nspec = {spec!r}\nrounds = {rounds!r}\nres = run_case(spec, rounds)\nprint(res)\nassert res is None, res\n"


def run(r, spec, rounds, inputs):
    M.check_spec(spec, rounds[0].get('values', {}))   # preconditions of the property (a failure here is a bug of this harness, not a finding)
    try:
        with warnings.catch_warnings():
            warnings.simplefilter('ignore')
            res = M.run_case(spec, rounds)
    except Exception as e:
        res = dict(round=None, what=f'building or running an admissible network raised {type(e).__name__}: {str(e)[:200]}')
    if res is not None:
        rn = res.get('round')
        r.check(False, res['what'], dict(inputs, build=spec['build'], nest=spec['nest'], round=rn, signal=res.get('signal'), node=res.get('node'),
                                        seeds=None if rn is None else [(s[0], s[2]) for s in rounds[rn]['seeds']]),
                res.get('observed'), res.get('expected'), replay_code=replay(spec, rounds if rn is None else rounds[:rn + 1]))
    return res is None


# ---- build options: one-factor sweeps around a base configuration plus mixed combinations ----------------------------------------------------
BASE = dict(print_timing=False, container='args', ret='tuple', io='list', dict=False, share=False, explicit=False)
CONFIGS = [BASE] + [dict(BASE, print_timing=v) for v in (True, 1e9, 0.0)] + [dict(BASE, container=v) for v in ('list', 'tuple', 'append', 'call', 'copy')] \
    + [dict(BASE, ret=v) for v in ('list', 'single')] + [dict(BASE, io=v) for v in ('tuple', 'single')] + [dict(BASE, dict=True), dict(BASE, share=True), dict(BASE, explicit=True)] \
    + [dict(print_timing=True, container='append', ret='single', io='single', dict=True, share=True, explicit=True),
       dict(print_timing=1e9, container='copy', ret='list', io='tuple', dict=True, share=False, explicit=True),
       dict(print_timing=True, container='call', ret='list', io='single', dict=False, share=True, explicit=False),
       dict(print_timing=False, container='tuple', ret='single', io='tuple', dict=True, share=True, explicit=True)]


def nests(n):
    """flat, grouped and deep partitions of n nodes into nested networks (with an empty nested network in one of them)"""
    a = list(range(n))
    k = max(1, n // 2)
    out = [a, [a[:k], a[k:]] if n > 1 else [a], ([[a[0], a[1:k + 1]]] + a[k + 1:] + [[]]) if n > 2 else [[a[0]], [], *a[1:]]]
    return [clean(x) for x in out]


def clean(x):
    return [clean(e) if isinstance(e, list) else e for e in x]


# ---- hand-wired topologies --------------------------------------------------------------------------------------------------------------------
A3 = [[0.5, -0.25, 1.0], [0.75, 0.5, -1.5]]          # 2x3 matrix parameter
TEMPLATES = {
    'chain': dict(signals=[[0.4, 0.9, 0.7], None, None, None],
                  nodes=[('sin', None, [h(0)], [h(1)]), ('scale', 1.5, [h(1)], [h(2)]), ('sum', None, [h(2)], [h(3)])],
                  seeds=[h(3), h(1), h(2, 'np.s_[1:]')]),
    'diamond': dict(signals=[[0.4, 0.9], None, None, None, None],
                    nodes=[('sin', None, [h(0)], [h(1)]), ('tanh', None, [h(0)], [h(2)]), ('mul', None, [h(1), h(2)], [h(3)]), ('dot', None, [h(3), h(0)], [h(4)])],
                    seeds=[h(4), h(3), h(0)]),
    'twice': dict(signals=[[0.6, 1.1, 0.3], None, None, None],
                  nodes=[('mul', None, [h(0), h(0)], [h(1)]), ('add', None, [h(1), h(1)], [h(2)]), ('dot', None, [h(2), h(0)], [h(3)])],
                  seeds=[h(3), h(2), h(1, '0')]),
    'slices_in': dict(signals=[[0.4, 0.9, 0.7, 1.1, 0.5], None, None, None],
                      nodes=[('sin', None, [h(0, 'np.s_[1:4]')], [h(1)]), ('mul', None, [h(1), h(0, 'np.array([4, 0, 2])')], [h(2)]),
                             ('lin', None, [h(2), h(0, 'np.s_[::-1]', 'np.s_[0:3]')], [h(3)])],
                      seeds=[h(3), h(3, 'np.array([2, 0])'), h(2, '1')]),
    'slices_out': dict(signals=[[0.4, 0.9], [0.7, 1.1], [0.25, 0.5, 0.75, 1.0, 1.25], None, None],
                       nodes=[('sin', None, [h(0)], [h(2, 'np.s_[0:2]')]), ('scale', -0.5, [h(1)], [h(2, 'np.array([4, 2])')]),
                              ('tanh', None, [h(2, 'np.s_[1:5]')], [h(3)]), ('dot', None, [h(2), h(2, 'np.s_[::-1]')], [h(4)])],
                       seeds=[h(4), h(3), h(2, 'np.s_[2:]')]),
    'nested_out': dict(signals=[[0.4, 0.9], [[0.5, 0.25], [1.5, 1.0], [0.75, 2.0]], None, None, None],
                       nodes=[('matvec', [[1.0, 0.5], [0.25, -1.0], [2.0, 0.5]], [h(0)], [h(1, 'np.s_[:, 1]')]), ('tanh', None, [h(1, 'np.s_[1:]', 'np.s_[:, ::-1]')], [h(2)]),
                              ('matT', None, [h(2), h(0)], [h(3)]), ('dot', None, [h(1, 'np.s_[:, 0]'), h(1, 'np.s_[0:]', 'np.s_[:, 1]')], [h(4)])],
                       seeds=[h(3), h(4), h(1, '0')]),
    'two_outputs': dict(signals=[[0.4, 0.9, 0.7], [1.2, 0.3, 0.8], None, None, None, None, None],
                        nodes=[('twoout', None, [h(0), h(1)], [h(2), h(3)]), ('split', 1, [h(2)], [h(4), h(5)]), ('sum', None, [h(5)], [h(6)])],
                        seeds=[h(3), h(4), h(6)]),
    'dead_sink_const': dict(signals=[[0.4, 0.9], [1.2, 0.3], None, None, None, None, None],
                            nodes=[('const', [0.5, 2.0], [], [h(2)]), ('first', None, [h(0), h(1)], [h(3)]), ('mul', None, [h(3), h(2)], [h(4)]), ('sin', None, [h(1)], [h(5)]),
                                   ('sink', [1.5, -0.5], [h(4)], []), ('tanh', None, [h(5)], [h(6)])],
                            seeds=[h(4), h(3), h(0)]),
    'scalars': dict(signals=[0.7, 1.3, None, None, None, None],
                    nodes=[('mul', None, [h(0), h(1)], [h(2)]), ('bcast', [1.0, -2.0, 0.5], [h(2)], [h(3)]), ('smul', None, [h(0), h(3)], [h(4)]), ('sum', None, [h(4)], [h(5)]),
                           ('sink', 2.5, [h(2)], [])],
                    seeds=[h(5), h(2), h(4, '1')]),
    'matrix': dict(signals=[[0.4, 0.9], [1.2, 0.3, 0.8], None, None, None],
                   nodes=[('outer', None, [h(0), h(1)], [h(2)]), ('matT', None, [h(2), h(0)], [h(3)]), ('matvec', A3, [h(2, '1')], [h(4)])],
                   seeds=[h(3), h(4), h(2, 'np.s_[:, 1:]')]),
    'library': dict(signals=[[0.4, 0.9], [1.2, 0.3, 0.8], None, None, None, None, None],
                    nodes=[('einsum', 'i,j->ij', [h(0), h(1)], [h(2)]), ('einsum', 'ij,j->i', [h(2), h(1)], [h(3)]), ('concat', None, [h(3), h(1), h(0, 'np.s_[::-1]')], [h(4)]),
                           ('einsum', 'i,i->i', [h(4, 'np.s_[2:5]'), h(1)], [h(5)]), ('einsum', 'i,i->', [h(5), h(5)], [h(6)])],
                    seeds=[h(6), h(4), h(3)]),
    'overlap': dict(signals=[[0.4, 0.9, 0.7], None, None, None],
                    nodes=[('dot', None, [h(0, 'np.s_[0:2]'), h(0, 'np.s_[1:3]')], [h(1)]), ('add', None, [h(0, 'np.s_[0:2]'), h(0, 'np.s_[::-1]', 'np.s_[0:2]')], [h(2)]),
                           ('smul', None, [h(1), h(2)], [h(3)])],
                    seeds=[h(3), h(1), h(2)]),
}


def seed_value(rng, shapes, hd):
    sh = M.imap(shapes[hd[0]], hd[1]).shape
    v = np.round(rng.uniform(-1.0, 1.0, size=sh), 3)
    return float(v) if sh == () else v.tolist()


def new_values(rng, spec):
    """new values for every source / pre-allocated signal: both signs, about 10% exact zeros"""
    out = {}
    for i, v in enumerate(spec['signals']):
        if v is not None:
            a = np.round(rng.uniform(-1.2, 1.2, size=np.shape(v)), 3) * (rng.random(size=np.shape(v)) > 0.1)
            out[i] = float(a) if np.ndim(v) == 0 else a.tolist()
    return out


def template_rounds(rng, spec, seeds):
    shapes, _ = M.check_spec(spec, {})
    rounds = []
    subsets = [c for k in range(1, len(seeds) + 1) for c in itertools.combinations(range(len(seeds)), k)]
    for q, sub in enumerate(subsets):
        rounds.append(dict(values=new_values(rng, spec) if q else {}, twice=(q % 3 == 1),
                           seeds=[(seeds[k], seed_value(rng, shapes, seeds[k]), ('set', 'add')[(q + j) % 2]) for j, k in enumerate(sub)]))
    return rounds


@bound('12 hand-wired topologies (chain, diamond fan-out/fan-in, signal used twice by one module, sliced inputs incl. integer arrays and nested slices, outputs '
       'written to slices of pre-allocated signals incl. nested/column slices, two-output modules with partial seeds, dead branch + None-returning module + '
       'module without outputs + module without inputs, python-scalar signals, matrix signals, EinSum/ConcatSignal, overlapping slices of one base into one '
       'module) x 3 nestings (flat / grouped / deep with an empty nested network) x build options {print_timing False/True/number, Network built from '
       'args/list/tuple/append/__call__/copy, modules returning tuple/list/bare value, signals passed as list/tuple/bare, library modules given as dicts, one shared SignalSlice object per slice or a fresh one per use, *args or explicit signatures}: '
       '6 of 20 option sets per topology (rotating, each with one of the 3 nestings) [quick] / all 20 x 3 nestings [thorough]; per build 7 rounds = every non-empty subset of 3 seed '
       'places (whole signals, slices, intermediates, sources; set or add_sensitivity), new source values per round, response() repeated in every third round')
def topologies(r, tier, seed):
    rng = np.random.default_rng(seed + 2)
    for t, (name, tp) in enumerate(TEMPLATES.items()):
        n = len(tp['nodes'])
        if tier == 'quick':
            combos = [(CONFIGS[(6 * t + j) % len(CONFIGS)], nests(n)[j % 3]) for j in range(6)]
        else:
            combos = [(c, ne) for c in CONFIGS for ne in nests(n)]
        for cfg, ne in combos:
            spec = dict(signals=tp['signals'], nodes=tp['nodes'], nest=ne, build=cfg)
            r.case((name, repr(ne), repr(cfg)))
            run(r, spec, template_rounds(rng, spec, tp['seeds']), dict(topology=name))


# ---- random graphs ----------------------------------------------------------------------------------------------------------------------------
class Gen:
    def __init__(self, rng):
        self.rng, self.signals, self.shape, self.nodes, self.pool, self.consumed = rng, [], [], [], [], set()

    def ri(self, a, b=None):
        return int(self.rng.integers(a, b))

    def val(self, shape):
        v = np.round(self.rng.uniform(0.3, 1.2, size=shape), 3)
        return float(v) if shape == () else v.tolist()

    def source(self, shape):
        self.signals.append(self.val(shape))
        self.shape.append(shape)
        self.pool.append(((len(self.signals) - 1, ()), shape))
        return self.pool[-1]

    def sub(self, entry):
        """a random slice of a pool entry (may be nested on an existing slice)"""
        (s, chain), sh = entry
        if sh == () or self.rng.random() < 0.45 or len(chain) >= 2 or any('np.array' in k or k.startswith('[') for k in chain):
            return entry   # (only basic slices may be sliced again: a slice of an integer-array slice would write into a copy)
        if len(sh) == 1:
            L = sh[0]
            a = self.ri(0, L)
            b = self.ri(a + 1, L + 1)
            perm = self.rng.permutation(L)[:self.ri(1, L + 1)].tolist()
            opts = [str(self.ri(-L, L)), f'np.s_[{a}:{b}]', 'np.s_[::-1]', 'np.s_[::2]', f'np.array({perm})', f'{perm}', f'np.s_[{a}:]']
        else:
            i, j = self.ri(0, sh[0]), self.ri(0, sh[1])
            perm = self.rng.permutation(sh[0])[:self.ri(1, sh[0] + 1)].tolist()
            opts = [f'np.s_[{i}]', f'np.s_[:, {j}]', f'({i}, {j})', f'np.s_[{i}:, :{j + 1}]', f'(np.array({perm}), np.s_[:])', 'np.s_[::-1, ::-1]']
        k = opts[self.ri(len(opts))]
        new = (s, chain + (k,))
        return (new, M.imap(self.shape[s], new[1]).shape)

    def pick(self, pred):
        for _ in range(12):
            e = self.sub(self.pool[self.ri(len(self.pool))])
            if pred(e[1]):
                return e
        return None

    def pick_shape(self, shape):
        return self.pick(lambda s: s == shape) or self.source(shape)

    def same(self, e):
        return e if self.rng.random() < 0.3 else self.pick_shape(e[1])

    def place(self, shapes):
        """output handles for the given output shapes: new signals, or slices of one pre-allocated signal"""
        u = self.rng.random()
        if not shapes:
            return [], []
        if u < 0.6 or any(len(sh) > 1 for sh in shapes):
            out = []
            for sh in shapes:
                self.signals.append(None)
                self.shape.append(sh)
                out.append(((len(self.signals) - 1, ()), sh))
            return out, list(out)
        sizes = [1 if sh == () else sh[0] for sh in shapes]
        extra = self.ri(0, 3)
        L = sum(sizes) + extra
        idx = len(self.signals)
        out = []
        if len(shapes) == 1 and shapes[0] != () and u < 0.7:          # column of a 2-D pre-allocated signal
            self.signals.append(self.val((sizes[0], 2)))
            self.shape.append((sizes[0], 2))
            out.append(((idx, (f'np.s_[:, {self.ri(2)}]',)), shapes[0]))
        else:
            self.signals.append(self.val((L,)))
            self.shape.append((L,))
            pos = self.rng.permutation(L).tolist() if self.rng.random() < 0.4 else list(range(L))
            off = 0
            for sh, q in zip(shapes, sizes):
                p = pos[off:off + q]
                off += q
                if sh == ():
                    ch = (str(p[0]),)
                elif p == list(range(p[0], p[0] + q)):
                    ch = (f'np.s_[{p[0]}:{p[0] + q}]',) if self.rng.random() < 0.6 else (f'np.s_[{p[0]}:]', f'np.s_[:{q}]')
                else:
                    ch = (f'np.array({p})',)
                out.append(((idx, ch), sh))
        return out, out + [((idx, ()), self.shape[idx])]

    def node(self):
        rng = self.rng
        kinds = ['sin', 'tanh', 'scale', 'mul', 'lin', 'add', 'dot', 'sum', 'matvec', 'matT', 'outer', 'bcast', 'smul', 'split', 'twoout', 'first', 'sink', 'const',
                 'einsum', 'concat']
        kind = kinds[self.ri(len(kinds))]
        p = None
        anyshape = lambda: self.pick(lambda s: True)
        vec = lambda: self.pick(lambda s: len(s) == 1) or self.source((self.ri(1, 4),))
        if kind in ('sin', 'tanh', 'scale'):
            ins = [anyshape()]
            outs = [ins[0][1]]
            p = float(np.round(rng.uniform(-2, 2), 2)) if kind == 'scale' else None
        elif kind in ('mul', 'lin', 'add', 'twoout', 'first'):
            a = anyshape()
            ins = [a, self.same(a)]
            outs = [a[1]] * (2 if kind == 'twoout' else 1)
        elif kind == 'dot':
            a = self.pick(lambda s: s != ()) or self.source((2,))
            ins, outs = [a, self.same(a)], [()]
        elif kind == 'sum':
            ins, outs = [anyshape()], [()]
        elif kind == 'matvec':
            x = vec()
            m = self.ri(1, 4)
            p = np.round(rng.uniform(-1, 1, size=(m, x[1][0])), 2).tolist()
            ins, outs = [x], [(m,)]
        elif kind == 'matT':
            mat = self.pick(lambda s: len(s) == 2)
            if mat is None:
                return
            ins, outs = [mat, self.pick_shape((mat[1][0],))], [(mat[1][1],)]
        elif kind == 'outer':
            a, b = vec(), vec()
            ins, outs = [a, b], [(a[1][0], b[1][0])]
        elif kind == 'bcast':
            q = self.ri(1, 4)
            p = np.round(rng.uniform(-1, 1, size=q), 2).tolist()
            ins, outs = [self.pick_shape(())], [(q,)]
        elif kind == 'smul':
            x = self.pick(lambda s: s != ()) or self.source((2,))
            ins, outs = [self.pick_shape(()), x], [x[1]]
        elif kind == 'split':
            x = self.pick(lambda s: len(s) == 1 and s[0] >= 2) or self.source((3,))
            p = self.ri(1, x[1][0])
            ins, outs = [x], [(p,), (x[1][0] - p,)]
        elif kind == 'sink':
            x = anyshape()
            p = self.val(x[1])
            ins, outs = [x], []
        elif kind == 'const':
            q = self.ri(1, 4)
            p = self.val((q,))
            ins, outs = [], [(q,)]
        elif kind == 'einsum':
            p = ['i,i->', 'ij,j->i', 'i,j->ij', 'i,i->i'][self.ri(4)]
            if p == 'ij,j->i':
                mat = self.pick(lambda s: len(s) == 2)
                if mat is None:
                    return
                ins, outs = [mat, self.pick_shape((mat[1][1],))], [(mat[1][0],)]
            elif p == 'i,j->ij':
                a, b = vec(), vec()
                ins, outs = [a, b], [(a[1][0], b[1][0])]
            else:
                a = vec()
                ins, outs = [a, self.same(a)], [() if p == 'i,i->' else a[1]]
        else:  # concat
            ins = [vec() for _ in range(self.ri(2, 4))]
            outs = [(sum(e[1][0] for e in ins),)]
        handles, readable = self.place(outs)
        self.nodes.append((kind, p, [e[0] for e in ins], [e[0] for e in handles]))
        self.consumed |= {e[0][0] for e in ins}
        self.pool.extend(readable)

    def nest(self, items, depth=0):
        out, i = [], 0
        while i < len(items):
            if depth < 2 and self.rng.random() < 0.25:
                k = self.ri(1, len(items) - i + 1)
                out.append(self.nest(items[i:i + k], depth + 1))
                i += k
            else:
                out.append(items[i])
                i += 1
        if self.rng.random() < 0.1:
            out.insert(self.ri(len(out) + 1), [])
        return out

    def seeds(self):
        terminal = [e for e in self.pool if e[0][0] not in self.consumed]
        out = []
        for _ in range(self.ri(1, 4)):
            src = terminal if (terminal and self.rng.random() < 0.65) else self.pool
            e = self.sub(src[self.ri(len(src))])
            v = np.round(self.rng.uniform(-1, 1, size=e[1]), 3)
            out.append((e[0], float(v) if e[1] == () else v.tolist(), ('set', 'add')[self.ri(2)]))
        return out


def random_case(rng, size):
    g = Gen(rng)
    for sh in [(), (g.ri(1, 5),), (g.ri(1, 4),), (g.ri(1, 4), g.ri(1, 4))][:g.ri(2, 5)]:
        g.source(sh)
    for _ in range(size):
        g.node()
    cfg = dict(print_timing=[False, False, True, 1e9][g.ri(4)], container=['args', 'list', 'tuple', 'append', 'call', 'copy'][g.ri(6)], ret=['tuple', 'list', 'single'][g.ri(3)],
               io=['list', 'tuple', 'single'][g.ri(3)], dict=bool(g.ri(2)), share=bool(g.ri(2)), explicit=bool(g.ri(2)))
    spec = dict(signals=g.signals, nodes=g.nodes, nest=g.nest(list(range(len(g.nodes)))), build=cfg)
    rounds = [dict(values={}, seeds=g.seeds(), twice=False), dict(values=new_values(rng, spec), seeds=g.seeds(), twice=bool(g.ri(2))), dict(values={}, seeds=g.seeds(), twice=False)]
    return spec, rounds


@bound('random acyclic graphs: 2-4 sources (python scalar, vectors of length 1-4, matrix up to 3x3), 3-9 nodes drawn from 20 kinds (18 user-defined incl. two-output, '
       'None-returning, no-input and no-output modules; EinSum x4 expressions; ConcatSignal), inputs = whole signals or random slices (int, range, reversed, '
       'strided, integer array/list, row/column/block, nested) with a 30% chance of using one signal twice, outputs = new signals or slices (range, integer '
       'array, nested, column) of pre-allocated signals with untouched entries, random nesting depth <= 2 with empty nested networks, random build options; '
       '3 rounds each (1-3 seeds on whole signals or slices of outputs/intermediates/sources, set/add; new values in round 2); 300 graphs [quick] / 3000 [thorough]')
def random_graphs(r, tier, seed):
    rng = np.random.default_rng(seed + 200)
    for k in range(300 if tier == 'quick' else 3000):
        spec, rounds = random_case(rng, int(rng.integers(3, 10)))
        if not spec['nodes']:
            continue
        r.case(('graph', seed, k))
        run(r, spec, rounds, dict(graph=k, kinds=[n[0] for n in spec['nodes']]))


CHECKS = [('topologies', topologies), ('random_graphs', random_graphs)]
