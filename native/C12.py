"""C12 bounded stand-ins: Strain / Stress / energy identity on affine fields, ElementAverage, the ElementOperation / NodalOperation transpose
pair and ThermoMechanical, against independent references (own grid, inverse-compliance constitutive matrix, closed-form integrals,
native/C08_ref.py).  Case functions live in native/C12_cases.py (their source is inlined into replay programs).

Known finding C12-shear-doubled: the strict shear clauses fail on the unchanged tree; they are evaluated in their own check functions
(`*_shear_strict`, tagged) so that the five-failure cap of the runner cannot hide an untagged failure; the untagged functions evaluate every
other clause plus a weaker shear clause (right component, right row, factor 1 or 2) on the same inputs."""
import inspect
import itertools
import numpy as np
from native.util import bound, REPLAY_HEAD
from native import C08_ref, C12_cases as cs
import pymoto.core_objects as _co

# Signal/Module constructors call inspect.stack() to remember where they were created (text used in error messages only, ~8 ms per
# object): replaced by a constant inside this harness process so that more cases fit the time budget. Replay programs run unpatched.
_co.get_init_str = lambda: 'native/C12'

_SRC = None


def replay(fn, params):
    """standalone program: reference source + prelude/helpers of the case module + the one case function + the failing call"""
    global _SRC
    if _SRC is None:
        src = inspect.getsource(cs)
        _SRC = inspect.getsource(C08_ref) + '\n\n' + src[:src.index('\ndef case_')] + '\n\n' + '\n\n'.join(inspect.getsource(getattr(cs, h)) for h in ('_given', '_mat', '_ref_elemop', '_ref_nodalop')) + '\n\n'
    return REPLAY_HEAD + _SRC + inspect.getsource(fn) + f"\n\nbad = {fn.__name__}(**{params!r})\nfor b in bad:\n    print(b)\nassert not bad, bad[0][0]\n"


def run(r, fn, params):
    r.case((fn.__name__, sorted(params.items(), key=lambda kv: kv[0])))
    try:
        bad = fn(**params)
    except Exception as e:   # an admissible configuration must not raise
        bad = [(f'admissible configuration raised {type(e).__name__}: {str(e)[:160]}', None, None, None)]
    for what, obs, exp, fid in bad:
        r.check(False, what, params, obs, exp, replay_code=replay(fn, params), finding=fid)
    return not bad


SIZES3 = [(1.0, 1.0, 1.0), (0.5, 1.5, 2.0), (2.5, 0.4, 0.7), (0.01, 0.02, 0.05)]
SIZES2_UNIT_T = [(1.0, 1.0, 1.0), (0.5, 1.5, 1.0), (2.5, 0.4, 1.0), (0.01, 0.02, 1.0)]     # unit thickness where Stress is evaluated in 2-D
FIELDS_FREE = ['zero', 'rigid', 'normal', 'uniaxial']
FIELDS_SHEAR = ['shear', 'oneshear', 'general']
MATS = [(1.0, 0.3, 'strain'), (210e9, 0.3, 'stress'), (67.0, 0.0, 'Stress'), (2.0, -0.4, 'strain'), (5.0, 0.49, 'stress'), (7.0, 0.45, 'STRAIN'), (None, None, None)]


def domains(tier):
    d2 = [(1, 1, 0), (1, 3, 0), (3, 1, 0), (2, 2, 0), (3, 2, 0)]
    d3 = [(1, 1, 1), (2, 1, 1), (1, 2, 1), (1, 1, 2), (2, 2, 2), (1, 3, 2)]
    if tier != 'quick':
        d2 += [(1, 6, 0), (5, 4, 0), (4, 1, 0), (7, 3, 0)]
        d3 += [(3, 1, 2), (1, 3, 3), (3, 3, 2), (2, 3, 4)]
    return d2 + d3


def sizes_for(dom, unit_thickness):
    return SIZES2_UNIT_T if (dom[2] == 0 and unit_thickness) else SIZES3


def _strain(r, tier, seed, strict):
    k = 0
    reps = 1 if tier == 'quick' else 6
    for dom in domains(tier):
        for h in SIZES3:
            for voigt in ('default', True, False):
                for field in (FIELDS_SHEAR if strict else FIELDS_FREE + FIELDS_SHEAR):
                    for rep in range(reps):
                        k += 1
                        run(r, cs.case_strain, dict(nx=dom[0], ny=dom[1], nz=dom[2], h=h, voigt=voigt, field=field, strict=strict, seed=seed + k))


@bound('Strain on 11 domains [quick] / 19 [thorough] (1x1 .. 3x2, 1x1x1 .. 2x2x2, 1x3x2; up to 7x3 / 2x3x4) x 4 element-size triples x voigt{default,True,False} x affine fields '
       '{zero, rigid (rotation+translation), stretch+rotation, uniaxial, pure shear+rotation, one off-diagonal gradient, general}: shape, normal rows, zero shear of shear-free fields, '
       'shear rows = right component up to factor {1,2}, operand, 3-call history with reset')
def strain_affine(r, tier, seed):
    _strain(r, tier, seed, False)


@bound('same domains/sizes/voigt, fields with shear only: shear rows = engineering shear (voigt=True) / tensor shear (voigt=False)', finding='C12-shear-doubled')
def strain_shear_strict(r, tier, seed):
    _strain(r, tier, seed + 5000, True)


def _stress(r, tier, seed, strict):
    k = 0
    for dom in domains(tier):
        for h in sizes_for(dom, True):
            for (E, nu, plane) in MATS:
                if dom[2] > 0 and plane in ('Stress', 'STRAIN'):
                    continue
                fields = FIELDS_SHEAR if strict else FIELDS_FREE + FIELDS_SHEAR
                for field in (fields * 3 if tier != 'quick' else ([fields[k % 3]] if strict else [fields[k % len(fields)], fields[(k + 3) % len(fields)], fields[(k + 5) % len(fields)]])):
                    k += 1
                    run(r, cs.case_stress, dict(nx=dom[0], ny=dom[1], nz=dom[2], h=h, E=E, nu=nu, plane=plane, field=field, strict=strict, seed=seed + k))


@bound('Stress on the same domains, in-plane sizes x unit thickness in 2-D (all sizes in 3-D), materials (E,nu,plane) in {(1,.3,strain),(210e9,.3,stress),(67,0,Stress),(2,-.4,strain),'
       '(5,.49,stress),(7,.45,STRAIN), all omitted (defaults 1,.3,strain)}, the 7 affine field kinds: = D(inverse compliance) x output of Strain; normal stresses; full stress for shear-free fields; shear stress up to factor {1,2}; repeat call')
def stress_affine(r, tier, seed):
    _stress(r, tier, seed, False)


@bound('same, fields with shear only: shear stress = G x engineering shear', finding='C12-shear-doubled')
def stress_shear_strict(r, tier, seed):
    _stress(r, tier, seed + 5000, True)


def _energy(r, tier, seed, strict):
    k = 0
    xks = ['pos', 'ones', 'zeros']
    for dom in domains(tier):
        for h in sizes_for(dom, True):
            for (E, nu, plane) in MATS:
                if dom[2] > 0 and plane in ('Stress', 'STRAIN'):
                    continue
                fields = FIELDS_SHEAR if strict else ['rigid', 'normal', 'uniaxial'] + FIELDS_SHEAR
                for field in (fields * 3 if tier != 'quick' else ([fields[k % 3]] if strict else [fields[k % len(fields)], fields[(k + 2) % len(fields)]])):
                    k += 1
                    run(r, cs.case_energy, dict(nx=dom[0], ny=dom[1], nz=dom[2], h=h, E=E, nu=nu, plane=plane, field=field, xkind=xks[k % 3], strict=strict, seed=seed + k))


@bound('same domains/sizes/materials, x{positive,ones,with exact zeros}: u^T K u (AssembleStiffness) = closed form for all fields; sum x_e V_e stress.strain = u^T K u for shear-free fields; '
       'normal + {1,4} x shear part for fields with shear')
def energy_identity(r, tier, seed):
    _energy(r, tier, seed, False)


@bound('same, fields with shear only: sum x_e V_e stress.strain = u^T K u', finding='C12-shear-doubled')
def energy_shear_strict(r, tier, seed):
    _energy(r, tier, seed + 5000, True)


@bound('ElementAverage on the same domains x 4 sizes x dofs per node 1..4: three calls on one module (two linear fields, one constant), centroid value, output shape, operand, sensitivity')
def element_average(r, tier, seed):
    k = 0
    for dom in domains(tier):
        for h in SIZES3:
            for ndof in (1, 2, 3, 4):
                for rep in range(2 if tier == 'quick' else 8):
                    k += 1
                    run(r, cs.case_average, dict(nx=dom[0], ny=dom[1], nz=dom[2], h=h, ndof=ndof, seed=seed + k))


LEADS = [(), (1,), (3,), (2, 3), (2, 1, 2)]


@bound('ElementOperation/NodalOperation on the same domains, dofs per node 1..3, element-matrix shapes lead+(dofs per element,) with lead in {(), (1,), (3,), (2,3), (2,1,2)}, real and complex nodal '
       'input: values against explicit loops, <EO u, y> = <u, NO y>, both sensitivities, reset + second call, operands; per-node matrices lead+(nodes per element,) applied to 1..3 dofs per node (3 calls)')
def operator_pair(r, tier, seed):
    k = 0
    for dom in domains(tier) * (1 if tier == 'quick' else 5):
        for ndof in (1, 2, 3):
            for lead in LEADS:
                for cplx in (False, True):
                    k += 1
                    run(r, cs.case_operators, dict(nx=dom[0], ny=dom[1], nz=dom[2], h=SIZES3[k % 4], ndof=ndof, lead=lead, cplx_u=cplx, seed=seed + k))
                k += 1
                run(r, cs.case_pernode, dict(nx=dom[0], ny=dom[1], nz=dom[2], h=SIZES3[k % 4], ndof=ndof, lead=lead, seed=seed + k))


@bound('NodalOperation with a complex element vector on {2x2, 1x2x1} x dofs per node {1,2}', finding='C12-nodal-complex-dropped')
def nodal_complex(r, tier, seed):
    k = 0
    for dom in ((2, 2, 0), (1, 2, 1)):
        for ndof in (1, 2):
            k += 1
            run(r, cs.case_nodal_complex, dict(nx=dom[0], ny=dom[1], nz=dom[2], h=SIZES3[1], ndof=ndof, seed=seed + k))


@bound('ThermoMechanical on the same domains x 4 sizes (2-D thickness = third size) x materials x alpha{1e-6,1e-5,2.5,omitted} (and all material arguments omitted: defaults E=1, nu=.3, strain, alpha=1e-6) x input{positive,ones,mixed sign,with zeros}: closed-form load, '
       'orthogonality to the 3/6 rigid motions, = K(x) (alpha p) in plane stress and 3-D with K from AssembleStiffness, operand, second call, sensitivity')
def thermo(r, tier, seed):
    k = 0
    xks = ['pos', 'ones', 'neg', 'zeros']
    alphas = [1e-6, 1e-5, 2.5, None]
    for dom in domains(tier):
        for h in SIZES3:
            for (E, nu, plane) in MATS:
                if dom[2] > 0 and plane in ('Stress', 'STRAIN'):
                    continue
                for rep in range(2 if tier == 'quick' else 8):
                    k += 1
                    run(r, cs.case_thermo, dict(nx=dom[0], ny=dom[1], nz=dom[2], h=h, E=E, nu=nu, alpha=alphas[k % 4] if E is not None else None, plane=plane, xkind=xks[k % 4], seed=seed + k))


CHECKS = [('strain_affine', strain_affine), ('stress_affine', stress_affine), ('energy_identity', energy_identity), ('element_average', element_average),
          ('operator_pair', operator_pair), ('thermo', thermo),
          ('strain_shear_strict', strain_shear_strict), ('stress_shear_strict', stress_shear_strict), ('energy_shear_strict', energy_shear_strict), ('nodal_complex', nodal_complex)]
